//! Serialises a Rust item (and the arguments of `#[derive_ex(..)]`) into the S-expression form of the Lean model's
//! `Syntax.lean`, so that inputs that do *not* come from the model's own generators — the items of the repository's
//! test-suite and documentation, and mutants of them — can be run through the model and compared token for token (L1c).
//!
//! `None` means: outside the fragment the model speaks about (an `impl Trait` type, an array length that is an
//! arbitrary expression, an unknown helper argument …); such inputs are left to the fuzzer.
use proc_macro2::{Delimiter, Spacing, TokenStream, TokenTree};
use quote::ToTokens;
use syn::parse::{Parse, ParseStream, Parser};
use syn::punctuated::Punctuated;
use syn::Token;

pub fn q(s: &str) -> String {
    let mut o = String::from("\"");
    for c in s.chars() {
        match c {
            '"' => o.push_str("\\\""),
            '\\' => o.push_str("\\\\"),
            '\n' => o.push(' '),
            c => o.push(c),
        }
    }
    o.push('"');
    o
}
thread_local! { pub static WHY: std::cell::Cell<u32> = std::cell::Cell::new(0); }
/// `None`, remembering the line that gave up (statistics of what lies outside the fragment)
fn no<T>(line: u32) -> Option<T> {
    WHY.with(|w| w.set(line));
    None
}
fn b(x: bool) -> &'static str {
    if x {
        "t"
    } else {
        "f"
    }
}

/// leaf tokens of a token stream as model tokens (a lifetime is one token)
fn leaf_toks(ts: TokenStream, out: &mut Vec<String>) {
    let mut pending_quote = false;
    for tt in ts {
        match tt {
            TokenTree::Group(g) => {
                pending_quote = false;
                let (o, c) = match g.delimiter() {
                    Delimiter::Parenthesis => ("(", ")"),
                    Delimiter::Brace => ("{", "}"),
                    Delimiter::Bracket => ("[", "]"),
                    Delimiter::None => ("", ""),
                };
                if !o.is_empty() {
                    out.push(o.into());
                }
                leaf_toks(g.stream(), out);
                if !c.is_empty() {
                    out.push(c.into());
                }
            }
            TokenTree::Ident(i) => {
                if pending_quote {
                    out.push(format!("'{i}"));
                    pending_quote = false;
                } else if i == "__placeholder" {
                    // inside a helper attribute `$` was replaced before parsing (as the expander does)
                    out.push("$".into());
                } else {
                    out.push(i.to_string());
                }
            }
            TokenTree::Punct(p) => {
                if pending_quote {
                    out.push("'".into());
                }
                pending_quote = false;
                if p.as_char() == '\'' && p.spacing() == Spacing::Joint {
                    pending_quote = true;
                } else {
                    out.push(p.as_char().to_string());
                }
            }
            TokenTree::Literal(l) => {
                pending_quote = false;
                out.push(l.to_string());
            }
        }
    }
    if pending_quote {
        out.push("'".into());
    }
}
fn toks(ts: TokenStream) -> String {
    let mut v = Vec::new();
    leaf_toks(ts, &mut v);
    let mut s = String::from("(toks");
    for t in v {
        s.push(' ');
        s.push_str(&q(&t));
    }
    s.push(')');
    s
}
fn opt<T>(x: Option<T>, f: impl FnOnce(T) -> Option<String>) -> Option<String> {
    match x {
        None => Some("none".into()),
        Some(v) => Some(format!("(some {})", f(v)?)),
    }
}
fn list(items: Vec<String>) -> String {
    format!("({})", items.join(" "))
}
fn lt(l: &syn::Lifetime) -> String {
    q(&format!("'{}", l.ident))
}

// ------------------------------------------------------------------ types

fn cexpr(e: &syn::Expr) -> Option<String> {
    match e {
        syn::Expr::Lit(l) if l.attrs.is_empty() => Some(format!("(lit {})", q(&l.lit.to_token_stream().to_string()))),
        syn::Expr::Path(p) if p.attrs.is_empty() && p.qself.is_none() && p.path.get_ident().is_some() => {
            Some(format!("(ident {})", q(&p.path.get_ident().unwrap().to_string())))
        }
        _ => no(line!()),
    }
}

fn garg(a: &syn::GenericArgument) -> Option<String> {
    match a {
        syn::GenericArgument::Type(t) => Some(format!("(ty {})", ty(t)?)),
        syn::GenericArgument::Lifetime(l) => Some(format!("(lt {})", lt(l))),
        syn::GenericArgument::Const(syn::Expr::Lit(l)) if l.attrs.is_empty() => {
            Some(format!("(lit {})", q(&l.lit.to_token_stream().to_string())))
        }
        syn::GenericArgument::Const(syn::Expr::Block(bl)) if bl.attrs.is_empty() && bl.label.is_none() && bl.block.stmts.len() == 1 => {
            match &bl.block.stmts[0] {
                syn::Stmt::Expr(e, None) => Some(format!("(cblock {})", cexpr(e)?)),
                _ => no(line!()),
            }
        }
        syn::GenericArgument::AssocType(a) if a.generics.is_none() => Some(format!("(assoc {} {})", q(&a.ident.to_string()), ty(&a.ty)?)),
        _ => no(line!()),
    }
}

fn seg(s: &syn::PathSegment) -> Option<String> {
    let id = q(&s.ident.to_string());
    match &s.arguments {
        syn::PathArguments::None => Some(format!("(seg {id})")),
        syn::PathArguments::AngleBracketed(a) => {
            if a.colon2_token.is_some() || a.args.is_empty() || a.args.trailing_punct() {
                return no(line!());
            }
            // syn prints lifetime arguments first: only lists written that way are inside the fragment
            let mut non_lt = false;
            for x in &a.args {
                match x {
                    syn::GenericArgument::Lifetime(_) if non_lt => return None,
                    syn::GenericArgument::Lifetime(_) => {}
                    _ => non_lt = true,
                }
            }
            let args: Option<Vec<String>> = a.args.iter().map(garg).collect();
            Some(format!("(seg {id} {})", args?.join(" ")))
        }
        syn::PathArguments::Parenthesized(p) => {
            if p.inputs.trailing_punct() {
                return no(line!());
            }
            let ins: Option<Vec<String>> = p.inputs.iter().map(ty).collect();
            let ret = match &p.output {
                syn::ReturnType::Default => "none".to_string(),
                syn::ReturnType::Type(_, t) => format!("(some {})", ty(t)?),
            };
            Some(format!("(fnseg {id} {} {ret})", list(ins?)))
        }
    }
}
fn segs<'a>(it: impl Iterator<Item = &'a syn::PathSegment>) -> Option<String> {
    let v: Option<Vec<String>> = it.map(seg).collect();
    Some(format!("(segs {})", v?.join(" ")))
}

fn path_ty(qself: &Option<syn::QSelf>, p: &syn::Path) -> Option<String> {
    match qself {
        None => Some(format!("(path {} {})", b(p.leading_colon.is_some()), segs(p.segments.iter())?)),
        Some(qs) => {
            if qs.as_token.is_none() != (qs.position == 0) || qs.position >= p.segments.len() {
                return no(line!());
            }
            // (`<T>::Assoc`, the path without a trait: no trait segments)
            Some(format!(
                "(qpath {} {} {} {})",
                ty(&qs.ty)?,
                b(p.leading_colon.is_some()),
                segs(p.segments.iter().take(qs.position))?,
                segs(p.segments.iter().skip(qs.position))?
            ))
        }
    }
}

pub fn ty(t: &syn::Type) -> Option<String> {
    match t {
        syn::Type::Path(p) => path_ty(&p.qself, &p.path),
        syn::Type::Reference(r) => Some(format!(
            "(ref {} {} {})",
            match &r.lifetime {
                None => "none".to_string(),
                Some(l) => format!("(some {})", lt(l)),
            },
            b(r.mutability.is_some()),
            ty(&r.elem)?
        )),
        syn::Type::Ptr(p) => Some(format!("(ptr {} {})", b(p.mutability.is_some()), ty(&p.elem)?)),
        syn::Type::Slice(s) => Some(format!("(slice {})", ty(&s.elem)?)),
        syn::Type::Array(a) => Some(format!("(array {} {})", ty(&a.elem)?, cexpr(&a.len)?)),
        syn::Type::Tuple(t) => {
            if t.elems.len() != 1 && t.elems.trailing_punct() {
                return no(line!()); // `(A, B,)`: the model prints tuples without a trailing comma
            }
            let v: Option<Vec<String>> = t.elems.iter().map(ty).collect();
            Some(format!("(tuple {})", v?.join(" ")))
        }
        syn::Type::BareFn(f) => {
            if f.variadic.is_some() || f.inputs.trailing_punct() || f.inputs.iter().any(|a| a.name.is_some() || !a.attrs.is_empty()) {
                return no(line!());
            }
            let ins: Option<Vec<String>> = f.inputs.iter().map(|a| ty(&a.ty)).collect();
            let ret = match &f.output {
                syn::ReturnType::Default => "none".to_string(),
                syn::ReturnType::Type(_, t) => format!("(some {})", ty(t)?),
            };
            let core = format!("(barefn {} {ret})", list(ins?));
            let mut pre = TokenStream::new();
            f.lifetimes.to_tokens(&mut pre);
            f.unsafety.to_tokens(&mut pre);
            f.abi.to_tokens(&mut pre);
            if pre.is_empty() {
                Some(core)
            } else {
                Some(format!("(prefixed {} {core})", toks(pre)))
            }
        }
        syn::Type::Paren(p) => Some(format!("(paren {})", ty(&p.elem)?)),
        syn::Type::Group(g) => ty(&g.elem),
        syn::Type::Never(_) => Some("never".into()),
        syn::Type::TraitObject(o) => {
            if o.dyn_token.is_none() || o.bounds.trailing_punct() {
                return no(line!());
            }
            let mut it = o.bounds.iter();
            let first = match it.next()? {
                syn::TypeParamBound::Trait(t)
                    if t.paren_token.is_none() && matches!(t.modifier, syn::TraitBoundModifier::None) && t.lifetimes.is_none() =>
                {
                    t
                }
                _ => return None,
            };
            let more: Vec<String> = it.map(|b| toks(b.to_token_stream())).collect();
            Some(format!("(dyn {} {} {})", b(first.path.leading_colon.is_some()), segs(first.path.segments.iter())?, list(more)))
        }
        syn::Type::Macro(m) => Some(format!("(macro {})", toks(m.to_token_stream()))),
        _ => no(line!()),
    }
}

// ------------------------------------------------------------------ generics

fn tbound(bd: &syn::TypeParamBound) -> Option<String> {
    match bd {
        syn::TypeParamBound::Lifetime(l) => Some(format!("(lt {})", lt(l))),
        syn::TypeParamBound::Trait(t) => {
            if t.paren_token.is_some() {
                return no(line!());
            }
            let maybe = matches!(t.modifier, syn::TraitBoundModifier::Maybe(_));
            let lts = match &t.lifetimes {
                None => vec![],
                Some(bl) => {
                    if bl.lifetimes.trailing_punct() || bl.lifetimes.is_empty() {
                        return no(line!());
                    }
                    let mut v = vec![];
                    for p in &bl.lifetimes {
                        match p {
                            syn::GenericParam::Lifetime(l) if l.bounds.is_empty() && l.attrs.is_empty() => v.push(lt(&l.lifetime)),
                            _ => return None,
                        }
                    }
                    v
                }
            };
            Some(format!("(trait {} {} {})", b(maybe), list(lts), path_ty(&None, &t.path)?))
        }
        _ => no(line!()),
    }
}
fn tbounds<'a>(it: impl Iterator<Item = &'a syn::TypeParamBound>) -> Option<String> {
    let v: Option<Vec<String>> = it.map(tbound).collect();
    Some(list(v?))
}
fn for_lts(bl: &Option<syn::BoundLifetimes>) -> Option<String> {
    let mut v = vec![];
    if let Some(bl) = bl {
        if bl.lifetimes.trailing_punct() {
            return no(line!());
        }
        for p in &bl.lifetimes {
            match p {
                syn::GenericParam::Lifetime(l) if l.bounds.is_empty() && l.attrs.is_empty() => v.push(lt(&l.lifetime)),
                _ => return None,
            }
        }
        if v.is_empty() {
            return no(line!()); // `for<>`
        }
    }
    Some(list(v))
}
fn wpred(p: &syn::WherePredicate) -> Option<String> {
    match p {
        syn::WherePredicate::Type(t) => {
            if t.bounds.trailing_punct() {
                return no(line!());
            }
            Some(format!("(ty {} {} {})", for_lts(&t.lifetimes)?, ty(&t.bounded_ty)?, tbounds(t.bounds.iter())?))
        }
        syn::WherePredicate::Lifetime(l) => {
            if l.bounds.trailing_punct() {
                return no(line!());
            }
            Some(format!("(lt {} {})", lt(&l.lifetime), list(l.bounds.iter().map(lt).collect())))
        }
        _ => no(line!()),
    }
}
fn generics(g: &syn::Generics) -> Option<String> {
    if g.lt_token.is_some() && g.params.is_empty() {
        return no(line!());
    }
    // `<T,>` and a lifetime written after a type / const parameter: syn moves lifetimes forward and keeps every comma, so
    // the self type `X<T,>` gets a trailing comma inside its generic arguments — the model's types have no such form
    let mut seen_non_lt = false;
    for p in &g.params {
        match p {
            syn::GenericParam::Lifetime(_) if seen_non_lt => return None,
            syn::GenericParam::Lifetime(_) => {}
            _ => seen_non_lt = true,
        }
    }
    if g.params.trailing_punct() {
        return no(line!());
    }
    let mut ps = vec![];
    for p in &g.params {
        ps.push(match p {
            syn::GenericParam::Lifetime(l) => {
                if !l.attrs.is_empty() || l.bounds.trailing_punct() || (l.colon_token.is_some() && l.bounds.is_empty()) {
                    return no(line!());
                }
                format!("(lt {} {})", lt(&l.lifetime), list(l.bounds.iter().map(lt).collect()))
            }
            syn::GenericParam::Type(t) => {
                if !t.attrs.is_empty() || t.bounds.trailing_punct() || (t.colon_token.is_some() && t.bounds.is_empty()) {
                    return no(line!());
                }
                format!(
                    "(ty {} {} {})",
                    q(&t.ident.to_string()),
                    tbounds(t.bounds.iter())?,
                    opt(t.default.as_ref(), |d| ty(d))?
                )
            }
            syn::GenericParam::Const(c) => {
                if !c.attrs.is_empty() {
                    return no(line!());
                }
                format!(
                    "(const {} {} {})",
                    q(&c.ident.to_string()),
                    ty(&c.ty)?,
                    opt(c.default.as_ref(), |d| Some(toks(d.to_token_stream())))?
                )
            }
        });
    }
    let mut ws = vec![];
    let mut tw = false;
    if let Some(w) = &g.where_clause {
        if w.predicates.is_empty() {
            return no(line!()); // `where` without predicates
        }
        tw = w.predicates.trailing_punct();
        for p in &w.predicates {
            ws.push(wpred(p)?);
        }
    }
    Some(format!("(generics {} {} {} {})", list(ps), list(ws), b(g.params.trailing_punct()), b(tw)))
}

// ------------------------------------------------------------------ attribute arguments

/// one entry of a `bound(..)` list, parsed the way `bound.rs` parses it
enum BoundEntry {
    Dots,
    Pred(syn::WherePredicate),
    Ty(syn::Type),
}
impl Parse for BoundEntry {
    fn parse(input: ParseStream) -> syn::Result<Self> {
        if input.peek(Token![..]) {
            input.parse::<Token![..]>()?;
            return Ok(Self::Dots);
        }
        let fork = input.fork();
        match fork.parse::<syn::WherePredicate>() {
            Ok(p) => {
                use syn::parse::discouraged::Speculative;
                input.advance_to(&fork);
                Ok(Self::Pred(p))
            }
            Err(e) => match input.parse::<syn::Type>() {
                Ok(t) => Ok(Self::Ty(t)),
                Err(_) => Err(e),
            },
        }
    }
}
fn bound_list(ts: TokenStream) -> Option<String> {
    let p = Punctuated::<BoundEntry, Token![,]>::parse_terminated.parse2(ts).ok()?;
    if p.trailing_punct() {
        return no(line!());
    }
    let mut v = vec![];
    for e in p.iter() {
        v.push(match e {
            BoundEntry::Dots => "dots".to_string(),
            BoundEntry::Pred(p) => format!("(pred {})", wpred(p)?),
            BoundEntry::Ty(t) => format!("(ty {})", ty(t)?),
        });
    }
    Some(list(v))
}

/// `name`, `name = expr`, `name(..)` or an unnamed expression, separated by commas at the top level of an attribute
enum Arg {
    Flag(String),
    NameValue(String, TokenStream),
    List(String, TokenStream),
    Unnamed(TokenStream),
}
struct ArgList(Vec<Arg>, bool);
impl Parse for ArgList {
    fn parse(input: ParseStream) -> syn::Result<Self> {
        let mut v = vec![];
        while !input.is_empty() {
            let named = input.peek(syn::Ident)
                && (input.peek2(Token![,]) || input.peek2(Token![=]) && !input.peek2(Token![==]) || input.peek2(syn::token::Paren) || {
                    let f = input.fork();
                    f.parse::<syn::Ident>()?;
                    f.is_empty()
                });
            if named {
                let id: syn::Ident = input.parse()?;
                if input.peek(Token![=]) {
                    input.parse::<Token![=]>()?;
                    let e: syn::Expr = input.parse()?;
                    v.push(Arg::NameValue(id.to_string(), e.to_token_stream()));
                } else if input.peek(syn::token::Paren) {
                    let content;
                    syn::parenthesized!(content in input);
                    v.push(Arg::List(id.to_string(), content.parse()?));
                } else {
                    v.push(Arg::Flag(id.to_string()));
                }
            } else {
                let e: syn::Expr = input.parse()?;
                v.push(Arg::Unnamed(e.to_token_stream()));
            }
            if input.is_empty() {
                break;
            }
            input.parse::<Token![,]>()?;
            if input.is_empty() {
                return Ok(ArgList(v, true));
            }
        }
        Ok(ArgList(v, false))
    }
}

/// an argument list that is not even a comma-separated list of `name`, `name = expr`, `name(..)`, `expr`: the expander
/// refuses it while parsing, like a list that names an unknown trait — which is how the model is told
const MALFORMED_ARGS: &str = "(args ((di \"<malformed>\" none)) none f)";

pub fn derive_ex_args(ts: TokenStream) -> Option<String> {
    let al = match ArgList::parse.parse2(ts) {
        Ok(a) => a,
        Err(_) => return Some(MALFORMED_ARGS.into()),
    };
    let mut items = vec![];
    let mut bound: Option<String> = None;
    let mut dump = false;
    let mut named_seen = false;
    for a in al.0 {
        // structmeta: "cannot use unnamed parameter after named parameter" - a trait after `bound(..)` / `dump` refuses the list
        let is_named = matches!(&a, Arg::Flag(n) if n == "dump") || matches!(&a, Arg::List(n, _) if n == "bound");
        if is_named {
            named_seen = true;
        } else if named_seen && matches!(&a, Arg::Flag(_) | Arg::List(..)) {
            return Some(MALFORMED_ARGS.into());
        }
        match a {
            Arg::Flag(n) if n == "dump" => {
                if dump {
                    return no(line!());
                }
                dump = true
            }
            Arg::List(n, ts) if n == "bound" => {
                if bound.is_some() {
                    return no(line!());
                }
                bound = Some(bound_list(ts)?)
            }
            Arg::Flag(n) => items.push(format!("(di {} none)", q(&n))),
            Arg::List(n, ts) => {
                let inner = match ArgList::parse.parse2(ts) {
                    Ok(a) => a,
                    Err(_) => return Some(MALFORMED_ARGS.into()),
                };
                let mut ib: Option<String> = None;
                let mut id = false;
                for x in inner.0 {
                    match x {
                        Arg::Flag(m) if m == "dump" && !id => id = true,
                        Arg::List(m, ts) if m == "bound" && ib.is_none() => ib = Some(bound_list(ts)?),
                        _ => return None,
                    }
                }
                items.push(format!("(di {} (some {} {}))", q(&n), opt(ib, Some)?, b(id)));
            }
            _ => return None,
        }
    }
    Some(format!("(args {} {} {})", list(items), opt(bound, Some)?, b(dump)))
}

fn is_block_like(e: &syn::Expr) -> bool {
    matches!(
        e,
        syn::Expr::Block(_)
            | syn::Expr::If(_)
            | syn::Expr::Match(_)
            | syn::Expr::Unsafe(_)
            | syn::Expr::Loop(_)
            | syn::Expr::While(_)
            | syn::Expr::ForLoop(_)
            | syn::Expr::Const(_)
            | syn::Expr::TryBlock(_)
    ) || matches!(e, syn::Expr::Macro(m) if matches!(m.mac.delimiter, syn::MacroDelimiter::Brace(_)))
}
/// an expression that, as the tail of a function body, would be read as a statement followed by more tokens
fn block_leading(e: &syn::Expr) -> bool {
    let mut cur = e;
    let mut depth = 0;
    loop {
        cur = match cur {
            syn::Expr::Binary(e) => &e.left,
            syn::Expr::Cast(e) => &e.expr,
            syn::Expr::MethodCall(e) => &e.receiver,
            syn::Expr::Field(e) => &e.base,
            syn::Expr::Index(e) => &e.expr,
            syn::Expr::Call(e) => &e.func,
            syn::Expr::Try(e) => &e.expr,
            syn::Expr::Await(e) => &e.base,
            syn::Expr::Assign(e) => &e.left,
            syn::Expr::Range(syn::ExprRange { start: Some(e), .. }) => e,
            _ => return depth > 0 && is_block_like(cur),
        };
        depth += 1;
    }
}

fn helper_body(name: &str, a: &syn::Attribute) -> Option<String> {
    match &a.meta {
        syn::Meta::Path(_) => Some("path".into()),
        syn::Meta::NameValue(nv) => Some(format!("(nv {})", toks(nv.value.to_token_stream()))),
        syn::Meta::List(l) => {
            if !matches!(l.delimiter, syn::MacroDelimiter::Paren(_)) {
                return no(line!());
            }
            // comparison attributes are parsed as templates: `$` stands for the field (`TemplateOf<..>` in compare_op.rs)
            let is_cmp = !matches!(name, "debug" | "default");
            let has_dollar = l.tokens.to_string().contains('$');
            if has_dollar && !is_cmp {
                return no(line!());
            }
            let al = ArgList::parse.parse2(replace_dollar(l.tokens.clone(), &quote::quote!(__placeholder))).ok()?;
            let key_bad = is_cmp && ArgList::parse.parse2(replace_dollar(l.tokens.clone(), &quote::quote!((__placeholder.0)))).is_err();
            // an attribute that is not consumed is re-emitted as written; the model prints it from its structure: only the
            // canonical spelling (no trailing comma, arguments in the order the model prints them) is inside the fragment
            if al.1 {
                return no(line!());
            }
            {
                let rank = |a: &Arg| -> usize {
                    match a {
                        Arg::Flag(m) if m == "transparent" => 0,
                        Arg::Flag(m) if m == "ignore" => 1,
                        Arg::Flag(m) if m == "reverse" => 2,
                        Arg::NameValue(m, _) if m == "by" => 3,
                        Arg::NameValue(m, _) if m == "key" => 4,
                        Arg::List(m, _) if m == "bound" => 6,
                        _ => 5, // the unnamed value of `default`
                    }
                };
                let ranks: Vec<usize> = al.0.iter().map(rank).collect();
                if ranks.windows(2).any(|w| w[0] > w[1]) {
                    return no(line!());
                }
            }
            match name {
                "debug" => {
                    let (mut tr, mut ig, mut bd) = (false, false, None);
                    for x in al.0 {
                        match x {
                            Arg::Flag(m) if m == "transparent" && !tr => tr = true,
                            Arg::Flag(m) if m == "ignore" && !ig => ig = true,
                            Arg::List(m, ts) if m == "bound" && bd.is_none() => bd = Some(bound_list(ts)?),
                            _ => return None,
                        }
                    }
                    Some(format!("(list (debugargs {} {} {}))", b(tr), b(ig), opt(bd, Some)?))
                }
                "default" => {
                    // the first argument is always the (required, unnamed) value — also when it is spelled like a
                    // named one: `#[default(bound(T))]` has the value `bound(T)`
                    let mut bd = None;
                    let mut it = al.0.into_iter();
                    let val = match it.next() {
                        None => None,
                        Some(Arg::Unnamed(ts)) => Some(ts),
                        Some(Arg::Flag(m)) => Some(syn::Ident::new_raw_or(&m).to_token_stream()),
                        Some(Arg::List(m, ts)) => {
                            let id = syn::Ident::new_raw_or(&m);
                            Some(quote::quote!(#id(#ts)))
                        }
                        Some(Arg::NameValue(m, ts)) => {
                            let id = syn::Ident::new_raw_or(&m);
                            Some(quote::quote!(#id = #ts))
                        }
                    };
                    for x in it {
                        match x {
                            Arg::List(m, ts) if m == "bound" && bd.is_none() => bd = Some(bound_list(ts)?),
                            _ => return None,
                        }
                    }
                    let v = match val {
                        None => "none".to_string(),
                        Some(ts) => {
                            let e: syn::Expr = syn::parse2(ts.clone()).ok()?;
                            let class = match &e {
                                syn::Expr::Lit(syn::ExprLit { lit: syn::Lit::Str(_), .. }) => "strlit",
                                syn::Expr::Path(_) => "path",
                                syn::Expr::Infer(_) => "underscore",
                                e if block_leading(e) => "blocklead",
                                _ => "other",
                            };
                            format!("(some {} {class})", toks(ts))
                        }
                    };
                    Some(format!("(list (defaultargs {v} {}))", opt(bd, Some)?))
                }
                _ => {
                    let (mut ig, mut rev, mut by, mut key, mut bd) = (false, false, None, None, None);
                    for x in al.0 {
                        match x {
                            Arg::Flag(m) if m == "ignore" && !ig => ig = true,
                            Arg::Flag(m) if m == "reverse" && !rev => rev = true,
                            Arg::NameValue(m, ts) if m == "by" && by.is_none() => by = Some(ts),
                            Arg::NameValue(m, ts) if m == "key" && key.is_none() => key = Some(ts),
                            Arg::List(m, ts) if m == "bound" && bd.is_none() => bd = Some(bound_list(ts)?),
                            _ => return None,
                        }
                    }
                    // `$` anywhere but in `key` stays in the output as the internal placeholder: not modelled
                    if has_dollar && (by.as_ref().map(|t| t.to_string().contains("__placeholder")).unwrap_or(false) || bd.as_ref().map(|t| t.contains("\"$\"")).unwrap_or(false)) {
                        return no(line!());
                    }
                    Some(format!(
                        "(list (cmpargs {} {} {} {} {} {}))",
                        b(ig),
                        b(rev),
                        opt(by, |t| Some(toks(t)))?,
                        opt(key, |t| Some(toks(t)))?,
                        b(key_bad),
                        opt(bd, Some)?
                    ))
                }
            }
        }
    }
}

fn replace_dollar(ts: TokenStream, with: &TokenStream) -> TokenStream {
    let mut out = TokenStream::new();
    for tt in ts {
        match tt {
            TokenTree::Punct(p) if p.as_char() == '$' => out.extend(with.clone()),
            TokenTree::Group(g) => {
                let mut ng = proc_macro2::Group::new(g.delimiter(), replace_dollar(g.stream(), with));
                ng.set_span(g.span());
                out.extend(std::iter::once(TokenTree::Group(ng)));
            }
            other => out.extend(std::iter::once(other)),
        }
    }
    out
}

trait RawOr {
    fn new_raw_or(s: &str) -> syn::Ident;
}
impl RawOr for syn::Ident {
    fn new_raw_or(s: &str) -> syn::Ident {
        match s.strip_prefix("r#") {
            Some(r) => syn::Ident::new_raw(r, proc_macro2::Span::call_site()),
            None => syn::Ident::new(s, proc_macro2::Span::call_site()),
        }
    }
}

pub const HELPER_NAMES: [&str; 8] = ["derive_ex", "ord", "partial_ord", "eq", "partial_eq", "hash", "debug", "default"];
pub fn unraw(s: &str) -> &str {
    s.strip_prefix("r#").unwrap_or(s)
}
fn attr_name(p: &syn::Path) -> Option<String> {
    let seg = |s: &syn::PathSegment| -> Option<String> {
        if s.arguments.is_none() { Some(unraw(&s.ident.to_string()).to_string()) } else { None }
    };
    match p.segments.len() {
        1 if p.leading_colon.is_none() => seg(&p.segments[0]),
        2 if seg(&p.segments[0]).as_deref() == Some("derive_ex") && seg(&p.segments[1]).as_deref() == Some("derive_ex") => {
            Some("derive_ex".to_string())
        }
        _ => None,
    }
}
/// the flattened real output with every helper attribute name spelled plainly (`# [ r#ord` -> `# [ ord`,
/// `# [ :: derive_ex :: derive_ex` -> `# [ derive_ex`): the model prints an attribute it keeps under its plain name
pub fn norm_attr_spelling(toks: &str) -> String {
    let v: Vec<&str> = toks.split(' ').collect();
    let mut out: Vec<&str> = Vec::with_capacity(v.len());
    let mut i = 0;
    while i < v.len() {
        out.push(v[i]);
        if v[i] == "[" && i > 0 && (v[i - 1] == "#" || (v[i - 1] == "!" && i > 1 && v[i - 2] == "#")) {
            let mut j = i + 1;
            if j < v.len() && v[j] == "::" { j += 1; }
            let is_dx = |k: usize| k < v.len() && unraw(v[k]) == "derive_ex";
            if is_dx(j) && j + 2 < v.len() && v[j + 1] == "::" && is_dx(j + 2) {
                out.push("derive_ex");
                i = j + 3;
                continue;
            }
            if j == i + 1 && j < v.len() && v[j].starts_with("r#") && HELPER_NAMES.contains(&unraw(v[j]))
                && !(j + 1 < v.len() && v[j + 1] == "::") {
                out.push(unraw(v[j]));
                i = j + 1;
                continue;
            }
        }
        i += 1;
    }
    out.join(" ")
}

fn attr(a: &syn::Attribute) -> Option<String> {
    if !matches!(a.style, syn::AttrStyle::Outer) {
        return no(line!());
    }
    // What the attribute *is* is not decided here: the path is handed over as written, with the tokens of the attribute
    // and this side's reading of it under the most liberal rule (the last segment names a helper attribute); the model's
    // `AttrPath.kind` chooses (Ext.lean, Props/AttrName.lean).  The comparison normalises the spelling of the attributes
    // that are kept (`norm_attr_spelling`).
    let p = a.path();
    if p.segments.iter().any(|s| !s.arguments.is_none()) {
        return no(line!());
    }
    let segs: Vec<String> = p.segments.iter().map(|s| q(&s.ident.to_string())).collect();
    let last = p.segments.last().map(|s| unraw(&s.ident.to_string()).to_string());
    let why = WHY.with(|w| w.get());
    let cand: Option<String> = match last.as_deref() {
        Some("derive_ex") => match &a.meta {
            syn::Meta::List(l) if matches!(l.delimiter, syn::MacroDelimiter::Paren(_)) => {
                derive_ex_args(l.tokens.clone()).map(|x| format!("(derive_ex {x})"))
            }
            _ => None,
        },
        Some(n @ ("ord" | "partial_ord" | "eq" | "partial_eq" | "hash")) => helper_body(n, a).map(|x| format!("(cmp {n} {x})")),
        Some("debug") => helper_body("debug", a).map(|x| format!("(debug {x})")),
        Some("default") => helper_body("default", a).map(|x| format!("(default {x})")),
        _ => None,
    };
    if !attr_name(p).map_or(false, |n| HELPER_NAMES.contains(&n.as_str())) {
        // a foreign attribute: a failed reading of its body is not a reason to leave the fragment
        WHY.with(|w| w.set(why));
    } else if cand.is_none() {
        return None;
    }
    Some(format!(
        "(at {} {} {} {})",
        b(p.leading_colon.is_some()),
        list(segs),
        toks(a.meta.to_token_stream()),
        cand.unwrap_or_else(|| "nil".to_string())
    ))
}
fn attrs(v: &[syn::Attribute]) -> Option<String> {
    let r: Option<Vec<String>> = v.iter().map(attr).collect();
    Some(list(r?))
}

// ------------------------------------------------------------------ items

fn fields(f: &syn::Fields) -> Option<String> {
    let (kind, tr, it): (&str, bool, Vec<&syn::Field>) = match f {
        syn::Fields::Named(n) => ("named", n.named.trailing_punct(), n.named.iter().collect()),
        syn::Fields::Unnamed(u) => ("unnamed", u.unnamed.trailing_punct(), u.unnamed.iter().collect()),
        syn::Fields::Unit => ("unit", false, vec![]),
    };
    let mut v = vec![];
    for fd in it {
        if !matches!(fd.mutability, syn::FieldMutability::None) {
            return no(line!());
        }
        v.push(format!(
            "(field {} {} {} {})",
            attrs(&fd.attrs)?,
            toks(fd.vis.to_token_stream()),
            opt(fd.ident.as_ref(), |i| Some(q(&i.to_string())))?,
            ty(&fd.ty)?
        ));
    }
    Some(format!("(fields {kind} {} {})", b(tr), v.join(" ")))
}

pub fn item(ts: TokenStream) -> Option<String> {
    let it: syn::Item = syn::parse2(ts.clone()).ok()?;
    // an annotated impl is emitted again token for token (F38), everything else as syn prints it: an impl that syn would print
    // differently from how it is written (`fn f(self,) -> X where { .. }`) cannot be split into items again by the comparer
    if matches!(it, syn::Item::Impl(_)) && crate::flatten(it.to_token_stream()) != crate::flatten(ts) {
        return no(line!());
    }
    match &it {
        syn::Item::Struct(s) => Some(format!(
            "(struct {} {} {} {} {})",
            attrs(&s.attrs)?,
            toks(s.vis.to_token_stream()),
            q(&s.ident.to_string()),
            generics(&s.generics)?,
            fields(&s.fields)?
        )),
        syn::Item::Enum(e) => {
            let mut vs = vec![];
            for v in &e.variants {
                vs.push(format!(
                    "(variant {} {} {} {})",
                    attrs(&v.attrs)?,
                    q(&v.ident.to_string()),
                    fields(&v.fields)?,
                    opt(v.discriminant.as_ref(), |(_, e)| Some(toks(e.to_token_stream())))?
                ));
            }
            Some(format!(
                "(enum {} {} {} {} {} {})",
                attrs(&e.attrs)?,
                toks(e.vis.to_token_stream()),
                q(&e.ident.to_string()),
                generics(&e.generics)?,
                list(vs),
                b(e.variants.trailing_punct())
            ))
        }
        syn::Item::Impl(i) => {
            if i.defaultness.is_some() || i.unsafety.is_some() {
                return no(line!());
            }
            let tr = match &i.trait_ {
                None => "none".to_string(),
                Some((neg, p, _)) => format!("(some {} {} {})", b(neg.is_some()), b(p.leading_colon.is_some()), segs(p.segments.iter())?),
            };
            let mut ms = vec![];
            for m in &i.items {
                ms.push(match m {
                    syn::ImplItem::Type(t)
                        if t.ident == "Output"
                            && t.attrs.is_empty()
                            && matches!(t.vis, syn::Visibility::Inherited)
                            && t.defaultness.is_none()
                            && t.generics.params.is_empty()
                            && t.generics.where_clause.is_none() =>
                    {
                        format!("(output {})", ty(&t.ty)?)
                    }
                    syn::ImplItem::Type(t) if t.ident == "Output" => return None, // an `Output` in a spelling the model does not read
                    other => format!("(other {})", toks(other.to_token_stream())),
                });
            }
            Some(format!("(impl {} {} {tr} {} {})", attrs(&i.attrs)?, generics(&i.generics)?, ty(&i.self_ty)?, list(ms)))
        }
        _ => no(line!()),
    }
}
