//! L1 comparer: runs the real expander (built from /repo's working tree, hooks on)
//! in process on the cases printed by the Lean driver and compares its output,
//! token for token, with the model's.
//!
//! Case file format (one case):
//!   CASE <id>
//!   TAG <free text>                 (optional, repeated; used for distributions)
//!   ENTRY attr|derive
//!   ARGS <rust text>                (attr only)
//!   ITEM <rust text>
//!   SEG <label> T|ERR|DUMP
//!   <canonical tokens>              (after T and DUMP)
//!   END
use proc_macro2::{Delimiter, TokenStream, TokenTree};
use std::collections::BTreeMap;
use std::fmt::Write as _;
use std::io::{BufRead, Write};
use std::panic::{catch_unwind, AssertUnwindSafe};
use std::str::FromStr;

mod ser;

fn flatten_into(ts: TokenStream, out: &mut String) {
    for tt in ts {
        match tt {
            TokenTree::Group(g) => {
                let (o, c) = match g.delimiter() {
                    Delimiter::Parenthesis => ("(", ")"),
                    Delimiter::Brace => ("{", "}"),
                    Delimiter::Bracket => ("[", "]"),
                    Delimiter::None => ("", ""),
                };
                if !o.is_empty() {
                    if !out.is_empty() {
                        out.push(' ');
                    }
                    out.push_str(o);
                }
                flatten_into(g.stream(), out);
                if !c.is_empty() {
                    if !out.is_empty() {
                        out.push(' ');
                    }
                    out.push_str(c);
                }
            }
            TokenTree::Ident(i) => {
                if !out.is_empty() {
                    out.push(' ');
                }
                let _ = write!(out, "{i}");
            }
            TokenTree::Punct(p) => {
                if !out.is_empty() {
                    out.push(' ');
                }
                out.push(p.as_char());
            }
            TokenTree::Literal(l) => {
                if !out.is_empty() {
                    out.push(' ');
                }
                let _ = write!(out, "{l}");
            }
        }
    }
}
fn flatten(ts: TokenStream) -> String {
    let mut s = String::new();
    flatten_into(ts, &mut s);
    s
}

#[derive(Debug, Clone, PartialEq)]
enum SegKind {
    T,
    Err,
    Dump,
}
#[derive(Debug, Clone)]
struct Seg {
    label: String,
    kind: SegKind,
    toks: String,
    msg: String,
}
#[derive(Debug, Default, Clone)]
struct Case {
    id: String,
    tags: Vec<String>,
    entry: String,
    args: String,
    item: String,
    segs: Vec<Seg>,
}

fn read_cases(path: &str, mut f: impl FnMut(Case)) {
    let rd: Box<dyn BufRead> = if path == "-" {
        Box::new(std::io::BufReader::new(std::io::stdin()))
    } else {
        Box::new(std::io::BufReader::with_capacity(
            1 << 20,
            std::fs::File::open(path).unwrap_or_else(|e| panic!("open {path}: {e}")),
        ))
    };
    let mut cur = Case::default();
    let mut pending: Option<(String, SegKind)> = None;
    for line in rd.lines() {
        let line = line.unwrap();
        if let Some((label, kind)) = pending.take() {
            cur.segs.push(Seg {
                label,
                kind,
                toks: line.trim().to_string(),
                msg: String::new(),
            });
            continue;
        }
        if let Some(r) = line.strip_prefix("CASE ") {
            cur = Case::default();
            cur.id = r.to_string();
        } else if let Some(r) = line.strip_prefix("TAG ") {
            cur.tags.push(r.to_string());
        } else if let Some(r) = line.strip_prefix("ENTRY ") {
            cur.entry = r.trim().to_string();
        } else if let Some(r) = line.strip_prefix("ARGS") {
            cur.args = r.trim().to_string();
        } else if let Some(r) = line.strip_prefix("ITEM ") {
            cur.item = r.to_string();
        } else if let Some(r) = line.strip_prefix("SEG ") {
            let mut it = r.split_whitespace();
            let label = it.next().unwrap_or("").to_string();
            match it.next().unwrap_or("") {
                "T" => pending = Some((label, SegKind::T)),
                "DUMP" => pending = Some((label, SegKind::Dump)),
                "ERR" => cur.segs.push(Seg {
                    label,
                    kind: SegKind::Err,
                    toks: String::new(),
                    msg: String::new(),
                }),
                k => panic!("bad seg kind {k}"),
            }
        } else if line.starts_with("END") {
            f(std::mem::take(&mut cur));
        } else if line.trim().is_empty() {
        } else {
            panic!("bad line in case file: {line}");
        }
    }
}

/// Run the real expander.  Err = panic message.
fn expand_real(c: &Case) -> Result<TokenStream, String> {
    let r = catch_unwind(AssertUnwindSafe(|| -> Result<TokenStream, String> {
        let item = TokenStream::from_str(&c.item).map_err(|e| format!("lex item: {e}"))?;
        match c.entry.as_str() {
            "attr" => {
                let args = TokenStream::from_str(&c.args).map_err(|e| format!("lex args: {e}"))?;
                Ok(dexlib::verif_hooks::expand_attr(args, item))
            }
            "derive" => Ok(dexlib::verif_hooks::expand_derive(item)),
            e => Err(format!("bad entry {e}")),
        }
    }));
    match r {
        Ok(Ok(ts)) => Ok(ts),
        Ok(Err(e)) => Err(format!("harness: {e}")),
        Err(p) => {
            let msg = if let Some(s) = p.downcast_ref::<&str>() {
                s.to_string()
            } else if let Some(s) = p.downcast_ref::<String>() {
                s.clone()
            } else {
                "panic".to_string()
            };
            Err(format!("panic: {msg}"))
        }
    }
}

fn compile_error_msg(item: &syn::Item) -> Option<String> {
    if let syn::Item::Macro(m) = item {
        let p = &m.mac.path;
        let segs: Vec<String> = p.segments.iter().map(|s| s.ident.to_string()).collect();
        if p.leading_colon.is_some() && segs == ["core", "compile_error"] {
            if let Ok(l) = syn::parse2::<syn::LitStr>(m.mac.tokens.clone()) {
                return Some(l.value());
            }
            return Some(String::new());
        }
    }
    None
}

/// Does the flattened real output consist of the model's segments in order, every error / dump segment standing for one
/// `::core::compile_error!{"…"}` with any message?  (Used only when syn cannot split the output into items.)
fn matches_model_loosely(segs: &[Seg], whole: &str) -> bool {
    let mut rest = whole.trim_start();
    for s in segs {
        if s.kind == SegKind::T {
            if s.toks.is_empty() {
                continue;
            }
            match rest.strip_prefix(s.toks.as_str()) {
                Some(r) if r.is_empty() || r.starts_with(' ') => rest = r.trim_start(),
                _ => return false,
            }
        } else {
            let Some(r) = rest.strip_prefix(":: core :: compile_error ! { \"") else { return false };
            // end of the string literal: the first `"` not preceded by a backslash
            let b = r.as_bytes();
            let mut i = 0;
            while i < b.len() {
                if b[i] == b'\\' {
                    i += 2;
                    continue;
                }
                if b[i] == b'"' {
                    break;
                }
                i += 1;
            }
            if i >= b.len() {
                return false;
            }
            let Some(r2) = r[i + 1..].trim_start().strip_prefix('}') else { return false };
            rest = r2.trim_start();
        }
    }
    rest.is_empty()
}

/// Split the real output into segments the way the model labels them.
fn split_real(ts: TokenStream, entry: &str) -> Result<Vec<Seg>, String> {
    use quote::ToTokens;
    let whole = flatten(ts.clone());
    let file: syn::File = syn::parse2(ts).map_err(|e| format!("output does not parse as items: {e}"))?;
    let mut segs = Vec::new();
    let mut cat = String::new();
    for (i, item) in file.items.iter().enumerate() {
        let toks = flatten(item.to_token_stream());
        if !cat.is_empty() && !toks.is_empty() {
            cat.push(' ');
        }
        cat.push_str(&toks);
        let label = if i == 0 && entry == "attr" { "item" } else { "" }.to_string();
        if let Some(msg) = compile_error_msg(item) {
            if let Some(payload) = msg.strip_prefix("dump:\n") {
                let p = TokenStream::from_str(payload).map_err(|e| format!("dump payload does not lex: {e}"))?;
                segs.push(Seg { label, kind: SegKind::Dump, toks: flatten(p), msg });
            } else {
                segs.push(Seg { label, kind: SegKind::Err, toks: String::new(), msg });
            }
        } else {
            segs.push(Seg { label, kind: SegKind::T, toks, msg: String::new() });
        }
    }
    if cat != whole {
        // syn's parse/print round trip normalised something; fall back is impossible,
        // so report it (the caller treats it as a note, compared tokens are syn's).
        return Err(format!("ROUNDTRIP\u{1}{}", whole));
    }
    Ok(segs)
}

fn esc(s: &str) -> String {
    let mut o = String::with_capacity(s.len() + 2);
    o.push('"');
    for ch in s.chars() {
        match ch {
            '"' => o.push_str("\\\""),
            '\\' => o.push_str("\\\\"),
            '\n' => o.push_str("\\n"),
            '\t' => o.push_str("\\t"),
            '\r' => o.push_str("\\r"),
            c if (c as u32) < 0x20 => {
                let _ = write!(o, "\\u{:04x}", c as u32);
            }
            c => o.push(c),
        }
    }
    o.push('"');
    o
}

fn first_diff(a: &str, b: &str) -> (usize, String, String) {
    let at: Vec<&str> = a.split(' ').collect();
    let bt: Vec<&str> = b.split(' ').collect();
    let mut i = 0;
    while i < at.len() && i < bt.len() && at[i] == bt[i] {
        i += 1;
    }
    let ctx = |v: &Vec<&str>| {
        let lo = i.saturating_sub(6);
        let hi = (i + 8).min(v.len());
        v[lo..hi].join(" ")
    };
    (i, ctx(&at), ctx(&bt))
}

/// Finite tables extracted from the real expander by exhaustive black-box expansion, printed as a Lean file.
fn tables() {
    use std::fmt::Write as _;
    std::panic::set_hook(Box::new(|_| {}));
    let attrs = ["ord", "partial_ord", "eq", "partial_eq", "hash", "debug", "default", "derive_ex"];
    let traits = ["Ord", "PartialOrd", "Eq", "PartialEq", "Hash", "Debug", "Default"];
    let mut out = String::new();
    out.push_str("-- GENERATED by `xcheck tables` from the real expander (rebuilt from /repo's working tree). Do not edit.\n");
    out.push_str("namespace DX.Generated\n\n");
    out.push_str("/-- (helper attribute index, bit mask of derived traits [Ord,PartialOrd,Eq,PartialEq,Hash,Debug,Default], is the attribute consumed?) -/\n");
    out.push_str("def isMatchTable : List (Nat × Nat × Bool) := [\n");
    let mut first = true;
    for (ai, a) in attrs.iter().enumerate() {
        for mask in 0..128u32 {
            let list: Vec<&str> = traits.iter().enumerate().filter(|(i, _)| mask >> i & 1 == 1).map(|(_, t)| *t).collect();
            let attr_src = if *a == "derive_ex" { "# [ derive_ex ( ) ]".to_string() } else { format!("# [ {a} ]") };
            // on a field, a variant-less struct: is the attribute still there after expansion?
            let c = Case { id: String::new(), tags: vec![], entry: "attr".into(), args: list.join(" , "),
                           item: format!("struct X ( {attr_src} u8 ) ;"), segs: vec![] };
            let kept = match expand_real(&c) {
                Ok(ts) => flatten(ts).contains(&attr_src),
                Err(_) => true,
            };
            if !first { out.push_str(",\n"); }
            first = false;
            let _ = write!(out, "  ({ai}, {mask}, {})", !kept);
        }
    }
    out.push_str("]\n\n");
    out.push_str("/-- (trait name, tokens between `impl` and `for` of the first generated impl, method names) on `struct X(i8);` -/\n");
    out.push_str("def traitTable : List (String × String × List String) := [\n");
    let ops = ["Add", "BitAnd", "BitOr", "BitXor", "Div", "Mul", "Rem", "Shl", "Shr", "Sub"];
    let mut names: Vec<String> = ops.iter().map(|s| s.to_string()).collect();
    names.extend(ops.iter().map(|s| format!("{s}Assign")));
    for t in ["Neg", "Not", "Ord", "PartialOrd", "Eq", "PartialEq", "Hash", "Copy", "Clone", "Debug", "Default", "Deref", "DerefMut"] {
        names.push(t.to_string());
    }
    first = true;
    for n in &names {
        let c = Case { id: String::new(), tags: vec![], entry: "attr".into(), args: n.clone(), item: "struct X ( i8 ) ;".into(), segs: vec![] };
        let (path, methods) = match expand_real(&c).ok().and_then(|ts| split_real(ts, "attr").ok()) {
            Some(segs) if segs.len() >= 2 && segs[1].kind == SegKind::T => {
                let toks: Vec<&str> = segs[1].toks.split(' ').collect();
                let i = toks.iter().position(|t| *t == "impl").unwrap_or(0);
                let j = toks.iter().position(|t| *t == "for").unwrap_or(i);
                let path = toks[i + 1..j].join(" ");
                let mut ms = Vec::new();
                for k in 0..toks.len() {
                    if toks[k] == "fn" && k + 1 < toks.len() { ms.push(toks[k + 1].to_string()); }
                }
                (path, ms)
            }
            _ => ("<error>".to_string(), vec![]),
        };
        if !first { out.push_str(",\n"); }
        first = false;
        let ms: Vec<String> = methods.iter().map(|m| format!("\"{m}\"")).collect();
        let _ = write!(out, "  (\"{n}\", \"{path}\", [{}])", ms.join(", "));
    }
    out.push_str("]\n\nend DX.Generated\n");
    print!("{out}");
}

/// Collects every item carrying `#[derive_ex(..)]` from Rust sources (also inside function bodies) and from the
/// ```rust blocks of markdown files: one corpus line `ARGS \t ITEM` per item (attribute-macro form).
fn corpus(files: &[String]) {
    use quote::ToTokens;
    use syn::visit::Visit;
    struct V(Vec<(String, String)>);
    fn take(attrs: &mut Vec<syn::Attribute>) -> Option<String> {
        let i = attrs.iter().position(|a| a.path().is_ident("derive_ex"))?;
        let a = attrs.remove(i);
        match &a.meta {
            syn::Meta::List(l) => Some(l.tokens.to_string()),
            _ => Some(String::new()),
        }
    }
    impl<'ast> Visit<'ast> for V {
        fn visit_item_struct(&mut self, i: &'ast syn::ItemStruct) {
            let mut i = i.clone();
            if let Some(a) = take(&mut i.attrs) { self.0.push((a, i.to_token_stream().to_string())); }
        }
        fn visit_item_enum(&mut self, i: &'ast syn::ItemEnum) {
            let mut i = i.clone();
            if let Some(a) = take(&mut i.attrs) { self.0.push((a, i.to_token_stream().to_string())); }
        }
        fn visit_item_impl(&mut self, i: &'ast syn::ItemImpl) {
            let mut i2 = i.clone();
            if let Some(a) = take(&mut i2.attrs) { self.0.push((a, i2.to_token_stream().to_string())); }
            syn::visit::visit_item_impl(self, i);
        }
    }
    let mut v = V(Vec::new());
    for f in files {
        let Ok(text) = std::fs::read_to_string(f) else { continue };
        let mut sources: Vec<String> = Vec::new();
        if f.ends_with(".md") {
            let mut cur: Option<String> = None;
            for line in text.lines() {
                if line.trim_start().starts_with("```") {
                    if let Some(c) = cur.take() { sources.push(c); } else if line.contains("rust") || line.trim() == "```" { cur = Some(String::new()); }
                } else if let Some(c) = cur.as_mut() {
                    let l = line.strip_prefix("# ").unwrap_or(if line == "#" { "" } else { line });
                    c.push_str(l);
                    c.push('\n');
                }
            }
        } else {
            sources.push(text);
        }
        for src in sources {
            if let Ok(file) = syn::parse_file(&src) { v.visit_file(&file); }
        }
    }
    for (a, i) in v.0 {
        println!("{}\t{}", a.replace('\n', " ").replace('\t', " "), i.replace('\n', " ").replace('\t', " "));
    }
}

struct Rng(u64);
impl Rng {
    fn next(&mut self) -> u64 {
        self.0 = self.0.wrapping_add(0x9E3779B97F4A7C15);
        let mut z = self.0;
        z = (z ^ (z >> 30)).wrapping_mul(0xBF58476D1CE4E5B9);
        z = (z ^ (z >> 27)).wrapping_mul(0x94D049BB133111EB);
        z ^ (z >> 31)
    }
    fn below(&mut self, n: usize) -> usize { if n == 0 { 0 } else { (self.next() % n as u64) as usize } }
}

/// structure-aware mutation of a token stream: delete / duplicate / swap token trees at a random depth, or splice in
/// token trees from a donor stream
fn mutate(ts: TokenStream, donor: &TokenStream, rng: &mut Rng, depth: usize) -> TokenStream {
    let mut tts: Vec<TokenTree> = ts.into_iter().collect();
    // descend into a group with some probability
    let groups: Vec<usize> = tts.iter().enumerate().filter(|(_, t)| matches!(t, TokenTree::Group(_))).map(|(i, _)| i).collect();
    if !groups.is_empty() && depth < 6 && rng.below(3) != 0 {
        let gi = groups[rng.below(groups.len())];
        if let TokenTree::Group(g) = &tts[gi] {
            let inner = mutate(g.stream(), donor, rng, depth + 1);
            tts[gi] = TokenTree::Group(proc_macro2::Group::new(g.delimiter(), inner));
        }
        return tts.into_iter().collect();
    }
    let n = tts.len();
    match rng.below(6) {
        0 if n > 0 => { tts.remove(rng.below(n)); }
        1 if n > 0 => { let i = rng.below(n); let t = tts[i].clone(); tts.insert(i, t); }
        2 if n > 1 => { let i = rng.below(n); let j = rng.below(n); tts.swap(i, j); }
        3 => {
            let d: Vec<TokenTree> = donor.clone().into_iter().collect();
            if !d.is_empty() { let i = rng.below(n + 1); tts.insert(i, d[rng.below(d.len())].clone()); }
        }
        4 if n > 0 => {
            // delete a run (an attribute is `#` + `[..]`, an argument is several trees up to a comma)
            let i = rng.below(n); let k = 1 + rng.below(3.min(n - i));
            tts.drain(i..i + k);
        }
        _ if n > 0 => {
            // duplicate a run
            let i = rng.below(n); let k = 1 + rng.below(3.min(n - i));
            let run: Vec<TokenTree> = tts[i..i + k].to_vec();
            for (o, t) in run.into_iter().enumerate() { tts.insert(i + k + o, t); }
        }
        _ => {}
    }
    tts.into_iter().collect()
}

fn fuzz(corpus_path: &str, seed: u64, iters: u64, out_path: &str) {
    std::panic::set_hook(Box::new(|_| {}));
    let text = std::fs::read_to_string(corpus_path).expect("corpus");
    let seeds: Vec<(TokenStream, TokenStream)> = text.lines().filter_map(|l| {
        let (a, i) = l.split_once('\t')?;
        Some((TokenStream::from_str(a).ok()?, TokenStream::from_str(i).ok()?))
    }).collect();
    let mut out = std::io::BufWriter::new(std::fs::File::create(out_path).unwrap());
    let trace = std::env::var("XCHECK_FUZZ_TRACE").ok();
    let mut rng = Rng(seed.wrapping_mul(0x2545F4914F6CDD1D) ^ 0x1234567);
    let (mut tried, mut valid, mut ok, mut errs, mut bad) = (0u64, 0u64, 0u64, 0u64, 0u64);
    let mut kinds: BTreeMap<String, u64> = BTreeMap::new();
    while tried < iters && !seeds.is_empty() {
        tried += 1;
        let (a0, i0) = &seeds[rng.below(seeds.len())];
        let (da, di) = &seeds[rng.below(seeds.len())];
        let mut a = a0.clone();
        let mut i = i0.clone();
        for _ in 0..1 + rng.below(3) {
            if rng.below(3) == 0 { a = mutate(a, da, &mut rng, 0); } else { i = mutate(i, di, &mut rng, 0); }
        }
        // the property speaks about syntactically valid items: anything else is not an input of the macro
        let Ok(parsed) = syn::parse2::<syn::Item>(i.clone()) else { continue };
        {
            // a trait object without `dyn` (`T +`) is accepted by syn but is not Rust 2021 syntax
            use syn::visit::Visit;
            struct Bare(bool);
            impl<'ast> Visit<'ast> for Bare {
                fn visit_type_trait_object(&mut self, t: &'ast syn::TypeTraitObject) {
                    if t.dyn_token.is_none() { self.0 = true; }
                    syn::visit::visit_type_trait_object(self, t);
                }
            }
            let mut b = Bare(false);
            b.visit_item(&parsed);
            if b.0 { continue; }
        }
        valid += 1;
        let derive_form = rng.below(3) == 0;
        let c = if derive_form {
            Case { id: String::new(), tags: vec![], entry: "derive".into(), args: String::new(),
                   item: format!("# [ derive_ex ( {} ) ] {}", a, i), segs: vec![] }
        } else {
            Case { id: String::new(), tags: vec![], entry: "attr".into(), args: a.to_string(), item: i.to_string(), segs: vec![] }
        };
        // a mutated stream that does not survive printing and re-lexing (e.g. a split lifetime token) is not source text
        if TokenStream::from_str(&c.item).is_err() || TokenStream::from_str(&c.args).is_err() { valid -= 1; continue; }
        if derive_form && syn::parse2::<syn::DeriveInput>(TokenStream::from_str(&c.item).unwrap_or_default()).is_err() { valid -= 1; continue; }
        // trace mode (after a run died: a stack overflow or an abort cannot be caught): leave the input on disk first
        if let Some(tp) = &trace {
            let _ = std::fs::write(tp, format!("{{\"entry\":{},\"args\":{},\"item\":{}}}\n", esc(&c.entry), esc(&c.args), esc(&c.item)));
        }
        let r1 = expand_real(&c);
        let r2 = expand_real(&c);
        let mut problem: Option<(String, String)> = None;
        match (r1, r2) {
            (Err(e), _) | (_, Err(e)) => problem = Some(("panic".into(), e)),
            (Ok(x), Ok(y)) => {
                if x.to_string() != y.to_string() {
                    problem = Some(("nondet".into(), x.to_string()));
                } else {
                    match syn::parse2::<syn::File>(x.clone()) {
                        Err(e) => problem = Some(("parse".into(), format!("{e}: {x}"))),
                        Ok(f) => {
                            if f.items.iter().any(|it| compile_error_msg(it).is_some()) { errs += 1; } else { ok += 1; }
                            if f.items.iter().any(|it| compile_error_msg(it).map(|m| m.is_empty()).unwrap_or(false)) {
                                problem = Some(("empty-message".into(), x.to_string()));
                            }
                        }
                    }
                }
            }
        }
        if let Some((k, detail)) = problem {
            bad += 1;
            *kinds.entry(k.clone()).or_default() += 1;
            if bad <= 20 {
                let _ = writeln!(out, "{{\"kind\":{},\"entry\":{},\"args\":{},\"item\":{},\"detail\":{}}}",
                                 esc(&k), esc(&c.entry), esc(&c.args), esc(&c.item), esc(&detail.chars().take(600).collect::<String>()));
            }
        }
    }
    let ks: Vec<String> = kinds.iter().map(|(k, v)| format!("{}:{v}", esc(k))).collect();
    let _ = writeln!(out, "{{\"summary\":true,\"seeds\":{},\"tried\":{tried},\"valid_inputs\":{valid},\"expanded_ok\":{ok},\"answered_with_error\":{errs},\"problems\":{bad},\"kinds\":{{{}}}}}",
                     seeds.len(), ks.join(","));
}

/// L1c: mutants of the corpus items that lie inside the model's fragment, as S-expression cases for `drv ext`
/// spell the name of one helper attribute differently: `#[ord(..)]` -> `#[r#ord(..)]`, `#[derive_ex(..)]` ->
/// `#[derive_ex::derive_ex(..)]` / `#[::derive_ex::derive_ex(..)]` / `#[r#derive_ex(..)]` (F34); recursively, so that
/// attributes of fields and variants are reached
fn respell(ts: TokenStream, rng: &mut Rng) -> TokenStream {
    let tts: Vec<TokenTree> = ts.into_iter().collect();
    let mut out: Vec<TokenTree> = Vec::with_capacity(tts.len());
    let mut k = 0;
    while k < tts.len() {
        let is_pound = matches!(&tts[k], TokenTree::Punct(p) if p.as_char() == '#');
        match (&tts[k], k > 0 && matches!(&tts[k - 1], TokenTree::Punct(p) if p.as_char() == '#')) {
            (TokenTree::Group(g), true) if g.delimiter() == proc_macro2::Delimiter::Bracket => {
                let inner: Vec<TokenTree> = g.stream().into_iter().collect();
                let head = match inner.first() { Some(TokenTree::Ident(i)) => i.to_string(), _ => String::new() };
                let single = !matches!(inner.get(1), Some(TokenTree::Punct(p)) if p.as_char() == ':');
                if single && ser::HELPER_NAMES.contains(&head.as_str()) && rng.below(2) == 0 {
                    let rest: TokenStream = inner[1..].iter().cloned().collect();
                    let new_head = match (head.as_str(), rng.below(4)) {
                        ("derive_ex", 0) => "derive_ex :: derive_ex".to_string(),
                        ("derive_ex", 1) => ":: derive_ex :: derive_ex".to_string(),
                        ("derive_ex", 2) => "r#derive_ex :: r#derive_ex".to_string(),
                        (h, _) => format!("r#{h}"),
                    };
                    let mut ns = TokenStream::from_str(&new_head).unwrap();
                    ns.extend(rest);
                    out.push(TokenTree::Group(proc_macro2::Group::new(proc_macro2::Delimiter::Bracket, ns)));
                } else {
                    out.push(tts[k].clone());
                }
            }
            (TokenTree::Group(g), _) => {
                out.push(TokenTree::Group(proc_macro2::Group::new(g.delimiter(), respell(g.stream(), rng))));
            }
            _ => out.push(tts[k].clone()),
        }
        let _ = is_pound;
        k += 1;
    }
    out.into_iter().collect()
}

fn mutants(corpus_path: &str, seed: u64, iters: u64) {
    std::panic::set_hook(Box::new(|_| {}));
    let text = std::fs::read_to_string(corpus_path).expect("corpus");
    let seeds: Vec<(TokenStream, TokenStream)> = text.lines().filter_map(|l| {
        let (a, i) = l.split_once('\t')?;
        Some((TokenStream::from_str(a).ok()?, TokenStream::from_str(i).ok()?))
    }).collect();
    let mut rng = Rng(seed.wrapping_mul(0x2545F4914F6CDD1D) ^ 0x7654321);
    let mut seen: std::collections::HashSet<String> = std::collections::HashSet::new();
    let (mut tried, mut valid, mut inside) = (0u64, 0u64, 0u64);
    let mut why: BTreeMap<u32, (u64, String)> = BTreeMap::new();
    while tried < iters && !seeds.is_empty() {
        tried += 1;
        let (a0, i0) = &seeds[rng.below(seeds.len())];
        let (da, di) = &seeds[rng.below(seeds.len())];
        let mut a = a0.clone();
        let mut i = i0.clone();
        for _ in 0..1 + rng.below(3) {
            if rng.below(3) == 0 { a = mutate(a, da, &mut rng, 0); } else { i = mutate(i, di, &mut rng, 0); }
        }
        if rng.below(6) == 0 { i = respell(i, &mut rng); }
        if syn::parse2::<syn::Item>(i.clone()).is_err() { continue; }
        let (at, it) = (a.to_string().replace('\n', " "), i.to_string().replace('\n', " "));
        // only what survives printing and re-lexing is source text
        let (Ok(a2), Ok(i2)) = (TokenStream::from_str(&at), TokenStream::from_str(&it)) else { continue };
        valid += 1;
        if !seen.insert(format!("{at}\t{it}")) { continue; }
        let derive_form = rng.below(3) == 0;
        if derive_form {
            let whole = format!("# [ derive_ex ( {at} ) ] {it}");
            let Ok(w2) = TokenStream::from_str(&whole) else { continue };
            if syn::parse2::<syn::DeriveInput>(w2.clone()).is_err() { continue; }
            ser::WHY.with(|w| w.set(0));
            if let Some(si) = ser::item(w2) {
                inside += 1;
                println!("(case {} derive {} {si})", ser::q(&format!("mut/{seed}/{tried}")), ser::q(&whole));
            } else {
                let e = why.entry(ser::WHY.with(|w| w.get())).or_insert((0, whole.clone()));
                e.0 += 1;
            }
        } else {
            ser::WHY.with(|w| w.set(0));
            if let (Some(sa), Some(si)) = (ser::derive_ex_args(a2), ser::item(i2)) {
                inside += 1;
                println!("(case {} attr {} {} {sa} {si})", ser::q(&format!("mut/{seed}/{tried}")), ser::q(&at), ser::q(&it));
            } else {
                let e = why.entry(ser::WHY.with(|w| w.get())).or_insert((0, format!("{at} | {it}")));
                e.0 += 1;
            }
        }
    }
    eprintln!("mutants: tried {tried}, valid items {valid}, inside the model's fragment {inside}");
    if std::env::var("XCHECK_WHY").is_ok() {
        let mut v: Vec<_> = why.into_iter().collect();
        v.sort_by_key(|(_, (n, _))| std::cmp::Reverse(*n));
        for (line, (n, ex)) in v.into_iter().take(25) {
            eprintln!("outside: ser.rs:{line} x{n}  e.g. {}", ex.chars().take(260).collect::<String>());
        }
    }
}

fn main() {
    let args: Vec<String> = std::env::args().collect();
    if args.len() == 5 && args[1] == "mutants" {
        mutants(&args[2], args[3].parse().unwrap_or(1), args[4].parse().unwrap_or(1000));
        return;
    }
    if args.len() == 2 && args[1] == "tables" {
        tables();
        return;
    }
    if args.len() == 3 && args[1] == "raw" {
        // the raw text of the expansion of every case (one line per case), for a second opinion by rustc's parser
        std::panic::set_hook(Box::new(|_| {}));
        read_cases(&args[2], |c| match expand_real(&c) {
            Ok(ts) => println!("{}", ts.to_string().replace('\n', " ")),
            Err(e) => println!("<{e}>"),
        });
        return;
    }
    if args.len() == 3 && args[1] == "ser" {
        // corpus lines (`<args>\t<item>`) as S-expression cases for `drv ext`; what the model does not speak about is
        // counted on stderr
        let text = std::fs::read_to_string(&args[2]).unwrap_or_default();
        let (mut n, mut skipped) = (0u64, 0u64);
        for (k, line) in text.lines().enumerate() {
            let Some((a, i)) = line.split_once('\t') else { continue };
            let (Ok(at), Ok(it)) = (TokenStream::from_str(a), TokenStream::from_str(i)) else { continue };
            match ser::item(it.clone()).and_then(|si| ser::derive_ex_args(at.clone()).map(|sa| (sa, si))) {
                Some((sa, si)) => {
                    n += 1;
                    println!("(case {} attr {} {} {} {})", ser::q(&format!("ext/{k}")), ser::q(a), ser::q(i), sa, si);
                }
                None => skipped += 1,
            }
        }
        eprintln!("ser: {n} cases, {skipped} outside the model's fragment");
        return;
    }
    if args.len() >= 3 && args[1] == "corpus" {
        corpus(&args[2..]);
        return;
    }
    if args.len() == 6 && args[1] == "fuzz" {
        fuzz(&args[2], args[3].parse().unwrap_or(1), args[4].parse().unwrap_or(1000), &args[5]);
        return;
    }
    if args.len() < 3 {
        eprintln!("usage: xcheck l1|expand <casefile|-> [out.jsonl]");
        std::process::exit(2);
    }
    // the real expander must not print panics to stderr for every case
    std::panic::set_hook(Box::new(|_| {}));
    let mode = args[1].as_str();
    let out: Box<dyn Write> = if args.len() > 3 {
        Box::new(std::io::BufWriter::new(std::fs::File::create(&args[3]).unwrap()))
    } else {
        Box::new(std::io::BufWriter::new(std::io::stdout()))
    };
    let mut out = out;
    let mut n_cases = 0u64;
    let mut n_segs = 0u64;
    let mut n_bad_cases = 0u64;
    let mut by_label: BTreeMap<String, (u64, u64)> = BTreeMap::new(); // label -> (compared, mismatched)
    let mut kinds: BTreeMap<String, u64> = BTreeMap::new();
    let mut tags: BTreeMap<String, u64> = BTreeMap::new();
    let mut errmsgs: BTreeMap<String, u64> = BTreeMap::new();
    // the first cases of the stream are expanded once more after all the others: an expander that carries state from
    // one expansion to the next (a cache, a counter) answers differently then
    let mut early: Vec<(Case, String)> = Vec::new();
    read_cases(&args[2], |c| {
        n_cases += 1;
        for t in &c.tags {
            *tags.entry(t.clone()).or_default() += 1;
        }
        let r1 = expand_real(&c);
        let r2 = expand_real(&c);
        if early.len() < 24 {
            if let Ok(a) = &r1 {
                early.push((c.clone(), a.to_string()));
            }
        }
        let mut mism: Vec<String> = Vec::new();
        let mut push = |seg: i64, label: &str, kind: &str, model: &str, real: &str| {
            mism.push(format!(
                "{{\"seg\":{seg},\"label\":{},\"kind\":{},\"model\":{},\"real\":{}}}",
                esc(label),
                esc(kind),
                esc(model),
                esc(real)
            ));
        };
        let real_segs: Option<Vec<Seg>> = match (r1, r2) {
            (Err(e), _) | (_, Err(e)) => {
                push(-1, "*", "panic", "", &e);
                None
            }
            (Ok(a), Ok(b)) => {
                if a.to_string() != b.to_string() {
                    push(-1, "*", "nondet", "", &a.to_string());
                }
                let whole = flatten(a.clone());
                match split_real(a, &c.entry) {
                    Ok(mut s) => {
                        // cases from outside (L1c) may spell helper attribute names as raw identifiers / with a path
                        if c.id.starts_with("ext/") || c.id.starts_with("mut/") {
                            for seg in s.iter_mut() {
                                seg.toks = ser::norm_attr_spelling(&seg.toks);
                            }
                        }
                        Some(s)
                    }
                    Err(e) => {
                        if let Some(w) = e.strip_prefix("ROUNDTRIP\u{1}") {
                            push(-1, "*", "roundtrip", "", w);
                        } else {
                            // syn cannot split the output into items.  If it is token for token what the model emits
                            // (no error segments), the disagreement is only about well-formedness, on which rustc's own
                            // parser gets the last word (`parse-syn`: bin/check asks it); otherwise it is a plain `parse`.
                            if matches_model_loosely(&c.segs, &whole) {
                                push(-1, "*", "parse-syn", "", &e);
                            } else {
                                push(-1, "*", "parse", "", &e);
                            }
                        }
                        None
                    }
                }
            }
        };
        if mode == "expand" {
            let _ = writeln!(out, "CASE {}", c.id);
            if let Some(rs) = &real_segs {
                for s in rs {
                    match s.kind {
                        SegKind::T => {
                            let _ = writeln!(out, "SEG {} T\n{}", if s.label.is_empty() { "-" } else { &s.label }, s.toks);
                        }
                        SegKind::Dump => {
                            let _ = writeln!(out, "SEG {} DUMP\n{}", if s.label.is_empty() { "-" } else { &s.label }, s.toks);
                        }
                        SegKind::Err => {
                            let _ = writeln!(out, "SEG {} ERR {}", if s.label.is_empty() { "-" } else { &s.label }, esc(&s.msg));
                        }
                    }
                }
            } else {
                for m in &mism {
                    let _ = writeln!(out, "FAIL {m}");
                }
            }
            let _ = writeln!(out, "END");
            return;
        }
        if let Some(rs) = &real_segs {
            for s in rs {
                if s.kind == SegKind::Err {
                    let k: String = s.msg.chars().take(48).collect::<String>().replace('\n', " ");
                    *errmsgs.entry(k).or_default() += 1;
                }
            }
            if rs.len() != c.segs.len() {
                let ml: Vec<String> = c.segs.iter().map(|s| format!("{}:{:?}", s.label, s.kind)).collect();
                let rl: Vec<String> = rs.iter().map(|s| format!("{:?}", s.kind)).collect();
                push(-1, "*", "count", &ml.join(" "), &rl.join(" "));
            }
            for (i, (m, r)) in c.segs.iter().zip(rs.iter()).enumerate() {
                n_segs += 1;
                let e = by_label.entry(m.label.clone()).or_default();
                e.0 += 1;
                if m.kind != r.kind {
                    e.1 += 1;
                    push(i as i64, &m.label, "class", &format!("{:?}", m.kind), &format!("{:?} {}", r.kind, if r.kind == SegKind::Err { r.msg.clone() } else { r.toks.clone() }));
                } else if m.kind == SegKind::Err {
                    // C05: the error is reported *for the offending trait*: a message of the two documented misuse
                    // families names the trait of the entry it replaces (the wording itself is not compared)
                    if let Some(tr) = m.label.split(':').nth(1) {
                        let tr = tr.split('#').next().unwrap_or("");
                        let names_other = |pat_pre: &str, pat_post: &str| -> bool {
                            ["Ord", "PartialOrd", "Eq", "PartialEq", "Hash"].iter().any(|t| *t != tr && r.msg.contains(&format!("{pat_pre}{t}{pat_post}")))
                                && !r.msg.contains(&format!("{pat_pre}{tr}{pat_post}"))
                        };
                        if (r.msg.contains("the default implementation of") && names_other("the default implementation of `", "`"))
                            || (r.msg.starts_with("When `#[derive_ex(") && names_other("When `#[derive_ex(", ")]`"))
                        {
                            e.1 += 1;
                            push(i as i64, &m.label, "errtrait", tr, &r.msg);
                        }
                    }
                } else if m.toks != r.toks {
                    e.1 += 1;
                    let (at, a, b) = first_diff(&m.toks, &r.toks);
                    // does the impl header (generics, trait, self type, where-clause) differ, or only the body?
                    let hm = m.toks.split(" {").next().unwrap_or("");
                    let hr = r.toks.split(" {").next().unwrap_or("");
                    let kind = if hm != hr { "tokens" } else { "tokens-body" };
                    push(i as i64, &m.label, kind, &format!("@{at}: {a}"), &format!("@{at}: {b}"));
                }
            }
        } else {
            for s in &c.segs {
                let e = by_label.entry(s.label.clone()).or_default();
                e.0 += 1;
                e.1 += 1;
            }
        }
        if !mism.is_empty() {
            n_bad_cases += 1;
            for m in &mism {
                if let Some(k) = m.split("\"kind\":\"").nth(1) {
                    *kinds.entry(k.split('"').next().unwrap().to_string()).or_default() += 1;
                }
            }
            let _ = writeln!(
                out,
                "{{\"id\":{},\"entry\":{},\"args\":{},\"item\":{},\"mismatches\":[{}]}}",
                esc(&c.id),
                esc(&c.entry),
                esc(&c.args),
                esc(&c.item),
                mism.join(",")
            );
        }
    });
    if mode == "expand" {
        return;
    }
    for (c, first) in &early {
        let again = match expand_real(c) {
            Ok(t) => t.to_string(),
            Err(e) => e,
        };
        if &again != first {
            n_bad_cases += 1;
            *kinds.entry("nondet".into()).or_default() += 1;
            let _ = writeln!(
                out,
                "{{\"id\":{},\"entry\":{},\"args\":{},\"item\":{},\"mismatches\":[{{\"seg\":-1,\"label\":\"*\",\"kind\":\"nondet\",\"model\":{},\"real\":{}}}]}}",
                esc(&c.id),
                esc(&c.entry),
                esc(&c.args),
                esc(&c.item),
                esc(&format!("expanded again after {n_cases} other expansions in the same process; the first expansion was: {first}")),
                esc(&again)
            );
        }
    }
    let mut s = String::new();
    let _ = write!(s, "{{\"summary\":true,\"cases\":{n_cases},\"segments\":{n_segs},\"bad_cases\":{n_bad_cases},\"by_label\":{{");
    let mut first = true;
    for (k, (a, b)) in &by_label {
        if !first {
            s.push(',');
        }
        first = false;
        let _ = write!(s, "{}:[{a},{b}]", esc(k));
    }
    s.push_str("},\"mismatch_kinds\":{");
    first = true;
    for (k, v) in &kinds {
        if !first {
            s.push(',');
        }
        first = false;
        let _ = write!(s, "{}:{v}", esc(k));
    }
    s.push_str("},\"tags\":{");
    first = true;
    for (k, v) in &tags {
        if !first {
            s.push(',');
        }
        first = false;
        let _ = write!(s, "{}:{v}", esc(k));
    }
    s.push_str("},\"error_messages\":{");
    first = true;
    for (k, v) in &errmsgs {
        if !first {
            s.push(',');
        }
        first = false;
        let _ = write!(s, "{}:{v}", esc(k));
    }
    s.push_str("}}");
    let _ = writeln!(out, "{s}");
}
