import DeriveExModel.Gen
/-
L1c — cases that do not come from the model's own generators.

`xcheck ser` (harness/xcheck/src/ser.rs) parses Rust items — the items of the repository's test-suite and documentation,
and mutants of them — with syn and prints them as S-expressions in the shape of `Syntax.lean`; this file reads them back
into the model's `Item` / `Args`.  It is driver code (partial functions, no theorem mentions it).
-/
open DX

inductive SExp where
  | atom (s : String)          -- bare word
  | str (s : String)           -- quoted string
  | list (l : List SExp)
deriving Inhabited

namespace SExp

partial def parseList (cs : List Char) (acc : List SExp) : Option (List SExp × List Char) :=
  match cs with
  | [] => some (acc.reverse, [])
  | ')' :: rest => some (acc.reverse, rest)
  | '(' :: rest => do
    let (l, rest) ← parseList rest []
    parseList rest (.list l :: acc)
  | '"' :: rest =>
    let rec go (cs : List Char) (s : List Char) : Option (String × List Char) :=
      match cs with
      | [] => none
      | '\\' :: c :: rest => go rest (c :: s)
      | '"' :: rest => some (String.ofList s.reverse, rest)
      | c :: rest => go rest (c :: s)
    do
      let (s, rest) ← go rest []
      parseList rest (.str s :: acc)
  | c :: rest =>
    if c == ' ' || c == '\n' || c == '\t' then parseList rest acc
    else
      let w := (c :: rest).takeWhile fun c => !(c == ' ' || c == '(' || c == ')' || c == '"')
      parseList ((c :: rest).drop w.length) (.atom (String.ofList w) :: acc)

def parse (s : String) : Option SExp := do
  let (l, _) ← parseList s.toList []
  l.head?

end SExp

open SExp in
mutual
partial def toTy : SExp → Option Ty
  | .atom "never" => some .never
  | .list [.atom "path", g, s] => do pure (.path (← toB g) (← toSegs s))
  | .list [.atom "qpath", t, g, s1, s2] => do pure (.qpath (← toTy t) (← toB g) (← toSegs s1) (← toSegs s2))
  | .list [.atom "ref", l, m, t] => do pure (.ref (← toOptStr l) (← toB m) (← toTy t))
  | .list [.atom "ptr", m, t] => do pure (.ptr (← toB m) (← toTy t))
  | .list [.atom "slice", t] => do pure (.slice (← toTy t))
  | .list [.atom "array", t, e] => do pure (.array (← toTy t) (← toCExpr e))
  | .list (.atom "tuple" :: ts) => do pure (.tuple (← ts.mapM toTy))
  | .list [.atom "barefn", .list ins, r] => do pure (.bareFn (← ins.mapM toTy) (← toOptTy r))
  | .list [.atom "paren", t] => do pure (.paren (← toTy t))
  | .list [.atom "dyn", g, s, .list more] => do pure (.dynT (← toB g) (← toSegs s) (← more.mapM toToks))
  | .list [.atom "macro", t] => do pure (.macro (← toToks t))
  | .list [.atom "prefixed", p, t] => do pure (.prefixed (← toToks p) (← toTy t))
  | _ => none
partial def toOptTy : SExp → Option (Option Ty)
  | .atom "none" => some none
  | .list [.atom "some", t] => do pure (some (← toTy t))
  | _ => none
partial def toSegs : SExp → Option (List Seg)
  | .list (.atom "segs" :: ss) => ss.mapM toSeg
  | _ => none
partial def toSeg : SExp → Option Seg
  | .list (.atom "seg" :: .str i :: args) => do pure (.mk i (← args.mapM toGArg))
  | .list [.atom "fnseg", .str i, .list ins, r] => do pure (.fn i (← ins.mapM toTy) (← toOptTy r))
  | _ => none
partial def toGArg : SExp → Option GArg
  | .list [.atom "ty", t] => do pure (.ty (← toTy t))
  | .list [.atom "lt", .str s] => some (.lt s)
  | .list [.atom "lit", .str s] => some (.lit s)
  | .list [.atom "assoc", .str n, t] => do pure (.assoc n (← toTy t))
  | .list [.atom "cblock", e] => do pure (.cblock (← toCExpr e))
  | _ => none
partial def toCExpr : SExp → Option CExpr
  | .list [.atom "lit", .str s] => some (.lit s)
  | .list [.atom "ident", .str s] => some (.ident s)
  | _ => none
partial def toB : SExp → Option Bool
  | .atom "t" => some true
  | .atom "f" => some false
  | _ => none
partial def toOptStr : SExp → Option (Option String)
  | .atom "none" => some none
  | .list [.atom "some", .str s] => some (some s)
  | _ => none
partial def toToks : SExp → Option Toks
  | .list (.atom "toks" :: ts) => ts.mapM fun | .str s => some s | _ => none
  | _ => none
end

def toStrs : SExp → Option (List String)
  | .list ts => ts.mapM fun | .str s => some s | _ => none
  | _ => none

def toOpt {α} (f : SExp → Option α) : SExp → Option (Option α)
  | .atom "none" => some none
  | .list [.atom "some", x] => do pure (some (← f x))
  | _ => none

def toTBound : SExp → Option TBound
  | .list [.atom "lt", .str s] => some (.lt s)
  | .list [.atom "trait", q, lts, p] => do pure (.trait (← toB q) (← toStrs lts) (← toTy p))
  | _ => none
def toTBounds : SExp → Option (List TBound)
  | .list bs => bs.mapM toTBound
  | _ => none

def toWPred : SExp → Option WPred
  | .list [.atom "ty", lts, t, bs] => do pure (.ty (← toStrs lts) (← toTy t) (← toTBounds bs))
  | .list [.atom "lt", .str a, bs] => do pure (.lt a (← toStrs bs))
  | _ => none

def toGParam : SExp → Option GParam
  | .list [.atom "lt", .str n, bs] => do pure (.lt n (← toStrs bs))
  | .list [.atom "ty", .str n, bs, d] => do pure (.ty n (← toTBounds bs) (← toOpt toTy d))
  | .list [.atom "const", .str n, t, d] => do pure (.const_ n (← toTy t) (← toOpt toToks d))
  | _ => none

def toGenerics : SExp → Option Generics
  | .list [.atom "generics", .list ps, .list ws, tp, tw] => do
    pure { params := ← ps.mapM toGParam, wheres := ← ws.mapM toWPred, trailingParams := ← toB tp, trailingWhere := ← toB tw }
  | _ => none

def toBoundArg : SExp → Option BoundArg
  | .atom "dots" => some .dots
  | .list [.atom "ty", t] => do pure (.ty (← toTy t))
  | .list [.atom "pred", p] => do pure (.pred (← toWPred p))
  | .list [.atom "bad", t] => do pure (.bad (← toToks t))
  | _ => none
def toBound : SExp → Option (Option (List BoundArg)) :=
  toOpt fun | .list bs => bs.mapM toBoundArg | _ => none

def toDeriveItem : SExp → Option DeriveItem
  | .list [.atom "di", .str n, .atom "none"] => some { trait_ := n }
  | .list [.atom "di", .str n, .list [.atom "some", bd, d]] => do pure { trait_ := n, args := some (← toBound bd, ← toB d) }
  | _ => none

def toArgs : SExp → Option Args
  | .list [.atom "args", .list its, bd, d] => do
    pure { items := ← its.mapM toDeriveItem, bound := ← toBound bd, dump := ← toB d }
  | _ => none

def toClass : SExp → Option ExprClass
  | .atom "strlit" => some .strLit
  | .atom "path" => some .path
  | .atom "underscore" => some .underscore
  | .atom "blocklead" => some .blockLead
  | .atom "other" => some .other
  | _ => none

def toHBody {α} (f : SExp → Option α) : SExp → Option (HBody α)
  | .atom "path" => some .path
  | .list [.atom "nv", t] => do pure (.nameValue (← toToks t))
  | .list [.atom "list", a] => do pure (.list (← f a))
  | _ => none

def toCmpArgs : SExp → Option CmpArgs
  | .list [.atom "cmpargs", ig, rev, by_, key, kb, bd] => do
    pure { ignore := ← toB ig, reverse := ← toB rev, by_ := ← toOpt toToks by_, key := ← toOpt toToks key,
           keyBad := ← toB kb, bound := ← toBound bd }
  | _ => none
def toDebugArgs : SExp → Option DebugArgs
  | .list [.atom "debugargs", tr, ig, bd] => do pure { transparent := ← toB tr, ignore := ← toB ig, bound := ← toBound bd }
  | _ => none
def toDefaultArgs : SExp → Option DefaultArgs
  | .list [.atom "defaultargs", v, bd] => do
    let value ← match v with
      | .atom "none" => some none
      | .list [.atom "some", t, c] => do pure (some (← toToks t, ← toClass c))
      | _ => none
    pure { value, bound := ← toBound bd }
  | _ => none

def toCmpAttr : SExp → Option CmpAttr
  | .atom "ord" => some .ord | .atom "partial_ord" => some .partialOrd | .atom "eq" => some .eq
  | .atom "partial_eq" => some .partialEq | .atom "hash" => some .hash | _ => none

def toPlainAttr : SExp → Option Attr
  | .list [.atom "foreign", t] => do pure (.foreign (← toToks t))
  | .list [.atom "derive_ex", a] => do pure (.deriveEx (← toArgs a))
  | .list [.atom "cmp", w, b] => do pure (.cmp (← toCmpAttr w) (← toHBody toCmpArgs b))
  | .list [.atom "debug", b] => do pure (.debug (← toHBody toDebugArgs b))
  | .list [.atom "default", b] => do pure (.dflt (← toHBody toDefaultArgs b))
  | _ => none

/-- `(at <leading ::> (<segments as written>) <the tokens of the attribute> <the serialiser's reading of it, or nil>)`:
what the attribute *is* is decided here, by the model's `AttrPath.kind` (Props/AttrName.lean), not by the serialiser -/
def toAttr : SExp → Option Attr
  | .list [.atom "at", l, segs, raw, cand] => do
    let p : AttrPath := { leading := ← toB l, segs := ← toStrs segs }
    match p.kind with
    | none => pure (.foreign (← toToks raw))
    | some k => do
      let a ← toPlainAttr cand
      if a.kind? == some k then pure a else none
  | .list [.atom "foreign", t] => do pure (.foreign (← toToks t))
  | .list [.atom "derive_ex", a] => do pure (.deriveEx (← toArgs a))
  | .list [.atom "cmp", w, b] => do pure (.cmp (← toCmpAttr w) (← toHBody toCmpArgs b))
  | .list [.atom "debug", b] => do pure (.debug (← toHBody toDebugArgs b))
  | .list [.atom "default", b] => do pure (.dflt (← toHBody toDefaultArgs b))
  | _ => none
def toAttrs : SExp → Option (List Attr)
  | .list as => as.mapM toAttr
  | _ => none

def toField : SExp → Option Field
  | .list [.atom "field", as, vis, n, t] => do
    pure { attrs := ← toAttrs as, vis := ← toToks vis, name := ← toOptStr n, ty := ← toTy t }
  | _ => none

def toFields : SExp → Option Fields
  | .list (.atom "fields" :: .atom k :: tr :: fs) => do
    let kind ← match k with | "named" => some FieldsKind.named | "unnamed" => some .unnamed | "unit" => some .unit | _ => none
    pure { kind, fields := ← fs.mapM toField, trailing := ← toB tr }
  | _ => none

def toVariant : SExp → Option Variant
  | .list [.atom "variant", as, .str n, fs, d] => do
    pure { attrs := ← toAttrs as, name := n, fields := ← toFields fs, discr := ← toOpt toToks d }
  | _ => none

def toMember : SExp → Option ImplMember
  | .list [.atom "output", t] => do pure (.output (← toTy t))
  | .list [.atom "other", t] => do pure (.other (← toToks t))
  | _ => none

def toItem : SExp → Option Item
  | .list [.atom "struct", as, vis, .str n, g, fs] => do
    pure (.struct_ { attrs := ← toAttrs as, vis := ← toToks vis, name := n, generics := ← toGenerics g, fields := ← toFields fs })
  | .list [.atom "enum", as, vis, .str n, g, .list vs, tr] => do
    pure (.enum_ { attrs := ← toAttrs as, vis := ← toToks vis, name := n, generics := ← toGenerics g, variants := ← vs.mapM toVariant,
                   trailing := ← toB tr })
  | .list [.atom "impl", as, g, tr, t, .list ms] => do
    let (neg, trait_) ← match tr with
      | .atom "none" => some (false, none)
      | .list [.atom "some", n, gl, s] => do pure (← toB n, some (← toB gl, ← toSegs s))
      | _ => none
    pure (.impl_ { attrs := ← toAttrs as, generics := ← toGenerics g, neg, trait_, selfTy := ← toTy t, members := ← ms.mapM toMember })
  | _ => none

/-- `(case "id" attr "args text" "item text" ARGS ITEM)` / `(case "id" derive "item text" ITEM)`:
the case, and the original texts the real expander is to be given -/
def toExtCase : SExp → Option (Case × Option String × String)
  | .list [.atom "case", .str id, .atom "attr", .str atext, .str itext, a, it] => do
    pure ({ id, entry := .attr (← toArgs a), item := ← toItem it }, some atext, itext)
  | .list [.atom "case", .str id, .atom "derive", .str itext, it] => do
    pure ({ id, entry := .derive, item := ← toItem it }, none, itext)
  | _ => none
