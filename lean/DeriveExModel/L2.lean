import DeriveExModel.Gen
import DeriveExModel.Sem.Cmp
import DeriveExModel.Sem.Basic
/-
L2: programs compiled against the real proc-macro and run; the expected output
is computed by the model's semantics (`Sem`) on the model's expansion, under a
concrete environment whose Rust twin is the prelude below.  The pool type `W`
has four deliberately unrelated (and unlawful) impls and every `key` / `by`
function is different and asymmetric, so that *which* comparator ran, on which
operand order, is visible in the output.
-/
namespace DX

def l2Prelude : String := "#![allow(dead_code, unused_imports, unused_variables, unused_mut, non_snake_case, non_camel_case_types)]
use derive_ex::{derive_ex, Ex};
use std::cmp::Ordering;
use std::hash::{Hash, Hasher};
#[derive(Clone, Copy, Debug)]
pub struct W(pub u8);
impl PartialEq for W { fn eq(&self, o: &W) -> bool { self.0 == o.0 } }
impl Eq for W {}
impl PartialOrd for W { fn partial_cmp(&self, o: &W) -> Option<Ordering> { if self.0 == 2 || o.0 == 2 { None } else { Some(self.0.cmp(&o.0)) } } }
impl Ord for W { fn cmp(&self, o: &W) -> Ordering { o.0.cmp(&self.0) } }
impl Hash for W { fn hash<H: Hasher>(&self, h: &mut H) { h.write_u8(self.0 + 10) } }
pub fn k_ord(x: &W) -> u8 { (x.0 + 1) % 3 }
pub fn k_partial_ord(x: &W) -> u8 { x.0 % 2 }
pub fn k_eq(x: &W) -> u8 { x.0 / 2 }
pub fn k_partial_eq(x: &W) -> u8 { (x.0 * 2) % 3 }
pub fn k_hash(x: &W) -> u8 { 2 - x.0 }
pub fn by_ord(a: &W, b: &W) -> Ordering { (a.0 % 2).cmp(&(b.0 / 2)) }
pub fn by_partial_ord(a: &W, b: &W) -> Option<Ordering> { if a.0 == 0 && b.0 != 0 { None } else { Some(a.0.cmp(&b.0)) } }
pub fn by_eq(a: &W, b: &W) -> bool { (a.0 + 2 * b.0) % 3 != 1 }
pub fn by_partial_eq(a: &W, b: &W) -> bool { a.0 <= b.0 }
pub fn by_hash<H: Hasher>(a: &W, h: &mut H) { h.write_u8(a.0 * 7) }
pub struct Rec(pub Vec<String>);
impl Hasher for Rec {
    fn finish(&self) -> u64 { 0 }
    fn write(&mut self, b: &[u8]) { self.0.push(format!(\"b{:?}\", b)) }
    fn write_u8(&mut self, x: u8) { self.0.push(format!(\"u8:{}\", x)) }
}
pub fn oc(o: Option<Ordering>) -> char { match o { None => 'N', Some(Ordering::Less) => '<', Some(Ordering::Equal) => '=', Some(Ordering::Greater) => '>' } }
"

/-- prelude of the *lawful* environment (C02): a lawful field type and one consistent key `kk`;
every `by` function is the comparator that key induces -/
def l2PreludeLawful : String := "#![allow(dead_code, unused_imports, unused_variables, unused_mut, non_snake_case, non_camel_case_types)]
use derive_ex::{derive_ex, Ex};
use std::cmp::Ordering;
use std::hash::{Hash, Hasher};
#[derive(Clone, Copy, Debug, PartialEq, Eq, PartialOrd, Ord, Hash)]
pub struct W(pub u8);
/// a lawful *partial* order: `P(2)` is unordered and unequal to everything, itself included (like a NaN)
#[derive(Clone, Copy, Debug)]
pub struct P(pub u8);
impl PartialEq for P { fn eq(&self, o: &P) -> bool { self.0 != 2 && o.0 != 2 && self.0 == o.0 } }
impl PartialOrd for P { fn partial_cmp(&self, o: &P) -> Option<Ordering> { if self.0 == 2 || o.0 == 2 { None } else { Some(self.0.cmp(&o.0)) } } }
pub trait K0 { fn k0(&self) -> u8; }
impl K0 for W { fn k0(&self) -> u8 { self.0 } }
impl K0 for P { fn k0(&self) -> u8 { self.0 } }
pub fn kk<T: K0>(x: &T) -> u8 { x.k0() / 2 }
pub fn lb_ord<T: K0>(a: &T, b: &T) -> Ordering { kk(a).cmp(&kk(b)) }
pub fn lb_partial_ord<T: K0>(a: &T, b: &T) -> Option<Ordering> { Some(kk(a).cmp(&kk(b))) }
pub fn lb_eq<T: K0>(a: &T, b: &T) -> bool { kk(a) == kk(b) }
pub fn lb_partial_eq<T: K0>(a: &T, b: &T) -> bool { kk(a) == kk(b) }
pub fn lb_hash<T: K0, H: Hasher>(a: &T, h: &mut H) { kk(a).hash(h) }
pub struct Rec(pub Vec<String>);
impl Hasher for Rec {
    fn finish(&self) -> u64 { 0 }
    fn write(&mut self, b: &[u8]) { self.0.push(format!(\"b{:?}\", b)) }
    fn write_u8(&mut self, x: u8) { self.0.push(format!(\"u8:{}\", x)) }
}
pub fn oc(o: Option<Ordering>) -> char { match o { None => 'N', Some(Ordering::Less) => '<', Some(Ordering::Equal) => '=', Some(Ordering::Greater) => '>' } }
"

def lawKeyExpr (_ : CmpAttr) : Toks := ["kk", "(", "&", "$", ")"]
def lawByExpr (w : CmpAttr) : Toks := ["lb_" ++ w.name]

def lawSem : FieldSem Nat String where
  eq a b := a == b
  pcmp a b := some (compare a b)
  cmp a b := compare a b
  hash a := [s!"u8:{a}"]
  byEq _ a b := a / 2 == b / 2
  byPcmp _ a b := some (compare (a / 2) (b / 2))
  byCmp _ a b := compare (a / 2) (b / 2)
  byHash _ a := [s!"u8:{a / 2}"]
  keyEq _ a b := a / 2 == b / 2
  keyPcmp _ a b := some (compare (a / 2) (b / 2))
  keyCmp _ a b := compare (a / 2) (b / 2)
  keyHash _ a := [s!"u8:{a / 2}"]

/-- the lawful *partial* field type `P` of the prelude: the value 2 is unordered and unequal to everything -/
def lawSemP : FieldSem Nat String :=
  { lawSem with
    eq := fun a b => a != 2 && b != 2 && a == b
    pcmp := fun a b => if a == 2 || b == 2 then none else some (compare a b) }

/-! ### the Lean twin of the prelude -/

def keyVal (k : Toks) (x : Nat) : Nat :=
  if k == keyExpr .ord then (x + 1) % 3
  else if k == keyExpr .partialOrd then x % 2
  else if k == keyExpr .eq then x / 2
  else if k == keyExpr .partialEq then (x * 2) % 3
  else if k == keyExpr .hash then 2 - x
  else 99

def wSem : FieldSem Nat String where
  eq a b := a == b
  pcmp a b := if a == 2 || b == 2 then none else some (compare a b)
  cmp a b := compare b a
  hash a := [s!"u8:{a + 10}"]
  byEq e a b :=
    if e == byExpr .eq then (a + 2 * b) % 3 != 1
    else if e == byExpr .partialEq then a ≤ b
    else false
  byPcmp e a b := if a == 0 && b != 0 then none else some (compare a b)
  byCmp e a b := compare (a % 2) (b / 2)
  byHash e a := [s!"u8:{a * 7}"]
  keyEq k a b := keyVal k a == keyVal k b
  keyPcmp k a b := some (compare (keyVal k a) (keyVal k b))
  keyCmp k a b := compare (keyVal k a) (keyVal k b)
  keyHash k a := [s!"u8:{keyVal k a}"]

def ocChar : Option Ordering → Char
  | none => 'N' | some .lt => '<' | some .eq => '=' | some .gt => '>'

/-! ### values -/

/-- all tuples over `dom` of length `n`, first component slowest -/
def tuples (dom : List Nat) : Nat → List (List Nat)
  | 0 => [[]]
  | n + 1 => dom.flatMap fun d => (tuples dom n).map (d :: ·)

structure L2Val where
  variant : Nat
  fields : List Nat
  /-- Rust constructor expression -/
  expr : String

def L2Val.toVal (v : L2Val) : Val Nat := { variant := v.variant, field := fun i => v.fields.getD i 0 }

def ctorExpr (path : String) (fs : Fields) (vals : List Nat) : String :=
  let w (f : Field) (x : Nat) := s!"{srcText f.ty.toks}({x})"
  match fs.kind with
  | .unit => path
  | .unnamed => path ++ "(" ++ ", ".intercalate ((fs.fields.zip vals).map fun (f, x) => w f x) ++ ")"
  | .named => path ++ " { " ++ ", ".intercalate ((fs.fields.zip vals).map fun (f, x) => s!"{f.name.getD "_"}: {w f x}") ++ " }"

def valuesOf (item : Item) : List L2Val :=
  let dom (n : Nat) : List Nat := if n ≤ 2 then [0, 1, 2] else [0, 2]
  match item with
  | .struct_ s =>
    let n := s.fields.fields.length
    (tuples (dom n) n).map fun t => { variant := 0, fields := t, expr := ctorExpr s.name s.fields t }
  | .enum_ e =>
    e.variants.zipIdx.flatMap fun (v, i) =>
      let n := v.fields.fields.length
      (tuples (dom n) n).map fun t => { variant := i, fields := t, expr := ctorExpr (e.name ++ "::" ++ v.name) v.fields t }
  | _ => []

/-! ### one comparison case -/

/-- the structured comparison impls of a case, by trait -/
def cmpImplsOf (c : Case) : List (CmpOp × CmpImpl) :=
  let core := match c.entry, c.item with
    | .attr a, .struct_ s => (structCore (some a) s).result
    | .derive, .struct_ s => (structCore none s).result
    | .attr a, .enum_ e => (enumCore (some a) e).result
    | .derive, .enum_ e => (enumCore none e).result
    | _, _ => .error ()
  match core with
  | .error _ => []
  | .ok xs => xs.filterMap fun (_, o) =>
    match o with
    | .ok (.cmp ci) => some (ci.op, ci)
    | _ => none

def caseAccepted (c : Case) : Bool :=
  c.expand.all fun s => match s.body with | .toks _ => true | _ => false

def allW (n : Nat) (kind : FieldsKind) (attrs : Nat → List Attr) (tyName : String := "W") : Fields :=
  { kind, fields := (List.range n).map fun i =>
      { attrs := attrs i, name := if kind == .named then some (["a", "b", "c"].getD i "z") else none, ty := Ty.simple tyName } }

/-- does the item have a field of the partial type `P`? -/
def usesP (item : Item) : Bool :=
  let isP (f : Field) := f.ty.toks == ["P"]
  match item with
  | .struct_ s => s.fields.fields.any isP
  | .enum_ e => e.variants.any fun v => v.fields.fields.any isP
  | _ => false

/-- a random comparison item over `W` fields that the expander accepts -/
def genCmpRunCase (lawful : Bool) (seed idx : Nat) : Case := runGen seed idx do
  let mask ← pickW [(6, 31), (1, 15), (1, 8), (1, 10), (1, 12), (1, 16), (1, 2), (1, 1 + 2 + 8), (1, 4 + 8 + 16), (1, 3)]
  let traits := traitSubset mask
  let args := argsOfTraits traits
  let useDerive ← chance 1 3
  let isEnum ← chance 1 2
  -- only `PartialEq` / `PartialOrd` derived: the field type may be a lawful *partial* order
  let tyName ← if lawful && (mask == 8 || mask == 10 || mask == 2) && (← chance 2 3) then pure "P" else pure "W"
  let mkItem (attrsFor : Nat → Nat → List Attr) (shape : List (FieldsKind × Nat)) : Item :=
    if isEnum then
      .enum_ { attrs := if useDerive then [.deriveEx args] else [], name := "X",
               variants := shape.zipIdx.map fun ((k, n), vi) =>
                 { name := ["A", "B", "C"].getD vi "Z", fields := if k == .unit then { kind := .unit } else allW n k (attrsFor vi) tyName } }
    else
      let (k, n) := shape.headD (.unit, 0)
      .struct_ { attrs := if useDerive then [.deriveEx args] else [], name := "X",
                 fields := if k == .unit then { kind := .unit } else allW n k (attrsFor 0) tyName }
  let nv ← if isEnum then pickW [(1, 0), (2, 1), (4, 2), (3, 3)] else pure 1
  let shape ← listOf nv (do
    let k ← pickW [(3, FieldsKind.unnamed), (3, .named), (1, .unit)]
    let n ← pickW [(1, 0), (3, 1), (4, 2), (2, 3)]
    pure (k, if k == .unit then 0 else n))
  -- through the attribute macro, helper attributes of traits that are not derived are not
  -- consumed (rustc would reject them as unknown attributes): leave them out there
  let kinds := (Kinds.new true).extend (traits.filterMap fun t => (Kind.fromStr t).map fun k => { kind := k })
  let attrsOfCombo (combo : Nat) : List Attr :=
    (if lawful then cmpAttrsOfW lawKeyExpr lawByExpr combo else cmpAttrsOf combo).1.filter
      fun a => useDerive || kinds.isMatch a
  -- per field: draw attribute combinations until the expander (per the model) accepts the field
  -- for every derived trait
  let accepts (combo : Nat) : Bool :=
    caseAccepted { id := "", entry := .attr args,
                   item := .struct_ { name := "X", fields := allW 1 .unnamed fun _ => attrsOfCombo combo } }
  let rec draw (fuel : Nat) : Gen Nat := do
    let combo ← below 3136
    match fuel with
    | 0 => pure 0
    | fuel + 1 => if accepts combo then pure combo else draw fuel
  let combos ← listOf 12 (do
    if ← chance 1 4 then pure 0 else draw 60)
  let attrsFor (vi fi : Nat) : List Attr := attrsOfCombo (combos.getD (vi * 3 + fi) 0)
  let item := mkItem attrsFor shape
  pure { id := s!"{if lawful then "lawRun" else "cmpRun"}/{seed}/{idx}",
         tags := [s!"traits={"+".intercalate traits}", s!"enum={isEnum}", s!"field={tyName}"],
         entry := if useDerive then .derive else .attr args, item }

/-- hand-written (never observed) impls of the supertraits rustc demands and the case does not derive -/
def supertraitStubs (derived : List CmpOp) : String :=
  let has (t : CmpOp) := derived.contains t
  let needPo := has .ord && !has .partialOrd
  let needEq := has .ord && !has .eq
  let needPe := (has .ord || has .partialOrd || has .eq) && !has .partialEq
  (if needPe then "impl PartialEq for X { fn eq(&self, _: &Self) -> bool { unimplemented!() } }\n" else "") ++
  (if needEq then "impl Eq for X {}\n" else "") ++
  (if needPo then "impl PartialOrd for X { fn partial_cmp(&self, _: &Self) -> Option<Ordering> { unimplemented!() } }\n" else "")

def rustItem (c : Case) : String :=
  match c.entry with
  | .attr a => s!"#[derive_ex({srcText a.toks})]\n{srcText c.item.toks}"
  | .derive => s!"#[derive(Ex)]\n{srcText c.item.toks}"

/-- the Rust module for one case and the lines the model expects it to print -/
def cmpRunProgram (lawful : Bool) (c : Case) (modName : String) : String × List String :=
  let vals := valuesOf c.item
  let impls := cmpImplsOf c
  let has (t : CmpOp) := impls.any (·.1 == t)
  let σ : Env Nat String := fun _ => if lawful then (if usesP c.item then lawSemP else lawSem) else wSem
  let vs := vals.map L2Val.toVal
  let body :=
    s!"pub mod {modName} \{ use super::*;\n{rustItem c}\n{supertraitStubs (impls.map (·.1))}pub fn run() \{\n let vs: Vec<X> = vec![{", ".intercalate (vals.map (·.expr))}];\n" ++
    (if has .partialEq then s!" for a in &vs \{ let mut s = String::new(); for b in &vs \{ s.push(if a == b \{ '1' } else \{ '0' }); } println!(\"{modName} eq \{}\", s); }\n" else "") ++
    (if has .partialOrd then s!" for a in &vs \{ let mut s = String::new(); for b in &vs \{ s.push(oc(a.partial_cmp(b))); } println!(\"{modName} pcmp \{}\", s); }\n" else "") ++
    (if has .ord then s!" for a in &vs \{ let mut s = String::new(); for b in &vs \{ s.push(oc(Some(Ord::cmp(a, b)))); } println!(\"{modName} cmp \{}\", s); }\n" else "") ++
    (if has .hash then s!" for a in &vs \{ let mut h = Rec(Vec::new()); a.hash(&mut h); println!(\"{modName} hash \{}\", h.0.join(\",\")); }\n" else "") ++
    -- the values hashed as the elements of a slice: the derived impl does not touch `hash_slice`, so the feed is the
    -- concatenation of the elements' feeds
    (if has .hash then s!" \{ let mut h = Rec(Vec::new()); Hash::hash_slice(&vs[..], &mut h); println!(\"{modName} hslice \{}\", h.0.join(\",\")); }\n" else "") ++
    "}\n}\n"
  let find (t : CmpOp) : Option CmpImpl := (impls.find? (·.1 == t)).map (·.2)
  let exp : List String :=
    (match find .partialEq with
     | some ci => vs.map fun a => s!"{modName} eq {String.ofList (vs.map fun b => if evalEq ci σ a b then '1' else '0')}"
     | none => []) ++
    (match find .partialOrd with
     | some ci => vs.map fun a => s!"{modName} pcmp {String.ofList (vs.map fun b => ocChar (evalPartialCmp ci σ a b))}"
     | none => []) ++
    (match find .ord with
     | some ci => vs.map fun a => s!"{modName} cmp {String.ofList (vs.map fun b => ocChar (some (evalCmp ci σ a b)))}"
     | none => []) ++
    (match find .hash with
     | some ci => (vs.map fun a => s!"{modName} hash {",".intercalate (evalHash ci σ a)}") ++
                  [s!"{modName} hslice {",".intercalate (vs.flatMap fun a => evalHash ci σ a)}"]
     | none => [])
  (body, exp)

/-! ### directed probes: from an L1 disagreement on the exhaustive matrix to a compiled program -/

def singleFieldItemW (shape : Nat) (attrs : List Attr) (extra : List Attr) : Item :=
  let f (named : Bool) : Field := { attrs, name := if named then some "a" else none, ty := Ty.simple "W" }
  match shape with
  | 0 => .struct_ { attrs := extra, name := "X", fields := { kind := .unnamed, fields := [f false] } }
  | 1 => .struct_ { attrs := extra, name := "X", fields := { kind := .named, fields := [f true] } }
  | 2 => .enum_ { attrs := extra, name := "X", variants := [
            { name := "A", fields := { kind := .unit } },
            { name := "B", fields := { kind := .unnamed, fields := [f false] } }] }
  | _ => .enum_ { attrs := extra, name := "X", variants := [
            { name := "B", fields := { kind := .named, fields := [f true] } },
            { name := "A", fields := { kind := .unit } }] }

/-- the case `cmp1/<idx>` (same decoding as `cmp1Case`) over the field type `W` of the L2 prelude, with the
unlawful (C01 / C06) or the lawful (C02) `key` / `by` expressions -/
def probeCase (lawful : Bool) (masks : List Nat) (idx : Nat) : Case × List String :=
  let combo := idx % 3136
  let r := idx / 3136
  let shape := r % 4
  let r := r / 4
  let ep := r % 2
  let mask := masks.getD ((r / 2) % masks.length) 31
  let traits := traitSubset mask
  let args := argsOfTraits traits
  let kinds := (Kinds.new true).extend (traits.filterMap fun t => (Kind.fromStr t).map fun k => { kind := k })
  let attrs := (if lawful then cmpAttrsOfW lawKeyExpr lawByExpr combo else cmpAttrsOf combo).1.filter
    fun a => ep == 1 || kinds.isMatch a
  let c : Case := if ep == 0 then { id := s!"probe/{idx}", entry := .attr args, item := singleFieldItemW shape attrs [] }
    else { id := s!"probe/{idx}", entry := .derive, item := singleFieldItemW shape attrs [.deriveEx args] }
  (c, traits)

/-- like `cmpRunProgram`, but the loops follow the *requested* traits (the implementation decides what exists);
expectations only for the impls the model has -/
def probeProgram (lawful : Bool) (c : Case) (traits : List String) (modName : String) : String × List String :=
  let vals := valuesOf c.item
  let impls := cmpImplsOf c
  let ops : List CmpOp := CmpOp.all.filter fun t => traits.contains t.str
  let has (t : CmpOp) := ops.contains t
  let σ : Env Nat String := fun _ => if lawful then (if usesP c.item then lawSemP else lawSem) else wSem
  let vs := vals.map L2Val.toVal
  let body :=
    s!"pub mod {modName} \{ use super::*;\n{rustItem c}\n{supertraitStubs ops}pub fn run() \{\n let vs: Vec<X> = vec![{", ".intercalate (vals.map (·.expr))}];\n" ++
    (if has .partialEq then s!" for a in &vs \{ let mut s = String::new(); for b in &vs \{ s.push(if a == b \{ '1' } else \{ '0' }); } println!(\"{modName} eq \{}\", s); }\n" else "") ++
    (if has .partialOrd then s!" for a in &vs \{ let mut s = String::new(); for b in &vs \{ s.push(oc(a.partial_cmp(b))); } println!(\"{modName} pcmp \{}\", s); }\n" else "") ++
    (if has .ord then s!" for a in &vs \{ let mut s = String::new(); for b in &vs \{ s.push(oc(Some(Ord::cmp(a, b)))); } println!(\"{modName} cmp \{}\", s); }\n" else "") ++
    (if has .hash then s!" for a in &vs \{ let mut h = Rec(Vec::new()); a.hash(&mut h); println!(\"{modName} hash \{}\", h.0.join(\",\")); }\n" else "") ++
    -- the values hashed as the elements of a slice: the derived impl does not touch `hash_slice`, so the feed is the
    -- concatenation of the elements' feeds
    (if has .hash then s!" \{ let mut h = Rec(Vec::new()); Hash::hash_slice(&vs[..], &mut h); println!(\"{modName} hslice \{}\", h.0.join(\",\")); }\n" else "") ++
    "}\n}\n"
  let find (t : CmpOp) : Option CmpImpl := (impls.find? (·.1 == t)).map (·.2)
  let exp : List String :=
    (match find .partialEq with
     | some ci => vs.map fun a => s!"{modName} eq {String.ofList (vs.map fun b => if evalEq ci σ a b then '1' else '0')}"
     | none => []) ++
    (match find .partialOrd with
     | some ci => vs.map fun a => s!"{modName} pcmp {String.ofList (vs.map fun b => ocChar (evalPartialCmp ci σ a b))}"
     | none => []) ++
    (match find .ord with
     | some ci => vs.map fun a => s!"{modName} cmp {String.ofList (vs.map fun b => ocChar (some (evalCmp ci σ a b)))}"
     | none => []) ++
    (match find .hash with
     | some ci => (vs.map fun a => s!"{modName} hash {",".intercalate (evalHash ci σ a)}") ++
                  [s!"{modName} hslice {",".intercalate (vs.flatMap fun a => evalHash ci σ a)}"]
     | none => [])
  (body, exp)

/-- what a case exercises, for the evidence file -/
def cmpRunStats (c : Case) : List String :=
  let fields : List Field := match c.item with
    | .struct_ s => s.fields.fields
    | .enum_ e => e.variants.flatMap (·.fields.fields)
    | _ => []
  let cmpArgs : List CmpArgs := fields.flatMap fun f => f.attrs.filterMap fun
    | .cmp _ (.list a) => some a | _ => none
  [s!"fields={fields.length}", s!"attrs={min cmpArgs.length 6}"] ++
  (if usesP c.item then ["field=P (partial order)"] else []) ++
  (if cmpArgs.any (·.key.isSome) then ["uses=key"] else []) ++
  (if cmpArgs.any (·.by_.isSome) then ["uses=by"] else []) ++
  (if cmpArgs.any (·.reverse) then ["uses=reverse"] else []) ++
  (if cmpArgs.any (·.ignore) then ["uses=ignore"] else []) ++
  (if fields.any (fun f => (f.attrs.filter fun | .cmp _ _ => true | _ => false).length ≥ 2) then ["uses=two-attrs-on-one-field"] else []) ++
  c.tags

end DX

namespace DX

/-! ## Clone and operators: expected values and call traces from `Sem/Basic.lean` -/

def l2PreludeBasic : String := "#![allow(dead_code, unused_imports, unused_variables, unused_mut, non_snake_case, non_camel_case_types)]
use derive_ex::{derive_ex, Ex};
use std::cell::RefCell;
thread_local! { static LOG: RefCell<Vec<String>> = RefCell::new(Vec::new()); }
pub fn log(s: String) { LOG.with(|l| l.borrow_mut().push(s)); }
pub fn take() -> String { LOG.with(|l| std::mem::take(&mut *l.borrow_mut())).join(\";\") }
#[derive(Debug, PartialEq)]
pub struct R(pub u32);
impl Copy for R {}
impl Default for R { fn default() -> Self { R(0) } }
impl Clone for R {
    fn clone(&self) -> Self { log(format!(\"clone {}\", self.0)); R(self.0 + 1000) }
    fn clone_from(&mut self, s: &Self) { log(format!(\"clone_from {} {}\", self.0, s.0)); self.0 = s.0 + 2000; }
}
#[derive(Debug, Clone, PartialEq)]
pub struct M(pub String);
macro_rules! mono { ($($tr:ident $f:ident $tra:ident $fa:ident $sym:literal),*) => {$(
  impl std::ops::$tr<M> for M { type Output = M; fn $f(self, r: M) -> M { log(format!(\"{} oo {} {}\", stringify!($f), self.0, r.0)); M(format!(\"({}{}{})oo\", self.0, $sym, r.0)) } }
  impl<'a> std::ops::$tr<&'a M> for M { type Output = M; fn $f(self, r: &M) -> M { log(format!(\"{} or {} {}\", stringify!($f), self.0, r.0)); M(format!(\"({}{}{})or\", self.0, $sym, r.0)) } }
  impl<'a> std::ops::$tr<M> for &'a M { type Output = M; fn $f(self, r: M) -> M { log(format!(\"{} ro {} {}\", stringify!($f), self.0, r.0)); M(format!(\"({}{}{})ro\", self.0, $sym, r.0)) } }
  impl<'a, 'b> std::ops::$tr<&'b M> for &'a M { type Output = M; fn $f(self, r: &M) -> M { log(format!(\"{} rr {} {}\", stringify!($f), self.0, r.0)); M(format!(\"({}{}{})rr\", self.0, $sym, r.0)) } }
  impl std::ops::$tra<M> for M { fn $fa(&mut self, r: M) { log(format!(\"{} o {} {}\", stringify!($fa), self.0, r.0)); self.0 = format!(\"({}{}={})o\", self.0, $sym, r.0) } }
  impl<'a> std::ops::$tra<&'a M> for M { fn $fa(&mut self, r: &M) { log(format!(\"{} r {} {}\", stringify!($fa), self.0, r.0)); self.0 = format!(\"({}{}={})r\", self.0, $sym, r.0) } }
)*}}
mono!(Add add AddAssign add_assign \"+\", BitAnd bitand BitAndAssign bitand_assign \"&\", BitOr bitor BitOrAssign bitor_assign \"|\",
      BitXor bitxor BitXorAssign bitxor_assign \"^\", Div div DivAssign div_assign \"/\", Mul mul MulAssign mul_assign \"*\",
      Rem rem RemAssign rem_assign \"%\", Shl shl ShlAssign shl_assign \"<<\", Shr shr ShrAssign shr_assign \">>\", Sub sub SubAssign sub_assign \"-\");
/// like `M`, with a lifetime parameter (operators derived for types that declare lifetimes)
#[derive(Debug, Clone, PartialEq)]
pub struct ML<'l>(pub String, pub std::marker::PhantomData<&'l ()>);
pub fn ml<'l>(s: String) -> ML<'l> { ML(s, std::marker::PhantomData) }
macro_rules! monol { ($($tr:ident $f:ident $tra:ident $fa:ident $sym:literal),*) => {$(
  impl<'l> std::ops::$tr<ML<'l>> for ML<'l> { type Output = ML<'l>; fn $f(self, r: ML<'l>) -> ML<'l> { log(format!(\"{} oo {} {}\", stringify!($f), self.0, r.0)); ml(format!(\"({}{}{})oo\", self.0, $sym, r.0)) } }
  impl<'l, 'a> std::ops::$tr<&'a ML<'l>> for ML<'l> { type Output = ML<'l>; fn $f(self, r: &ML<'l>) -> ML<'l> { log(format!(\"{} or {} {}\", stringify!($f), self.0, r.0)); ml(format!(\"({}{}{})or\", self.0, $sym, r.0)) } }
  impl<'l, 'a> std::ops::$tr<ML<'l>> for &'a ML<'l> { type Output = ML<'l>; fn $f(self, r: ML<'l>) -> ML<'l> { log(format!(\"{} ro {} {}\", stringify!($f), self.0, r.0)); ml(format!(\"({}{}{})ro\", self.0, $sym, r.0)) } }
  impl<'l, 'a, 'b> std::ops::$tr<&'b ML<'l>> for &'a ML<'l> { type Output = ML<'l>; fn $f(self, r: &ML<'l>) -> ML<'l> { log(format!(\"{} rr {} {}\", stringify!($f), self.0, r.0)); ml(format!(\"({}{}{})rr\", self.0, $sym, r.0)) } }
  impl<'l> std::ops::$tra<ML<'l>> for ML<'l> { fn $fa(&mut self, r: ML<'l>) { log(format!(\"{} o {} {}\", stringify!($fa), self.0, r.0)); self.0 = format!(\"({}{}={})o\", self.0, $sym, r.0) } }
  impl<'l, 'a> std::ops::$tra<&'a ML<'l>> for ML<'l> { fn $fa(&mut self, r: &ML<'l>) { log(format!(\"{} r {} {}\", stringify!($fa), self.0, r.0)); self.0 = format!(\"({}{}={})r\", self.0, $sym, r.0) } }
)*}}
monol!(Add add AddAssign add_assign \"+\", BitAnd bitand BitAndAssign bitand_assign \"&\", BitOr bitor BitOrAssign bitor_assign \"|\",
      BitXor bitxor BitXorAssign bitxor_assign \"^\", Div div DivAssign div_assign \"/\", Mul mul MulAssign mul_assign \"*\",
      Rem rem RemAssign rem_assign \"%\", Shl shl ShlAssign shl_assign \"<<\", Shr shr ShrAssign shr_assign \">>\", Sub sub SubAssign sub_assign \"-\");
impl<'l> std::ops::Neg for ML<'l> { type Output = ML<'l>; fn neg(self) -> ML<'l> { log(format!(\"neg o {}\", self.0)); ml(format!(\"-o{}\", self.0)) } }
impl<'l, 'a> std::ops::Neg for &'a ML<'l> { type Output = ML<'l>; fn neg(self) -> ML<'l> { log(format!(\"neg r {}\", self.0)); ml(format!(\"-r{}\", self.0)) } }
impl<'l> std::ops::Not for ML<'l> { type Output = ML<'l>; fn not(self) -> ML<'l> { log(format!(\"not o {}\", self.0)); ml(format!(\"!o{}\", self.0)) } }
impl<'l, 'a> std::ops::Not for &'a ML<'l> { type Output = ML<'l>; fn not(self) -> ML<'l> { log(format!(\"not r {}\", self.0)); ml(format!(\"!r{}\", self.0)) } }
impl std::ops::Neg for M { type Output = M; fn neg(self) -> M { log(format!(\"neg o {}\", self.0)); M(format!(\"-o{}\", self.0)) } }
impl<'a> std::ops::Neg for &'a M { type Output = M; fn neg(self) -> M { log(format!(\"neg r {}\", self.0)); M(format!(\"-r{}\", self.0)) } }
impl std::ops::Not for M { type Output = M; fn not(self) -> M { log(format!(\"not o {}\", self.0)); M(format!(\"!o{}\", self.0)) } }
impl<'a> std::ops::Not for &'a M { type Output = M; fn not(self) -> M { log(format!(\"not r {}\", self.0)); M(format!(\"!r{}\", self.0)) } }
"

def BinOp.sym : BinOp → String
  | .add => "+" | .bitAnd => "&" | .bitOr => "|" | .bitXor => "^" | .div => "/" | .mul => "*" | .rem => "%"
  | .shl => "<<" | .shr => ">>" | .sub => "-"

def refCh (b : Bool) : String := if b then "r" else "o"

/-- Lean twin of `R` -/
def rCloneSem : CloneSem Nat := { clone := fun _ x => x + 1000, cloneFrom := fun _ _ s => s + 2000 }

/-- Lean twin of `M` for one operator kind -/
def mOpSem (kind : Kind) : OpSem String :=
  { bin := fun _ l r x y => match kind with
      | .bin o => s!"({x}{o.sym}{y}){refCh l}{refCh r}"
      | _ => ""
    assign := fun _ r x y => match kind with
      | .assign o => s!"({x}{o.sym}={y}){refCh r}"
      | _ => ""
    un := fun _ l x => match kind with
      | .un .neg => s!"-{refCh l}{x}"
      | .un .not => s!"!{refCh l}{x}"
      | _ => "" }

def shapeFields (item : Item) (variant : Nat) : Fields :=
  match item with
  | .struct_ s => s.fields
  | .enum_ e => (e.variants.getD variant default).fields
  | _ => { kind := .unit }

/-- Rust constructor of a value whose fields are given as Rust expressions -/
def ctorWith (item : Item) (variant : Nat) (vals : List String) : String :=
  let path := match item with
    | .struct_ s => s.name
    | .enum_ e => e.name ++ "::" ++ (e.variants.getD variant default).name
    | _ => ""
  let fs := shapeFields item variant
  match fs.kind with
  | .unit => path
  | .unnamed => path ++ "(" ++ ", ".intercalate vals ++ ")"
  | .named => path ++ " { " ++ ", ".intercalate ((fs.fields.zip vals).map fun (p : Field × String) => s!"{p.1.name.getD "_"}: {p.2}") ++ " }"

/-- `fn show(x: &X) -> String`: variant index and field values -/
def showFn (item : Item) (fieldFmt : String) (inst : String := "R") : String :=
  let arm (path : String) (fs : Fields) (i : Nat) : String :=
    let n := fs.fields.length
    let binds := (List.range n).map fun k => s!"f{k}"
    let pat := match fs.kind with
      | .unit => path
      | .unnamed => path ++ "(" ++ ", ".intercalate binds ++ ")"
      | .named => path ++ " { " ++ ", ".intercalate ((fs.fields.zip binds).map fun (p : Field × String) => s!"{p.1.name.getD "_"}: {p.2}") ++ " }"
    let parts := binds.map fun b => fieldFmt.replace "@" b
    s!"{pat} => format!(\"v{i}:[{",".intercalate (binds.map fun _ => "{}")}]\"{"".intercalate (parts.map fun p => ", " ++ p)}),"
  let arms := match item with
    | .struct_ s => [arm s.name s.fields 0]
    | .enum_ e => e.variants.zipIdx.map fun (v, i) => arm (e.name ++ "::" ++ v.name) v.fields i
    | _ => []
  let body := match item with
    | .enum_ e => if e.variants.isEmpty then "match *x {}" else "match x { " ++ " ".intercalate arms ++ " }"
    | _ => "match x { " ++ " ".intercalate arms ++ " }"
  let params := match item with
    | .struct_ st => st.generics.params
    | .enum_ e => e.generics.params
    | _ => []
  let args := params.map fun | .lt _ _ => "'static" | _ => inst
  s!"pub fn show(x: &X{if args.isEmpty then "" else "<" ++ ", ".intercalate args ++ ">"}) -> String \{ {body} }\n"

def showVal {V} [ToString V] (item : Item) (v : Val V) : String :=
  let n := (shapeFields item v.variant).fields.length
  s!"v{v.variant}:[{",".intercalate ((List.range n).map fun i => toString (v.field i))}]"

/-- a random Clone item over `R` fields: alone or next to `Copy` (one list or split), with `bound(..)` arguments on
fields and variants (they change the where-clause only: never the calls), concrete or generic over the field type -/
def genCloneRunCase (seed idx : Nat) : Case := runGen seed idx do
  let isEnum ← chance 3 5
  let useDerive ← chance 1 3
  let generic ← chance 1 4
  let withCopy ← pickW [(5, 0), (1, 1), (1, 2), (1, 3)]
  let items : List DeriveItem := match withCopy with
    | 1 => [{ trait_ := "Copy" }, { trait_ := "Clone" }]
    | 2 | 3 => [{ trait_ := "Clone" }, { trait_ := "Copy" }]
    | _ => [{ trait_ := "Clone" }]
  -- another trait derived alongside, with helper attributes of its own on the fields (they must not leak into `clone`)
  let withDefault ← if generic then pure 0 else pickW [(4, 0), (1, 1), (1, 2), (1, 3)]
  let items := match withDefault with
    | 1 => items ++ [{ trait_ := "Default" }]
    | 2 => { trait_ := "Default" } :: items
    | _ => items
  let args : Args := { items := if withCopy == 3 then items.take 1 else items }
  let extra : List Attr := (if withCopy == 3 then [.deriveEx { items := items.drop 1 }] else []) ++
    (if withDefault == 3 then [.deriveEx { items := [{ trait_ := "Default" }] }] else [])
  let fty : Ty := if generic then tyT else Ty.simple "R"
  let boundAttr : Gen (List Attr) := do
    let rClone : BoundArg := .pred (.ty [] (Ty.simple "R") [.trait false [] (Ty.simple "Clone")])
    -- over a generic field type a bound that stops resolution has to supply `T: Clone` itself
    let b ← if generic then
        pickW [(8, (none : Option (List BoundArg))), (1, some [.ty tyT]), (1, some [.dots]),
               (1, some [.pred (.ty [] tyT [.trait false [] (Ty.simple "Clone")]), rClone]), (1, some [rClone, .dots])]
      else
        pickW [(8, (none : Option (List BoundArg))), (1, some []), (1, some [.dots]), (1, some [rClone])]
    match b with
    | none => pure []
    | some b =>
      if ← chance 1 2 then pure [.deriveEx { items := [{ trait_ := "Clone", args := some (some b, false) }] }]
      else pure [.deriveEx { items := [{ trait_ := "Clone" }], bound := some b }]
  let rF (n : Nat) (kind : FieldsKind) : Gen Fields := do
    let fs ← (List.range n).mapM fun i => do
      let attrs ← boundAttr
      let attrs ← if withDefault != 0 && (← chance 1 2) then
          pure (attrs ++ [.dflt (.list { value := some (["R", "(", toString (7 + i), ")"], .other) })])
        else pure attrs
      let ty ← if generic && (← chance 1 3) then pure (Ty.simple "R") else pure fty
      pure ({ attrs, name := if kind == .named then some (["a", "b", "c", "d"].getD i "z") else none, ty } : Field)
    pure { kind, fields := fs }
  let generics : Generics := if generic then { params := [.ty "T" [] none] } else {}
  let attrs := (if useDerive then [Attr.deriveEx args] else []) ++ extra
  let item ← (do
    if isEnum then
      let nv ← pickW [(1, 1), (3, 2), (3, 3), (2, 4)]
      let vs ← (List.range nv).mapM fun i => do
        let k ← pickW [(2, FieldsKind.unit), (3, .unnamed), (3, .named)]
        let n ← if k == .unit then pure 0 else pickW [(1, 0), (3, 1), (3, 2), (2, 3)]
        let vattrs ← boundAttr
        let vattrs := if withDefault != 0 && i == 0 then vattrs ++ [.dflt .path] else vattrs
        let fields ← if k == .unit then pure { kind := .unit } else rF n k
        pure ({ attrs := vattrs, name := ["A", "B", "C", "D"].getD i "Z", fields } : Variant)
      pure (Item.enum_ { attrs, name := "X", generics, variants := vs })
    else
      let k ← pickW [(1, FieldsKind.unit), (3, .unnamed), (3, .named)]
      let n ← if k == .unit then pure 0 else pickW [(1, 0), (2, 1), (3, 2), (2, 3), (1, 4)]
      let fields ← if k == .unit then pure { kind := .unit } else rF n k
      pure (Item.struct_ { attrs, name := "X", generics, fields }))
  -- a parameter no field mentions would be rejected by rustc (E0392): drop it
  let usesT : Bool := match item with
    | .struct_ st => st.fields.fields.any (·.ty.toks == tyT.toks)
    | .enum_ e => e.variants.any fun v => v.fields.fields.any (·.ty.toks == tyT.toks)
    | _ => false
  let item := if generic && !usesT then
      -- … together with the `bound(..)` arguments that mention it
      let noB (fs : Fields) : Fields := { fs with fields := fs.fields.map fun f => { f with attrs := [] } }
      (match item with
       | .struct_ st => Item.struct_ { st with generics := {}, fields := noB st.fields }
       | .enum_ e => Item.enum_ { e with generics := {}, variants := e.variants.map fun v => { v with attrs := [], fields := noB v.fields } }
       | x => x)
    else item
  let generic := generic && usesT
  pure { id := s!"cloneRun/{seed}/{idx}",
         tags := [s!"enum={isEnum}", s!"copy={withCopy}", s!"generic={generic}", s!"default-alongside={withDefault}"],
         entry := if useDerive then .derive else .attr args, item }

def genImplOf (c : Case) : Option GenImpl :=
  let core := match c.entry, c.item with
    | .attr a, .struct_ s => (structCore (some a) s).result
    | .derive, .struct_ s => (structCore none s).result
    | .attr a, .enum_ e => (enumCore (some a) e).result
    | .derive, .enum_ e => (enumCore none e).result
    | _, _ => .error ()
  match core with
  | .ok ((_, .ok g) :: _) => some g
  | _ => none

def allGenImpls (c : Case) : List GenImpl :=
  let core := match c.entry, c.item with
    | .attr a, .struct_ s => (structCore (some a) s).result
    | .derive, .struct_ s => (structCore none s).result
    | .attr a, .enum_ e => (enumCore (some a) e).result
    | .derive, .enum_ e => (enumCore none e).result
    | _, _ => .error ()
  match core with
  | .ok xs => xs.filterMap fun (_, o) => match o with | .ok g => some g | _ => none
  | _ => []

def cloneEvStr (dst src : Val Nat) : CloneEv → Option String
  | .clone i => some s!"clone {src.field i}"
  | .cloneFrom i => some s!"clone_from {dst.field i} {src.field i}"
  | .cloneWhole => none

def cloneImplOf (c : Case) : Option CloneImpl :=
  (allGenImpls c).findSome? fun | .clone ci => some ci | _ => none

def cloneRunProgram (c : Case) (modName : String) : String × List String :=
  match cloneImplOf c with
  | some ci =>
    let nv := match c.item with | .enum_ e => e.variants.length | _ => 1
    -- two values per variant, all fields distinguishable
    let vals : List (Nat × List Nat) := (List.range nv).flatMap fun v =>
      let n := (shapeFields c.item v).fields.length
      [0, 1].map fun k => (v, (List.range n).map fun i => 100 * v + 10 * k + i + 1)
    let toVal (p : Nat × List Nat) : Val Nat := { variant := p.1, field := fun i => p.2.getD i 0 }
    let ctor (p : Nat × List Nat) := ctorWith c.item p.1 (p.2.map fun x => s!"R({x})")
    let body :=
      s!"pub mod {modName} \{ use super::*;\n#[derive(Debug, PartialEq)] {rustItem c}\n{showFn c.item "@.0"}pub type XT = X{if c.tags.contains "generic=true" then "<R>" else ""};\npub fn run() \{\n" ++
      (String.join (vals.map fun p =>
        s!" \{ let a: XT = {ctor p}; take(); let z = a.clone(); let lg = take(); println!(\"{modName} clone \{} | \{} | src \{}\", show(&z), lg, show(&a)); }\n")) ++
      (String.join (vals.flatMap fun p => vals.map fun q =>
        s!" \{ let mut a: XT = {ctor p}; let b: XT = {ctor q}; take(); a.clone_from(&b); let lg = take(); println!(\"{modName} clone_from \{} | \{} | src \{}\", show(&a), lg, show(&b)); }\n")) ++
      "}\n}\n"
    let exp :=
      (vals.map fun p =>
        let a := toVal p
        let (z, tr) := evalClone ci rCloneSem a
        s!"{modName} clone {showVal c.item z} | {";".intercalate (tr.filterMap (cloneEvStr a a))} | src {showVal c.item a}") ++
      (vals.flatMap fun p => vals.map fun q =>
        let a := toVal p
        let b := toVal q
        let (z, tr) := evalCloneFrom ci rCloneSem a b
        s!"{modName} clone_from {showVal c.item z} | {";".intercalate (tr.filterMap (cloneEvStr a b))} | src {showVal c.item b}")
    (body, exp)
  | none => ("", [])

/-- a random operator item: a struct over `M` fields, concrete or generic over the field type, with `bound(..)`
arguments on fields (they change the where-clauses only: never the calls) -/
def genOpsRunCase (seed idx : Nat) : Case := runGen seed idx do
  let useDerive ← chance 1 3
  let k ← pickW [(1, FieldsKind.unit), (3, .unnamed), (3, .named)]
  let n ← if k == .unit then pure 0 else pickW [(1, 0), (2, 1), (3, 2), (2, 3), (1, 4)]
  let nops ← pickW [(2, 1), (2, 2), (1, 3)]
  let ops ← listOf nops (pick BinOp.all)
  let ops := ops.eraseDups
  let withAssign ← ops.mapM fun _ => chance 3 5
  let un ← pickW [(2, ([] : List String)), (1, ["Neg"]), (1, ["Not"]), (1, ["Not", "Neg"])]
  -- the order in which the traits are listed is free: `SubAssign` before `Sub`, unary ones in between
  let assignFirst ← ops.mapM fun _ => chance 1 3
  let traits := ((ops.zip withAssign).zip assignFirst).flatMap (fun ((o, a), sw) =>
    if a then (if sw then [o.str ++ "Assign", o.str] else [o.str, o.str ++ "Assign"]) else [o.str]) ++ un
  let traits ← if ← chance 1 4 then pure traits.reverse else pure traits
  let args := argsOfTraits traits
  let generic ← chance 1 3
  let tys ← (List.range n).mapM fun _ => do
    if generic && (← chance 2 3) then pure tyT else pure (Ty.simple "M")
  let generic := generic && tys.any (·.toks == tyT.toks)
  let tys := if generic then tys else tys.map fun _ => Ty.simple "M"
  -- a lifetime parameter named like the one the generated higher-ranked bounds use in other derives (`'a`)
  let tyML : Ty := .path false [.mk "ML" [.lt "'a"]]
  let withLt ← chance 1 4
  let tys ← if withLt then tys.mapM fun t => do
      if t.toks == ["M"] && (← chance 2 3) then pure tyML else pure t
    else pure tys
  let withLt := withLt && tys.any (·.toks == tyML.toks)
  let tys := if withLt then tys else tys.map fun t => if t.toks == tyML.toks then Ty.simple "M" else t
  let boundAttr (ty : Ty) : Gen (List Attr) := do
    let isT := ty.toks == tyT.toks
    let t ← pick traits
    let b ← if isT then pickW [(6, (none : Option (List BoundArg))), (2, some [.ty tyT]), (1, some [.dots]), (1, some [.ty tyT, .dots])]
            else pickW [(8, (none : Option (List BoundArg))), (1, some []), (1, some [.dots])]
    match b with
    | none => pure []
    | some b =>
      if ← chance 1 2 then pure [.deriveEx { items := [{ trait_ := t, args := some (some b, false) }] }]
      else pure [.deriveEx { items := [{ trait_ := t }], bound := some b }]
  let fs ← (tys.zipIdx).mapM fun (ty, i) => do
    let attrs ← boundAttr ty
    pure ({ attrs, name := if k == .named then some (["a", "b", "c", "d"].getD i "z") else none, ty } : Field)
  let fields : Fields := if k == .unit then { kind := .unit } else { kind := k, fields := fs }
  let generics : Generics := { params := (if withLt then [.lt "'a" []] else []) ++ (if generic then [.ty "T" [] none] else []) }
  pure { id := s!"opsRun/{seed}/{idx}", tags := [s!"fields={n}", s!"generic={generic}", s!"lifetime={withLt}"],
         entry := if useDerive then .derive else .attr args,
         item := .struct_ { attrs := if useDerive then [.deriveEx args] else [], name := "X", generics, fields } }

def opEvStr (kind : Kind) (x y : Val String) (e : OpEv) : String :=
  match kind with
  | .bin o => s!"{o.func} {refCh e.lhsRef}{refCh e.rhsRef} {x.field e.field} {y.field e.field}"
  | .assign o => s!"{o.func}_assign {refCh e.rhsRef} {x.field e.field} {y.field e.field}"
  | .un u => s!"{u.func} {refCh e.lhsRef} {x.field e.field}"
  | _ => ""

def opsRunProgram (c : Case) (modName : String) : String × List String :=
  let n := (shapeFields c.item 0).fields.length
  let mk (tag : String) : Val String := { variant := 0, field := fun i => s!"{tag}{i}" }
  let ftys := (shapeFields c.item 0).fields.map (·.ty.toks)
  let ctor (tag : String) := ctorWith c.item 0 ((List.range n).map fun i =>
    if (ftys.getD i []).head? == some "ML" then s!"ml(String::from(\"{tag}{i}\"))" else s!"M(String::from(\"{tag}{i}\"))")
  let x := mk "l"
  let y := mk "r"
  let impls := allGenImpls c
  let lines : List (String × String) := impls.flatMap fun g =>
    match g with
    | .ops o =>
      match o.kind with
      | .bin b =>
        (opForms o.kind).map fun (l, r) =>
          let (z, tr) := evalBin o (mOpSem o.kind) l r x y
          (s!" \{ let x = {ctor "l"}; let y = {ctor "r"}; take(); let z = {if l then "&x" else "x.clone()"} {b.sym} {if r then "&y" else "y.clone()"}; let lg = take(); println!(\"{modName} {b.str} {refCh l}{refCh r} \{} | \{} | \{} \{}\", show(&z), lg, show(&x), show(&y)); }\n",
           s!"{modName} {b.str} {refCh l}{refCh r} {showVal c.item z} | {";".intercalate (tr.map (opEvStr o.kind x y))} | {showVal c.item x} {showVal c.item y}")
      | .assign b =>
        (opForms o.kind).map fun (_, r) =>
          let (z, tr) := evalAssign o (mOpSem o.kind) r x y
          (s!" \{ let mut x = {ctor "l"}; let y = {ctor "r"}; take(); x {b.sym}= {if r then "&y" else "y.clone()"}; let lg = take(); println!(\"{modName} {b.str}Assign {refCh r} \{} | \{} | \{}\", show(&x), lg, show(&y)); }\n",
           s!"{modName} {b.str}Assign {refCh r} {showVal c.item z} | {";".intercalate (tr.map (opEvStr o.kind x y))} | {showVal c.item y}")
      | .un u =>
        (opForms o.kind).map fun (l, _) =>
          let (z, tr) := evalUn o (mOpSem o.kind) l x
          let sym := if u == .neg then "-" else "!"
          (s!" \{ let x = {ctor "l"}; take(); let z = {sym}{if l then "&x" else "x.clone()"}; let lg = take(); println!(\"{modName} {u.str} {refCh l} \{} | \{} | \{}\", show(&z), lg, show(&x)); }\n",
           s!"{modName} {u.str} {refCh l} {showVal c.item z} | {";".intercalate (tr.map (opEvStr o.kind x y))} | {showVal c.item x}")
      | _ => []
    | _ => []
  let body := s!"pub mod {modName} \{ use super::*;\n#[derive(Debug, Clone, PartialEq)] {rustItem c}\n{showFn c.item "@.0" "M"}pub fn run() \{\n" ++
    String.join (lines.map (·.1)) ++ "}\n}\n"
  (body, lines.map (·.2))

end DX

namespace DX

/-! ## Debug and Default: expected text from `Sem/Basic.lean` (`evalDebug`) and from the structured `DefaultImpl` -/

def l2PreludeFmt : String := "#![allow(dead_code, unused_imports, unused_variables, unused_mut, non_snake_case, non_camel_case_types)]
use derive_ex::{derive_ex, Ex};
/// prints its value and the formatter flags it was called with
pub struct D(pub u32);
impl std::fmt::Debug for D {
    fn fmt(&self, f: &mut std::fmt::Formatter) -> std::fmt::Result {
        write!(f, \"D{}{}{}\", self.0, if f.alternate() { \"#\" } else { \"\" }, match f.width() { Some(w) => format!(\"w{}\", w), None => String::new() })
    }
}
/// a field type for Default: its own default is distinguishable from every explicit value
#[derive(Debug, PartialEq)]
pub struct V(pub i32);
impl Default for V { fn default() -> Self { V(-7) } }
impl From<&str> for V { fn from(s: &str) -> Self { V(s.len() as i32 + 100) } }
impl From<K> for V { fn from(k: K) -> Self { V(k.0 + 200) } }
pub struct K(pub i32);
pub const K5: K = K(5);
pub mod m { pub const K6: super::K = super::K(6); }
pub fn esc(s: String) -> String { s.replace('\\n', \"/\") }
"

/-- Lean twin of `D`'s Debug impl -/
def dFmt (alt : Bool) (width : Option Nat) (x : Nat) : String :=
  s!"D{x}" ++ (if alt then "#" else "") ++ (match width with | some w => s!"w{w}" | none => "")

/-- what `Formatter::debug_struct / debug_tuple … finish` prints for a trace of builder calls (field values on one
line each); the `{:#?}` form indents every field by four blanks and ends each with a comma -/
def renderDebugTrace (alt : Bool) (fieldStr : Nat → String) (tr : List DebugEv) : String :=
  match tr with
  | [.delegate i] => fieldStr i
  | .debugStruct name :: rest =>
    let fs := rest.filterMap fun | .namedField n i => some (n, i) | _ => none
    if fs.isEmpty then name
    else if alt then name ++ " {\n" ++ String.join (fs.map fun (n, i) => s!"    {n}: {fieldStr i},\n") ++ "}"
    else name ++ " { " ++ ", ".intercalate (fs.map fun (n, i) => s!"{n}: {fieldStr i}") ++ " }"
  | .debugTuple name :: rest =>
    let fs := rest.filterMap fun | .field i => some i | _ => none
    if fs.isEmpty then name
    else if alt then name ++ "(\n" ++ String.join (fs.map fun i => s!"    {fieldStr i},\n") ++ ")"
    else name ++ "(" ++ ", ".intercalate (fs.map fun i => fieldStr i) ++ ")"
  | _ => "?"

/-- a random Debug item over `D` fields with `#[debug(ignore)]` / `#[debug(transparent)]` -/
def genDebugRunCase (seed idx : Nat) : Case := runGen seed idx do
  let isEnum ← chance 1 2
  let useDerive ← chance 1 3
  let args : Args := { items := [{ trait_ := "Debug" }] }
  let raw ← chance 1 6
  let dF (n : Nat) (kind : FieldsKind) : Gen Fields := do
    let transparentAt ← if n > 0 && (← chance 1 5) then (do pure (some (← below n))) else pure none
    let fs ← (List.range n).mapM fun i => do
      let ign ← chance 1 4
      let attrs : List Attr :=
        if transparentAt == some i then [.debug (.list { transparent := true })]
        else if ign then [.debug (.list { ignore := true })] else []   -- also next to a transparent field
      let nm := if raw && i == 0 then "r#type" else ["a", "b", "c", "d"].getD i "z"
      pure ({ attrs, name := if kind == .named then some nm else none, ty := Ty.simple "D" } : Field)
    pure { kind, fields := fs }
  let attrs := if useDerive then [Attr.deriveEx args] else []
  let item ← (do
    if isEnum then
      let nv ← pickW [(1, 1), (3, 2), (3, 3)]
      let vs ← (List.range nv).mapM fun i => do
        let k ← pickW [(2, FieldsKind.unit), (3, .unnamed), (3, .named)]
        let n ← if k == .unit then pure 0 else pickW [(1, 0), (3, 1), (3, 2), (2, 3)]
        let fields ← if k == .unit then pure { kind := .unit } else dF n k
        pure ({ name := (if raw && i == 0 then "r#A" else ["A", "B", "C"].getD i "Z"), fields } : Variant)
      pure (Item.enum_ { attrs, name := "X", variants := vs })
    else
      let k ← pickW [(1, FieldsKind.unit), (3, .unnamed), (3, .named)]
      let n ← if k == .unit then pure 0 else pickW [(1, 0), (2, 1), (3, 2), (2, 3), (1, 4)]
      let fields ← if k == .unit then pure { kind := .unit } else dF n k
      pure (Item.struct_ { attrs, name := (if raw then "r#X" else "X"), fields }))
  pure { id := s!"debugRun/{seed}/{idx}", tags := [s!"enum={isEnum}", s!"raw={raw}"],
         entry := if useDerive then .derive else .attr args, item }

def debugImplOf (c : Case) : Option DebugImpl :=
  (allGenImpls c).findSome? fun | .debug d => some d | _ => none

def debugRunProgram (c : Case) (modName : String) : String × List String :=
  match debugImplOf c with
  | some d =>
    let nv := match c.item with | .enum_ e => e.variants.length | _ => 1
    let tyName := match c.item with | .struct_ s => s.name | .enum_ e => e.name | _ => "X"
    let vals : List (Nat × List Nat) := (List.range nv).map fun v =>
      let n := (shapeFields c.item v).fields.length
      (v, (List.range n).map fun i => 10 * v + i + 1)
    let ctor (p : Nat × List Nat) := (ctorWith c.item p.1 (p.2.map fun x => s!"D({x})"))
    let specs : List (String × Bool × Option Nat) := [("{:?}", false, none), ("{:#?}", true, none), ("{:7?}", false, some 7), ("{:#3?}", true, some 3)]
    let body :=
      s!"pub mod {modName} \{ use super::*;\n{rustItem c}\npub fn run() \{\n" ++
      String.join (vals.flatMap fun p => specs.map fun (sp, _, _) =>
        s!" println!(\"{modName} dbg \{}\", esc(format!(\"{sp}\", {ctor p})));\n") ++
      "}\n}\n"
    let _ := tyName
    let exp := vals.flatMap fun p => specs.map fun (_, alt, w) =>
      let tr := evalDebug d p.1
      -- the builders hand the formatter (flags and width included) on to every field, as a transparent field receives it;
      -- the name and the punctuation are written with `write_str` and ignore the width
      let fieldStr (i : Nat) : String := dFmt alt w (p.2.getD i 0)
      let txt := renderDebugTrace alt fieldStr tr
      s!"{modName} dbg {txt.replace "\n" "/"}"
    (body, exp)
  | none => ("", [])

/-! ### Default -/

/-- explicit default values with the text `V`'s Debug prints for them (after the conversion the model prescribes) -/
def defaultValuePool : List (Toks × ExprClass × String) :=
  [(["V", "(", "3", ")"], .other, "V(3)"), (["\"abc\""], .strLit, "V(103)"), (["K5"], .path, "V(205)"),
   (["m", "::", "K6"], .path, "V(206)"), (["V", "(", "1", "+", "1", ")"], .other, "V(2)"),
   (["{", "V", "(", "9", ")", "}"], .other, "V(9)"), (["(", "V", "(", "4", ")", ")"], .other, "V(4)")]

def genDefaultRunCase (seed idx : Nat) : Case := runGen seed idx do
  let isEnum ← chance 1 2
  let useDerive ← chance 1 3
  -- explicit `bound(..)` lists on any level never change the value (the types are not generic: every bound is trivially true)
  let someBound : Gen (Option (List BoundArg)) :=
    pickW [(9, none), (1, some []), (1, some [.dots]), (1, some [.ty (Ty.simple "V")]), (1, some [.ty (Ty.simple "V"), .dots]),
           (1, some [.pred (.ty [] (Ty.simple "V") [.trait false [] (Ty.simple "Sized")])])]
  let b1 ← someBound
  let b2 ← someBound
  let args : Args := { items := [{ trait_ := "Default", args := b1.map fun b => (some b, false) }], bound := b2 }
  let vF (n : Nat) (kind : FieldsKind) : Gen Fields := do
    let fs ← (List.range n).mapM fun i => do
      let st ← below 10
      let fb ← someBound
      let attrs ← (if st < 4 then (do
            let (e, cls, _) ← pick defaultValuePool
            pure [Attr.dflt (.list { value := some (e, cls), bound := fb })])
          else if st == 4 then pure [Attr.dflt .path]
          else if st == 5 then pure [Attr.dflt (.list { value := some (["_"], .underscore), bound := fb })]
          else pure ([] : List Attr))
      let ib ← someBound
      let attrs := attrs ++ (match ib with
        | some b => [Attr.deriveEx { items := [{ trait_ := "Default", args := some (some b, false) }] }]
        | none => [])
      pure ({ attrs, name := if kind == .named then some (["a", "b", "c", "d"].getD i "z") else none, ty := Ty.simple "V" } : Field)
    pure { kind, fields := fs }
  let tb ← someBound
  let attrs := (if useDerive then [Attr.deriveEx args] else []) ++
    (match tb with | some b => [Attr.dflt (.list { value := some (["_"], .underscore), bound := some b })] | none => [])
  let item ← (do
    if isEnum then
      let nv ← pickW [(2, 1), (3, 2), (3, 3)]
      let dv ← below nv
      let vs ← (List.range nv).mapM fun i => do
        let k ← pickW [(2, FieldsKind.unit), (3, .unnamed), (3, .named)]
        let n ← if k == .unit then pure 0 else pickW [(1, 0), (3, 1), (3, 2), (2, 3)]
        let fields ← if k == .unit then pure { kind := .unit } else vF n k
        let vb ← someBound
        let mark ← if i == dv && (nv > 1 || (← chance 1 2)) then
            pick [[Attr.dflt .path], [Attr.dflt (.list { value := some (["_"], .underscore), bound := vb })]]
          else pure []
        pure ({ attrs := mark, name := ["A", "B", "C"].getD i "Z", fields } : Variant)
      pure (Item.enum_ { attrs, name := "X", variants := vs })
    else
      let k ← pickW [(1, FieldsKind.unit), (3, .unnamed), (3, .named)]
      let n ← if k == .unit then pure 0 else pickW [(1, 0), (2, 1), (3, 2), (2, 3), (1, 4)]
      let fields ← if k == .unit then pure { kind := .unit } else vF n k
      pure (Item.struct_ { attrs, name := "X", fields }))
  pure { id := s!"defaultRun/{seed}/{idx}", tags := [s!"enum={isEnum}"], entry := if useDerive then .derive else .attr args, item }

def defaultImplOf (c : Case) : Option DefaultImpl :=
  (allGenImpls c).findSome? fun | .dflt d => some d | _ => none

/-- the text `{:?}` prints for the value the structured `DefaultImpl` denotes -/
def defValText : DefVal → String
  | .dflt _ => "V(-7)"
  | .raw e _ => ((defaultValuePool.find? fun (t, _, _) => t == e).map (·.2.2)).getD "?"
  | .into _ e => ((defaultValuePool.find? fun (t, _, _) => t == e).map (·.2.2)).getD "?"

def defaultRunProgram (c : Case) (modName : String) : String × List String :=
  match defaultImplOf c with
  | some d =>
    let body := s!"pub mod {modName} \{ use super::*;\n#[derive(Debug)] {rustItem c}\npub fn run() \{ println!(\"{modName} default \{:?}\", <X as Default>::default()); }\n}\n"
    let txt := match d.body with
      | .value v => defValText v
      | .ctor path src vals =>
        let name := (path.getLast?).getD "X"
        let strs := vals.map defValText
        match src.kind with
        | .unit => name
        | .unnamed => if strs.isEmpty then name else name ++ "(" ++ ", ".intercalate strs ++ ")"
        | .named => if strs.isEmpty then name else
            name ++ " { " ++ ", ".intercalate ((src.fields.zip strs).map fun (p : Field × String) => s!"{p.1.name.getD "_"}: {p.2}") ++ " }"
    (body, [s!"{modName} default {txt}"])
  | none => ("", [])

end DX

namespace DX

/-! ## Forwarding to a user impl (C09): expected values and call logs from `FwdImpl.call` (`Sem/Basic.lean`) -/

def l2PreludeFwd : String := "#![allow(dead_code, unused_imports, unused_variables, unused_mut, non_snake_case, non_camel_case_types)]
use derive_ex::{derive_ex, Ex};
use std::cell::RefCell;
thread_local! { static LOG: RefCell<Vec<String>> = RefCell::new(Vec::new()); }
pub fn log(s: String) { LOG.with(|l| l.borrow_mut().push(s)); }
pub fn take() -> String { LOG.with(|l| std::mem::take(&mut *l.borrow_mut())).join(\";\") }
pub trait Id { type T; }
impl<X> Id for X { type T = X; }
"

/-- the operand types, local to every case module (each case implements operators for them) -/
def fwdTypes : String := "#[derive(Debug, PartialEq)] pub struct A(pub String);
impl Clone for A { fn clone(&self) -> Self { log(format!(\"cloneA {}\", self.0)); A(format!(\"c{}\", self.0)) } }
#[derive(Debug, PartialEq)] pub struct B(pub String);
impl Clone for B { fn clone(&self) -> Self { log(format!(\"cloneB {}\", self.0)); B(format!(\"c{}\", self.0)) } }
"

/-- a user impl of a (non-commutative-looking) operator in one of its base forms, and the traits requested from it -/
def genFwdRunCase (seed idx : Nat) : Case := runGen seed idx do
  let op ← pick BinOp.all
  let baseAssign ← chance 1 5
  let bl ← chance 1 2          -- the user's impl is for `&A`
  let br ← chance 1 2          -- … and takes `&Rhs`
  let rhsIsA ← chance 1 2
  let tA := Ty.simple "A"
  let rhsBase : Ty := if rhsIsA then tA else Ty.simple "B"
  let selfTy : Ty := if bl && !baseAssign then .ref none false tA else tA
  let rhsTy : Ty := if br then .ref none false rhsBase else rhsBase
  -- written with `Self` where that is the same type
  -- … also as the self type of a qualified path (`<Self as Id>::T` is `Self`)
  let qSelf : Ty := .qpath Ty.selfTy false [.mk "Id" []] [.mk "T" []]
  let selfSpelling ← pickW [(2, Ty.selfTy), (1, qSelf)]
  let rhsWritten ← if rhsIsA && !bl && (← chance 1 2) then pure (if br then Ty.ref none false selfSpelling else selfSpelling) else pure rhsTy
  let outWritten ← if !bl && !baseAssign then pickW [(2, tA), (1, Ty.selfTy), (1, qSelf)] else pure tA
  let traitName := op.str ++ (if baseAssign then "Assign" else "")
  let omitArg := !baseAssign && rhsIsA && !br && !bl
  let omitArg ← if omitArg then chance 1 2 else pure false
  let lastSeg : Seg := .mk traitName (if omitArg then [] else [.ty rhsWritten])
  let segs : List Seg := [.mk "std" [], .mk "ops" [], lastSeg]
  let f := op.func
  let rty := srcText rhsWritten.toks
  let sym := op.sym
  let fnToks : Toks :=
    if baseAssign then
      [s!"fn {f}_assign(&mut self, rhs: {rty}) \{ log(format!(\"base_assign \{} \{}\", self.0, rhs.0)); self.0 = format!(\"[\{}{sym}=\{}]\", self.0, rhs.0); }"]
    else
      [s!"fn {f}(self, rhs: {rty}) -> A \{ log(format!(\"base \{} \{}\", self.0, rhs.0)); A(format!(\"[\{}{sym}\{}]\", self.0, rhs.0)) }"]
  let members : List ImplMember := (if baseAssign then [] else [.output outWritten]) ++ [.other fnToks]
  let reqStyle ← below 6
  let opn := op.str
  let items : List DeriveItem :=
    if baseAssign then [{ trait_ := opn }]
    else match reqStyle with
      | 0 | 1 => [{ trait_ := opn }]
      | 2 => [{ trait_ := opn ++ "Assign" }]
      | 3 | 4 => [{ trait_ := opn }, { trait_ := opn ++ "Assign" }]
      | _ => [{ trait_ := opn ++ "Assign" }, { trait_ := opn }]
  let item : ItemImpl := { attrs := [], generics := {}, neg := false, trait_ := some (false, segs), selfTy, members }
  pure { id := s!"fwdRun/{seed}/{idx}",
         tags := [s!"base={if baseAssign then "assign" else "binary"}", s!"self={if bl then "ref" else "owned"}", s!"rhs={if br then "ref" else "owned"}",
                  s!"req={"+".intercalate (items.map (·.trait_))}"],
         entry := .attr { items }, item := .impl_ item }

def fwdImplOf (c : Case) : Option FwdImpl :=
  match c.entry, c.item with
  | .attr a, .impl_ i => (match buildFwd a i with | .ok f => some f | .error _ => none)
  | _, _ => none

def fwdRunProgram (c : Case) (modName : String) : String × List String :=
  match fwdImplOf c with
  | none => ("", [])
  | some f =>
    let rhsIsA := f.rhs.toks.contains "A"
    let rhsT := if rhsIsA then "A" else "B"
    let cloneTag (isRhs : Bool) := if isRhs && !rhsIsA then "cloneB" else "cloneA"
    let sym := f.op.sym
    -- operands as they reach the user's function, and the clones made on the way (`FwdImpl.call`); the callee of a
    -- generated `OpAssign` is `<l as Op<rhs>>::op`: the user's own impl, or another generated form that forwards in turn
    let through (ps : List Pass) (name : String) (isRhs : Bool) : String × List String :=
      ps.foldl (fun (acc : String × List String) p =>
        match p with
        | .cloned => ("c" ++ acc.1, acc.2 ++ [s!"{cloneTag isRhs} {acc.1}"])
        | _ => acc) (name, [])
    let lines : List (String × String) := f.items.map fun it =>
      let k := f.call it
      let inner : List FwdCall := match it with
        | .assign rhs callL =>
          let rr := (toRefElem rhs).2
          if f.baseForm == .binary && !(callL == f.thisIsRef && rr == f.rhsIsRef) then [f.call (.binary callL rr)] else []
        | _ => []
      let (l, cl) := through (k.lhs :: inner.map (·.lhs)) "a" false
      let (r, cr) := through (k.rhs :: inner.map (·.rhs)) "b" true
      let baseLog := if k.calleeAssign then s!"base_assign {l} {r}" else s!"base {l} {r}"
      let val := if k.calleeAssign then s!"[{l}{sym}={r}]" else s!"[{l}{sym}{r}]"
      let lg := ";".intercalate (cl ++ cr ++ [baseLog])
      let setup := s!"let mut a = A(String::from(\"a\")); let b = {rhsT}(String::from(\"b\"));"
      match it with
      | .binary implL implR =>
        let tag := s!"bin {refCh implL}{refCh implR}"
        (s!" \{ {setup} take(); let z = {if implL then "&a" else "a"} {sym} {if implR then "&b" else "b"}; let lg = take(); println!(\"{modName} {tag} \{} | \{}\", z.0, lg); }\n",
         s!"{modName} {tag} {val} | {lg}")
      | .assign rhs _ =>
        let rr := (toRefElem rhs).2
        let tag := s!"assign {refCh rr}"
        (s!" \{ {setup} take(); a {sym}= {if rr then "&b" else "b"}; let lg = take(); println!(\"{modName} {tag} \{} | \{}\", a.0, lg); }\n",
         s!"{modName} {tag} {val} | {lg}")
      | .binFromAssign =>
        let rr := f.rhsIsRef
        let tag := "bin-from-assign"
        (s!" \{ {setup} take(); let z = a {sym} {if rr then "&b" else "b"}; let lg = take(); println!(\"{modName} {tag} \{} | \{}\", z.0, lg); }\n",
         s!"{modName} {tag} {val} | {lg}")
    let body := s!"pub mod {modName} \{ use super::*;\n{fwdTypes}{rustItem c}\npub fn run() \{\n" ++ String.join (lines.map (·.1)) ++ "}\n}\n"
    (body, lines.map (·.2))

end DX
