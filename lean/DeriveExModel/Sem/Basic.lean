import DeriveExModel.Entry
import DeriveExModel.Sem.Cmp
/-
Meaning of the Clone / operator / Debug / Default / Deref / forwarding templates
as traces of calls on the fields' own impls (no law assumed of them).
Validated against compiled programs by the L2 runs.
-/
namespace DX

/-! ## Clone -/

/-- a call the generated code makes on a field's own `Clone` impl -/
inductive CloneEv where
  | clone (field : Nat)
  | cloneFrom (field : Nat)
  /-- `<Self as Clone>::clone(rhs)` in the fall-through arm: the whole value is cloned -/
  | cloneWhole
deriving Repr, BEq, DecidableEq

structure CloneSem (V : Type) where
  clone : FieldE → V → V
  /-- `clone_from(dst, src)`: the new value of `dst` -/
  cloneFrom : FieldE → V → V → V

def fieldsOfShape (sh : Shape) (variant : Nat) : List FieldE :=
  match sh with
  | .struct_ _ fields => fields
  | .enum_ vs => match vs[variant]? with | some v => v.fields | none => []

/-- update the fields listed, leave the others -/
def updFields {V} (fs : List FieldE) (g : FieldE → V) (old : Nat → V) : Nat → V :=
  fun i => match fs.find? (·.index == i) with | some f => g f | none => old i

/-- `clone(&self)`: constructor of the same variant, one `clone` per field in order -/
def evalClone {V} (c : CloneImpl) (σ : CloneSem V) (a : Val V) : Val V × List CloneEv :=
  let fs := fieldsOfShape c.shape a.variant
  ({ variant := a.variant, field := updFields fs (fun f => σ.clone f (a.field f.index)) a.field },
   fs.map fun f => .clone f.index)

/-- does `(self, source)` match one of the per-variant arms of `clone_from`? -/
def sameArm (c : CloneImpl) {V} (dst src : Val V) : Bool :=
  match c.shape with
  | .struct_ _ _ => true
  | .enum_ vs => dst.variant == src.variant && dst.variant < vs.length

/-- `clone_from(&mut self, source)` -/
def evalCloneFrom {V} (c : CloneImpl) (σ : CloneSem V) (dst src : Val V) : Val V × List CloneEv :=
  if sameArm c dst src then
    let fs := fieldsOfShape c.shape dst.variant
    ({ variant := dst.variant,
       field := updFields fs (fun f => σ.cloneFrom f (dst.field f.index) (src.field f.index)) dst.field },
     fs.map fun f => .cloneFrom f.index)
  else
    let (v, tr) := evalClone c σ src
    (v, .cloneWhole :: tr)

/-! ## Operators from a struct -/

/-- one call of a field's operator impl: which field, and whether each operand was passed by reference -/
structure OpEv where
  field : Nat
  lhsRef : Bool
  rhsRef : Bool
deriving Repr, BEq, DecidableEq

structure OpSem (V : Type) where
  /-- `<L as Op<R>>::op(l, r)` for the given reference forms -/
  bin : FieldE → (lRef rRef : Bool) → V → V → V
  /-- `<T as OpAssign<R>>::op_assign(&mut l, r)`: new value of `l` -/
  assign : FieldE → (rRef : Bool) → V → V → V
  un : FieldE → (lRef : Bool) → V → V

/-- the result of form `(l, r)`: field `i` of the result is the field operator applied to
field `i` of the operands, left operand on the left; one call per field, in order -/
def evalBin {V} (o : OpsImpl) (σ : OpSem V) (l r : Bool) (x y : Val V) : Val V × List OpEv :=
  ({ variant := 0, field := updFields o.fields (fun f => σ.bin f l r (x.field f.index) (y.field f.index)) x.field },
   o.fields.map fun f => { field := f.index, lhsRef := l, rhsRef := r })

def evalAssign {V} (o : OpsImpl) (σ : OpSem V) (r : Bool) (x y : Val V) : Val V × List OpEv :=
  ({ variant := 0, field := updFields o.fields (fun f => σ.assign f r (x.field f.index) (y.field f.index)) x.field },
   o.fields.map fun f => { field := f.index, lhsRef := false, rhsRef := r })

def evalUn {V} (o : OpsImpl) (σ : OpSem V) (l : Bool) (x : Val V) : Val V × List OpEv :=
  ({ variant := 0, field := updFields o.fields (fun f => σ.un f l (x.field f.index)) x.field },
   o.fields.map fun f => { field := f.index, lhsRef := l, rhsRef := false })

/-! ## Debug: the sequence of `Formatter` builder calls -/

inductive DebugEv where
  | debugStruct (name : String)
  | debugTuple (name : String)
  | namedField (name : String) (field : Nat)
  | field (field : Nat)
  | finish
  /-- `Debug::fmt(field, f)`: delegation to the field with the same formatter -/
  | delegate (field : Nat)
deriving Repr, BEq, DecidableEq

def DebugExpr.trace : DebugExpr → List DebugEv
  | .transparent f => [.delegate f.index]
  | .builder named ident fields =>
    -- names reach the formatter as string literals without the `r#` prefix of raw identifiers (`nameLit`)
    (if named then DebugEv.debugStruct (unraw ident) else .debugTuple (unraw ident)) ::
      (fields.map fun f => if named then DebugEv.namedField (unraw f.member) f.index else .field f.index) ++ [.finish]

def evalDebug (d : DebugImpl) (variant : Nat) : List DebugEv :=
  match d.body with
  | .struct_ x => x.trace
  | .enum_ arms => match arms[variant]? with | some (_, x) => x.trace | none => []

/-! ## Deref -/

/-- the place `deref` / `deref_mut` returns a reference to: `self.<member>` -/
def evalDerefPlace (d : DerefImpl) : Tok := d.field.member
def derefTarget (d : DerefImpl) : Ty := d.field.field.ty

/-! ## Forwarding to a user impl -/

/-- how an operand reaches the user's function -/
inductive Pass where
  | asIs        -- passed on unchanged (owned stays owned, reference stays reference)
  | cloned      -- received by reference, needed by value: `Clone::clone(x)`
  | borrowed    -- received by value, needed by reference: `&x`
deriving Repr, BEq, DecidableEq

def passOf (inputRef outputRef : Bool) : Pass :=
  match inputRef, outputRef with
  | true, false => .cloned
  | false, true => .borrowed
  | _, _ => .asIs

/-- the single call a generated forwarding impl makes -/
structure FwdCall where
  /-- the callee: the user's `op` (`false`) or `op_assign` (`true`) -/
  calleeAssign : Bool
  /-- reference forms of the callee's operands -/
  calleeLRef : Bool
  calleeRhs : Ty
  lhs : Pass
  rhs : Pass
  /-- `*self = …` wraps the call (OpAssign from Op) -/
  storesToSelf : Bool
  /-- `…; self` follows the call (Op from OpAssign) -/
  returnsSelf : Bool

def FwdImpl.call (f : FwdImpl) : FwdItem → FwdCall
  | .binary implL implR =>
    { calleeAssign := false, calleeLRef := f.thisIsRef, calleeRhs := refTypeWith f.rhs f.rhsIsRef,
      lhs := passOf implL f.thisIsRef, rhs := passOf implR f.rhsIsRef, storesToSelf := false, returnsSelf := false }
  | .assign rhs callL =>
    { calleeAssign := false, calleeLRef := callL, calleeRhs := rhs,
      lhs := passOf true callL, rhs := .asIs, storesToSelf := true, returnsSelf := false }
  | .binFromAssign =>
    { calleeAssign := true, calleeLRef := false, calleeRhs := f.rhsOrig,
      lhs := .asIs, rhs := .asIs, storesToSelf := false, returnsSelf := true }

end DX
