import DeriveExModel.Cmp
/-
Meaning of the comparison templates.  Shallow, template by template, parametric
in the meaning of the field types' own impls and of every user expression; no
law is assumed of any of them.  That rustc gives `CmpImpl.render c` the meaning
`eval* c` is the modelling assumption validated by the L2 correspondence
(compiled programs, all value pairs of small domains).
-/
namespace DX

/-- what the environment says about one field: the field type's own impls, and
the meaning of a user expression (given by its tokens) in each position where
the templates can use it -/
structure FieldSem (V F : Type) where
  eq : V → V → Bool
  pcmp : V → V → Option Ordering
  cmp : V → V → Ordering
  hash : V → List F
  /-- `by = e` where `e : Fn(&T, &T) -> bool` -/
  byEq : Toks → V → V → Bool
  /-- `by = e` where `e : Fn(&T, &T) -> Option<Ordering>` -/
  byPcmp : Toks → V → V → Option Ordering
  /-- `by = e` where `e : Fn(&T, &T) -> Ordering` -/
  byCmp : Toks → V → V → Ordering
  /-- `by = e` where `e : Fn(&T, &mut H)`: what it writes -/
  byHash : Toks → V → List F
  /-- `PartialEq::eq(&key(a), &key(b))` for `key = k` -/
  keyEq : Toks → V → V → Bool
  keyPcmp : Toks → V → V → Option Ordering
  keyCmp : Toks → V → V → Ordering
  keyHash : Toks → V → List F

/-- a value of the derived type: which variant (0 for a struct) and its fields by index -/
structure Val (V : Type) where
  variant : Nat
  field : Nat → V

abbrev Env (V F : Type) := FieldE → FieldSem V F

def revOrd : Ordering → Ordering
  | .lt => .gt | .eq => .eq | .gt => .lt

/-! ### one field -/

def evalPe {V F} (s : FieldSem V F) (cf : CmpField) (a b : V) : Bool :=
  match cf.sel with
  | .by_ .partialOrd e => s.byPcmp e a b == some .eq
  | .by_ .ord e => s.byCmp e a b == .eq
  | .by_ _ e => s.byEq e a b
  | .key _ k => s.keyEq k a b
  | .dflt => s.eq a b

def evalPo {V F} (s : FieldSem V F) (cf : CmpField) (a b : V) : Option Ordering :=
  let r := match cf.sel with
    | .by_ .ord e => some (s.byCmp e a b)
    | .by_ _ e => s.byPcmp e a b
    | .key _ k => s.keyPcmp k a b
    | .dflt => s.pcmp a b
  if cf.rev then r.map revOrd else r

def evalOrd {V F} (s : FieldSem V F) (cf : CmpField) (a b : V) : Ordering :=
  let r := match cf.sel with
    | .by_ _ e => s.byCmp e a b
    | .key _ k => s.keyCmp k a b
    | .dflt => s.cmp a b
  if cf.rev then revOrd r else r

def evalHashF {V F} (s : FieldSem V F) (cf : CmpField) (a : V) : List F :=
  match cf.sel with
  | .by_ _ e => s.byHash e a
  | .key _ k => s.keyHash k a
  | .dflt => s.hash a

/-! ### field lists: `&&` chain, early-return chains, statement sequence -/

def evalPeFields {V F} (σ : Env V F) (a b : Val V) : List CmpField → Bool
  | [] => true
  | cf :: rest => evalPe (σ cf.f) cf (a.field cf.f.index) (b.field cf.f.index) && evalPeFields σ a b rest

/-- `match e { Some(Equal) => {} o => return o }` … `Some(Equal)` -/
def evalPoFields {V F} (σ : Env V F) (a b : Val V) : List CmpField → Option Ordering
  | [] => some .eq
  | cf :: rest =>
    match evalPo (σ cf.f) cf (a.field cf.f.index) (b.field cf.f.index) with
    | some .eq => evalPoFields σ a b rest
    | o => o

def evalOrdFields {V F} (σ : Env V F) (a b : Val V) : List CmpField → Ordering
  | [] => .eq
  | cf :: rest =>
    match evalOrd (σ cf.f) cf (a.field cf.f.index) (b.field cf.f.index) with
    | .eq => evalOrdFields σ a b rest
    | o => o

def evalHashFields {V F} (σ : Env V F) (a : Val V) : List CmpField → List F
  | [] => []
  | cf :: rest => evalHashF (σ cf.f) cf (a.field cf.f.index) ++ evalHashFields σ a rest

/-! ### whole bodies.  For an enum the arms are tried in declaration order; the
arm of variant `i` matches exactly the values of variant `i`. -/

def evalEq {V F} (c : CmpImpl) (σ : Env V F) (a b : Val V) : Bool :=
  match c.body with
  | .struct_ fs => evalPeFields σ a b fs
  | .enum_ vs =>
    if a.variant = b.variant then
      match vs[a.variant]? with
      | some (_, fs) => evalPeFields σ a b fs
      | none => false
    else false

def evalPartialCmp {V F} (c : CmpImpl) (σ : Env V F) (a b : Val V) : Option Ordering :=
  match c.body with
  | .struct_ fs => evalPoFields σ a b fs
  | .enum_ vs =>
    if a.variant = b.variant then
      match vs[a.variant]? with
      | some (_, fs) => evalPoFields σ a b fs
      | none => some (compare a.variant b.variant)
    else some (compare a.variant b.variant)

def evalCmp {V F} (c : CmpImpl) (σ : Env V F) (a b : Val V) : Ordering :=
  match c.body with
  | .struct_ fs => evalOrdFields σ a b fs
  | .enum_ vs =>
    if a.variant = b.variant then
      match vs[a.variant]? with
      | some (_, fs) => evalOrdFields σ a b fs
      | none => compare a.variant b.variant
    else compare a.variant b.variant

/-- the sequence of hasher writes -/
def evalHash {V F} (c : CmpImpl) (σ : Env V F) (a : Val V) : List F :=
  match c.body with
  | .struct_ fs => evalHashFields σ a fs
  | .enum_ vs =>
    match vs[a.variant]? with
    | some (_, fs) => evalHashFields σ a fs
    | none => []

/-- the components the hidden checker asserts to be `Eq`: for each compared
field either the field itself or a `key` expression -/
inductive EqComponent where
  | field (f : FieldE)
  | key (f : FieldE) (k : Toks)

def eqAssertedFields : List CmpField → List EqComponent
  | [] => []
  | cf :: rest =>
    (match cf.sel with
     | .by_ _ _ => []
     | .key _ k => [.key cf.f k]
     | .dflt => [.field cf.f]) ++ eqAssertedFields rest

def eqAsserted (c : CmpImpl) : List EqComponent :=
  match c.body with
  | .struct_ fs => eqAssertedFields fs
  | .enum_ vs => vs.flatMap fun (_, fs) => eqAssertedFields fs

end DX
