/-
Tokens.  The model emits the *exact token sequence* the real expander emits
(spans and Joint/Alone spacing apart).  A token is a string; multi-character
punctuation (`::`, `->`, `=>`, `..`, `&&`, `==`) and lifetimes (`'a`) are single
model tokens and are split into proc-macro2's individual `Punct`s only by the
canonical printer `canon`, which is what the Rust comparer prints as well.
-/
namespace DX

abbrev Tok := String
abbrev Toks := List String

/-! ### generated tokens carry their provenance

The templates of the expander are written over `GTok`: a token and *where it comes from*.  A string literal written in
a template coerces to provenance `lit`; tokens copied from the input are wrapped with `U`; the segments of absolute
paths, member names and the contents of generated attributes can only be produced through `absPath`, `mem`, `genAttr`.
`Props/C13.lean` proves that every `lit` token of every expansion is punctuation, a keyword, a primitive type, a literal
or a `__`-reserved name: the expander never writes a free identifier that a user-chosen name could capture. -/

inductive Prov where
  /-- copied from the input: types, generics, names, `key` / `by` / default expressions, predicates -/
  | user
  /-- written literally in a template -/
  | lit
  /-- the first segment of an absolute path (written by `absPath` only, right after the leading `::`) -/
  | root
  /-- a further segment of an absolute path `::core::…` (written by `absPath` only, always right after `::`) -/
  | abs
  /-- a member name: method, associated item, item being defined (after `.`, `::`, `fn`, `type`, or before `=` in a binding) -/
  | mem
  /-- inside a generated attribute `#[…]` -/
  | attr
  /-- an integer literal computed by the expander (`0usize`, written by `idxLit` only) -/
  | num
deriving Repr, BEq, DecidableEq, Inhabited

/-- a generated token.  `abs` and `mem` tokens are *fused with their anchor*: `pre` is the token that is printed directly
in front (`::`, `.`, `fn`, `type`), `post` the one directly behind (`=` of an associated-type binding) — so that an
absolute-path segment or a member name cannot be written without its anchor -/
structure GTok where
  s : String
  p : Prov := .lit
  pre : String := ""
  post : String := ""
deriving Repr, BEq, DecidableEq, Inhabited

abbrev GToks := List GTok

instance : Coe String GTok := ⟨fun s => { s }⟩

/-- cons / append on generated tokens as plain functions: the expected type reaches string literals, which coerce
(`"impl" ::: rest`, `["fn", "fmt"] +++ rest`) -/
def gcons (a : GTok) (l : GToks) : GToks := a :: l
def gapp (a b : GToks) : GToks := a ++ b
infixr:67 " ::: " => gcons
infixl:65 " +++ " => gapp
@[simp] theorem gcons_eq (a : GTok) (l : GToks) : (a ::: l) = a :: l := rfl
@[simp] theorem gapp_eq (a b : GToks) : (a +++ b) = a ++ b := rfl

/-- tokens copied from the input -/
def U (ts : Toks) : GToks := ts.map fun s => { s, p := .user }
def u (s : String) : GTok := { s, p := .user }
/-- member names, each with its anchor: `fn name`, `type Name`, `::name`, `Name =` (no `.name`: the expansion calls nothing in method syntax) -/
def fnM (s : String) : GTok := { s, p := .mem, pre := "fn" }
def typeM (s : String) : GTok := { s, p := .mem, pre := "type" }
def pathM (s : String) : GTok := { s, p := .mem, pre := "::" }
def bindM (s : String) : GTok := { s, p := .mem, post := "=" }
/-- the strings a generated token prints as -/
def GTok.strs (t : GTok) : Toks :=
  (if t.pre == "" then [] else [t.pre]) ++ [t.s] ++ (if t.post == "" then [] else [t.post])
def GToks.strs (ts : GToks) : Toks := ts.flatMap GTok.strs
@[simp] theorem strs_U (ts : Toks) : (U ts).strs = ts := by
  induction ts with
  | nil => rfl
  | cons t ts ih =>
    simp only [U, GToks.strs, List.map_cons, List.flatMap_cons] at ih ⊢
    rw [ih]
    rfl

class OfStr (τ : Type) where
  ofStr : String → τ
instance : OfStr String := ⟨id⟩
instance : OfStr GTok := ⟨fun s => { s }⟩

section
variable {τ : Type} [OfStr τ]
local notation "§" s => (OfStr.ofStr s : τ)

def paren (ts : List τ) : List τ := (§"(") :: ts ++ [§")"]
def brace (ts : List τ) : List τ := (§"{") :: ts ++ [§"}"]
def bracket (ts : List τ) : List τ := (§"[") :: ts ++ [§"]"]
def angle (ts : List τ) : List τ := (§"<") :: ts ++ [§">"]

/-- `a , b , c` (no trailing separator) -/
def sepBy (sep : τ) : List (List τ) → List τ
  | [] => []
  | [x] => x
  | x :: xs => x ++ sep :: sepBy sep xs

/-- `a , b , c ,` (every element terminated) -/
def termBy (sep : τ) (xs : List (List τ)) : List τ := xs.flatMap (fun x => x ++ [sep])

/-- `#[ … ]` -/
def attrToks (inner : List τ) : List τ := (§"#") :: bracket inner
end

/-- `::a::b::c` — the only producer of `abs` tokens -/
def absPath : List String → GToks
  | [] => []
  | r :: segs => { s := r, p := .root, pre := "::" } :: segs.map (fun s => { s, p := .abs, pre := "::" })

/-- `<i>usize` — the only producer of `num` tokens -/
def idxLit (i : Nat) : GTok := { s := toString i ++ "usize", p := .num }

/-- a generated attribute `#[ … ]` — the only producer of `attr` tokens -/
def genAttr (inner : List String) : GToks :=
  ("#" : GTok) :: ("[" : GTok) :: (inner.map (fun s => ({ s, p := .attr } : GTok)) ++ [("]" : GTok)])

/-- the lints the generated impls switch off: they name the user's fields, variants and parameters with the user's spans
(F39) -/
def allowUserLints : GToks :=
  genAttr ["allow", "(", "deprecated", ",", "non_camel_case_types", ",", "non_snake_case", ",", "non_upper_case_globals", ")"]

def isIdentStart (c : Char) : Bool := c.isAlpha || c == '_'

/-- Is this model token a word-like token (identifier, keyword, literal) as
opposed to punctuation or a delimiter? -/
def isWordTok (t : Tok) : Bool :=
  match t.toList with
  | [] => true
  | c :: _ => isIdentStart c || c.isDigit || c == '"'

def isCharLit (t : Tok) : Bool :=
  match t.toList with
  | '\'' :: rest => rest.length ≥ 2 && rest.getLast? == some '\''
  | _ => false

/-- Canonical printing of one model token as the sequence of proc-macro2 leaf
tokens it stands for. -/
def canonTok (t : Tok) : List String :=
  if isWordTok t || isCharLit t then [t]
  else match t.toList with
    | '\'' :: rest => ["'", String.ofList rest]
    | cs => cs.map (fun c => String.ofList [c])

def canon (ts : Toks) : String := " ".intercalate (ts.flatMap canonTok)

/-- Rust source text for a token list (tokens separated by blanks). -/
def srcText (ts : Toks) : String := " ".intercalate ts

/-- strip a raw-identifier prefix (`Ident::unraw`, and what `format_ident!` does
to identifier arguments) -/
def unraw (s : String) : String :=
  match s.toList with
  | 'r' :: '#' :: rest => String.ofList rest
  | _ => s

end DX
