/-
Tokens.  The model emits the *exact token sequence* the real expander emits
(spans and Joint/Alone spacing apart).  A token is a string; multi-character
punctuation (`::`, `->`, `=>`, `..`, `&&`, `==`) and lifetimes (`'a`) are single
model tokens and are split into proc-macro2's individual `Punct`s only by the
canonical printer `canon`, which is what the Rust comparer prints as well.
-/
namespace DX

abbrev Tok := String
abbrev Toks := List String

def paren (ts : Toks) : Toks := "(" :: ts ++ [")"]
def brace (ts : Toks) : Toks := "{" :: ts ++ ["}"]
def bracket (ts : Toks) : Toks := "[" :: ts ++ ["]"]
def angle (ts : Toks) : Toks := "<" :: ts ++ [">"]

/-- `::a::b::c` -/
def absPath (segs : List String) : Toks := segs.flatMap (fun s => ["::", s])

/-- `a , b , c` (no trailing separator) -/
def sepBy (sep : Tok) : List Toks → Toks
  | [] => []
  | [x] => x
  | x :: xs => x ++ sep :: sepBy sep xs

/-- `a , b , c ,` (every element terminated) -/
def termBy (sep : Tok) (xs : List Toks) : Toks := xs.flatMap (fun x => x ++ [sep])

/-- `#[ … ]` -/
def attrToks (inner : Toks) : Toks := "#" :: bracket inner

def isIdentStart (c : Char) : Bool := c.isAlpha || c == '_'

/-- Is this model token a word-like token (identifier, keyword, literal) as
opposed to punctuation or a delimiter? -/
def isWordTok (t : Tok) : Bool :=
  match t.toList with
  | [] => true
  | c :: _ => isIdentStart c || c.isDigit || c == '"'

def isCharLit (t : Tok) : Bool :=
  match t.toList with
  | '\'' :: rest => rest.length ≥ 2 && rest.getLast? == some '\''
  | _ => false

/-- Canonical printing of one model token as the sequence of proc-macro2 leaf
tokens it stands for. -/
def canonTok (t : Tok) : List String :=
  if isWordTok t || isCharLit t then [t]
  else match t.toList with
    | '\'' :: rest => ["'", String.ofList rest]
    | cs => cs.map (fun c => String.ofList [c])

def canon (ts : Toks) : String := " ".intercalate (ts.flatMap canonTok)

/-- Rust source text for a token list (tokens separated by blanks). -/
def srcText (ts : Toks) : String := " ".intercalate ts

/-- strip a raw-identifier prefix (`Ident::unraw`, and what `format_ident!` does
to identifier arguments) -/
def unraw (s : String) : String :=
  if s.startsWith "r#" then (s.drop 2).toString else s

end DX
