import DeriveExModel.Spec.Strip
/-
`HelperAttributeKinds::extend` / `is_match` against the documentation's table.
-/
namespace DX

theorem foldl_add (ks : List Kind) (k : Kinds) :
    ks.foldl Kinds.add k =
      { deriveEx := k.deriveEx
        dflt := k.dflt || derives ks .dflt
        debug := k.debug || derives ks .debug
        ord := k.ord || derives ks (.cmp .ord)
        partialOrd := k.partialOrd || derives ks (.cmp .partialOrd)
        eq := k.eq || derives ks (.cmp .eq)
        partialEq := k.partialEq || derives ks (.cmp .partialEq)
        hash := k.hash || derives ks (.cmp .hash) } := by
  induction ks generalizing k with
  | nil => simp [derives]
  | cons x xs ih =>
    rw [List.foldl_cons, ih]
    cases x with
    | cmp o => cases o <;> simp [Kinds.add, derives, Bool.or_assoc]
    | _ => simp [Kinds.add, derives, Bool.or_assoc]

theorem extend_eq (k : Kinds) (es : List Entry) :
    k.extend es = (es.map (·.kind)).foldl Kinds.add k := by
  unfold Kinds.extend
  induction es generalizing k with
  | nil => rfl
  | cons e es ih => simp [List.foldl_cons, ih]

/-- after `extend`, an attribute is owned exactly when the documentation assigns it
to one of the derived traits -/
theorem isMatch_extend (es : List Entry) (a : Attr) :
    ((Kinds.new true).extend es).isMatch a = docOwnsAttr (es.map (·.kind)) a := by
  rw [extend_eq, foldl_add]
  cases a with
  | foreign _ => rfl
  | deriveEx _ => rfl
  | dflt _ => simp [Kinds.isMatch, Kinds.new, docOwnsAttr]
  | debug _ => simp [Kinds.isMatch, Kinds.new, docOwnsAttr]
  | cmp w _ =>
    cases w <;>
    simp [Kinds.isMatch, Kinds.matchCmp, Kinds.new, docOwnsAttr, CmpOp.all, docOwns, docAffects, List.any] <;>
    (repeat' rw [Bool.or_assoc])

end DX
