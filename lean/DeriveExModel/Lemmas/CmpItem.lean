import DeriveExModel.Lemmas.CmpRecord
/-
From one field to field lists, variants and whole impls.
-/
namespace DX

/-! ### `mapM` in `Except` -/

theorem mapM_ok_of_forall {α β} (f : α → R β) (g : α → β) :
    ∀ (l : List α), (∀ x ∈ l, f x = .ok (g x)) → l.mapM f = .ok (l.map g)
  | [], _ => rfl
  | x :: xs, h => by
    have hx := h x (by simp)
    have ih := mapM_ok_of_forall f g xs (fun y hy => h y (by simp [hy]))
    simp [List.mapM_cons, hx, ih, bind, Except.bind, pure, Except.pure]

theorem mapM_err_of_exists {α β} (f : α → R β) :
    ∀ (l : List α), (∃ x ∈ l, f x = .error ()) → l.mapM f = .error ()
  | [], h => by simp at h
  | x :: xs, h => by
    simp only [List.mapM_cons, bind, Except.bind, pure, Except.pure]
    cases hx : f x with
    | error e => rfl
    | ok y =>
      have : ∃ z ∈ xs, f z = .error () := by
        rcases h with ⟨z, hz, hf⟩
        rcases List.mem_cons.mp hz with rfl | hz
        · rw [hx] at hf; cases hf
        · exact ⟨z, hz, hf⟩
      simp [mapM_err_of_exists f xs this]

/-! ### field lists -/

def docMk (t : CmpOp) (f : FieldE) : CmpField :=
  { f, sel := (docSel t f.h.cmp).getD .dflt, rev := docReversed t f.h.cmp }

/-- the compared fields with the documented comparator attached -/
def docFieldsOut (t : CmpOp) (fields : List FieldE) : List CmpField := (docCompared t fields).map (docMk t)

def fieldsMisused (t : CmpOp) (fields : List FieldE) : Bool := fields.any fun f => docMisuse t f.h.cmp

theorem cmpFields_eq_doc (t : CmpOp) (fields : List FieldE) :
    cmpFields t fields =
      if fieldsMisused t fields then .error () else .ok (docFieldsOut t fields) := by
  unfold cmpFields
  have hfun : cmpField1 t = docField1 t := funext (cmpField1_eq_doc t)
  rw [hfun]
  cases hm : fieldsMisused t fields
  · -- no misuse: every field has its documented outcome
    have hall : ∀ f ∈ fields, docField1 t f =
        .ok (if docSkips t f.h.cmp then none else some (docMk t f)) := by
      intro f hf
      have : docMisuse t f.h.cmp = false := by
        simp only [fieldsMisused, List.any_eq_false] at hm
        simpa using hm f hf
      unfold docField1 docMk
      simp [this]
      cases docSkips t f.h.cmp <;> rfl
    rw [mapM_ok_of_forall _ _ fields hall]
    simp only [bind, Except.bind, pure, Except.pure, docFieldsOut, docCompared, Bool.false_eq_true, if_false]
    congr 1
    induction fields with
    | nil => rfl
    | cons f fs ih =>
      have ih' := ih (by
        simp only [fieldsMisused, List.any_cons, Bool.or_eq_false_iff] at hm
        exact hm.2) (fun g hg => hall g (by simp [hg]))
      simp only [List.map_cons, List.filter_cons]
      cases docSkips t f.h.cmp <;> simp [List.filterMap_cons, ih']
  · have : ∃ f ∈ fields, docField1 t f = .error () := by
      simp only [fieldsMisused, List.any_eq_true] at hm
      rcases hm with ⟨f, hf, hmis⟩
      exact ⟨f, hf, by simp [docField1, hmis]⟩
    rw [mapM_err_of_exists _ fields this]
    rfl

/-! ### one field, on values -/

theorem evalPe_docMk {V F} (s : FieldSem V F) (f : FieldE) (x y : V) :
    evalPe s (docMk .partialEq f) x y = docFieldEq s f.h.cmp x y := by
  unfold evalPe docFieldEq docMk
  cases h : docSel .partialEq f.h.cmp with
  | none => rfl
  | some sel => cases sel with
    | dflt => rfl
    | key a k => rfl
    | by_ a e => cases a <;> rfl

theorem evalPo_docMk {V F} (s : FieldSem V F) (f : FieldE) (x y : V) :
    evalPo s (docMk .partialOrd f) x y = docFieldPcmp s f.h.cmp x y := by
  unfold evalPo docFieldPcmp docMk
  cases h : docSel .partialOrd f.h.cmp with
  | none => rfl
  | some sel => cases sel with
    | dflt => rfl
    | key a k => rfl
    | by_ a e => cases a <;> rfl

theorem evalOrd_docMk {V F} (s : FieldSem V F) (f : FieldE) (x y : V) :
    evalOrd s (docMk .ord f) x y = docFieldCmp s f.h.cmp x y := by
  unfold evalOrd docFieldCmp docMk
  cases h : docSel .ord f.h.cmp with
  | none => rfl
  | some sel => cases sel <;> rfl

theorem evalHashF_docMk {V F} (s : FieldSem V F) (f : FieldE) (x : V) :
    evalHashF s (docMk .hash f) x = docFieldHash s f.h.cmp x := by
  unfold evalHashF docFieldHash docMk
  cases h : docSel .hash f.h.cmp with
  | none => rfl
  | some sel => cases sel <;> rfl

/-! ### field lists, on values: the `&&` chain is `all`, the early-return chains
are "first non-equal decides", the statement sequence is concatenation -/

theorem evalPeFields_doc {V F} (σ : Env V F) (a b : Val V) (fields : List FieldE) :
    evalPeFields σ a b (docFieldsOut .partialEq fields) = docEqFields σ a b fields := by
  unfold docFieldsOut docEqFields
  induction docCompared .partialEq fields with
  | nil => rfl
  | cons f fs ih =>
    simp only [List.map_cons, evalPeFields, List.all_cons, ih]
    rw [evalPe_docMk]
    rfl

theorem evalPoFields_doc {V F} (σ : Env V F) (a b : Val V) (fields : List FieldE) :
    evalPoFields σ a b (docFieldsOut .partialOrd fields) = docPcmpFields σ a b fields := by
  unfold docFieldsOut docPcmpFields firstNonEqOpt
  induction docCompared .partialOrd fields with
  | nil => rfl
  | cons f fs ih =>
    simp only [List.map_cons, evalPoFields, List.find?_cons]
    rw [evalPo_docMk]
    have hidx : (docMk CmpOp.partialOrd f).f = f := rfl
    rw [hidx]
    cases hr : docFieldPcmp (σ f) f.h.cmp (a.field f.index) (b.field f.index) with
    | none => rfl
    | some o =>
      cases o
      · rfl
      · exact ih
      · rfl

theorem evalOrdFields_doc {V F} (σ : Env V F) (a b : Val V) (fields : List FieldE) :
    evalOrdFields σ a b (docFieldsOut .ord fields) = docCmpFields σ a b fields := by
  unfold docFieldsOut docCmpFields firstNonEq
  induction docCompared .ord fields with
  | nil => rfl
  | cons f fs ih =>
    simp only [List.map_cons, evalOrdFields, List.find?_cons]
    rw [evalOrd_docMk]
    have hidx : (docMk CmpOp.ord f).f = f := rfl
    rw [hidx]
    cases hr : docFieldCmp (σ f) f.h.cmp (a.field f.index) (b.field f.index)
    · rfl
    · exact ih
    · rfl

theorem evalHashFields_doc {V F} (σ : Env V F) (a : Val V) (fields : List FieldE) :
    evalHashFields σ a (docFieldsOut .hash fields) = docHashFields σ a fields := by
  unfold docFieldsOut docHashFields
  induction docCompared .hash fields with
  | nil => rfl
  | cons f fs ih =>
    simp only [List.map_cons, evalHashFields, List.flatMap_cons, ih]
    rw [evalHashF_docMk]
    rfl

/-! ### whole impls -/

/-- some field of the item (of any variant) is misused for `t` -/
def Source.misused (t : CmpOp) : Source → Bool
  | .struct_ _ _ fields => fieldsMisused t fields
  | .enum_ _ _ variants => variants.any fun v => fieldsMisused t v.fields

/-- the documented structured body -/
def Source.docBody (t : CmpOp) : Source → CmpBody
  | .struct_ _ _ fields => .struct_ (docFieldsOut t fields)
  | .enum_ _ _ variants => .enum_ (variants.map fun v => (v, docFieldsOut t v.fields))

theorem variants_mapM_doc (t : CmpOp) (variants : List VariantE) :
    variants.mapM (cmpVariant t) =
      if (variants.any fun v => fieldsMisused t v.fields) then .error ()
      else .ok (variants.map fun v => (v, docFieldsOut t v.fields)) := by
  cases hm : variants.any fun v => fieldsMisused t v.fields
  · simp only [Bool.false_eq_true, if_false]
    apply mapM_ok_of_forall
    intro v hv
    have : fieldsMisused t v.fields = false := by
      simp only [List.any_eq_false] at hm
      simpa using hm v hv
    simp [cmpVariant, cmpFields_eq_doc, this, bind, Except.bind, pure, Except.pure]
  · simp only [if_true]
    apply mapM_err_of_exists
    simp only [List.any_eq_true] at hm
    rcases hm with ⟨v, hv, hmis⟩
    exact ⟨v, hv, by simp [cmpVariant, cmpFields_eq_doc, hmis, bind, Except.bind]⟩

/-- `build_compare_op` fails exactly on documented misuse, and otherwise builds
the documented body -/
theorem buildCmp_doc (t : CmpOp) (src : Source) (e : Entry) (h : HAttrs) :
    (buildCmp t src e h).map (·.body) =
      if src.misused t then .error () else .ok (src.docBody t) := by
  cases src with
  | struct_ name g fields =>
    simp only [buildCmp, Source.misused, Source.docBody, cmpFields_eq_doc, bind, Except.bind, pure, Except.pure]
    by_cases hm : fieldsMisused t fields = true <;> simp [hm, Except.map]
  | enum_ name g variants =>
    simp only [buildCmp, Source.misused, Source.docBody, bind, Except.bind, pure, Except.pure]
    rw [variants_mapM_doc]
    by_cases hm : (variants.any fun v => fieldsMisused t v.fields) = true <;> simp [hm, Except.map]

end DX
