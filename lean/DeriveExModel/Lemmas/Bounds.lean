import DeriveExModel.Spec.Bounds
/-
The expander threads one `use_bounds` flag through a mutable builder; these lemmas show that the
threading computes the declarative walk of Spec/Bounds.lean.
-/
namespace DX

theorem Contrib.ext' {a b : Contrib} (h1 : a.tys = b.tys) (h2 : a.preds = b.preds) : a = b := by
  cases a; cases b; simp_all

@[simp] theorem Contrib.append_tys (a b : Contrib) : (a ++ b).tys = a.tys ++ b.tys := rfl
@[simp] theorem Contrib.append_preds (a b : Contrib) : (a ++ b).preds = a.preds ++ b.preds := rfl
@[simp] theorem Contrib.empty_tys : Contrib.empty.tys = [] := rfl
@[simp] theorem Contrib.empty_preds : Contrib.empty.preds = [] := rfl

theorem Contrib.append_assoc (a b c : Contrib) : (a ++ b) ++ c = a ++ (b ++ c) :=
  Contrib.ext' (by simp) (by simp)
theorem Contrib.empty_append (a : Contrib) : Contrib.empty ++ a = a := Contrib.ext' (by simp) (by simp)
theorem Contrib.append_empty (a : Contrib) : a ++ Contrib.empty = a := Contrib.ext' (by simp) (by simp)

@[simp] theorem WCB.addC_gps (w : WCB) (c : Contrib) : (w.addC c).gps = w.gps := rfl
theorem WCB.addC_addC (w : WCB) (a b : Contrib) : (w.addC a).addC b = w.addC (a ++ b) := by
  simp [WCB.addC, List.append_assoc]
theorem WCB.addC_empty (w : WCB) : w.addC Contrib.empty = w := by
  cases w; simp [WCB.addC]

/-- the threaded walk over a chain of levels, starting with flag `use` -/
def walk (w : WCB) (use : Bool) : List Bounds → WCB × Bool
  | [] => (w, use)
  | b :: bs => let (w', u') := w.pushIf use b; walk w' u' bs

theorem walk_false (w : WCB) (ls : List Bounds) : walk w false ls = (w, false) := by
  induction ls with
  | nil => rfl
  | cons b bs ih => simp [walk, WCB.pushIf, ih]

/-- threading = the declarative walk -/
theorem walk_true (w : WCB) (ls : List Bounds) :
    walk w true ls = (w.addC (levelsContrib ls), continues ls) := by
  induction ls generalizing w with
  | nil => simp [walk, levelsContrib, reached, continues, WCB.addC]
  | cons b bs ih =>
    simp only [walk, WCB.pushIf, if_true, WCB.pushBounds]
    cases hd : b.dflt
    · rw [walk_false]
      simp [levelsContrib, reached, continues, hd, WCB.addC]
    · rw [ih]
      simp [levelsContrib, reached, continues, hd, WCB.addC, List.append_assoc]

theorem walk_eq (w : WCB) (use : Bool) (ls : List Bounds) :
    walk w use ls = if use then (w.addC (levelsContrib ls), continues ls) else (w, false) := by
  cases use
  · simp [walk_false]
  · simp [walk_true]

theorem walk_append (w : WCB) (use : Bool) (l₁ l₂ : List Bounds) :
    walk w use (l₁ ++ l₂) = walk (walk w use l₁).1 (walk w use l₁).2 l₂ := by
  induction l₁ generalizing w use with
  | nil => rfl
  | cons b bs ih => simp only [List.cons_append, walk]; exact ih _ _

theorem Entry.pushBoundsTo_walk (e : Entry) (w : WCB) : e.pushBoundsTo w = walk w true e.levels := by
  simp [Entry.pushBoundsTo, Entry.levels, walk, WCB.pushIf]

theorem pushIf_walk (w : WCB) (use : Bool) (b : Bounds) : w.pushIf use b = walk w use [b] := by
  simp [walk]

theorem CmpHs.pushBounds_walk (c : CmpHs) (op : CmpOp) (w : WCB) :
    c.pushBounds op w = walk w true ((CmpOp.all.reverse.filter (·.effectsTo op)).map fun s => (c.get s.attr).bounds) := by
  cases op <;> simp [CmpHs.pushBounds, CmpOp.all, CmpOp.effectsTo, List.foldl, walk, WCB.pushIf, List.filter,
    CmpOp.attr, CmpHs.get] <;> (repeat' split) <;> simp_all

end DX

namespace DX

theorem HAttrs.pushHelper_walk (h : HAttrs) (kind : Kind) (w : WCB) :
    h.pushHelper true kind w = walk w true (h.helperLevels kind) := by
  cases kind <;> simp [HAttrs.pushHelper, HAttrs.helperLevels, walk, WCB.pushIf, CmpHs.pushBounds_walk]
  cases h.dflt <;> simp [walk, WCB.pushIf]

theorem HAttrs.pushBoundsToRaw_walk (h : HAttrs) (use useHelper : Bool) (kind : Kind) (w : WCB) :
    h.pushBoundsToRaw use useHelper kind w = walk w use (h.levels useHelper kind) := by
  unfold HAttrs.levels
  rw [walk_append]
  unfold HAttrs.pushBoundsToRaw
  have hhelp : (if (use && useHelper) = true then h.pushHelper use kind w else (w, use)) =
      walk w use (if useHelper then h.helperLevels kind else []) := by
    cases use
    · simp [walk_false]
    · cases useHelper
      · simp [walk]
      · simp [HAttrs.pushHelper_walk]
  rw [hhelp]
  generalize walk w use (if useHelper then h.helperLevels kind else []) = r
  obtain ⟨w', u'⟩ := r
  simp only [HAttrs.itemLevels]
  cases u'
  · simp [walk_false]
  · cases h.item? kind with
    | none => simp [walk]
    | some a => simp [Entry.pushBoundsTo_walk]

theorem Entry.pushBoundsToWith_walk (e : Entry) (h : HAttrs) (kind : Kind) (w : WCB) :
    e.pushBoundsToWith h kind w = walk w true (h.levels true kind ++ e.levels) := by
  unfold Entry.pushBoundsToWith HAttrs.pushBoundsTo
  rw [HAttrs.pushBoundsToRaw_walk, walk_append]
  generalize walk w true (h.levels true kind) = r
  obtain ⟨w', u'⟩ := r
  simp [Entry.levels, walk]

/-- one field of a trait that uses every field it reaches (Clone, Copy, operators, Debug-shown) -/
theorem FieldE.pushBoundsTo_contrib (f : FieldE) (use : Bool) (kind : Kind) (w : WCB) :
    f.pushBoundsTo use kind w =
      if use then w.addC (FieldPlan.contrib w.gps { levels := f.h.levels true kind, ty := f.field.ty, used := true })
      else w := by
  unfold FieldE.pushBoundsTo HAttrs.pushBoundsTo
  rw [HAttrs.pushBoundsToRaw_walk, walk_eq]
  cases use
  · simp
  · simp only [if_true, FieldPlan.contrib, Bool.and_true]
    cases hc : continues (f.h.levels true kind)
    · simp [Contrib.append_empty]
    · simp only [if_true, WCB.pushField, WCB.addC_gps, Bool.true_and]
      by_cases hm : Ty.mentions w.gps f.field.ty = true
      · simp [hm, WCB.addC, List.append_assoc]
      · simp [hm, Contrib.append_empty]

theorem foldl_addC {α} (l : List α) (c : α → Contrib) (step : WCB → α → WCB) (gps : List String)
    (h : ∀ w x, w.gps = gps → step w x = w.addC (c x)) (w : WCB) (hw : w.gps = gps) :
    l.foldl step w = w.addC (Contrib.concat (l.map c)) := by
  induction l generalizing w with
  | nil => simp [Contrib.concat, WCB.addC_empty]
  | cons x xs ih =>
    simp only [List.foldl_cons, List.map_cons]
    rw [h w x hw, ih _ (by simp [hw]), WCB.addC_addC]
    rfl

theorem foldl_id {α} (l : List α) (step : WCB → α → WCB) (h : ∀ w x, step w x = w) (w : WCB) :
    l.foldl step w = w := by
  induction l generalizing w with
  | nil => rfl
  | cons x xs ih => simp [List.foldl_cons, h, ih]

/-- the fields of one struct / variant for a trait that uses every field -/
def plainFields (kind : Kind) (fields : List FieldE) : List FieldPlan :=
  fields.map fun f => { levels := f.h.levels true kind, ty := f.field.ty, used := true }

theorem fields_fold (kind : Kind) (fields : List FieldE) (use : Bool) (w : WCB) :
    fields.foldl (fun w f => f.pushBoundsTo use kind w) w =
      if use then w.addC (Contrib.concat ((plainFields kind fields).map (FieldPlan.contrib w.gps))) else w := by
  cases use
  · simp only [Bool.false_eq_true, if_false]
    apply foldl_id
    intro w x
    simp [FieldE.pushBoundsTo_contrib]
  · simp only [if_true, plainFields, List.map_map]
    apply foldl_addC _ _ _ w.gps _ _ rfl
    intro w' x hw'
    simp [FieldE.pushBoundsTo_contrib, hw']

end DX
