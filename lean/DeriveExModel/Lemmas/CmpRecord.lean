import DeriveExModel.Spec.Cmp
/-
Facts about one field's attribute record: the expander's chains of early
returns compute the documented selection, skipping and reversal, and fail
exactly on documented misuse.
-/
namespace DX

theorem sel_eq_doc (c : CmpHs) (t : CmpOp) :
    c.sel t = match docSel t c with
      | some s => .ok s
      | none => if c.anyKeyBy then .error () else .ok .dflt := by
  cases t <;>
  simp only [CmpHs.sel, docSel, docPrecedence, docAffects, byUsable, CmpHs.get, List.filter, List.findSome?,
    bail, pure, Except.pure, if_true, Option.map] <;>
  (repeat' split) <;> simp_all

theorem isIgnore_eq_doc (c : CmpHs) (t : CmpOp) :
    c.isIgnore t =
      if docSkips t c then .ok true
      else if docSkips .partialEq c then .error () else .ok false := by
  cases t <;>
  simp only [CmpHs.isIgnore, docSkips, docPrecedence, docAffects, CmpHs.get, List.filter, List.any,
    bail, pure, Except.pure, if_true, Bool.or_false, Bool.false_or] <;>
  cases c.ord.ignore <;> cases c.partialOrd.ignore <;> cases c.eq.ignore <;> cases c.partialEq.ignore <;>
  cases c.hash.ignore <;> rfl

theorem isReverse_eq_doc (c : CmpHs) (t : CmpOp) :
    c.isReverse t =
      if t = .ord ∧ c.partialOrd.reverse = true then .error () else .ok (docReversed t c) := by
  cases t <;>
  simp only [CmpHs.isReverse, docReversed, docPrecedence, docAffects, CmpHs.get, List.filter, List.any,
    bail, pure, Except.pure] <;>
  cases c.ord.reverse <;> cases c.partialOrd.reverse <;> simp

/-- the documented outcome for one field and one trait -/
def docField1 (t : CmpOp) (f : FieldE) : R (Option CmpField) :=
  if docMisuse t f.h.cmp then .error ()
  else if docSkips t f.h.cmp then .ok none
  else .ok (some { f, sel := (docSel t f.h.cmp).getD .dflt, rev := docReversed t f.h.cmp })

theorem docSkips_partialEq_of (c : CmpHs) (t : CmpOp) (h : docSkips t c = true) (ht : t ≠ .hash) :
    docSkips .partialEq c = true := by
  revert h
  cases t <;>
  simp only [docSkips, docPrecedence, docAffects, CmpHs.get, List.filter, List.any] <;>
  cases c.ord.ignore <;> cases c.partialOrd.ignore <;> cases c.eq.ignore <;> cases c.partialEq.ignore <;>
  cases c.hash.ignore <;> simp_all

theorem cmpField1_eq_doc (t : CmpOp) (f : FieldE) : cmpField1 t f = docField1 t f := by
  unfold cmpField1 docField1 docMisuse
  simp only [isIgnore_eq_doc, sel_eq_doc, isReverse_eq_doc, bind, Except.bind, pure, Except.pure]
  cases hs : docSkips t f.h.cmp <;> simp
  cases hp : docSkips .partialEq f.h.cmp <;> simp
  cases hd : docSel t f.h.cmp <;> simp
  · cases hk : f.h.cmp.anyKeyBy <;> simp
    cases t <;> simp [docReversed, docPrecedence, docAffects, List.filter, List.any, CmpHs.get] <;>
      cases f.h.cmp.partialOrd.reverse <;> simp <;> decide
  · cases t <;> simp [docReversed, docPrecedence, docAffects, List.filter, List.any, CmpHs.get] <;>
      cases f.h.cmp.partialOrd.reverse <;> simp <;> decide

end DX
