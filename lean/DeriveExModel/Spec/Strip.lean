import DeriveExModel.Spec.Cmp
import DeriveExModel.Entry
/-
Which attributes belong to derive_ex (C14): `derive_ex` itself, and the helper
attributes the documentation assigns to a trait that is being derived.
-/
namespace DX

/-- is trait kind `κ` among the derived ones -/
def derives (ks : List Kind) (κ : Kind) : Bool := ks.any fun k => decide (k = κ)

/-- the documentation's assignment of helper attributes to derived traits -/
def docOwnsAttr (derived : List Kind) : Attr → Bool
  | .foreign _ => false
  | .deriveEx _ => true
  | .dflt _ => derives derived .dflt
  | .debug _ => derives derived .debug
  | .cmp w _ => CmpOp.all.any fun t => docOwns w t && derives derived (.cmp t)

def docStripAttrs (derived : List Kind) (attrs : List Attr) : List Attr :=
  attrs.filter fun a => !docOwnsAttr derived a

def docStripFields (derived : List Kind) (fs : Fields) : Fields :=
  { fs with fields := fs.fields.map fun f => { f with attrs := docStripAttrs derived f.attrs } }

def docStripStruct (derived : List Kind) (s : ItemStruct) : ItemStruct :=
  { s with attrs := docStripAttrs derived s.attrs, fields := docStripFields derived s.fields }

def docStripEnum (derived : List Kind) (e : ItemEnum) : ItemEnum :=
  { e with attrs := docStripAttrs derived e.attrs,
           variants := e.variants.map fun v =>
             { v with attrs := docStripAttrs derived v.attrs, fields := docStripFields derived v.fields } }

end DX
