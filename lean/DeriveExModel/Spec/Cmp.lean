import DeriveExModel.Sem.Cmp
/-
The documented behaviour of the comparison traits (doc/derive_ex.md, "Derive
Ord, PartialOrd, Eq, PartialEq, Hash"), written independently of the expander:
tables, `filter`, `find?`, `all` — no chains of early returns.
-/
namespace DX

/-- the "which helper attribute affects which trait" table, as far as *behaviour*
goes.  (The documentation's table also ticks `partial_eq` → `Eq`; that tick only
matters for recognition, see `docOwns`.) -/
def docAffects : CmpAttr → CmpOp → Bool
  | .ord, _ => true
  | .partialOrd, .partialOrd | .partialOrd, .partialEq => true
  | .eq, .eq | .eq, .partialEq | .eq, .hash => true
  | .partialEq, .partialEq => true
  | .hash, .hash => true
  | _, _ => false

/-- the table as printed, used for *recognition and stripping* -/
def docOwns : CmpAttr → CmpOp → Bool
  | .partialEq, .eq => true
  | a, t => docAffects a t

/-- "The helper attributes in the lines below are applied preferentially":
the table's rows bottom-up, restricted to those that affect the trait -/
def docPrecedence (t : CmpOp) : List CmpAttr :=
  [CmpAttr.hash, .partialEq, .eq, .partialOrd, .ord].filter (docAffects · t)

/-- a field is left out of trait `t` iff an attribute affecting `t` says `ignore` -/
def docSkips (t : CmpOp) (c : CmpHs) : Bool := (docPrecedence t).any fun a => (c.get a).ignore

/-- the comparison is reversed iff an attribute affecting `t` says `reverse` -/
def docReversed (t : CmpOp) (c : CmpHs) : Bool :=
  match t with
  | .ord | .partialOrd => (docPrecedence t).any fun a => (c.get a).reverse
  | _ => false

/-- "`#[hash(by = ...)]` only changes the behavior of `Hash`.  Other attributes
act on attributes other than `Hash`." -/
def byUsable : CmpAttr → CmpOp → Bool
  | .hash, .hash => true
  | .hash, _ => false
  | _, .hash => false
  | _, _ => true

/-- the comparator the documented precedence selects: the first attribute, most
specific first, that carries a usable `by` or a `key` -/
def docSel (t : CmpOp) (c : CmpHs) : Option Sel :=
  (docPrecedence t).findSome? fun a =>
    match (if byUsable a t then (c.get a).by_ else none) with
    | some e => some (.by_ a e)
    | none => (c.get a).key.map (.key a)

/-- documented misuse on one field, for trait `t` (C05):
 M1 `t` would use the default comparison although some attribute customises with `key`/`by`;
 M2 `PartialEq` skips the field but `t` does not;
 M3 `partial_ord(reverse)` while `Ord` is derived.
 A field `t` skips cannot be misused for `t`. -/
def docMisuse (t : CmpOp) (c : CmpHs) : Bool :=
  !docSkips t c &&
    ((docSel t c).isNone && c.anyKeyBy
     || docSkips .partialEq c
     || (t == .ord && c.partialOrd.reverse))

/-! ### documented result on values -/

/-- natural use of a selected comparator for `==` -/
def docFieldEq {V F} (s : FieldSem V F) (c : CmpHs) (a b : V) : Bool :=
  match docSel .partialEq c with
  | some (.by_ .partialOrd e) => s.byPcmp e a b == some .eq
  | some (.by_ .ord e) => s.byCmp e a b == .eq
  | some (.by_ _ e) => s.byEq e a b
  | some (.key _ k) => s.keyEq k a b
  | _ => s.eq a b

def docFieldPcmp {V F} (s : FieldSem V F) (c : CmpHs) (a b : V) : Option Ordering :=
  let r := match docSel .partialOrd c with
    | some (.by_ .ord e) => some (s.byCmp e a b)
    | some (.by_ _ e) => s.byPcmp e a b
    | some (.key _ k) => s.keyPcmp k a b
    | _ => s.pcmp a b
  if docReversed .partialOrd c then r.map revOrd else r

def docFieldCmp {V F} (s : FieldSem V F) (c : CmpHs) (a b : V) : Ordering :=
  let r := match docSel .ord c with
    | some (.by_ _ e) => s.byCmp e a b
    | some (.key _ k) => s.keyCmp k a b
    | _ => s.cmp a b
  if docReversed .ord c then revOrd r else r

def docFieldHash {V F} (s : FieldSem V F) (c : CmpHs) (a : V) : List F :=
  match docSel .hash c with
  | some (.by_ _ e) => s.byHash e a
  | some (.key _ k) => s.keyHash k a
  | _ => s.hash a

/-- the fields of one variant that take part in trait `t` -/
def docCompared (t : CmpOp) (fields : List FieldE) : List FieldE :=
  fields.filter fun f => !docSkips t f.h.cmp

/-- `==` on two values of the same variant: every compared field is equal -/
def docEqFields {V F} (σ : Env V F) (a b : Val V) (fields : List FieldE) : Bool :=
  (docCompared .partialEq fields).all fun f => docFieldEq (σ f) f.h.cmp (a.field f.index) (b.field f.index)

/-- the first result that is not `Equal` decides; `Equal` if there is none -/
def firstNonEq (l : List Ordering) : Ordering :=
  match l.find? (· != .eq) with
  | some o => o
  | none => .eq

def firstNonEqOpt (l : List (Option Ordering)) : Option Ordering :=
  match l.find? (· != some .eq) with
  | some o => o
  | none => some .eq

/-- the first compared field that is not `Some(Equal)` decides -/
def docPcmpFields {V F} (σ : Env V F) (a b : Val V) (fields : List FieldE) : Option Ordering :=
  firstNonEqOpt ((docCompared .partialOrd fields).map fun f =>
      docFieldPcmp (σ f) f.h.cmp (a.field f.index) (b.field f.index))

def docCmpFields {V F} (σ : Env V F) (a b : Val V) (fields : List FieldE) : Ordering :=
  firstNonEq ((docCompared .ord fields).map fun f =>
      docFieldCmp (σ f) f.h.cmp (a.field f.index) (b.field f.index))

def docHashFields {V F} (σ : Env V F) (a : Val V) (fields : List FieldE) : List F :=
  (docCompared .hash fields).flatMap fun f => docFieldHash (σ f) f.h.cmp (a.field f.index)

/-- the fields of the variant a value belongs to (`[]` if out of range) -/
def Source.fieldsOf (src : Source) (variant : Nat) : List FieldE :=
  match src with
  | .struct_ _ _ fields => fields
  | .enum_ _ _ variants => match variants[variant]? with | some v => v.fields | none => []

def Source.isEnum : Source → Bool
  | .enum_ _ _ _ => true
  | _ => false

/-- `a == b` as documented: different variants are unequal; otherwise field-wise -/
def docEq {V F} (src : Source) (σ : Env V F) (a b : Val V) : Bool :=
  if src.isEnum && a.variant != b.variant then false
  else docEqFields σ a b (src.fieldsOf a.variant)

/-- `partial_cmp` as documented: different variants by declaration position -/
def docPartialCmp {V F} (src : Source) (σ : Env V F) (a b : Val V) : Option Ordering :=
  if src.isEnum && a.variant != b.variant then some (compare a.variant b.variant)
  else docPcmpFields σ a b (src.fieldsOf a.variant)

def docCmp {V F} (src : Source) (σ : Env V F) (a b : Val V) : Ordering :=
  if src.isEnum && a.variant != b.variant then compare a.variant b.variant
  else docCmpFields σ a b (src.fieldsOf a.variant)

/-- the hasher feed as documented: the effective inputs of the non-ignored
fields of the value's variant, in declaration order, and nothing else -/
def docHashFeed {V F} (src : Source) (σ : Env V F) (a : Val V) : List F :=
  docHashFields σ a (src.fieldsOf a.variant)

end DX
