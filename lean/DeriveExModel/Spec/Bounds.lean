import DeriveExModel.Entry
/-
The documented resolution of `bound(..)` (doc/derive_ex.md, "Specify trait bound"), written
declaratively: a chain of *levels*; the levels that are reached contribute their contents;
resolution continues past a level only if it is absent or contains `..`.
-/
namespace DX

/-- what a where-clause receives: types to be bounded by the trait, and verbatim predicates -/
structure Contrib where
  tys : List Ty := []
  preds : List WPred := []
deriving Inhabited

def Contrib.append (a b : Contrib) : Contrib := { tys := a.tys ++ b.tys, preds := a.preds ++ b.preds }
instance : Append Contrib := ⟨Contrib.append⟩
def Contrib.empty : Contrib := {}
def Contrib.concat (cs : List Contrib) : Contrib := cs.foldr (· ++ ·) Contrib.empty

def WCB.addC (w : WCB) (c : Contrib) : WCB := { w with types := w.types ++ c.tys, preds := w.preds ++ c.preds }

/-- the levels that are reached: up to and including the first one that stops
(an absent level is `Bounds.new`: no content, continues) -/
def reached : List Bounds → List Bounds
  | [] => []
  | b :: bs => b :: (if b.dflt then reached bs else [])

/-- resolution runs off the end of the chain: every level is absent or contains `..` -/
def continues (ls : List Bounds) : Bool := ls.all (·.dflt)

/-- every reached level contributes its predicates verbatim and its `Type` entries -/
def levelsContrib (ls : List Bounds) : Contrib :=
  { tys := (reached ls).flatMap (·.ty), preds := (reached ls).flatMap (·.pred) }

/-! ### which levels exist where -/

/-- levels 2 and 3 (5 and 6, 8 and 9): `#[derive_ex(Trait(bound(..)), bound(..))]` -/
def Entry.levels (e : Entry) : List Bounds := [e.boundsThis, e.boundsCommon]

/-- level 1 (4, 7): the helper attribute(s) of the trait; for a comparison trait, the helper
attributes that affect it, most specific first -/
def HAttrs.helperLevels (h : HAttrs) : Kind → List Bounds
  | .cmp op => (CmpOp.all.reverse.filter (·.effectsTo op)).map fun s => (h.cmp.get s.attr).bounds
  | .debug => [h.debug.bounds]
  | .dflt => match h.dflt with | some a => [a.bounds] | none => []
  | _ => []

def HAttrs.itemLevels (h : HAttrs) (kind : Kind) : List Bounds :=
  match h.item? kind with | some a => a.levels | none => []

def HAttrs.levels (h : HAttrs) (useHelper : Bool) (kind : Kind) : List Bounds :=
  (if useHelper then h.helperLevels kind else []) ++ h.itemLevels kind

/-! ### the nested walk: type, then each variant, then each used field -/

structure FieldPlan where
  levels : List Bounds
  ty : Ty
  /-- does the generated code use the field's own impl of the trait? -/
  used : Bool

structure VariantPlan where
  levels : List Bounds
  fields : List FieldPlan

structure Plan where
  typeLevels : List Bounds
  variants : List VariantPlan

/-- the default bound of a field: only if the end of its chain is reached, the field is used,
and its type mentions a generic parameter -/
def FieldPlan.contrib (gps : List String) (f : FieldPlan) : Contrib :=
  levelsContrib f.levels ++
    (if continues f.levels && f.used && f.ty.mentions gps then { tys := [f.ty] } else Contrib.empty)

def VariantPlan.contrib (gps : List String) (v : VariantPlan) : Contrib :=
  levelsContrib v.levels ++
    (if continues v.levels then Contrib.concat (v.fields.map (FieldPlan.contrib gps)) else Contrib.empty)

/-- a stop on a variant or field affects only that variant or field; a stop on the type stops everything -/
def Plan.contrib (gps : List String) (p : Plan) : Contrib :=
  levelsContrib p.typeLevels ++
    (if continues p.typeLevels then Contrib.concat (p.variants.map (VariantPlan.contrib gps)) else Contrib.empty)

/-- the where-clause the documentation prescribes: the type's own predicates are always retained -/
def Plan.whereClause (g : Generics) (p : Plan) : WCB := (WCB.new g).addC (p.contrib g.paramSet)

end DX
