import DeriveExModel.Cmp
import DeriveExModel.Basic
import DeriveExModel.ItemImpl
/-
The two entry points (`lib.rs`) and the per-item drivers
(`build_by_item_struct[_core]`, `build_by_item_enum[_core]`, `build_derive`).
-/
namespace DX

/-- one generated impl family, structured -/
inductive GenImpl where
  | cmp (c : CmpImpl)
  | ops (o : OpsImpl)
  | clone (c : CloneImpl)
  | copy (c : CopyImpl)
  | debug (d : DebugImpl)
  | dflt (d : DefaultImpl)
  | deref (d : DerefImpl)
deriving Inhabited

def GenImpl.render : GenImpl → List GToks
  | .cmp c => c.render
  | .ops o => o.render
  | .clone c => [c.render]
  | .copy c => [c.render]
  | .debug d => [d.render]
  | .dflt d => [d.render]
  | .deref d => [d.render]

/-- what one derive entry turns into (`apply_dump`) -/
inductive EntryOut where
  | ok (g : GenImpl)
  | dump (g : GenImpl)
  | err
deriving Inhabited

def applyDump (e : Entry) : R GenImpl → EntryOut
  | .ok g => if e.dump then .dump g else .ok g
  | .error _ => .err

def buildStructEntry (s : ItemStruct) (h : HAttrs) (fields : List FieldE) (e : Entry) : R GenImpl :=
  match e.kind with
  | .bin _ | .assign _ | .un _ => pure (.ops (buildOps e.kind s e fields))
  | .cmp op => do pure (.cmp (← buildCmp op (.struct_ s.name s.generics fields) e h))
  | .copy => pure (.copy (buildCopyStruct s e fields))
  | .clone => pure (.clone (buildCloneStruct s e fields))
  | .debug => do pure (.debug (← buildDebugStruct s e h fields))
  | .dflt => pure (.dflt (buildDefaultStruct s e h fields))
  | .deref | .derefMut => do pure (.deref (← buildDeref e.kind s e fields))

/-- `none` = "derive … for enum is not supported", which aborts the whole item -/
def buildEnumEntry (en : ItemEnum) (h : HAttrs) (variants : List VariantE) (e : Entry) : Option (R GenImpl) :=
  match e.kind with
  | .cmp op => some do pure (.cmp (← buildCmp op (.enum_ en.name en.generics variants) e h))
  | .copy => some (pure (.copy (buildCopyEnum en e variants)))
  | .clone => some (pure (.clone (buildCloneEnum en e variants)))
  | .debug => some do pure (.debug (← buildDebugEnum en e h variants))
  | .dflt => some do pure (.dflt (← buildDefaultEnum en e h variants))
  | _ => none

/-- result of a `*_core` function together with the state of `kinds` when it returned -/
structure CoreOut where
  kinds : Kinds
  result : R (List (Entry × EntryOut))
deriving Inhabited

/-- `build_by_item_struct_core` -/
def structCore (attr : Option Args) (s : ItemStruct) : CoreOut :=
  let k0 := Kinds.new true
  match Entry.fromRoot attr s.attrs with
  | .error _ => { kinds := k0, result := bail }
  | .ok es =>
    let k := k0.extend es
    { kinds := k
      result := do
        let h ← HAttrs.fromAttrs s.attrs .type k.withoutDeriveEx
        let fields ← FieldE.fromFields s.fields k
        pure (es.map fun e => (e, applyDump e (buildStructEntry s h fields e))) }

/-- `build_by_item_enum_core` -/
def enumCore (attr : Option Args) (en : ItemEnum) : CoreOut :=
  let k0 := Kinds.new true
  match Entry.fromRoot attr en.attrs with
  | .error _ => { kinds := k0, result := bail }
  | .ok es =>
    let k := k0.extend es
    { kinds := k
      result := do
        let h ← HAttrs.fromAttrs en.attrs .type k.withoutDeriveEx
        let variants ← VariantE.fromVariants en.variants k
        es.mapM fun e =>
          match buildEnumEntry en h variants e with
          | some r => pure (e, applyDump e r)
          | none => bail }

/-! ## Output segments -/

inductive SegBody where
  | toks (ts : GToks)
  | err
  | dump (ts : GToks)
deriving Inhabited

structure OSeg where
  label : String
  body : SegBody
deriving Inhabited

def entrySegs (i : Nat) (e : Entry) (o : EntryOut) : List OSeg :=
  let base := "e" ++ toString i ++ ":" ++ e.kind.str
  match o with
  | .ok g => (g.render.zipIdx).map fun (ts, j) => { label := if j == 0 then base else base ++ "#" ++ toString j, body := .toks ts }
  | .dump g => [{ label := base, body := .dump g.render.flatten }]
  | .err => [{ label := base, body := .err }]

def coreSegs (r : R (List (Entry × EntryOut))) : List OSeg :=
  match r with
  | .error _ => [{ label := "err", body := .err }]
  | .ok xs => (xs.zipIdx).flatMap fun ((e, o), i) => entrySegs i e o

/-- the item as re-emitted by the attribute macro: `remove_attrs` on the item,
its variants and their fields -/
def stripField (k : Kinds) (f : Field) : Field := { f with attrs := removeAttrs f.attrs k }
def stripFields (k : Kinds) (fs : Fields) : Fields := { fs with fields := fs.fields.map (stripField k) }
def stripStruct (k : Kinds) (s : ItemStruct) : ItemStruct :=
  { s with attrs := removeAttrs s.attrs k, fields := stripFields k s.fields }
def stripEnum (k : Kinds) (e : ItemEnum) : ItemEnum :=
  { e with attrs := removeAttrs e.attrs k,
           variants := e.variants.map fun v => { v with attrs := removeAttrs v.attrs k, fields := stripFields k v.fields } }

def implSegs (attr : Args) (i : ItemImpl) : List OSeg :=
  match buildFwd attr i with
  | .error _ => [{ label := "err", body := .err }]
  | .ok f =>
    if attr.dump then [{ label := "impl", body := .dump f.render.flatten }]
    else (f.render.zipIdx).map fun (ts, j) => { label := "impl#" ++ toString j, body := .toks ts }

/-- `#[derive_ex(args)] item` -/
def expandAttr (attr : Args) (item : Item) : List OSeg :=
  match item with
  | .struct_ s =>
    let c := structCore (some attr) s
    { label := "item", body := .toks (U (stripStruct c.kinds s).toks) } :: coreSegs c.result
  | .enum_ e =>
    let c := enumCore (some attr) e
    { label := "item", body := .toks (U (stripEnum c.kinds e).toks) } :: coreSegs c.result
  | .impl_ i => { label := "item", body := .toks (U i.toks) } :: implSegs attr i
  | .other ts => [{ label := "item", body := .toks (U ts) }, { label := "err", body := .err }]

/-- `#[derive(Ex)] item` -/
def expandDerive (item : Item) : List OSeg :=
  match item with
  | .struct_ s => coreSegs (structCore none s).result
  | .enum_ e => coreSegs (enumCore none e).result
  | _ => [{ label := "err", body := .err }]

end DX
