import DeriveExModel.Syntax
/-
The decision core shared by all traits: which trait a name denotes, parsed
`bound(..)` arguments, the where-clause builder, derive entries, the set of
recognised helper attributes, and parsing of helper attributes.
One definition per Rust function that takes a decision, same order, same
early exits (`Except Unit` stands for `Result`; the *wording* of an error is
not modelled — no property constrains it).
-/
namespace DX

abbrev R := Except Unit
def bail {α} : R α := .error ()

/-! ## Trait names (`common.rs`, `DeriveItemKind`) -/

inductive BinOp where
  | add | bitAnd | bitOr | bitXor | div | mul | rem | shl | shr | sub
deriving Repr, BEq, DecidableEq, Inhabited

def BinOp.all : List BinOp := [.add, .bitAnd, .bitOr, .bitXor, .div, .mul, .rem, .shl, .shr, .sub]

def BinOp.str : BinOp → String
  | .add => "Add" | .bitAnd => "BitAnd" | .bitOr => "BitOr" | .bitXor => "BitXor" | .div => "Div"
  | .mul => "Mul" | .rem => "Rem" | .shl => "Shl" | .shr => "Shr" | .sub => "Sub"

def BinOp.func : BinOp → String
  | .add => "add" | .bitAnd => "bitand" | .bitOr => "bitor" | .bitXor => "bitxor" | .div => "div"
  | .mul => "mul" | .rem => "rem" | .shl => "shl" | .shr => "shr" | .sub => "sub"

def BinOp.fromStr (s : String) : Option BinOp := BinOp.all.find? (·.str == s)

inductive UnOp where
  | neg | not
deriving Repr, BEq, DecidableEq, Inhabited

def UnOp.str : UnOp → String | .neg => "Neg" | .not => "Not"
def UnOp.func : UnOp → String | .neg => "neg" | .not => "not"
def UnOp.fromStr (s : String) : Option UnOp := [UnOp.neg, UnOp.not].find? (·.str == s)

inductive CmpOp where
  | ord | partialOrd | eq | partialEq | hash
deriving Repr, BEq, DecidableEq, Inhabited

/-- `CompareOp::VARIANTS` -/
def CmpOp.all : List CmpOp := [.ord, .partialOrd, .eq, .partialEq, .hash]

def CmpOp.str : CmpOp → String
  | .ord => "Ord" | .partialOrd => "PartialOrd" | .eq => "Eq" | .partialEq => "PartialEq" | .hash => "Hash"
def CmpOp.fromStr (s : String) : Option CmpOp := CmpOp.all.find? (·.str == s)
def CmpOp.path : CmpOp → GToks
  | .ord => absPath ["core", "cmp", "Ord"]
  | .partialOrd => absPath ["core", "cmp", "PartialOrd"]
  | .eq => absPath ["core", "cmp", "Eq"]
  | .partialEq => absPath ["core", "cmp", "PartialEq"]
  | .hash => absPath ["core", "hash", "Hash"]
/-- the helper attribute named after the trait -/
def CmpOp.attr : CmpOp → CmpAttr
  | .ord => .ord | .partialOrd => .partialOrd | .eq => .eq | .partialEq => .partialEq | .hash => .hash

/-- `source.is_effects_to(target)` -/
def CmpOp.effectsTo (source target : CmpOp) : Bool :=
  match target, source with
  | .ord, .ord => true
  | .partialOrd, .partialOrd | .partialOrd, .ord => true
  | .eq, .eq | .eq, .ord => true
  | .partialEq, .partialEq | .partialEq, .eq | .partialEq, .partialOrd | .partialEq, .ord => true
  | .hash, .hash | .hash, .eq | .hash, .ord => true
  | _, _ => false

inductive Kind where
  | bin (o : BinOp) | assign (o : BinOp) | un (o : UnOp) | cmp (o : CmpOp)
  | copy | clone | debug | dflt | deref | derefMut
deriving Repr, BEq, DecidableEq, Inhabited

def Kind.fromStr (s : String) : Option Kind :=
  if s.endsWith "Assign" then (BinOp.fromStr (s.dropEnd 6).toString).map .assign
  else match BinOp.fromStr s with
  | some o => some (.bin o)
  | none => match UnOp.fromStr s with
  | some o => some (.un o)
  | none => match CmpOp.fromStr s with
  | some o => some (.cmp o)
  | none => match s with
    | "Copy" => some .copy | "Clone" => some .clone | "Debug" => some .debug
    | "Default" => some .dflt | "Deref" => some .deref | "DerefMut" => some .derefMut
    | _ => none

def Kind.str : Kind → String
  | .bin o => o.str | .assign o => o.str ++ "Assign" | .un o => o.str | .cmp o => o.str
  | .copy => "Copy" | .clone => "Clone" | .debug => "Debug" | .dflt => "Default"
  | .deref => "Deref" | .derefMut => "DerefMut"

def Kind.path : Kind → GToks
  | .bin o => absPath ["core", "ops", o.str]
  | .assign o => absPath ["core", "ops", o.str ++ "Assign"]
  | .un o => absPath ["core", "ops", o.str]
  | .cmp o => o.path
  | .copy => absPath ["core", "marker", "Copy"]
  | .clone => absPath ["core", "clone", "Clone"]
  | .debug => absPath ["core", "fmt", "Debug"]
  | .dflt => absPath ["core", "default", "Default"]
  | .deref => absPath ["core", "ops", "Deref"]
  | .derefMut => absPath ["core", "ops", "DerefMut"]

/-! ## `bound.rs` -/

structure Bounds where
  ty : List Ty := []
  pred : List WPred := []
  dflt : Bool := true
deriving Inhabited

def Bounds.new : Bounds := {}

def Bounds.ofArg : Option (List BoundArg) → Bounds
  | none => Bounds.new
  | some bs =>
    { ty := bs.filterMap fun | .ty t => some t | _ => none
      pred := bs.filterMap fun | .pred p => some p | _ => none
      dflt := bs.any fun | .dots => true | _ => false }

/-- every entry of a `bound(..)` list parses (as `..`, a where-predicate or a type) -/
def boundOk : Option (List BoundArg) → Bool
  | none => true
  | some bs => bs.all fun | .bad _ => false | _ => true

structure WCB where
  types : List Ty := []
  preds : List WPred := []
  gps : List String := []
deriving Inhabited

def WCB.new (g : Generics) : WCB := { types := [], preds := g.wheres, gps := g.paramSet }

def WCB.pushBounds (w : WCB) (b : Bounds) : WCB × Bool :=
  ({ w with preds := w.preds ++ b.pred, types := w.types ++ b.ty }, b.dflt)

def WCB.pushField (w : WCB) (ty : Ty) : WCB :=
  if ty.mentions w.gps then { w with types := w.types ++ [ty] } else w

/-- the first occurrence of every type (as written): the same type twice would give the same predicate twice, and for a
type with a higher-ranked lifetime (`fn(&T)`, `Rc<dyn Fn(&T)>`) rustc cannot choose between the two (E0283; F40) -/
def dedupTys (l : List Ty) : List Ty :=
  l.foldl (fun acc t => if acc.any (fun u => u.toks == t.toks) then acc else acc ++ [t]) []

/-- the where-clause items, in emission order -/
def WCB.items (w : WCB) (f : Ty → GToks) : List GToks :=
  (dedupTys w.types).map (fun t => f t.parenInWhere) ++ w.preds.map (fun p => U p.inWhere.toks)

def WCB.build (w : WCB) (f : Ty → GToks) : GToks :=
  let ws := w.items f
  if ws.isEmpty then [] else "where" :: termBy "," ws

/-- where `Self` is not the type (`impl Add for &X`, the free function of the `Eq` check) the types and predicates of the
where-clause have it written out -/
def WCB.selfExpanded (to : Ty) (w : WCB) : WCB :=
  { w with types := w.types.map (Ty.expandSelf to), preds := w.preds.map (WPred.expandSelf to) }

/-- push only while `use` is still true (the `if use_bounds { use_bounds = … }` idiom) -/
def WCB.pushIf (w : WCB) (use : Bool) (b : Bounds) : WCB × Bool :=
  if use then w.pushBounds b else (w, false)

/-- `#ident #type_g` as tokens and as a type -/
def thisTyToks (name : String) (g : Generics) : GToks := u name :: U g.useToks
/-- a generic parameter in argument position: `'a`, `T`, `N` -/
def paramArg : GParam → GArg
  | .lt n _ => .lt n
  | p => .ty (Ty.simple p.name)
def thisTy (name : String) (g : Generics) : Ty :=
  .path false [.mk name ((ltFirst g.params).map paramArg)]

/-! ## `DeriveEntry` -/

structure Entry where
  kind : Kind
  dump : Bool := false
  boundsThis : Bounds := {}
  boundsCommon : Bounds := {}
deriving Inhabited

/-- one `Trait(..)` item of a `derive_ex(..)` list with the list's shared arguments -/
def Entry.ofItem (bound : Option (List BoundArg)) (dump : Bool) (item : DeriveItem) : R Entry :=
  match Kind.fromStr item.trait_ with
  | none => bail
  | some k =>
    if !(boundOk bound && boundOk (match item.args with | some (b, _) => b | none => none)) then bail else
    let (d, bt) := match item.args with
      | some (b, d) => (d, Bounds.ofArg b)
      | none => (false, Bounds.new)
    pure { kind := k, dump := dump || d, boundsThis := bt, boundsCommon := Bounds.ofArg bound }

def Entry.ofArgs (a : Args) : R (List Entry) :=
  if boundOk a.bound then a.items.mapM (Entry.ofItem a.bound a.dump) else bail

def Entry.ofArgsList (as : List Args) : R (List Entry) := do
  let ess ← as.mapM Entry.ofArgs
  pure ess.flatten

def deriveExArgs (attrs : List Attr) : List Args :=
  attrs.filterMap fun | .deriveEx a => some a | _ => none

/-- `DeriveEntry::from_root` -/
def Entry.fromRoot (attr : Option Args) (attrs : List Attr) : R (List Entry) :=
  Entry.ofArgsList ((match attr with | some a => [a] | none => []) ++ deriveExArgs attrs)

def Entry.pushBoundsTo (e : Entry) (w : WCB) : WCB × Bool :=
  let (w, u) := w.pushBounds e.boundsThis
  w.pushIf u e.boundsCommon

/-! ## `HelperAttributeKinds` -/

structure Kinds where
  deriveEx : Bool := false
  dflt : Bool := false
  debug : Bool := false
  ord : Bool := false
  partialOrd : Bool := false
  eq : Bool := false
  partialEq : Bool := false
  hash : Bool := false
deriving Repr, BEq, DecidableEq, Inhabited

def Kinds.new (deriveEx : Bool) : Kinds := { deriveEx }

def Kinds.add (k : Kinds) : Kind → Kinds
  | .dflt => { k with dflt := true }
  | .debug => { k with debug := true }
  | .cmp .ord => { k with ord := true }
  | .cmp .partialOrd => { k with partialOrd := true }
  | .cmp .eq => { k with eq := true }
  | .cmp .partialEq => { k with partialEq := true }
  | .cmp .hash => { k with hash := true }
  | _ => k

def Kinds.extend (k : Kinds) (es : List Entry) : Kinds := es.foldl (fun k e => k.add e.kind) k

/-- `is_match_cmp_attr` -/
def Kinds.matchCmp (k : Kinds) : CmpAttr → Bool
  | .ord => k.ord || k.partialOrd || k.eq || k.partialEq || k.hash
  | .partialOrd => k.partialOrd || k.partialEq
  | .eq => k.eq || k.partialEq || k.hash
  | .partialEq => k.eq || k.partialEq
  | .hash => k.hash

/-- `is_match`: is this attribute one the expander owns under `k`? -/
def Kinds.isMatch (k : Kinds) : Attr → Bool
  | .foreign _ => false
  | .deriveEx _ => k.deriveEx
  | .dflt _ => k.dflt
  | .debug _ => k.debug
  | .cmp w _ => k.matchCmp w

def Kinds.withoutDeriveEx (k : Kinds) : Kinds := { k with deriveEx := false }

def removeAttrs (attrs : List Attr) (k : Kinds) : List Attr := attrs.filter (fun a => !k.isMatch a)

/-! ## Parsed helper attributes -/

inductive Target where
  | type | variant | field
deriving Repr, BEq, DecidableEq, Inhabited

/-- `HelperAttributeForCompareOp` -/
structure CmpH where
  ignore : Bool := false
  reverse : Bool := false
  by_ : Option Toks := none
  key : Option Toks := none
  bounds : Bounds := {}
deriving Inhabited

structure CmpHs where
  ord : CmpH := {}
  partialOrd : CmpH := {}
  eq : CmpH := {}
  partialEq : CmpH := {}
  hash : CmpH := {}
deriving Inhabited

def CmpHs.get (c : CmpHs) : CmpAttr → CmpH
  | .ord => c.ord | .partialOrd => c.partialOrd | .eq => c.eq | .partialEq => c.partialEq | .hash => c.hash

structure DebugH where
  transparent : Bool := false
  ignore : Bool := false
  bounds : Bounds := {}
deriving Inhabited

structure DefaultH where
  value : Option (Toks × ExprClass) := none
  bounds : Bounds := {}
deriving Inhabited

structure HAttrs where
  /-- field- or variant-level `#[derive_ex(Trait(bound(..)))]`, in source order
  (the Rust side collects into a map: a later entry for the same trait wins) -/
  items : List Entry := []
  dflt : Option DefaultH := none
  debug : DebugH := {}
  cmp : CmpHs := {}
deriving Inhabited

def HAttrs.item? (h : HAttrs) (k : Kind) : Option Entry := (h.items.reverse.find? (·.kind == k))

/-- `parse_single`: at most one attribute of that name, path or list style -/
def parseSingle {α} (bodies : List (HBody α)) (dflt : α) (check : α → R α) : R (Option α) :=
  bodies.foldlM (init := none) fun acc b =>
    match acc with
    | some _ => bail
    | none => match b with
      | .path => pure (some dflt)
      | .list a => do let a ← check a; pure (some a)
      | .nameValue _ => bail

def cmpBodies (attrs : List Attr) (w : CmpAttr) : List (HBody CmpArgs) :=
  attrs.filterMap fun | .cmp w' b => if w' == w then some b else none | _ => none
def debugBodies (attrs : List Attr) : List (HBody DebugArgs) :=
  attrs.filterMap fun | .debug b => some b | _ => none
def defaultBodies (attrs : List Attr) : List (HBody DefaultArgs) :=
  attrs.filterMap fun | .dflt b => some b | _ => none

/-- parsing the arguments of one comparison attribute: a `key` template that misuses `$` is refused here -/
def CmpArgs.check (a : CmpArgs) : R CmpArgs := if a.keyBad || !boundOk a.bound then bail else pure a

def CmpH.fromAttrs (attrs : List Attr) (w : CmpAttr) : R CmpH := do
  match ← parseSingle (cmpBodies attrs w) {} CmpArgs.check with
  | some a => pure { ignore := a.ignore, reverse := a.reverse, by_ := a.by_, key := a.key, bounds := Bounds.ofArg a.bound }
  | none => pure {}

def cmpPart (attrs : List Attr) (k : Kinds) (w : CmpAttr) : R CmpH :=
  if k.matchCmp w then CmpH.fromAttrs attrs w else pure {}

def CmpHs.fromAttrs (attrs : List Attr) (k : Kinds) : R CmpHs := do
  let ord ← cmpPart attrs k .ord
  let partialOrd ← cmpPart attrs k .partialOrd
  let eq ← cmpPart attrs k .eq
  let partialEq ← cmpPart attrs k .partialEq
  let hash ← cmpPart attrs k .hash
  pure { ord, partialOrd, eq, partialEq, hash }

def DebugH.fromAttrs (attrs : List Attr) : R DebugH := do
  match ← parseSingle (debugBodies attrs) {} (fun a => if boundOk a.bound then pure a else bail) with
  | some a => pure { transparent := a.transparent, ignore := a.ignore, bounds := Bounds.ofArg a.bound }
  | none => pure {}

/-- `ArgsForDefault` has a required unnamed argument; its `Default` is `_` -/
def DefaultH.fromAttrs (attrs : List Attr) : R (Option DefaultH) := do
  let check (a : DefaultArgs) : R DefaultArgs :=
    if !boundOk a.bound then bail else match a.value with | none => bail | some _ => pure a
  match ← parseSingle (defaultBodies attrs) { value := some (["_"], .underscore) } check with
  | some a =>
    let value := match a.value with
      | some (_, .underscore) => none
      | v => v
    pure (some { value, bounds := Bounds.ofArg a.bound })
  | none => pure none

/-- the attribute carries an argument that is only allowed on fields -/
def CmpH.fieldOnlyArgs (h : CmpH) : Bool := h.by_.isSome || h.key.isSome || h.reverse || h.ignore

def CmpH.verify (h : CmpH) : Target → R Unit
  | .field => pure ()
  | _ => if h.fieldOnlyArgs then bail else pure ()

def CmpHs.verify (c : CmpHs) (t : Target) : R Unit := do
  c.ord.verify t
  c.partialOrd.verify t
  c.eq.verify t
  c.partialEq.verify t
  c.hash.verify t

def itemsPart (attrs : List Attr) (k : Kinds) : R (List Entry) :=
  if k.deriveEx then Entry.ofArgsList (deriveExArgs attrs) else pure []
def dfltPart (attrs : List Attr) (k : Kinds) : R (Option DefaultH) :=
  if k.dflt then DefaultH.fromAttrs attrs else pure none
def debugPart (attrs : List Attr) (k : Kinds) : R DebugH :=
  if k.debug then DebugH.fromAttrs attrs else pure {}

/-- `HelperAttributes::from_attrs` -/
def HAttrs.fromAttrs (attrs : List Attr) (target : Target) (k : Kinds) : R HAttrs := do
  let items ← itemsPart attrs k
  let dflt ← dfltPart attrs k
  let debug ← debugPart attrs k
  let cmp ← CmpHs.fromAttrs attrs k
  cmp.verify target
  pure { items, dflt, debug, cmp }

/-- `HelperAttributesForCompareOp::push_bounds` -/
def CmpHs.pushBounds (c : CmpHs) (op : CmpOp) (w : WCB) : WCB × Bool :=
  CmpOp.all.reverse.foldl (init := (w, true)) fun (w, u) source =>
    if source.effectsTo op && u then w.pushBounds (c.get source.attr).bounds else (w, u)

/-- the helper-attribute level of `push_bounds_to_raw` -/
def HAttrs.pushHelper (h : HAttrs) (use : Bool) (kind : Kind) (w : WCB) : WCB × Bool :=
  match kind with
  | .cmp op => h.cmp.pushBounds op w
  | .debug => w.pushBounds h.debug.bounds
  | .dflt => (match h.dflt with | some a => w.pushBounds a.bounds | none => (w, use))
  | _ => (w, use)

/-- `push_bounds_to_raw` -/
def HAttrs.pushBoundsToRaw (h : HAttrs) (use : Bool) (useHelper : Bool) (kind : Kind) (w : WCB) : WCB × Bool :=
  let r := if use && useHelper then h.pushHelper use kind w else (w, use)
  if r.2 then
    match h.item? kind with
    | some a => a.pushBoundsTo r.1
    | none => r
  else r

def HAttrs.pushBoundsTo (h : HAttrs) (use : Bool) (kind : Kind) (w : WCB) : WCB × Bool :=
  h.pushBoundsToRaw use true kind w

/-- `DeriveEntry::push_bounds_to_with` -/
def Entry.pushBoundsToWith (e : Entry) (h : HAttrs) (kind : Kind) (w : WCB) : WCB × Bool :=
  let (w, u) := h.pushBoundsTo true kind w
  let (w, u) := w.pushIf u e.boundsThis
  w.pushIf u e.boundsCommon

/-! ## Field and variant entries -/

structure FieldE where
  index : Nat
  field : Field
  h : HAttrs
deriving Inhabited

structure VariantE where
  variant : Variant
  fields : List FieldE
  h : HAttrs
deriving Inhabited

def FieldE.fromFields (fs : Fields) (k : Kinds) : R (List FieldE) :=
  (fs.fields.zipIdx).mapM fun (f, i) => do
    let h ← HAttrs.fromAttrs f.attrs .field k
    pure { index := i, field := f, h }

def VariantE.fromVariants (vs : List Variant) (k : Kinds) : R (List VariantE) :=
  vs.mapM fun v => do
    let fields ← FieldE.fromFields v.fields k
    let h ← HAttrs.fromAttrs v.attrs .variant k
    pure { variant := v, fields, h }

/-- `FieldEntry::member` -/
def FieldE.member (f : FieldE) : Tok :=
  match f.field.name with | some n => n | none => toString f.index

/-- `FieldEntry::make_ident(prefix)`; `format_ident!` unraws the field name -/
def FieldE.makeIdent (pre : String) (f : FieldE) : Tok :=
  match f.field.name with
  | some n => pre ++ "_" ++ unraw n
  | none => pre ++ "_" ++ toString f.index

/-- `FieldEntry::push_bounds_to` -/
def FieldE.pushBoundsTo (f : FieldE) (use : Bool) (kind : Kind) (w : WCB) : WCB :=
  let (w, u) := f.h.pushBoundsTo use kind w
  if u then w.pushField f.field.ty else w

/-- `build_ctor_args` -/
def ctorArgs (fs : Fields) (values : List GToks) : GToks :=
  match fs.kind with
  | .named =>
    brace ((fs.fields.zip values).flatMap fun (f, v) => u (f.name.getD "") ::: ":" ::: v +++ [","])
  | .unnamed => paren (termBy "," values)
  | .unit => []

def withRef (ts : GToks) (isRef : Bool) : GToks := if isRef then "&" :: ts else ts

/-- `this.member` -/
def memberOf (this : GTok) (f : FieldE) : GToks := [this, ".", u f.member]

def VariantE.makePatWith (v : VariantE) (pre : String) (selfPath : GToks) : GToks :=
  selfPath ++ (("::" : GTok) :: u v.variant.name :: ctorArgs v.variant.fields (v.fields.map fun f => [(f.makeIdent pre : GTok)]))

def VariantE.makePat (v : VariantE) (pre : String) : GToks := v.makePatWith pre ["Self"]

def VariantE.makePatWildcard (v : VariantE) : GToks :=
  let rest : GToks := match v.variant.fields.kind with
    | .named => brace [".."]
    | .unnamed => paren [".."]
    | .unit => []
  "Self" :: "::" :: u v.variant.name :: rest

end DX
