import DeriveExModel.Basic
/-
`item_impl.rs`: operator impls derived from a user-written `impl`.
-/
namespace DX

inductive OpForm where
  | binary | assign
deriving Repr, BEq, DecidableEq, Inhabited

/-- `Op::from_str` -/
def opFromStr (s : String) : Option (BinOp × OpForm) :=
  if s.endsWith "Assign" then (BinOp.fromStr (s.dropEnd 6).toString).map (·, .assign)
  else (BinOp.fromStr s).map (·, .binary)

def opTraitPath (o : BinOp) (f : OpForm) : GToks :=
  absPath ["core", "ops", o.str ++ (if f == .assign then "Assign" else "")]
def opFunc (o : BinOp) (f : OpForm) : Tok := o.func ++ (if f == .assign then "_assign" else "")

/-- `to_ref_elem`: peel one `&` (no lifetime, not `mut`) -/
def toRefElem : Ty → Ty × Bool
  | .ref none false t => (t, true)
  | t => (t, false)

/-- `to_rhs`: the single type argument of the trait's last segment, `Self` expanded -/
def toRhs (s : Seg) (selfTy : Ty) : Ty :=
  match s with
  | .mk _ [.ty t] => Ty.expandSelf selfTy t
  | _ => selfTy

/-- `ref_type`: `&dyn A + B` is not a type, `&(dyn A + B)` is -/
def refType (t : Ty) : Ty := .ref none false t.parenIfPlus
def refTypeWith (t : Ty) (isRef : Bool) : Ty := if isRef then refType t else t

/-- `change_owned` -/
def changeOwned (expr : GToks) (ty : Ty) (inputRef outputRef : Bool) : GToks :=
  match inputRef, outputRef with
  | true, false => ufcs (U ty.toks) (absPath ["core", "clone", "Clone"]) "clone" +++ paren expr
  | false, true => "&" ::: expr
  | _, _ => expr

/-- one generated impl -/
inductive FwdItem where
  /-- `impl Op<implR> for implL` calling the base form -/
  | binary (implL implR : Bool)
  /-- `impl OpAssign<rhs> for This` calling `<l as Op<rhs>>::op` -/
  | assign (rhs : Ty) (callL : Bool)
  /-- `impl Op<Rhs> for This` from `impl OpAssign<Rhs> for This` -/
  | binFromAssign
deriving Inhabited

structure FwdImpl where
  op : BinOp
  baseForm : OpForm
  /-- `Self`-expanded generics of the user's impl -/
  generics : Generics
  thisOrig : Ty
  rhsOrig : Ty
  this : Ty
  thisIsRef : Bool
  rhs : Ty
  rhsIsRef : Bool
  output : Option Ty
  items : List FwdItem
deriving Inhabited

def findOutput (ms : List ImplMember) : Option Ty :=
  ms.findSome? fun | .output t => some t | _ => none

/-- the trait path's last segment -/
def ItemImpl.lastSeg (i : ItemImpl) : Option Seg :=
  match i.trait_ with
  | some (_, segs) => segs.getLast?
  | none => none

def ItemImpl.rhsOrig (i : ItemImpl) : Ty :=
  match i.lastSeg with
  | some s => toRhs s i.selfTy
  | none => i.selfTy

/-- the binary forms to generate: all four except the user's own, in the order TT, T&, &T, && -/
def binForms (thisIsRef rhsIsRef : Bool) : List FwdItem :=
  ([(false, false), (false, true), (true, false), (true, true)].filter
    (fun (l, r) => !(l == thisIsRef && r == rhsIsRef))).map fun (l, r) => .binary l r

/-- what to generate from `impl Op<Rhs> for This` -/
def fwdItemsBinary (makeBinary makeAssign thisIsRef rhsIsRef : Bool) (rhs rhsOrig : Ty) : List FwdItem :=
  (if makeBinary then binForms thisIsRef rhsIsRef else []) ++
  (if makeAssign then
     (if makeBinary then [.assign rhs true, .assign (refType rhs) true] else [.assign rhsOrig thisIsRef])
   else [])

structure FwdPlan where
  op : BinOp
  form : OpForm
  output : Option Ty
  items : List FwdItem

/-- the checks and decisions of `build_by_item_impl` -/
def fwdPlan (attr : Args) (i : ItemImpl) : R FwdPlan := do
  if i.trait_.isNone then bail
  if i.neg then bail
  let s ← (match i.lastSeg with | some s => pure s | none => bail : R Seg)
  let sIdent := match s with | .mk n _ => n | .fn n _ _ => n
  let (op, form) ← (match opFromStr sIdent with | some x => pure x | none => bail : R (BinOp × OpForm))
  -- `Args::from_attr_args`: a list of bare identifiers and `dump`
  if attr.bound.isSome then bail
  if attr.items.any (·.args.isSome) then bail
  let targets ← attr.items.mapM fun it =>
    match opFromStr it.trait_ with
    | some (o, f) => if o == op then pure f else bail
    | none => bail
  let makeBinary := targets.contains .binary
  let makeAssign := targets.contains .assign
  let thisIsRef := (toRefElem i.selfTy).2
  let (rhs, rhsIsRef) := toRefElem i.rhsOrig
  match form with
  | .binary =>
    match findOutput i.members with
    | none => bail
    | some t =>
      pure { op, form, output := some (Ty.expandSelf i.selfTy t),
             items := fwdItemsBinary makeBinary makeAssign thisIsRef rhsIsRef rhs i.rhsOrig }
  | .assign =>
    if makeAssign then bail
    else pure { op, form, output := none, items := if makeBinary then [.binFromAssign] else [] }

/-- `build_by_item_impl` up to (not including) `dump` -/
def buildFwd (attr : Args) (i : ItemImpl) : R FwdImpl :=
  match fwdPlan attr i with
  | .error _ => bail
  | .ok p =>
    pure { op := p.op, baseForm := p.form, generics := i.generics.expandSelf i.selfTy,
           thisOrig := i.selfTy, rhsOrig := i.rhsOrig,
           this := (toRefElem i.selfTy).1, thisIsRef := (toRefElem i.selfTy).2,
           rhs := (toRefElem i.rhsOrig).1, rhsIsRef := (toRefElem i.rhsOrig).2,
           output := p.output, items := p.items }

def FwdImpl.renderItem (f : FwdImpl) : FwdItem → GToks
  | .binary implL implR =>
    let bt := opTraitPath f.op .binary
    let bf := opFunc f.op .binary
    let implThis := U (refTypeWith f.this implL).toks
    let implRhs := U (refTypeWith f.rhs implR).toks
    let l := U (refTypeWith f.this f.thisIsRef).toks
    let r := U (refTypeWith f.rhs f.rhsIsRef).toks
    let lExpr := changeOwned ["self"] f.this implL f.thisIsRef
    let rExpr := changeOwned ["__rhs"] f.rhs implR f.rhsIsRef
    implItem autoDerived (U f.generics.implToks) (bt +++ angle implRhs) implThis (U f.generics.whereToksIn)
      ([typeM "Output", "="] +++ U (f.output.getD .never).toks +++ [";", fnM bf] +++
        -- the output type itself, not `Self::Output`: the self type may be an enum with a variant `Output` (F33)
        paren (["self", ",", "__rhs", ":"] +++ implRhs) +++ "->" ::: U (f.output.getD .never).toks +++
        brace (ufcs l (bt +++ angle r) bf +++ paren (lExpr +++ "," ::: rExpr)))
  | .assign rhs callL =>
    let bt := opTraitPath f.op .binary
    let bf := opFunc f.op .binary
    let at_ := opTraitPath f.op .assign
    let af := opFunc f.op .assign
    let l := U (refTypeWith f.this callL).toks
    let lExpr := changeOwned ["self"] f.this true callL
    implItem autoDerived (U f.generics.implToks) (at_ +++ angle (U rhs.toks)) (U f.this.toks) (U f.generics.whereToksIn)
      ([fnM af] +++ paren (["&", "mut", "self", ",", "__rhs", ":"] +++ U rhs.toks) +++
        brace (["*", "self", "="] +++ ufcs l (bt +++ angle (U rhs.toks)) bf +++ paren (lExpr +++ [",", "__rhs"])))
  | .binFromAssign =>
    let bt := opTraitPath f.op .binary
    let bf := opFunc f.op .binary
    let at_ := opTraitPath f.op .assign
    let af := opFunc f.op .assign
    let this := U f.thisOrig.toks
    let rhs := U f.rhsOrig.toks
    implItem autoDerived (U f.generics.implToks) (bt +++ angle rhs) this (U f.generics.whereToksIn)
      ([typeM "Output", "="] +++ this +++ [";", fnM bf] +++ paren (["mut", "self", ",", "__rhs", ":"] +++ rhs) +++
        "->" ::: this +++
        brace (ufcs this (at_ +++ angle rhs) af +++ paren ["&", "mut", "self", ",", "__rhs"] +++ [";", "self"]))

def FwdImpl.render (f : FwdImpl) : List GToks := f.items.map f.renderItem

end DX
