import DeriveExModel.Entry
/-
Case generators for the L1 correspondence.  Every random choice comes from one
splitmix64 state derived from (seed, case index), so a case replays exactly
from its id.  Exhaustive families decode the index instead.
-/
namespace DX

inductive EntryPoint where
  | attr (args : Args)
  | derive
deriving Inhabited

structure Case where
  id : String
  tags : List String := []
  entry : EntryPoint
  item : Item
deriving Inhabited

def Case.expand (c : Case) : List OSeg :=
  match c.entry with
  | .attr a => expandAttr a c.item
  | .derive => expandDerive c.item

/-! ## PRNG -/

abbrev Gen := StateM UInt64

def nextU64 : Gen UInt64 := do
  let s ← get
  let s := s + 0x9E3779B97F4A7C15
  set s
  let z := s
  let z := (z ^^^ (z >>> 30)) * 0xBF58476D1CE4E5B9
  let z := (z ^^^ (z >>> 27)) * 0x94D049BB133111EB
  pure (z ^^^ (z >>> 31))

def below (n : Nat) : Gen Nat := do
  if n == 0 then pure 0 else
  let x ← nextU64
  pure (x.toNat % n)

def chance (num den : Nat) : Gen Bool := do pure ((← below den) < num)

def pick {α} [Inhabited α] (xs : List α) : Gen α := do
  let i ← below xs.length
  pure (xs.getD i default)

/-- pick with weights -/
def pickW {α} [Inhabited α] (xs : List (Nat × α)) : Gen α := do
  let total := xs.foldl (fun a x => a + x.1) 0
  let r ← below total
  let rec go (r : Nat) : List (Nat × α) → α
    | [] => default
    | (w, x) :: rest => if r < w then x else go (r - w) rest
  pure (go r xs)

def listOf {α} (n : Nat) (g : Gen α) : Gen (List α) := (List.range n).mapM fun _ => g

def seedFor (seed idx : Nat) : UInt64 :=
  let s : UInt64 := UInt64.ofNat seed * 0x9E3779B97F4A7C15 + UInt64.ofNat idx * 0xD1B54A32D192ED03 + 0x2545F4914F6CDD1D
  (s ^^^ (s >>> 29)) * 0xBF58476D1CE4E5B9

def runGen {α} (seed idx : Nat) (g : Gen α) : α := (g.run (seedFor seed idx)).1

/-! ## Pools -/

def tyT : Ty := Ty.simple "T"
def tyU : Ty := Ty.simple "U"

def concreteTys : List Ty :=
  [Ty.simple "u8", Ty.simple "u16", Ty.simple "String", Ty.app "Vec" [Ty.simple "u8"],
   .tuple [Ty.simple "u8", Ty.simple "i8"], .array (Ty.simple "u8") (.lit "3"),
   .path true [.mk "core" [], .mk "primitive" [], .mk "u32" []],
   Ty.app "Option" [Ty.simple "bool"], .tuple [], .tuple [Ty.simple "u8"], .paren (Ty.simple "u8"),
   -- recursive through `Self`
   Ty.app "Box" [Ty.selfTy], Ty.app "Option" [Ty.app "Box" [Ty.selfTy]], Ty.app "Vec" [Ty.selfTy]]

/-- field types over the parameters `T`, `U`, `N`, `'a` (used only when declared) -/
def genericTys (hasU hasN hasLt : Bool) : List Ty :=
  [tyT, Ty.app "Option" [tyT], Ty.app "Vec" [tyT], Ty.app "Box" [tyT], Ty.app "Rc" [tyT],
   Ty.app "PhantomData" [tyT], .ptr false tyT, .ptr true tyT, Ty.app "Box" [.slice tyT],
   .path false [.mk "T" [], .mk "Assoc" []],
   .qpath tyT false [.mk "Tr" []] [.mk "Assoc" []],
   -- a qualified path without a trait (`<T>::Assoc`, `<Vec<T>>::Item`): parenthesized in front of a where-predicate
   .qpath tyT false [] [.mk "Assoc" []],
   .qpath (Ty.app "Vec" [tyT]) false [] [.mk "Item" []],
   .qpath tyT true [.mk "core" [], .mk "iter" [], .mk "Iterator" []] [.mk "Item" []],
   .bareFn [tyT] none, .bareFn [] (some tyT), .tuple [tyT, Ty.simple "u8"],
   .path true [.mk "std" [], .mk "vec" [], .mk "Vec" [.ty tyT]],
   .path false [.mk "std" [], .mk "vec" [], .mk "Vec" [.ty tyT]],
   Ty.app "Wrap" [Ty.app "Wrap" [tyT]], Ty.app "Box" [.dynT false [.mk "Tr2" [.ty tyT]]],
   .dynT false [.mk "Tr2" [.ty tyT]] [["Send"]], .dynT false [.mk "Tr2" [.ty tyT]], Ty.app "Box" [.dynT false [.mk "Tr2" [.ty tyT]] [["Send"], ["'static"]]],
   .path false [.mk "Other" [.assoc "Assoc" tyT]],
   -- the parameter only inside the generic arguments of a segment that is not the last one
   .qpath (Ty.simple "u8") false [.mk "Conv" [.ty tyT]] [.mk "Out" []],
   .path false [.mk "Outer" [.ty tyT], .mk "Inner" []],
   .qpath (Ty.simple "u8") true [.mk "m" [], .mk "Conv" [.ty (Ty.app "Vec" [tyT])]] [.mk "Out" [.lt "'static"]],
   -- parenthesized path arguments
   Ty.app "Box" [.dynT false [.fn "Fn" [tyT] none]], Ty.app "Box" [.dynT false [.fn "FnMut" [Ty.simple "u8"] (some tyT)] [["Send"]]],
   Ty.app "PhantomData" [.dynT true [.mk "core" [], .mk "ops" [], .fn "Fn" [.ref none false tyT, Ty.simple "u8"] (some (Ty.app "Option" [tyT]))]] ] ++
  (if hasU then [Ty.app "Box" [.dynT false [.fn "Fn" [tyT] (some tyU)]], tyU, .tuple [tyT, tyU], .bareFn [tyT] (some tyU), Ty.app "Pair" [tyT, tyU], Ty.app "Option" [tyU]] else []) ++
  (if hasN then [.array tyT (.ident "N"), .array (Ty.simple "u8") (.ident "N"), Ty.app "Arr" [Ty.simple "N"],
                 .path false [.mk "Arr" [.lit "3"]], .path false [.mk "Arr" [.cblock (.ident "N")]],
                 .path false [.mk "Arr" [.cblock (.lit "3")]]] else []) ++
  (if hasLt then [.ref (some "'a") false tyT, .ref (some "'a") true (Ty.simple "u8"), .ref (some "'a") false (Ty.simple "str"),
                  .path false [.mk "Cow" [.lt "'a", .ty tyT]]] else [])

/-- types that look generic but are not (`::T`, a path merely containing a segment named like a parameter) -/
def trickyTys : List Ty :=
  [.path true [.mk "T" []], .path false [.mk "m" [], .mk "T" []], .macro ["mac", "!", "(", "T", ")"],
   .path false [.mk "Vec" [.ty (.path true [.mk "T" []])]], .never, .ref none false (Ty.simple "str"),
   -- possibly unsized (matters for a last field)
   .slice (Ty.simple "u8"), Ty.simple "str", .dynT false [.mk "Tr2" [.ty (Ty.simple "u8")]], .path false [.mk "m" [], .mk "str" []],
   -- … behind parentheses, and a parameter written as a raw identifier (F37)
   .paren (.dynT false [.mk "Tr2" [.ty (Ty.simple "u8")]] [["Send"]]), .paren (.paren (Ty.simple "str")), .paren (.slice (Ty.simple "u8")),
   Ty.simple "r#T", .paren (Ty.simple "r#T"), Ty.simple "r#str",
   .dynT false [.mk "Tr2" [.ty (Ty.simple "u8")]] [["Send"], ["Sync"]], .dynT true [.mk "core" [], .mk "fmt" [], .mk "Debug" []] [["'static"]],
   .path true [.mk "str" []],
   .dynT false [.fn "Fn" [Ty.simple "u8"] (some (Ty.simple "u8"))], Ty.app "Box" [.dynT false [.fn "Fn" [.path true [.mk "T" []]] none]]]

def foreignAttrPool : List Toks :=
  [["doc", "=", "\" text\""], ["repr", "(", "C", ")"], ["allow", "(", "dead_code", ")"],
   ["cfg_attr", "(", "test", ",", "derive", "(", "Debug", ")", ")"], ["serde", "(", "rename", "=", "\"x\"", ")"],
   ["my", "::", "attr"], ["must_use"], ["non_exhaustive"], ["derive", "(", "Clone", ")"],
   ["doc", "(", "hidden", ")"], ["cfg", "(", "all", "(", ")", ")"], ["rustfmt", "::", "skip"],
   ["deprecated", "(", "note", "=", "\"a b\"", ")"],
   -- foreign *path* attributes whose last segment is spelled like a helper attribute
   ["m", "::", "default", "(", "Clone", ")"], ["x", "::", "debug"], ["y", "::", "hash"],
   ["a", "::", "derive_ex", "(", "Clone", ")"], ["::", "ord"], ["z", "::", "partial_eq", "(", "ignore", ")"],
   ["q", "::", "eq"], ["q", "::", "partial_ord"], ["q", "::", "ord", "(", "reverse", ")"], ["::", "derive_ex", "(", "Copy", ")"],
   ["debug", "::", "x"], ["default", "::", "y", "(", "1", ")"]]

def visPool : List (Nat × Toks) :=
  [(6, []), (2, ["pub"]), (1, ["pub", "(", "crate", ")"]), (1, ["pub", "(", "super", ")"]),
   (1, ["pub", "(", "in", "crate", "::", "a", ")"])]

def markerPred (i : Nat) : WPred :=
  .ty [] tyT [.trait false [] (Ty.simple ("M" ++ toString i))]

/-- `bound(..)` argument shapes -/
def genBound (marker : Nat) : Gen (Option (List BoundArg)) := do
  pickW [
    (6, none),
    (2, some []),
    (3, some [.pred (markerPred marker)]),
    (2, some [.dots]),
    (2, some [.pred (markerPred marker), .dots]),
    (2, some [.ty tyT]),
    (1, some [.ty (Ty.app "Vec" [tyT]), .pred (.ty [] (Ty.app "Option" [tyT]) [.trait false [] (Ty.simple ("M" ++ toString marker)), .lt "'static"]), .dots]),
    (1, some [.dots, .ty (Ty.simple "u8")]),
    -- several bare types in one list; `..` in the middle of a list
    (1, some [.ty tyT, .ty (Ty.app "Vec" [tyT]), .ty (Ty.simple "u8"), .ty (Ty.app "Option" [tyT])]),
    (1, some [.ty tyT, .dots, .pred (markerPred marker)]),
    -- several predicates in one list (their order is kept)
    (1, some [.pred (markerPred marker), .pred (.ty [] (Ty.app "Vec" [tyT]) [.trait false [] (Ty.simple "W1")]), .pred (.lt "'a" ["'static"])]),
    (1, some [.pred (.ty [] (Ty.app "Option" [tyT]) [.trait false [] (Ty.simple "W1")]), .ty tyT, .pred (markerPred marker), .dots]),
    (1, some [.pred (.lt "'a" ["'static"])]),
    (1, some [.pred (.ty [] (.qpath tyT false [] [.mk "Assoc" []]) [.trait false [] (Ty.simple ("M" ++ toString marker))]), .dots]),
    -- an entry that is neither `..`, a predicate nor a type
    (1, some [.bad ["="]]),
    (1, some [.ty tyT, .bad ["1"], .dots]),
    (1, some [.pred (.ty ["'x"] (.ref (some "'x") false tyT) [.trait false [] (Ty.simple ("M" ++ toString marker))])])]

def cmpTraits : List String := ["Ord", "PartialOrd", "Eq", "PartialEq", "Hash"]

/-- distinct `key` / `by` expressions per attribute so that precedence is observable -/
def keyExpr (w : CmpAttr) : Toks := ["k_" ++ w.name, "(", "&", "$", ")"]
def byExpr (w : CmpAttr) : Toks := ["by_" ++ w.name]

def keyPool (w : CmpAttr) : List Toks :=
  [keyExpr w, ["$", ".", "len", "(", ")"], ["(", "$", ".", "0", ",", "$", ".", "1", ")"],
   ["$"], ["[", "$", ".", "a", ",", "$", ".", "b", "]"], ["{", "let", "x", "=", "&", "$", ";", "x", ".", "k", "(", ")", "}"],
   -- names close to the one the expander substitutes internally for `$` (`__placeholder`): they are the user's
   ["_placeholder", "(", "&", "$", ",", "placeholder", ")"]]
/-- `key` templates that use `$` where only a name can stand: refused when the attribute is parsed -/
def badKeyPool : List Toks :=
  [["$", ".", "$", ".", "len", "(", ")"], ["$", "{", "a", ":", "1", "}"], ["{", "let", "$", "=", "1", ";", "2", "}"],
   ["x", ".", "$"], ["$", "::", "new", "(", ")"]]
def byPool (w : CmpAttr) : List Toks :=
  [byExpr w, ["|", "a", ",", "b", "|", "a", ".", "x", "==", "b", ".", "x"], ["f64", "::", "total_cmp"],
   ["m", "::", "by_" ++ w.name, "::", "<", "u8", ">"]]

/-! ## Exhaustive single-field comparison matrix -/

/-- 7 options for ord / partial_ord -/
def ordOptW (keyE byE : CmpAttr → Toks) (w : CmpAttr) : Nat → Option CmpArgs
  | 0 => none
  | 1 => some { ignore := true }
  | 2 => some { reverse := true }
  | 3 => some { key := some (keyE w) }
  | 4 => some { by_ := some (byE w) }
  | 5 => some { reverse := true, key := some (keyE w) }
  | _ => some { reverse := true, by_ := some (byE w) }
/-- 4 options for eq / partial_eq / hash -/
def eqOptW (keyE byE : CmpAttr → Toks) (w : CmpAttr) : Nat → Option CmpArgs
  | 0 => none
  | 1 => some { ignore := true }
  | 2 => some { key := some (keyE w) }
  | _ => some { by_ := some (byE w) }

def optName : Nat → String
  | 0 => "-" | 1 => "ignore" | 2 => "reverse" | 3 => "key" | 4 => "by" | 5 => "reverse+key" | _ => "reverse+by"
def eqOptName : Nat → String
  | 0 => "-" | 1 => "ignore" | 2 => "key" | _ => "by"

def cmpAttrsOfW (keyE byE : CmpAttr → Toks) (combo : Nat) : List Attr × String :=
  let o := combo % 7
  let po := (combo / 7) % 7
  let e := (combo / 49) % 4
  let pe := (combo / 196) % 4
  let h := (combo / 784) % 4
  let mk (w : CmpAttr) (a : Option CmpArgs) : List Attr := match a with | some a => [.cmp w (.list a)] | none => []
  (mk .ord (ordOptW keyE byE .ord o) ++ mk .partialOrd (ordOptW keyE byE .partialOrd po) ++ mk .eq (eqOptW keyE byE .eq e) ++
     mk .partialEq (eqOptW keyE byE .partialEq pe) ++ mk .hash (eqOptW keyE byE .hash h),
   s!"ord={optName o},po={optName po},eq={eqOptName e},pe={eqOptName pe},hash={eqOptName h}")

def cmpAttrsOf (combo : Nat) : List Attr × String := cmpAttrsOfW keyExpr byExpr combo

def traitSubset (mask : Nat) : List String :=
  (cmpTraits.zipIdx).filterMap fun (t, i) => if (mask >>> i) % 2 == 1 then some t else none

def argsOfTraits (ts : List String) : Args := { items := ts.map fun t => { trait_ := t } }

/-- shape 0: tuple struct field; 1: named struct field; 2: tuple variant field of a 2-variant enum;
3: named variant field -/
def singleFieldItem (shape : Nat) (attrs : List Attr) (extra : List Attr) : Item :=
  let fty := Ty.simple "u8"
  match shape with
  | 0 => .struct_ { attrs := extra, name := "X", fields := { kind := .unnamed, fields := [{ attrs, ty := fty }] } }
  | 1 => .struct_ { attrs := extra, name := "X", fields := { kind := .named, fields := [{ attrs, name := some "a", ty := fty }] } }
  | 2 => .enum_ { attrs := extra, name := "X", variants := [
            { name := "A", fields := { kind := .unit } },
            { name := "B", fields := { kind := .unnamed, fields := [{ attrs, ty := fty }] } }] }
  | _ => .enum_ { attrs := extra, name := "X", variants := [
            { name := "B", fields := { kind := .named, fields := [{ attrs, name := some "a", ty := fty }] } },
            { name := "A", fields := { kind := .unit } }] }

/-- family `cmp1`: `combo × shape(4) × entry(2) × traitMask`.  `masks` = the trait sets to cover. -/
def cmp1Case (masks : List Nat) (idx : Nat) : Case :=
  let combo := idx % 3136
  let r := idx / 3136
  let shape := r % 4
  let r := r / 4
  let ep := r % 2
  let mask := masks.getD ((r / 2) % masks.length) 31
  let (attrs, desc) := cmpAttrsOf combo
  let traits := traitSubset mask
  let args := argsOfTraits traits
  let id := s!"cmp1/{idx}"
  let _ := desc
  let tags := [s!"shape={shape}", s!"entry={ep}", s!"traits={"+".intercalate traits}"]
  if ep == 0 then
    { id, tags, entry := .attr args, item := singleFieldItem shape attrs [] }
  else
    { id, tags, entry := .derive, item := singleFieldItem shape attrs [.deriveEx args] }

def cmp1Count (masks : List Nat) : Nat := 3136 * 4 * 2 * masks.length

/-! ## Random items -/

structure GCfg where
  /-- traits to choose the derive list from -/
  traits : List String
  /-- probability (in %) that a field gets comparison attributes -/
  cmpAttrPct : Nat := 0
  debugAttrPct : Nat := 0
  defaultAttrPct : Nat := 0
  boundPct : Nat := 0
  foreignPct : Nat := 0
  genericPct : Nat := 50
  allowEnum : Bool := true
  allowStruct : Bool := true
  maxFields : Nat := 4
  maxVariants : Nat := 4
  /-- keep attribute combinations the expander accepts (mostly) -/
  validBias : Bool := true
  trickyPct : Nat := 5
  /-- split the trait list over several derive_ex attributes / use the derive entry -/
  mixEntries : Bool := true
  dumpPct : Nat := 0
deriving Inhabited

structure GCtx where
  hasT : Bool
  hasU : Bool
  hasN : Bool
  hasLt : Bool
deriving Inhabited

/-! ### composed types

Beside the fixed pools, types are *composed*: a leaf (a parameter, a projection of it, something that only looks like
one, `Self`) is wrapped one to three times in a context chosen among every syntactic position a type can stand in —
generic argument of the last or of an earlier path segment, self type or trait argument of a qualified path, behind
`&` / `*`, in a slice, array, tuple, function pointer, parenthesis, trait object, parenthesized `Fn` sugar, associated-type
binding.  Whether the expander finds (or rewrites) the leaf must not depend on where it stands. -/

def tyContexts (hasLt : Bool) : List (Ty → Ty) :=
  [fun t => Ty.app "Option" [t], fun t => Ty.app "Vec" [t], fun t => Ty.app "Box" [t], fun t => Ty.app "PhantomData" [t],
   fun t => Ty.app "Pair" [Ty.simple "u8", t], fun t => Ty.app "Pair" [t, Ty.simple "u8"],
   fun t => .path false [.mk "std" [], .mk "vec" [], .mk "Vec" [.ty t]],
   fun t => .path true [.mk "std" [], .mk "vec" [], .mk "Vec" [.ty t]],
   fun t => .path true [.mk "core" [], .mk "option" [], .mk "Option" [.ty t]],
   fun t => .path false [.mk "Outer" [.ty t], .mk "Inner" []],
   fun t => .path true [.mk "m" [], .mk "Outer" [.ty t], .mk "Inner" [.lt "'static"]],
   fun t => .qpath t false [.mk "Tr" []] [.mk "Assoc" []],
   fun t => .qpath t false [] [.mk "Assoc" []],
   fun t => .qpath t true [.mk "core" [], .mk "iter" [], .mk "Iterator" []] [.mk "Item" []],
   fun t => .qpath (Ty.simple "u8") false [.mk "Conv" [.ty t]] [.mk "Out" []],
   fun t => .qpath (Ty.simple "u8") true [.mk "m" [], .mk "Conv" [.ty t]] [.mk "Out" []],
   fun t => .qpath (Ty.simple "u8") false [.mk "Tr" []] [.mk "Gat" [.ty t]],
   fun t => .ptr false t, fun t => .ptr true t, fun t => .ref (some "'static") false t,
   fun t => .slice t, fun t => .array t (.lit "3"), fun t => .tuple [t], fun t => .tuple [Ty.simple "u8", t],
   fun t => .tuple [t, Ty.simple "u8"], fun t => .bareFn [t] none, fun t => .bareFn [] (some t),
   fun t => .bareFn [Ty.simple "u8", t] (some (Ty.simple "u8")), fun t => .paren t,
   -- parentheses directly under a reference / pointer (needed or not): nothing but the parentheses may go
   fun t => .ref (some "'static") false (.paren t), fun t => .ref (some "'static") true (.paren t), fun t => .ptr false (.paren t),
   fun t => .paren (.ref (some "'static") false t),
   fun t => .prefixed ["for", "<", "'x", ">"] (.bareFn [.ref (some "'x") false t] none),
   fun t => .prefixed ["unsafe", "extern", "\"C\""] (.bareFn [t] (some t)),
   fun t => Ty.app "Box" [.dynT false [.mk "Tr2" [.ty t]]], fun t => Ty.app "Box" [.dynT false [.mk "Tr2" [.ty t]] [["Send"]]],
   fun t => Ty.app "Box" [.dynT false [.fn "Fn" [t] none]], fun t => Ty.app "Box" [.dynT false [.fn "Fn" [] (some t)]],
   fun t => Ty.app "Box" [.dynT true [.mk "core" [], .mk "ops" [], .fn "FnMut" [Ty.simple "u8", t] (some (Ty.simple "u8"))]],
   fun t => .path false [.mk "Other" [.assoc "Assoc" t]],
   fun t => Ty.app "Box" [.dynT false [.mk "Iterator" [.assoc "Item" t]]],
   fun t => .path false [.mk "Cow" [.lt "'static", .ty t]]] ++
  (if hasLt then [fun t => .ref (some "'a") false t, fun t => .ref (some "'a") true t,
                  fun t => .path false [.mk "Cow" [.lt "'a", .ty t]]] else [])

/-- wrap a leaf `depth` times -/
def wrapTy (hasLt : Bool) (leaf : Ty) : Nat → Gen Ty
  | 0 => pure leaf
  | d + 1 => do
    let inner ← wrapTy hasLt leaf d
    let c ← pick (tyContexts hasLt)
    pure (c inner)

instance : Inhabited (Ty → Ty) := ⟨id⟩

def genComposedTy (ctx : GCtx) : Gen Ty := do
  let leaves : List (Nat × Ty) :=
    [(6, tyT), (2, .path false [.mk "T" [], .mk "Assoc" []]), (1, .path true [.mk "T" []]), (1, .path false [.mk "m" [], .mk "T" []]),
     (1, Ty.simple "u8")] ++
    (if ctx.hasU then [(3, tyU)] else []) ++
    (if ctx.hasN then [(2, .array (Ty.simple "u8") (.ident "N")), (2, Ty.app "Arr" [Ty.simple "N"]), (1, .array tyT (.ident "N")),
                       (2, .path false [.mk "Arr" [.cblock (.ident "N")]])] else [])
  let leaf ← pickW leaves
  let depth ← pickW [(3, 1), (3, 2), (1, 3)]
  wrapTy ctx.hasLt leaf depth

/-- `Self` somewhere inside a type (for the `Output`, the right-hand side and the where-clause of an `impl`) -/
def genComposedSelf : Gen Ty := do
  let depth ← pickW [(3, 1), (3, 2), (1, 3)]
  -- `Self::Output` is not a type node `Self`: it is left alone (in every generated impl it names that impl's own `Output`)
  let leaf ← pickW [(6, Ty.selfTy), (1, .path false [.mk "Self" [], .mk "Output" []])]
  wrapTy false leaf depth

def genTy (cfg : GCfg) (ctx : GCtx) : Gen Ty := do
  if ← chance cfg.trickyPct 100 then pick trickyTys
  else if ctx.hasT && (← chance 65 100) then
    if ← chance 1 3 then genComposedTy ctx else pick (genericTys ctx.hasU ctx.hasN ctx.hasLt)
  else pick concreteTys

def genForeign (cfg : GCfg) : Gen (List Attr) := do
  if ← chance cfg.foreignPct 100 then
    let n ← below 3
    listOf (n + 1) (do pure (Attr.foreign (← pick foreignAttrPool)))
  else pure []

/-- interleave two attribute lists preserving each one's order -/
def interleave {α} : List α → List α → Gen (List α)
  | [], ys => pure ys
  | xs, [] => pure xs
  | x :: xs, y :: ys => do
    if ← chance 1 2 then do let r ← interleave xs (y :: ys); pure (x :: r)
    else do let r ← interleave (x :: xs) ys; pure (y :: r)

def genCmpArgs (cfg : GCfg) (w : CmpAttr) (marker : Nat) (forField : Bool) : Gen CmpArgs := do
  let canRev := w == .ord || w == .partialOrd
  let ignore ← if forField then chance 10 100 else pure false
  let reverse ← if forField && canRev then chance 20 100 else pure false
  let kb ← if forField then below 10 else pure 9
  let key ← if kb < 3 then (do pure (some (← pick (keyPool w)))) else pure none
  let by_ ← if kb == 3 || kb == 4 then (do pure (some (← pick (byPool w)))) else pure none
  let bound ← if ← chance cfg.boundPct 100 then genBound marker else pure none
  -- now and then a `key` template that misuses `$`
  if key.isSome && (← chance 4 100) then
    pure { ignore, reverse, by_, key := some (← pick badKeyPool), keyBad := true, bound }
  else
    pure { ignore, reverse, by_, key, bound }

/-- comparison attributes for one field.  With `validBias` most fields get a
combination the expander accepts (same key/by on every attribute that needs one). -/
def genCmpAttrs (cfg : GCfg) (marker : Nat) (forField : Bool) : Gen (List Attr) := do
  if !(← chance cfg.cmpAttrPct 100) then pure [] else
  if cfg.validBias && forField && (← chance 70 100) then
    -- one coherent choice applied through `ord` (affects all) or through a matching set
    let style ← below 6
    let b ← if ← chance cfg.boundPct 100 then genBound marker else pure none
    match style with
    | 0 => pure [.cmp .ord (.list { ignore := true, bound := b })]
    | 1 => pure [.cmp .ord (.list { reverse := true, bound := b })]
    | 2 => pure [.cmp .ord (.list { key := some (← pick (keyPool .ord)), bound := b })]
    | 3 => pure [.cmp .ord (.list { by_ := some (byExpr .ord), reverse := (← chance 1 3), bound := b }),
                 .cmp .hash (.list { by_ := some (byExpr .hash) })]
    | 4 => pure [.cmp .partialOrd (.list { key := some (keyExpr .partialOrd), bound := b }),
                 .cmp .ord (.list { key := some (keyExpr .ord) }),
                 .cmp .eq (.list { key := some (keyExpr .eq) })]
    | _ => pure [.cmp .partialEq (.list { by_ := some (byExpr .partialEq) }),
                 .cmp .eq (.list { key := some (keyExpr .eq), bound := b }),
                 .cmp .ord (.list { by_ := some (byExpr .ord), reverse := (← chance 1 2) })]
  else
    let ws ← CmpAttr.all.filterM fun _ => chance 35 100
    -- on a type or a variant: now and then the field-only arguments (`ignore`, `reverse`, `key`, `by`) anyway
    let misplaced ← if forField then pure false else chance 1 (if cfg.validBias then 10 else 3)
    ws.mapM fun w => do
      let style ← below 20
      if style == 0 then pure (Attr.cmp w .path)
      else if style == 1 && !cfg.validBias then pure (Attr.cmp w (.nameValue ["1"]))
      else pure (Attr.cmp w (.list (← genCmpArgs cfg w marker (forField || misplaced))))

def genDebugAttrs (cfg : GCfg) (marker : Nat) (forField : Bool) : Gen (List Attr) := do
  if !(← chance cfg.debugAttrPct 100) then pure [] else
  let style ← below 12
  let bound ← if ← chance cfg.boundPct 100 then genBound marker else pure none
  if style == 0 then pure [.debug .path]
  else if forField && style ≤ 5 then pure [.debug (.list { ignore := true, bound })]
  else if forField && style ≤ 7 then pure [.debug (.list { transparent := true, bound })]
  else pure [.debug (.list { bound })]

def defaultExprPool : List (Toks × ExprClass) :=
  [(["1"], .other), (["true"], .other), (["'c'"], .other), (["-", "1"], .other), (["\"s\""], .strLit),
   (["r\"raw\""], .strLit), (["b\"bytes\""], .other), (["K"], .path), (["Self", "::", "K"], .path),
   (["<", "u8", "as", "Tr", ">", "::", "K"], .path), (["::", "a", "::", "K"], .path),
   (["f", "(", ")"], .other), (["{", "1", "}"], .other), (["_"], .underscore), (["(", "K", ")"], .other),
   (["K", "as", "u8"], .other), (["&", "K"], .other), (["mac", "!", "(", ")"], .other), (["X", "::", "new", "(", ")"], .other),
   (["[", "1", ",", "2", "]"], .other), (["{", "1", "}", "+", "1"], .blockLead), (["{", "K", "}", "as", "u8"], .blockLead),
   (["if", "true", "{", "K", "}", "else", "{", "K", "}", ".", "f", "(", ")"], .blockLead), (["match", "K", "{", "_", "=>", "K", "}", "?"], .blockLead),
   (["unsafe", "{", "K", "}", "[", "0", "]"], .blockLead),
   (["{", "K", "}", ".", "f"], .blockLead), (["loop", "{", "}", ".", "await"], .blockLead), (["{", "K", "}", "=", "1"], .blockLead),
   (["while", "false", "{", "}", ".", "0", ".", "g", "(", ")"], .blockLead), (["for", "_", "in", "K", "{", "}", "as", "u8", "as", "u16"], .blockLead),
   (["const", "{", "1", "}", "?", "?"], .blockLead), (["one", "!", "{", "}", "+", "1"], .blockLead), (["m", "::", "mk", "!", "{", "K", "}", ".", "f"], .blockLead),
   (["one", "!", "(", ")", "+", "1"], .other), (["one", "!", "{", "}"], .other), (["{", "K", "}", "(", ")"], .blockLead), (["{", "1", "}", "..", "2"], .blockLead), (["1", "+", "2"], .other), (["E", "::", "A"], .path), (["T", "::", "default", "(", ")"], .other),
   -- paths with generic arguments are paths; a parenthesized literal is not a literal
   (["Vec", "::", "<", "u8", ">", "::", "new"], .path), (["Foo", "::", "<", "{", "1", "}", ">", "::", "K"], .path),
   (["(", "\"s\"", ")"], .other), (["c\"cstr\""], .other), (["1.5e3"], .other), (["\"s\"", ".", "len", "(", ")"], .other)]

def genDefaultAttrs (cfg : GCfg) (marker : Nat) (withValue : Bool) : Gen (List Attr) := do
  if !(← chance cfg.defaultAttrPct 100) then pure [] else
  let bound ← if ← chance cfg.boundPct 100 then genBound marker else pure none
  if withValue then
    let v ← pick defaultExprPool
    if bound.isNone && v.2 == .underscore && (← chance 1 2) then pure [.dflt .path]
    else pure [.dflt (.list { value := some v, bound })]
  else
    if bound.isNone then pure [.dflt .path] else pure [.dflt (.list { value := some (["_"], .underscore), bound })]

/-- field- or variant-level `#[derive_ex(Trait(bound(..)), bound(..))]` -/
def genLevelDeriveEx (cfg : GCfg) (traits : List String) (marker : Nat) : Gen (List Attr) := do
  if traits.isEmpty || !(← chance cfg.boundPct 200) then pure [] else
  let t ← pick traits
  let b1 ← genBound (marker + 1)
  let b2 ← if ← chance 1 3 then genBound (marker + 2) else pure none
  let withArgs ← chance 3 4
  let first : Attr := .deriveEx { items := [{ trait_ := t, args := if withArgs then some (b1, false) else none }], bound := b2 }
  -- now and then a second list for the same trait with other bounds (the later one wins)
  if ← chance 1 6 then
    let b3 ← genBound (marker + 3)
    pure [first, .deriveEx { items := [{ trait_ := t, args := some (b3, false) }] }]
  else pure [first]

/-- now and then one of the attributes twice (`#[x] was specified twice`; for `derive_ex` the later one wins) -/
def genDup (cfg : GCfg) (own : List Attr) : Gen (List Attr) := do
  if own.isEmpty || !(← chance 1 (if cfg.validBias then 40 else 8)) then pure own else
  let a ← pick own
  interleave own [a]

def genFieldAttrs (cfg : GCfg) (traits : List String) (marker : Nat) : Gen (List Attr) := do
  let c ← genCmpAttrs cfg marker true
  let d ← genDebugAttrs cfg (marker + 3) true
  let df ← genDefaultAttrs cfg (marker + 4) true
  let de ← genLevelDeriveEx cfg traits (marker + 5)
  let fo ← genForeign cfg
  let own ← interleave c (d ++ df)
  let own ← interleave own de
  let own ← genDup cfg own
  interleave own fo

def genFields (cfg : GCfg) (ctx : GCtx) (traits : List String) (kind : FieldsKind) (markerBase : Nat) (rawNames : Bool) : Gen Fields := do
  match kind with
  | .unit => pure { kind := .unit }
  | _ =>
    let n ← below (cfg.maxFields + 1)
    let names := ["a", "b", "c", "d", "e"]
    let fs ← (List.range n).mapM fun i => do
      let ty ← genTy cfg ctx
      let attrs ← genFieldAttrs cfg traits (markerBase + 10 * i)
      let vis ← pickW visPool
      let nm := if kind == .named then
          some (if rawNames && i == 0 then "r#type" else names.getD i "z") else none
      pure ({ attrs, vis, name := nm, ty } : Field)
    -- now and then the last field is a bare parameter (it may be declared `?Sized`)
    let fs ← if ctx.hasT && (← chance 1 3) then
        (match fs.reverse with
         | last :: rest => do
           let ty ← pick [tyT, tyT, tyU, Ty.simple "str", .slice tyT]
           pure (({ last with ty } : Field) :: rest).reverse
         | [] => pure fs)
      else pure fs
    pure { kind, fields := fs }

def genGenerics (cfg : GCfg) : Gen (Generics × GCtx) := do
  if !(← chance cfg.genericPct 100) then pure ({}, { hasT := false, hasU := false, hasN := false, hasLt := false }) else
  let hasLt ← chance 25 100
  let hasU ← chance 35 100
  let hasN ← chance 25 100
  let tb ← pickW [
    (5, ([] : List TBound)),
    (2, [.trait false [] (Ty.simple "Tr")]),
    (1, [.trait true [] (Ty.simple "Sized")]),
    (1, [.trait false [] (Ty.simple "Tr"), .lt "'static"]),
    (1, [.trait false [] (.path false [.mk "Tr2" [.ty Ty.selfTy]])]),
    (1, [.trait false ["'x"] (.path false [.mk "Tr3" [.lt "'x"]])])]
  let tdef ← pickW [(5, (none : Option Ty)), (1, some (Ty.simple "u8"))]
  -- bounds and defaults on every kind of parameter; a second lifetime; `Self` inside a bound or a default
  let tb ← if ← chance 1 10 then (do pure (tb ++ [.trait false [] (.path false [.mk "Tr2" [.ty (← genComposedSelf)]])])) else pure tb
  let ltb ← pickW [(5, ([] : List String)), (1, ["'static"])]
  let lt2 ← chance 1 6
  let ub ← pickW [(5, ([] : List TBound)), (1, [.trait false [] (Ty.simple "Tr")]), (1, [.trait true [] (Ty.simple "Sized"), .trait false [] (Ty.simple "Tr")])]
  let udef ← if hasN then pure none else pickW [(5, (none : Option Ty)), (1, some (Ty.app "Vec" [Ty.selfTy])), (1, some tyT)]
  let nty ← pickW [(5, Ty.simple "usize"), (1, Ty.simple "u8"), (1, Ty.simple "bool")]
  let ndef ← pickW [(5, (none : Option Toks)), (1, some ["3"]), (1, some ["{", "1", "+", "2", "}"])]
  let constFirst ← chance 1 6
  let tys : List GParam := [.ty "T" tb (if hasU || hasN then none else tdef)] ++ (if hasU then [.ty "U" ub udef] else [])
  let cs : List GParam := if hasN then [.const_ "N" nty ndef] else []
  let ps : List GParam :=
    (if hasLt then [.lt "'a" ltb] ++ (if lt2 then [.lt "'b" ["'a"]] else []) else []) ++
    (if constFirst then cs ++ tys else tys ++ cs)
  let wh ← pickW [
    (5, ([] : List WPred)),
    (2, [.ty [] tyT [.trait false [] (Ty.simple "W1")]]),
    (1, [.ty [] Ty.selfTy [.trait false [] (Ty.simple "W2")]]),
    (1, [.ty [] (Ty.app "Vec" [Ty.selfTy]) [.trait false [] (.path false [.mk "W3" [.ty Ty.selfTy]])],
         .ty [] tyT [.trait false [] (Ty.simple "W1")]]),
    (1, [.ty ["'x"] (.ref (some "'x") false tyT) [.trait false [] (Ty.simple "W4")]]),
    (1, [.ty [] tyT [.trait true [] (Ty.simple "Sized")]]),
    (2, [.ty [] tyT [.trait false [] (Ty.simple "W1"), .trait true [] (.path true [.mk "core" [], .mk "marker" [], .mk "Sized" []])]]),
    (1, [.ty [] tyT [.trait true [] (Ty.simple "Sized"), .lt "'static", .trait false [] (Ty.simple "W1")]]),
    -- `?Sized` next to other predicates (the unsized-last-field rule of Debug looks through all of them)
    (1, [.ty [] tyT [.trait false [] (Ty.simple "W1")], .ty [] tyT [.trait true [] (Ty.simple "Sized")]]),
    (1, [.ty [] tyT [.trait true [] (Ty.simple "Sized")], .ty [] (Ty.app "Vec" [tyT]) [.trait false [] (Ty.simple "W1")]]),
    (1, [.lt "'a" ["'static"], .ty [] tyT [.trait false [] (Ty.simple "W1")]]),
    (1, [.ty [] (Ty.app "Box" [tyT]) [.trait true [] (Ty.simple "Sized")]]),
    (1, [.ty [] (.path true [.mk "T" []]) [.trait true [] (Ty.simple "Sized")]])]
  -- `Self` anywhere inside the bounded type and inside the bound
  let wh ← if ← chance 1 8 then (do
      let t1 ← genComposedSelf
      let t2 ← genComposedSelf
      pure (wh ++ [.ty [] t1 [.trait false [] (.path false [.mk "W3" [.ty t2]])]]))
    else pure wh
  pure ({ params := ps, wheres := wh }, { hasT := true, hasU, hasN, hasLt })

def genDeriveItems (cfg : GCfg) (traits : List String) (marker : Nat) : Gen (List DeriveItem) :=
  traits.zipIdx.mapM fun (t, i) => do
    let withArgs ← chance cfg.boundPct 100
    let dump ← chance cfg.dumpPct 100
    if withArgs || dump then
      let b ← if withArgs then genBound (marker + i) else pure none
      pure { trait_ := t, args := some (b, dump) }
    else pure { trait_ := t }

/-- split a list into consecutive non-empty chunks -/
def splitChunks {α} : List α → Gen (List (List α))
  | [] => pure []
  | x :: xs => do
    let rest ← splitChunks xs
    match rest with
    | [] => pure [[x]]
    | c :: cs => if ← chance 1 2 then pure ((x :: c) :: cs) else pure ([x] :: c :: cs)

def genItemCase (cfg : GCfg) (fam : String) (seed idx : Nat) : Case := runGen seed idx do
  let isEnum ← if cfg.allowEnum && cfg.allowStruct then chance 1 2 else pure cfg.allowEnum
  -- trait list
  let nTraits ← pickW [(4, 1), (3, 2), (2, 3), (1, 4), (1, 5)]
  let enumOk (t : String) : Bool := match Kind.fromStr t with
    | some (.cmp _) | some .copy | some .clone | some .debug | some .dflt => true
    | some _ => false
    | none => true
  let keepAll ← chance 1 12
  let pool := if isEnum && !keepAll && (cfg.traits.filter enumOk).length > 0 then cfg.traits.filter enumOk else cfg.traits
  let keepDups ← chance 1 15
  let traits ← (do
    let ts ← listOf nTraits (pick pool)
    pure (if keepDups then ts else ts.eraseDups))
  let (generics, ctx) ← genGenerics cfg
  let typeLevelOwn ← (do
    let c ← genCmpAttrs { cfg with cmpAttrPct := cfg.cmpAttrPct / 3 } 100 false
    let d ← genDebugAttrs { cfg with debugAttrPct := cfg.debugAttrPct / 3 } 103 false
    let df ← if isEnum then
        (if ← chance cfg.defaultAttrPct 400 then pure [Attr.dflt (.list { value := some (["Self", "::", "A"], .path) })] else pure [])
      else (if ← chance cfg.defaultAttrPct 300 then genDefaultAttrs { cfg with defaultAttrPct := 100 } 104 true else pure [])
    let own ← interleave c (d ++ df)
    genDup cfg own)
  let fo ← genForeign cfg
  let vis ← pickW visPool
  let raw ← chance 5 100
  let item ← (do
    if isEnum then
      let nv ← below (cfg.maxVariants + 1)
      let vnames := ["A", "B", "C", "D", "E"]
      let defIdx ← below (nv + 1)
      let vs ← (List.range nv).mapM fun i => do
        let kind ← pick [FieldsKind.unit, .unnamed, .named]
        let fields ← genFields cfg ctx traits kind (200 + 50 * i) raw
        let c ← genCmpAttrs { cfg with cmpAttrPct := cfg.cmpAttrPct / 3 } (190 + 50 * i) false
        let d ← genDebugAttrs { cfg with debugAttrPct := cfg.debugAttrPct / 3 } (193 + 50 * i) false
        let extraDef ← chance 1 20
        let withVal ← chance 1 12
        let df ← (if cfg.defaultAttrPct > 0 && (i == defIdx || extraDef) then
                    genDefaultAttrs { cfg with defaultAttrPct := 100 } (194 + 50 * i) withVal else pure [])
        let de ← genLevelDeriveEx cfg traits (195 + 50 * i)
        let fo ← genForeign cfg
        let own ← interleave (c ++ d) (df ++ de)
        let own ← genDup cfg own
        let attrs ← interleave own fo
        let discr ← if kind == .unit && (← chance 1 10) then pure (some [toString (i * 3)]) else pure none
        -- raw identifiers as variant / type names (printed without `r#` by Debug)
        pure ({ attrs, name := (if raw && i == 0 then "r#A" else vnames.getD i "Z"), fields, discr } : Variant)
      pure (Item.enum_ { attrs := [], vis, name := (if raw then "r#X" else "X"), generics, variants := vs })
    else
      let kind ← pickW [(3, FieldsKind.unnamed), (3, .named), (1, .unit)]
      let fields ← genFields cfg ctx traits kind 200 raw
      pure (Item.struct_ { attrs := [], vis, name := (if raw then "r#X" else "X"), generics, fields }))
  -- derive_ex arguments: through the macro attribute, through #[derive_ex] attributes, or both
  let ditems ← genDeriveItems cfg traits 110
  let shared ← if ← chance cfg.boundPct 200 then genBound 120 else pure none
  let sharedDump ← chance cfg.dumpPct 200
  let chunks ← if cfg.mixEntries then splitChunks ditems else pure [ditems]
  let argsList : List Args := chunks.map fun c => { items := c, bound := shared, dump := sharedDump }
  let useDerive ← if cfg.mixEntries then chance 1 3 else pure false
  let (first, restArgs) := match argsList with
    | [] => (({ bound := shared, dump := sharedDump } : Args), [])
    | a :: r => (a, r)
  let extraAttrs : List Attr := (if useDerive then [Attr.deriveEx first] else []) ++ restArgs.map Attr.deriveEx
  let own ← interleave extraAttrs typeLevelOwn
  let attrs ← interleave own fo
  let item := match item with
    | .struct_ s => Item.struct_ { s with attrs }
    | .enum_ e => Item.enum_ { e with attrs }
    | other => other
  let tags := [s!"kind={if isEnum then "enum" else "struct"}", s!"ntraits={traits.length}",
               s!"entry={if useDerive then "derive" else "attr"}", s!"generic={ctx.hasT}", s!"chunks={argsList.length}"] ++
              traits.map (fun t => s!"trait={t}")
  pure { id := s!"{fam}/{seed}/{idx}", tags, entry := if useDerive then .derive else .attr first, item }

/-! ## `impl` items -/

def genImplCase (fam : String) (seed idx : Nat) : Case := runGen seed idx do
  let op ← pick BinOp.all
  let baseAssign ← chance 1 4
  let generic ← chance 1 3
  -- a const parameter of the impl (in the self type), now and then spelled as a raw identifier
  let withN ← chance 1 6
  let nName ← pickW [(3, "N"), (1, "r#const")]
  let nArg : List GArg := if withN then [.ty (Ty.simple nName)] else []
  let x : Ty := if generic then .path false [.mk "X" (.ty tyT :: nArg)] else (if withN then .path false [.mk "X" nArg] else Ty.simple "X")
  let selfTy ← pickW [(5, x), (4, Ty.ref none false x), (1, .ref (some "'a") false x), (1, .ref none true x),
                      (1, .paren x), (1, .tuple [x, Ty.simple "u8"]),
                      -- trait objects as self type: with several bounds `&Self` has to be spelled `&(dyn A + B)`
                      (1, .dynT false [.mk "Tr" []] [["Send"]]), (1, .dynT false [.mk "Tr" []]),
                      (1, Ty.ref none false (.paren (.dynT false [.mk "Tr" []] [["Send"], ["'static"]]))),
                      -- `Self` inside the self type itself (rustc rejects it later; the expander has to get through)
                      (1, Ty.app "W" [Ty.selfTy]), (1, .ref none false (.tuple [Ty.selfTy, Ty.simple "u8"]))]
  let rhsArg ← pickW [(3, (none : Option Ty)), (2, some Ty.selfTy), (2, some (.ref none false Ty.selfTy)),
                      (2, some (Ty.simple "u8")), (2, some (.ref none false (Ty.simple "u8"))),
                      (1, some (Ty.app "Y" [Ty.selfTy])), (1, some (.ref none false (Ty.app "Y" [tyT]))),
                      (1, some x), (1, some (.ref none false x)), (1, some (.ref (some "'a") false (Ty.simple "u8"))),
                      (1, some (.qpath Ty.selfTy false [.mk "Tr" []] [.mk "Assoc" []])),
                      (1, some (.ref none false (.qpath (Ty.app "Vec" [Ty.selfTy]) false [.mk "Tr" []] [.mk "Assoc" []])))]
  let rhsArg ← if ← chance 1 5 then (do pure (some (← genComposedSelf))) else pure rhsArg
  let traitName := op.str ++ (if baseAssign then "Assign" else "")
  -- now and then the single generic argument of the trait is not a type (then the right-hand side is `Self`)
  let oddArg ← pickW [(20, (none : Option GArg)), (1, some (.lt "'a")), (1, some (.lit "3")), (1, some (.assoc "Output" (Ty.simple "u8")))]
  let lastSeg : Seg := .mk traitName (match oddArg, rhsArg with
    | some a, _ => [a]
    | none, some t => [.ty t]
    | none, none => [])
  let pathStyle ← below 4
  let segs : List Seg := match pathStyle with
    | 0 => [lastSeg]
    | 1 => [.mk "std" [], .mk "ops" [], lastSeg]
    | 2 => [.mk "core" [], .mk "ops" [], lastSeg]
    | _ => [.mk "ops" [], lastSeg]
  let tglobal ← chance 1 4
  let weird ← below 30
  let trait_ : Option (Bool × List Seg) :=
    if weird == 0 then none
    else if weird == 1 then some (false, [.mk "Foo" []])
    else if weird == 2 then some (false, [.mk traitName [.ty (Ty.simple "u8"), .ty (Ty.simple "u8")]])
    else some (tglobal && pathStyle != 0, segs)
  let neg := weird == 3
  let output ← pickW [(5, some Ty.selfTy), (2, some x), (1, some (Ty.app "Vec" [Ty.selfTy])), (1, some (Ty.simple "u8")), (1, none),
                      (1, some (Ty.app "Box" [.dynT false [.fn "Fn" [Ty.selfTy] (some Ty.selfTy)]])),
                      -- `Self` as the self type of a qualified path
                      (1, some (.qpath Ty.selfTy false [.mk "Tr" []] [.mk "Assoc" []])),
                      (1, some (.qpath (Ty.app "Wrap" [Ty.selfTy]) true [.mk "m" [], .mk "Tr" [.ty Ty.selfTy]] [.mk "Assoc" []]))]
  let output ← if ← chance 1 4 then (do pure (some (← genComposedSelf))) else pure output
  let fnToks : Toks := ["fn", "f", "(", "self", ")", "{", "}"]
  let members : List ImplMember :=
    (if baseAssign then [] else (match output with | some t => [.output t] | none => [])) ++ [.other fnToks]
  let members ← if ← chance 1 2 then pure members else pure members.reverse
  -- other associated items around `Output`
  let members ← if ← chance 1 6 then
      pure ((ImplMember.other ["type", "Other", "=", "u8", ";"]) :: members ++ [.other ["const", "C", ":", "u8", "=", "1", ";"]])
    else pure members
  let wh ← pickW [(5, ([] : List WPred)), (2, [.ty [] Ty.selfTy [.trait false [] (Ty.simple "Clone")]]),
                  (1, [.ty [] tyT [.trait false [] (.path false [.mk "Tr" [.ty Ty.selfTy]])]]),
                  (1, [.ty [] (.qpath Ty.selfTy false [.mk "Tr" []] [.mk "Assoc" []]) [.trait false [] (Ty.simple "Clone")]]),
                  (1, [.ty [] (Ty.simple "u8") [.trait false [] (.path false [.mk "Tr" [.assoc "Assoc" (.qpath Ty.selfTy false [.mk "Tr" []] [.mk "Assoc" []])]])]])]
  let wh ← if ← chance 1 6 then (do
      let t1 ← genComposedSelf
      let t2 ← genComposedSelf
      pure (wh ++ [.ty [] t1 [.trait false [] (.path false [.mk "Tr" [.ty t2]])]]))
    else pure wh
  -- inline bounds of the impl's parameters may mention `Self` too
  let tb ← pickW [(4, ([] : List TBound)), (1, [.trait false [] (.path false [.mk "Conv" [.ty Ty.selfTy]]), .trait false [] (Ty.simple "Clone")]),
                  (1, [.trait false [] (.path false [.mk "Tr" [.assoc "Assoc" (Ty.app "Vec" [Ty.selfTy])]])])]
  let tb ← if ← chance 1 8 then (do pure [TBound.trait false [] (.path false [.mk "Conv" [.ty (← genComposedSelf)]])]) else pure tb
  let ps : List GParam := (if generic then [.ty "T" tb none] else []) ++
    (match selfTy with | .ref (some _) _ _ => [.lt "'a" []] | _ => [])
  let ps := ps ++ (if withN then [.const_ nName (Ty.simple "usize") none] else [])
  let ps := ps.filter (·.isLt) ++ ps.filter (!·.isLt)
  let wh := if generic then wh else wh.filter fun | .ty _ (.path false [.mk "T" []]) _ => false | _ => true
  -- requested traits
  let reqStyle ← below 12
  let opn := op.str
  let other := (if op == .add then "Sub" else "Add")
  let items : List DeriveItem := match reqStyle with
    | 0 | 1 | 2 => [{ trait_ := opn }]
    | 3 | 4 => [{ trait_ := opn ++ "Assign" }]
    | 5 | 6 | 7 => [{ trait_ := opn }, { trait_ := opn ++ "Assign" }]
    | 8 => [{ trait_ := opn ++ "Assign" }, { trait_ := opn }]
    | 9 => [{ trait_ := other }]
    | 10 => []
    | _ => [{ trait_ := "Clone" }]
  let quirk ← below 25
  let items := if quirk == 0 then items.map fun it => { it with args := some (none, false) } else items
  let bound : Option (List BoundArg) := if quirk == 1 then some [.ty tyT] else none
  let dump ← chance 1 5
  let fo ← genForeign { traits := [], foreignPct := 30 }
  let item : ItemImpl := { attrs := fo, generics := { params := ps, wheres := wh }, neg, trait_, selfTy, members }
  let args : Args := { items, bound, dump }
  pure { id := s!"{fam}/{seed}/{idx}",
         tags := [s!"base={if baseAssign then "assign" else "binary"}", s!"req={reqStyle}", s!"dump={dump}"],
         entry := .attr args, item := .impl_ item }

/-! ## Items that are neither `struct`, `enum` nor `impl` -/

def otherItemPool : List Toks :=
  [["fn", "f", "(", ")", "{", "}"], ["pub", "fn", "g", "<", "T", ">", "(", "x", ":", "T", ")", "->", "T", "{", "x", "}"],
   ["union", "U", "{", "a", ":", "u8", ",", "b", ":", "u16", "}"], ["trait", "Tr", "{", "fn", "f", "(", "&", "self", ")", ";", "}"],
   ["mod", "m", "{", "}"], ["mod", "m", ";"], ["const", "K", ":", "u8", "=", "1", ";"], ["static", "S", ":", "u8", "=", "1", ";"],
   ["type", "A", "=", "u8", ";"], ["use", "a", "::", "b", ";"], ["extern", "crate", "x", ";"],
   ["macro_rules", "!", "m", "{", "(", ")", "=>", "{", "}", ";", "}"], ["extern", "\"C\"", "{", "}"],
   ["pub", "union", "U", "<", "T", ">", "{", "a", ":", "T", "}"], ["unsafe", "fn", "f", "(", ")", "{", "}"],
   ["m", "!", "(", ")", ";"], ["trait", "Tr", "=", "Clone", ";"]]

def Item.attrs : Item → List Attr
  | .struct_ s => s.attrs
  | .enum_ e => e.attrs
  | .impl_ i => i.attrs
  | .other _ => []

def Item.withAttrs (attrs : List Attr) : Item → Item
  | .struct_ s => .struct_ { s with attrs }
  | .enum_ e => .enum_ { e with attrs }
  | .impl_ i => .impl_ { i with attrs }
  | .other ts => .other ts

/-- family `other`: the attribute macro on an item it does not support; `#[derive(Ex)]` on a union -/
def genOtherCase (fam : String) (seed idx : Nat) : Case := runGen seed idx do
  -- a struct / enum (helper attributes and all) under a list that names no trait: `#[derive_ex()]`, `#[derive_ex(dump)]`,
  -- `#[derive_ex(bound(T))]` — nothing is generated, nothing is recognised, the item comes back as it is
  if ← chance 1 4 then
    let base := genItemCase { traits := ["Clone", "Debug", "Default", "Ord", "PartialEq", "Hash"], cmpAttrPct := 45, debugAttrPct := 40,
                              defaultAttrPct := 40, boundPct := 20, foreignPct := 50, validBias := false } fam seed (idx + 1)
    let dump ← chance 1 3
    let bound ← pickW [(3, (none : Option (List BoundArg))), (1, some []), (1, some [.ty tyT, .dots])]
    let rootAttrs := base.item.attrs.filter fun | .deriveEx _ => false | _ => true
    let useDerive ← chance 1 3
    let args : Args := { items := [], bound, dump }
    if useDerive then
      return { id := s!"{fam}/{seed}/{idx}", tags := ["entry=derive", "empty-list"], entry := .derive,
               item := base.item.withAttrs (.deriveEx args :: rootAttrs) }
    else
      return { id := s!"{fam}/{seed}/{idx}", tags := ["entry=attr", "empty-list"], entry := .attr args,
               item := base.item.withAttrs rootAttrs }
  let n ← below 3
  let traits ← listOf n (pick ["Clone", "Debug", "Add", "Ord", "Default", "Foo", "Deref"])
  let dump ← chance 1 6
  let args : Args := { items := traits.map fun t => { trait_ := t }, dump }
  let useDerive ← chance 1 4
  if useDerive then
    let u ← pick [["union", "U", "{", "a", ":", "u8", ",", "b", ":", "u16", "}"],
                  ["pub", "union", "U", "<", "T", ">", "{", "a", ":", "T", "}"]]
    let item := Item.other ((Attr.deriveEx args).toks ++ u)
    pure { id := s!"{fam}/{seed}/{idx}", tags := ["entry=derive"], entry := .derive, item }
  else
    let fo ← genForeign { traits := [], foreignPct := 40 }
    let body ← pick otherItemPool
    let item := Item.other (attrsToks fo ++ body)
    pure { id := s!"{fam}/{seed}/{idx}", tags := ["entry=attr"], entry := .attr args, item }

def opTraits : List String :=
  BinOp.all.map (·.str) ++ BinOp.all.map (fun o => o.str ++ "Assign") ++ ["Neg", "Not"]
def basicTraits : List String := ["Clone", "Copy", "Debug", "Default"]
def allTraits : List String := cmpTraits ++ basicTraits ++ opTraits ++ ["Deref", "DerefMut"]

def cfgCmp : GCfg := { traits := cmpTraits, cmpAttrPct := 60, boundPct := 15, foreignPct := 15 }
def cfgCmpWild : GCfg := { cfgCmp with validBias := false, cmpAttrPct := 70 }
def cfgBasic : GCfg := { traits := basicTraits, debugAttrPct := 45, defaultAttrPct := 45, boundPct := 25, foreignPct := 15 }
def cfgOps : GCfg := { traits := opTraits ++ ["Deref", "DerefMut", "Clone"], allowEnum := false, boundPct := 25, foreignPct := 10, genericPct := 60 }
def cfgBounds : GCfg := { traits := cmpTraits ++ basicTraits, cmpAttrPct := 40, debugAttrPct := 30, defaultAttrPct := 30, boundPct := 70, genericPct := 100, foreignPct := 5 }
def cfgAll : GCfg := { traits := allTraits, cmpAttrPct := 35, debugAttrPct := 25, defaultAttrPct := 25, boundPct := 25, foreignPct := 35, validBias := true, dumpPct := 0 }
def cfgDump : GCfg := { cfgAll with dumpPct := 35 }
def cfgStrip : GCfg := { traits := allTraits, cmpAttrPct := 45, debugAttrPct := 40, defaultAttrPct := 40, boundPct := 20,
                         foreignPct := 75, validBias := false }
def cfgWild : GCfg := { cfgAll with validBias := false, trickyPct := 15, traits := allTraits ++ ["Foo", "Assign", "Index", "clone", "r#Clone", "r#Ord"] }

/-! ## Renaming identifiers throughout an item (raw-identifier parameter names) -/

mutual
def Ty.mapIdent (f : String → String) : Ty → Ty
  | .path g segs => .path g (Seg.mapIdentL f segs)
  | .qpath s tg tsegs rest => .qpath (Ty.mapIdent f s) tg (Seg.mapIdentL f tsegs) (Seg.mapIdentL f rest)
  | .ref lt m t => .ref lt m (Ty.mapIdent f t)
  | .ptr m t => .ptr m (Ty.mapIdent f t)
  | .slice t => .slice (Ty.mapIdent f t)
  | .array t len => .array (Ty.mapIdent f t) (match len with | .ident s => .ident (f s) | l => l)
  | .tuple ts => .tuple (Ty.mapIdentL f ts)
  | .bareFn args ret => .bareFn (Ty.mapIdentL f args) (Ty.mapIdentO f ret)
  | .paren t => .paren (Ty.mapIdent f t)
  | .never => .never
  | .dynT g segs more => .dynT g (Seg.mapIdentL f segs) more
  | .macro toks => .macro toks
  | .prefixed pre t => .prefixed pre (Ty.mapIdent f t)
def Ty.mapIdentO (f : String → String) : Option Ty → Option Ty
  | none => none
  | some t => some (Ty.mapIdent f t)
def Ty.mapIdentL (f : String → String) : List Ty → List Ty
  | [] => []
  | t :: ts => Ty.mapIdent f t :: Ty.mapIdentL f ts
def Seg.mapIdent (f : String → String) : Seg → Seg
  | .mk i args => .mk (f i) (GArg.mapIdentL f args)
  | .fn i args ret => .fn (f i) (Ty.mapIdentL f args) (Ty.mapIdentO f ret)
def Seg.mapIdentL (f : String → String) : List Seg → List Seg
  | [] => []
  | s :: ss => Seg.mapIdent f s :: Seg.mapIdentL f ss
def GArg.mapIdent (f : String → String) : GArg → GArg
  | .ty t => .ty (Ty.mapIdent f t)
  | .lt s => .lt s
  | .lit s => .lit s
  | .assoc n t => .assoc n (Ty.mapIdent f t)
  | .cblock e => .cblock (match e with | .ident s => .ident (f s) | l => l)
def GArg.mapIdentL (f : String → String) : List GArg → List GArg
  | [] => []
  | a :: as => GArg.mapIdent f a :: GArg.mapIdentL f as
end

def TBound.mapIdent (f : String → String) : TBound → TBound
  | .trait q lts p => .trait q lts (Ty.mapIdent f p)
  | .lt s => .lt s
def WPred.mapIdent (f : String → String) : WPred → WPred
  | .ty lts t bs => .ty lts (Ty.mapIdent f t) (bs.map (TBound.mapIdent f))
  | .lt a bs => .lt a bs
def GParam.mapIdent (f : String → String) : GParam → GParam
  | .lt n bs => .lt n bs
  | .ty n bs d => .ty (f n) (bs.map (TBound.mapIdent f)) (d.map (Ty.mapIdent f))
  | .const_ n t d => .const_ (f n) (Ty.mapIdent f t) d
def Generics.mapIdent (f : String → String) (g : Generics) : Generics :=
  { params := g.params.map (GParam.mapIdent f), wheres := g.wheres.map (WPred.mapIdent f) }
def BoundArg.mapIdent (f : String → String) : BoundArg → BoundArg
  | .ty t => .ty (Ty.mapIdent f t)
  | .pred p => .pred (WPred.mapIdent f p)
  | .dots => .dots
  | .bad ts => .bad ts
def mapBound (f : String → String) (b : Option (List BoundArg)) : Option (List BoundArg) := b.map (·.map (BoundArg.mapIdent f))
def Args.mapIdent (f : String → String) (a : Args) : Args :=
  { a with bound := mapBound f a.bound,
           items := a.items.map fun it => { it with args := it.args.map fun (b, d) => (mapBound f b, d) } }
def Attr.mapIdent (f : String → String) : Attr → Attr
  | .foreign ts => .foreign ts
  | .deriveEx a => .deriveEx (a.mapIdent f)
  | .cmp w (.list a) => .cmp w (.list { a with bound := mapBound f a.bound })
  | .debug (.list a) => .debug (.list { a with bound := mapBound f a.bound })
  | .dflt (.list a) => .dflt (.list { a with bound := mapBound f a.bound })
  | x => x
def Fields.mapIdent (f : String → String) (fs : Fields) : Fields :=
  { fs with fields := fs.fields.map fun fl => { fl with attrs := fl.attrs.map (Attr.mapIdent f), ty := Ty.mapIdent f fl.ty } }
def Variant.mapIdent (f : String → String) (v : Variant) : Variant :=
  { v with attrs := v.attrs.map (Attr.mapIdent f), fields := v.fields.mapIdent f }
def Item.mapIdent (f : String → String) : Item → Item
  | .struct_ s =>
    .struct_ { s with attrs := s.attrs.map (Attr.mapIdent f), generics := s.generics.mapIdent f, fields := s.fields.mapIdent f }
  | .enum_ en =>
    .enum_ { en with attrs := en.attrs.map (Attr.mapIdent f), generics := en.generics.mapIdent f,
                     variants := en.variants.map (Variant.mapIdent f) }
  | x => x

/-- some cases spell a generic parameter as a raw identifier, at the declaration, at the uses, or both -/
def rawParamVariant (mode : Nat) (c : Case) : Case :=
  let f : String → String := fun s =>
    match mode with
    | 0 => if s == "T" then "r#type" else s                 -- a keyword as parameter name
    | 1 => if s == "N" then "r#N" else if s == "T" then "r#T" else s   -- raw spelling everywhere
    | _ => s
  let entry := match c.entry with
    | .attr a => EntryPoint.attr (a.mapIdent f)
    | .derive => .derive
  { c with entry, item := c.item.mapIdent f, tags := s!"rawparam={mode}" :: c.tags }

/-- trailing commas as real code writes them: after the last field, the last variant, the last where-predicate -/
def Item.withTrailing (bits : Nat) : Item → Item
  | .struct_ s =>
    .struct_ { s with fields := { s.fields with trailing := bits % 2 == 1 },
                      generics := { s.generics with trailingWhere := (bits / 2) % 2 == 1 } }
  | .enum_ e =>
    .enum_ { e with trailing := bits % 2 == 1,
                    generics := { e.generics with trailingWhere := (bits / 2) % 2 == 1 },
                    variants := e.variants.zipIdx.map fun (v, i) =>
                      { v with fields := { v.fields with trailing := (bits / (4 * 2 ^ i)) % 2 == 1 } } }
  | .impl_ i => .impl_ { i with generics := { i.generics with trailingWhere := (bits / 2) % 2 == 1 } }
  | it => it

/-- `genItemCase`, with one case in 25 spelling its parameters as raw identifiers and one in 6 written with trailing commas -/
def genItemCaseR (cfg : GCfg) (fam : String) (seed idx : Nat) : Case :=
  let c := genItemCase cfg fam seed idx
  let c := if idx % 6 == 4 then { c with item := c.item.withTrailing (seed * 31 + idx / 6 + 1), tags := "trailing-commas" :: c.tags } else c
  if idx % 25 == 7 then rawParamVariant 0 c else if idx % 25 == 19 then rawParamVariant 1 c else c

/-! ## Metamorphic groups (relations between *real* expansions; no model needed to judge them) -/

/-- every attribute of the item, on the type, its variants and their fields -/
def Item.allAttrs : Item → List Attr
  | .struct_ s => s.attrs ++ s.fields.fields.flatMap (·.attrs)
  | .enum_ e => e.attrs ++ e.variants.flatMap fun v => v.attrs ++ v.fields.fields.flatMap (·.attrs)
  | _ => []

def kindsOfArgs (a : Args) : Kinds :=
  (Kinds.new true).extend (a.items.filterMap fun it => (Kind.fromStr it.trait_).map fun k => { kind := k })

/-- C15: the same item requested through the attribute macro, through `#[derive(Ex)]`, with the list split
over two attributes, and — where no helper attribute on the item belongs only to the other traits — one trait alone -/
def meta15Cases (seed idx : Nat) : List Case :=
  let base := genItemCase { cfgAll with mixEntries := false, boundPct := 30 } "meta15" seed idx
  match base.entry with
  | .derive => []
  | .attr a =>
    let id := s!"meta15/{seed}/{idx}"
    let attrs := base.item.attrs
    let cAttr : Case := { base with id := id ++ "/attr" }
    let cDerive : Case := { base with id := id ++ "/derive", entry := .derive, item := base.item.withAttrs (.deriveEx a :: attrs) }
    let n := a.items.length
    let k := if n ≥ 2 then 1 + (seed + idx) % (n - 1) else 0
    let cSplit : List Case :=
      if n ≥ 2 then
        [{ base with id := id ++ s!"/split{k}", entry := .attr { a with items := a.items.take k },
                     item := base.item.withAttrs (.deriveEx { a with items := a.items.drop k } :: attrs) }]
      else []
    -- … with foreign attributes between the parts of the list
    let sep : List Attr := if attrs.isEmpty then [.foreign ["allow", "(", "dead_code", ")"]] else attrs
    let cSplit := cSplit ++
      (if n ≥ 2 then
        [{ base with id := id ++ s!"/dsplit{k}", entry := .derive,
                     item := base.item.withAttrs (.deriveEx { a with items := a.items.take k } :: sep ++
                                                  [.deriveEx { a with items := a.items.drop k }]) }]
       else []) ++
      (if n ≥ 3 then
        [{ base with id := id ++ "/split3", entry := .attr { a with items := a.items.take 1 },
                     item := base.item.withAttrs (.deriveEx { a with items := (a.items.drop 1).take 1 } :: sep ++
                                                  [.deriveEx { a with items := a.items.drop 2 }]) }]
       else [])
    let kAll := kindsOfArgs a
    let solos : List Case := (a.items.zipIdx).filterMap fun (it, j) =>
      let aj : Args := { a with items := [it] }
      let kj := kindsOfArgs aj
      if n ≥ 2 && base.item.allAttrs.all (fun at_ => kAll.isMatch at_ == kj.isMatch at_) then
        some { base with id := id ++ s!"/solo{j}", entry := .attr aj }
      else none
    cAttr :: cDerive :: cSplit ++ solos

def Args.noDump (a : Args) : Args :=
  { a with dump := false, items := a.items.map fun it => { it with args := it.args.map fun (b, _) => (b, false) } }

def Attr.noDump : Attr → Attr
  | .deriveEx a => .deriveEx a.noDump
  | x => x

/-- C19: the same request with and without its `dump` flags -/
def metaDumpCases (seed idx : Nat) : List Case :=
  -- one group in four from the unbiased configuration: requests that are refused as a whole (an unknown trait, a trait
  -- that is not supported for enums, a misplaced argument) next to dumped traits
  let base := genItemCase (if idx % 4 == 2 then { cfgWild with dumpPct := 35 } else cfgDump) "metaDump" seed idx
  -- one group in eight: an otherwise valid enum whose request also names a trait that is not supported for enums — the
  -- whole request is refused, whatever is dumped
  let base :=
    if idx % 8 == 5 then
      match base.item, base.entry with
      | .enum_ _, .attr a =>
        let op := ["Neg", "Add", "Deref", "SubAssign", "Not", "DerefMut"].getD ((seed + idx / 8) % 6) "Neg"
        let pos := (seed + idx / 8) % (a.items.length + 1)
        { base with entry := .attr { a with items := a.items.take pos ++ [{ trait_ := op }] ++ a.items.drop pos } }
      | _, _ => base
    else base
  let id := s!"metaDump/{seed}/{idx}"
  let plainItem := base.item.withAttrs (base.item.attrs.map Attr.noDump)
  let plainEntry := match base.entry with
    | .attr a => EntryPoint.attr a.noDump
    | .derive => .derive
  [{ base with id := id ++ "/dump" }, { base with id := id ++ "/plain", entry := plainEntry, item := plainItem }]

end DX
