import DeriveExModel.Core
/-
`item_type/compare_op.rs`: Ord, PartialOrd, Eq, PartialEq, Hash.
`buildCmp` produces a *structured* impl (which comparator each field uses,
whether it is reversed, the where-clause); `CmpImpl.render` instantiates the
`quote!` templates.
-/
namespace DX

/-! ## Decisions on one field's attribute record -/

/-- `is_ignore(op)`: `error` = "ignore applied to only some traits" -/
def CmpHs.isIgnore (c : CmpHs) : CmpOp → R Bool
  | .ord =>
    if c.ord.ignore then pure true
    else if c.partialOrd.ignore then bail
    else if c.partialEq.ignore then bail
    else if c.eq.ignore then bail
    else pure false
  | .partialOrd =>
    if c.partialOrd.ignore || c.ord.ignore then pure true
    else if c.partialEq.ignore then bail
    else if c.eq.ignore then bail
    else pure false
  | .eq =>
    if c.eq.ignore || c.ord.ignore then pure true
    else if c.partialEq.ignore then bail
    else if c.partialOrd.ignore then bail
    else pure false
  | .partialEq => pure (c.partialEq.ignore || c.eq.ignore || c.partialOrd.ignore || c.ord.ignore)
  | .hash =>
    if c.hash.ignore || c.eq.ignore || c.ord.ignore then pure true
    else if c.partialEq.ignore then bail
    else if c.partialOrd.ignore then bail
    else pure false

/-- `is_reverse(op)` (only called for Ord and PartialOrd) -/
def CmpHs.isReverse (c : CmpHs) : CmpOp → R Bool
  | .ord => if c.partialOrd.reverse then bail else pure c.ord.reverse
  | .partialOrd => pure (c.partialOrd.reverse || c.ord.reverse)
  | _ => pure false

def CmpH.hasKeyBy (h : CmpH) : Bool := h.key.isSome || h.by_.isSome

/-- `bad_attr().is_some()`: some recognised attribute carries `key` or `by` -/
def CmpHs.anyKeyBy (c : CmpHs) : Bool :=
  c.ord.hasKeyBy || c.partialOrd.hasKeyBy || c.eq.hasKeyBy || c.partialEq.hasKeyBy || c.hash.hasKeyBy

/-- the comparator chosen for a field -/
inductive Sel where
  | by_ (src : CmpAttr) (e : Toks)
  | key (src : CmpAttr) (k : Toks)
  | dflt
deriving Inhabited

/-- `build_*_expr`'s chain of early returns -/
def CmpHs.sel (c : CmpHs) : CmpOp → R Sel
  | .partialEq =>
    match c.partialEq.by_ with
    | some e => pure (.by_ .partialEq e)
    | none => match c.partialEq.key with
    | some k => pure (.key .partialEq k)
    | none => match c.eq.by_ with
    | some e => pure (.by_ .eq e)
    | none => match c.eq.key with
    | some k => pure (.key .eq k)
    | none => match c.partialOrd.by_ with
    | some e => pure (.by_ .partialOrd e)
    | none => match c.partialOrd.key with
    | some k => pure (.key .partialOrd k)
    | none => match c.ord.by_ with
    | some e => pure (.by_ .ord e)
    | none => match c.ord.key with
    | some k => pure (.key .ord k)
    | none => if c.anyKeyBy then bail else pure .dflt
  | .eq =>
    match c.eq.by_ with
    | some e => pure (.by_ .eq e)
    | none => match c.eq.key with
    | some k => pure (.key .eq k)
    | none => match c.ord.by_ with
    | some e => pure (.by_ .ord e)
    | none => match c.ord.key with
    | some k => pure (.key .ord k)
    | none => if c.anyKeyBy then bail else pure .dflt
  | .partialOrd =>
    match c.partialOrd.by_ with
    | some e => pure (.by_ .partialOrd e)
    | none => match c.partialOrd.key with
    | some k => pure (.key .partialOrd k)
    | none => match c.ord.by_ with
    | some e => pure (.by_ .ord e)
    | none => match c.ord.key with
    | some k => pure (.key .ord k)
    | none => if c.anyKeyBy then bail else pure .dflt
  | .ord =>
    match c.ord.by_ with
    | some e => pure (.by_ .ord e)
    | none => match c.ord.key with
    | some k => pure (.key .ord k)
    | none => if c.anyKeyBy then bail else pure .dflt
  | .hash =>
    match c.hash.by_ with
    | some e => pure (.by_ .hash e)
    | none => match c.hash.key with
    | some k => pure (.key .hash k)
    | none => match c.eq.key with
    | some k => pure (.key .eq k)
    | none => match c.ord.key with
    | some k => pure (.key .ord k)
    | none => if c.anyKeyBy then bail else pure .dflt

/-- the `cmp.X.push_bounds_to(use_bounds, wcb)` calls interleaved with the chain:
each consulted attribute contributes its `bound(..)` while no earlier one
stopped the walk; consultation ends at the attribute that supplies the comparator. -/
def CmpHs.selBounds (c : CmpHs) (op : CmpOp) (use : Bool) (w : WCB) : WCB × Bool :=
  match op with
  | .partialEq =>
    let (w, use) := w.pushIf use c.partialEq.bounds
    if c.partialEq.hasKeyBy then (w, use) else
    let (w, use) := w.pushIf use c.eq.bounds
    if c.eq.hasKeyBy then (w, use) else
    let (w, use) := w.pushIf use c.partialOrd.bounds
    if c.partialOrd.hasKeyBy then (w, use) else
    w.pushIf use c.ord.bounds
  | .eq =>
    let (w, use) := w.pushIf use c.eq.bounds
    if c.eq.hasKeyBy then (w, use) else
    w.pushIf use c.ord.bounds
  | .partialOrd =>
    let (w, use) := w.pushIf use c.partialOrd.bounds
    if c.partialOrd.hasKeyBy then (w, use) else
    w.pushIf use c.ord.bounds
  | .ord => w.pushIf use c.ord.bounds
  | .hash =>
    let (w, use) := w.pushIf use c.hash.bounds
    if c.hash.hasKeyBy then (w, use) else
    let (w, use) := w.pushIf use c.eq.bounds
    if c.eq.key.isSome then (w, use) else
    w.pushIf use c.ord.bounds

/-! ## Structured output -/

structure CmpField where
  f : FieldE
  sel : Sel
  rev : Bool
deriving Inhabited

inductive CmpBody where
  | struct_ (fs : List CmpField)
  | enum_ (vs : List (VariantE × List CmpField))
deriving Inhabited

structure CmpImpl where
  op : CmpOp
  name : String
  generics : Generics
  /-- the generics with `Self` expanded, as used in `impl<…>` -/
  xgenerics : Generics
  wc : WCB
  body : CmpBody
deriving Inhabited

/-- one iteration of the per-field loop of `build_*_body::build_from_fields`,
decisions only: `none` = the field is skipped -/
def cmpField1 (op : CmpOp) (f : FieldE) : R (Option CmpField) := do
  if ← f.h.cmp.isIgnore op then pure none
  else
    let s ← f.h.cmp.sel op
    let r ← (match op with
      | .ord | .partialOrd => f.h.cmp.isReverse op
      | _ => pure false)
    pure (some { f, sel := s, rev := r : CmpField })

def cmpFields (op : CmpOp) (fields : List FieldE) : R (List CmpField) := do
  let xs ← fields.mapM (cmpField1 op)
  pure (xs.filterMap id)

/-- one iteration of the per-field loop, where-clause side -/
def cmpFieldBounds1 (op : CmpOp) (use : Bool) (w : WCB) (cf : CmpField) : WCB :=
  let (w, u) := cf.f.h.cmp.selBounds op use w
  let (w, u) := cf.f.h.pushBoundsToRaw u false (.cmp op) w
  match cf.sel with
  | .dflt => if u then w.pushField cf.f.field.ty else w
  | _ => w

/-- the per-field loop, where-clause side -/
def cmpFieldsBounds (op : CmpOp) (fs : List CmpField) (use : Bool) (w : WCB) : WCB :=
  fs.foldl (cmpFieldBounds1 op use) w

inductive Source where
  | struct_ (name : String) (g : Generics) (fields : List FieldE)
  | enum_ (name : String) (g : Generics) (variants : List VariantE)

def Source.name : Source → String
  | .struct_ n _ _ => n
  | .enum_ n _ _ => n
def Source.generics : Source → Generics
  | .struct_ _ g _ => g
  | .enum_ _ g _ => g

def cmpVariant (op : CmpOp) (v : VariantE) : R (VariantE × List CmpField) := do
  let fs ← cmpFields op v.fields
  pure (v, fs)

/-- `build_compare_op`, decisions and where-clause -/
def buildCmp (op : CmpOp) (src : Source) (e : Entry) (h : HAttrs) : R CmpImpl := do
  let kind := Kind.cmp op
  -- `Self` is expanded in the generics the impl (and the `Eq` checker) use
  let xg := src.generics.expandSelf (thisTy src.name src.generics)
  let w := WCB.new xg
  let (w, use) := e.pushBoundsToWith h kind w
  match src with
  | .struct_ name g fields =>
    let fs ← cmpFields op fields
    let w := cmpFieldsBounds op fs use w
    pure { op, name, generics := g, xgenerics := xg, wc := w, body := .struct_ fs }
  | .enum_ name g variants =>
    let vs ← variants.mapM (cmpVariant op)
    let w := vs.foldl (init := w) fun w (v, fs) =>
      let (w, u) := v.h.pushBoundsTo use kind w
      cmpFieldsBounds op fs u w
    pure { op, name, generics := g, xgenerics := xg, wc := w, body := .enum_ vs }

/-! ## Rendering -/

/-- `Template::apply`: every `$` becomes the value -/
def applyTemplate (tmpl : Toks) (value : GToks) : GToks :=
  tmpl.flatMap fun t => if t == "$" then value else [u t]

inductive SrcKind where
  | struct_ | enum_
deriving BEq, DecidableEq, Inhabited

def selfOf (k : SrcKind) (f : FieldE) : GToks :=
  match k with
  | .struct_ => paren ["self", ".", u f.member]
  | .enum_ => paren ["*", f.makeIdent "__self"]
def thisOf (k : SrcKind) (f : FieldE) : GToks :=
  match k with
  | .struct_ => paren ["__this", ".", u f.member]
  | .enum_ => paren ["*", f.makeIdent "__this"]
def otherOf (k : SrcKind) (f : FieldE) : GToks :=
  match k with
  | .struct_ => paren ["__other", ".", u f.member]
  | .enum_ => paren ["*", f.makeIdent "__other"]

def optOrdering : GToks := absPath ["core", "option", "Option"] +++ angle (absPath ["core", "cmp", "Ordering"])
def ordering : GToks := absPath ["core", "cmp", "Ordering"]
def someEqual : GToks := absPath ["core", "option", "Option", "Some"] +++ paren (absPath ["core", "cmp", "Ordering", "Equal"])
def orderingEqual : GToks := absPath ["core", "cmp", "Ordering", "Equal"]
def coreFn : GToks := absPath ["core", "ops", "Fn"]
/-- the primitive types by their unshadowable paths -/
def primBool : GToks := absPath ["core", "primitive", "bool"]

def refTy (ty : Ty) : GToks := "&" ::: U ty.toks
/-- `&__T`: the helper functions are generic over the field type -/
def refT : GToks := ["&", "__T"]
def helperT : GToks := angle (["__T", ":", "?"] +++ absPath ["core", "marker", "Sized"])

/-- `{ fn id(params) ret { body } id(args) }` -/
def helperFnBlock (id : Tok) (generics : GToks) (params : List GToks) (ret : GToks) (body : GToks) (args : List GToks) : GToks :=
  brace ("fn" ::: id ::: generics +++ paren (sepBy "," params) +++ ret +++ brace body +++ id ::: paren (sepBy "," args))

def ufcs2 (path : List String) (a b : GToks) : GToks :=
  absPath path +++ paren ("&" ::: paren a +++ "," ::: "&" ::: paren b)

def peExpr (k : SrcKind) (cf : CmpField) : GToks :=
  let f := cf.f
  let id := f.makeIdent "__eq_"
  let this := selfOf k f
  let other := otherOf k f
  let args (e : Toks) : List GToks := ["&" ::: this, "&" ::: other, U e]
  match cf.sel with
  | .by_ .partialOrd e =>
    helperFnBlock id helperT
      [["__this", ":"] +++ refT, ["__other", ":"] +++ refT,
       ["__partial_cmp", ":", "impl"] +++ coreFn +++ paren (refT +++ "," ::: refT) +++ "->" ::: optOrdering]
      ("->" ::: primBool)
      (["__partial_cmp"] +++ paren ["__this", ",", "__other"] +++ "==" ::: someEqual)
      (args e)
  | .by_ .ord e =>
    helperFnBlock id helperT
      [["__this", ":"] +++ refT, ["__other", ":"] +++ refT,
       ["__cmp", ":", "impl"] +++ coreFn +++ paren (refT +++ "," ::: refT) +++ "->" ::: ordering]
      ("->" ::: primBool)
      (["__cmp"] +++ paren ["__this", ",", "__other"] +++ "==" ::: orderingEqual)
      (args e)
  | .by_ _ e =>
    helperFnBlock id helperT
      [["__this", ":"] +++ refT, ["__other", ":"] +++ refT,
       ["__eq", ":", "impl"] +++ coreFn +++ paren (refT +++ "," ::: refT) +++ ("->" ::: primBool)]
      ("->" ::: primBool)
      (["__eq"] +++ paren ["__this", ",", "__other"])
      (args e)
  | .key _ t => ufcs2 ["core", "cmp", "PartialEq", "eq"] (applyTemplate t this) (applyTemplate t other)
  | .dflt => ufcs2 ["core", "cmp", "PartialEq", "eq"] this other

def eqChecker (this : GToks) : GToks :=
  brace (["fn", "__assert_eq", "<", "__T", ":"] +++ absPath ["core", "cmp", "Eq"] +++ ["+", "?"] +++ absPath ["core", "marker", "Sized"] +++ [">"] +++ paren ["__this", ":", "&", "__T"] +++ brace [] +++
    "__assert_eq" ::: paren ("&" ::: paren this))

def eqExpr (k : SrcKind) (cf : CmpField) : GToks :=
  let this := thisOf k cf.f
  match cf.sel with
  | .by_ _ _ => []
  | .key _ t => eqChecker (applyTemplate t this)
  | .dflt => eqChecker this

/-- the comparison of one field for `PartialOrd`, before `reverse` -/
def poExpr0 (k : SrcKind) (cf : CmpField) : GToks :=
  let f := cf.f
  let id := f.makeIdent "__partial_ord_"
  let this := selfOf k f
  let other := otherOf k f
  let args (e : Toks) : List GToks := ["&" ::: this, "&" ::: other, U e]
  match cf.sel with
  | .by_ .ord e =>
    helperFnBlock id helperT
      [["__this", ":"] +++ refT, ["__other", ":"] +++ refT,
       ["__cmp", ":", "impl"] +++ coreFn +++ paren (refT +++ "," ::: refT) +++ "->" ::: ordering]
      ("->" ::: optOrdering)
      (absPath ["core", "option", "Option", "Some"] +++ paren ("__cmp" ::: paren ["__this", ",", "__other"]))
      (args e)
  | .by_ _ e =>
    helperFnBlock id helperT
      [["__this", ":"] +++ refT, ["__other", ":"] +++ refT,
       ["__partial_cmp", ":", "impl"] +++ coreFn +++ paren (refT +++ "," ::: refT) +++ "->" ::: optOrdering]
      ("->" ::: optOrdering)
      ("__partial_cmp" ::: paren ["__this", ",", "__other"])
      (args e)
  | .key _ t => ufcs2 ["core", "cmp", "PartialOrd", "partial_cmp"] (applyTemplate t this) (applyTemplate t other)
  | .dflt => ufcs2 ["core", "cmp", "PartialOrd", "partial_cmp"] this other

def poExpr (k : SrcKind) (cf : CmpField) : GToks :=
  if cf.rev then
    absPath ["core", "option", "Option", "map"] +++ paren (poExpr0 k cf +++ "," ::: absPath ["core", "cmp", "Ordering", "reverse"])
  else poExpr0 k cf

/-- the comparison of one field for `Ord`, before `reverse` -/
def ordExpr0 (k : SrcKind) (cf : CmpField) : GToks :=
  let f := cf.f
  let id := f.makeIdent "__ord_"
  let this := selfOf k f
  let other := otherOf k f
  match cf.sel with
  | .by_ _ e =>
    helperFnBlock id helperT
      [["__this", ":"] +++ refT, ["__other", ":"] +++ refT,
       ["__cmp", ":", "impl"] +++ coreFn +++ paren (refT +++ "," ::: refT) +++ "->" ::: ordering]
      ("->" ::: ordering)
      ("__cmp" ::: paren ["__this", ",", "__other"])
      ["&" ::: this, "&" ::: other, U e]
  | .key _ t => ufcs2 ["core", "cmp", "Ord", "cmp"] (applyTemplate t this) (applyTemplate t other)
  | .dflt => ufcs2 ["core", "cmp", "Ord", "cmp"] this other

def ordExpr (k : SrcKind) (cf : CmpField) : GToks :=
  if cf.rev then absPath ["core", "cmp", "Ordering", "reverse"] +++ paren (ordExpr0 k cf) else ordExpr0 k cf

def hashStmt (x : GToks) : GToks :=
  absPath ["core", "hash", "Hash", "hash"] +++ paren ("&" ::: paren x +++ [",", "__state"]) +++ [";"]

def hashExpr (k : SrcKind) (cf : CmpField) : GToks :=
  let f := cf.f
  let id := f.makeIdent "__hash_"
  let this := selfOf k f
  match cf.sel with
  | .by_ _ e =>
    helperFnBlock id (angle (["__T", ":", "?"] +++ absPath ["core", "marker", "Sized"] +++ "," ::: "__H" ::: ":" ::: absPath ["core", "hash", "Hasher"]))
      [["__this", ":"] +++ refT, ["__state", ":", "&", "mut", "__H"],
       ["__hash", ":", "impl"] +++ coreFn +++ paren (refT +++ [",", "&", "mut", "__H"])]
      []
      ("__hash" ::: paren ["__this", ",", "__state"])
      ["&" ::: this, ["__state"], U e]
  | .key _ t => hashStmt (applyTemplate t this)
  | .dflt => hashStmt this

/-- `build_to_index_fn` -/
def toIndexFn (vs : List VariantE) : GToks :=
  ["let", "__to_index", "=", "|", "__this", ":", "&", "Self", "|", "->"] +++ absPath ["core", "primitive", "usize"] +++
    brace ("match" ::: "__this" ::: brace (
      (vs.zipIdx.flatMap fun (v, i) => paren v.makePatWildcard +++ ["=>", idxLit i, ","]) +++
      ("_" ::: "=>" ::: absPath ["core", "unreachable"] +++ ["!", "(", ")", ","]))) +++ [";"]

def poStep (e : GToks) : GToks :=
  "match" ::: e +++ brace (someEqual +++ ["=>", "{", "}", "__o", "=>", "return", "__o", ","])
def ordStep (e : GToks) : GToks :=
  "match" ::: e +++ brace (orderingEqual +++ ["=>", "{", "}", "__o", "=>", "return", "__o", ","])

/-- the body of `build_from_fields` for one field list -/
def cmpFieldsBody (op : CmpOp) (k : SrcKind) (fs : List CmpField) : GToks :=
  match op with
  | .partialEq => if fs.isEmpty then ["true"] else sepBy "&&" (fs.map fun cf => paren (peExpr k cf))
  | .eq => fs.flatMap (eqExpr k)
  | .partialOrd => (fs.flatMap fun cf => poStep (poExpr k cf)) +++ someEqual
  | .ord => (fs.flatMap fun cf => ordStep (ordExpr k cf)) +++ orderingEqual
  | .hash => fs.flatMap (hashExpr k)

def CmpImpl.thisTy (c : CmpImpl) : GToks := u c.name ::: U c.generics.useToks

/-- the method (or checker) body -/
def CmpImpl.inner (c : CmpImpl) : GToks :=
  match c.body with
  | .struct_ fs => cmpFieldsBody c.op .struct_ fs
  | .enum_ vs =>
    let arms2 : GToks := vs.flatMap fun (v, fs) =>
      paren (v.makePat "__self" +++ "," ::: v.makePat "__other") +++ "=>" ::: brace (cmpFieldsBody c.op .enum_ fs)
    match c.op with
    | .partialEq => "match" ::: paren ["self", ",", "__other"] +++ brace (arms2 +++ ["_", "=>", "false", ","])
    | .eq =>
      "match" ::: "__this" ::: brace (
        (vs.flatMap fun (v, fs) => v.makePatWith "__this" [u c.name] +++ "=>" ::: brace (cmpFieldsBody .eq .enum_ fs)) +++
        ["_", "=>", "{", "}"])
    | .partialOrd =>
      "match" ::: paren ["self", ",", "__other"] +++ brace (arms2 +++
        paren ["__this", ",", "__other"] +++ "=>" ::: brace (toIndexFn (vs.map (·.1)) +++
          absPath ["core", "cmp", "PartialOrd", "partial_cmp"] +++
            paren (["&", "__to_index"] +++ paren ["__this"] +++ [",", "&", "__to_index"] +++ paren ["__other"])) +++ [","])
    | .ord =>
      "match" ::: paren ["self", ",", "__other"] +++ brace (arms2 +++
        paren ["__this", ",", "__other"] +++ "=>" ::: brace (toIndexFn (vs.map (·.1)) +++
          absPath ["core", "cmp", "Ord", "cmp"] +++
            paren (["&", "__to_index"] +++ paren ["__this"] +++ [",", "&", "__to_index"] +++ paren ["__other"])) +++ [","])
    | .hash =>
      "match" ::: "self" ::: brace (
        (vs.flatMap fun (v, fs) => v.makePat "__self" +++ "=>" ::: brace (cmpFieldsBody .hash .enum_ fs)) +++
        ("_" ::: "=>" ::: absPath ["core", "unreachable"] +++ ["!", "(", ")", ","]))

def cmpAttrs : GToks :=
  allowUserLints +++ genAttr ["automatically_derived"] +++ genAttr ["allow", "(", "clippy", "::", "double_parens", ")"] +++
    genAttr ["allow", "(", "unused_parens", ")"]
def cmpAllowAttrs : GToks :=
  allowUserLints +++ genAttr ["allow", "(", "clippy", "::", "double_parens", ")"] +++ genAttr ["allow", "(", "unused_parens", ")"]

/-- the emitted items: one impl, plus the hidden checker for `Eq` -/
def CmpImpl.render (c : CmpImpl) : List GToks :=
  let trait_ := c.op.path
  let wheres := (c.wc.selfExpanded (DX.thisTy c.name c.generics)).build (fun ty => U ty.toks +++ ":" ::: trait_)
  let implG := U c.xgenerics.implToks
  let head (body : GToks) : GToks :=
    cmpAttrs +++ "impl" ::: implG +++ trait_ +++ "for" ::: c.thisTy +++ wheres +++ brace body
  match c.op with
  | .partialEq =>
    [head ([fnM "eq"] +++ paren ["&", "self", ",", "__other", ":", "&", "Self"] +++ ("->" ::: primBool) +++ brace c.inner)]
  | .partialOrd =>
    [head ([fnM "partial_cmp"] +++ paren ["&", "self", ",", "__other", ":", "&", "Self"] +++ "->" ::: optOrdering +++ brace c.inner)]
  | .ord =>
    [head ([fnM "cmp"] +++ paren ["&", "self", ",", "__other", ":", "&", "Self"] +++ "->" ::: ordering +++ brace c.inner)]
  | .hash =>
    [head ([fnM "hash"] +++ angle ("__H" ::: ":" ::: absPath ["core", "hash", "Hasher"]) +++
      paren ["&", "self", ",", "__state", ":", "&", "mut", "__H"] +++ brace c.inner)]
  | .eq =>
    [head [],
     -- the assertions run in the method of a trait local to the block: inside an impl `Self` exists, so a `key = ..`
     -- expression means under `Eq` what it means under `PartialEq` (F32; a free function until then)
     ["const", "_", ":", "(", ")", "="] +++ brace (
        ["trait", "__Check"] +++ brace (["fn", "__check"] +++ paren ["&", "self"] +++ [";"]) +++
        cmpAllowAttrs +++ "impl" ::: implG +++ "__Check" ::: "for" ::: c.thisTy +++ wheres +++ brace (
          ["fn", "__check"] +++ paren ["&", "self"] +++ brace (["let", "__this", "=", "self", ";"] +++ c.inner))) +++ [";"]]

end DX
