import DeriveExModel.Lemmas.CmpItem
/-
C01 — derived `==`, `partial_cmp`, `cmp` follow the documented lexicographic rule.

For every item (any number of variants and fields), every placement of helper
attributes the expander accepts, every environment `σ` (no lawfulness assumed)
and every pair of values: what the generated impl computes is what the
documentation prescribes (`docEq`, `docPartialCmp`, `docCmp` of Spec/Cmp.lean).
-/
namespace DX

/-- the value's variant index denotes a variant of the item -/
def Source.ValidVal {V} (src : Source) (a : Val V) : Prop :=
  match src with
  | .struct_ _ _ _ => True
  | .enum_ _ _ variants => a.variant < variants.length

theorem body_of_ok {t : CmpOp} {src : Source} {e : Entry} {h : HAttrs} {c : CmpImpl}
    (hb : buildCmp t src e h = .ok c) : src.misused t = false ∧ c.body = src.docBody t := by
  have := buildCmp_doc t src e h
  rw [hb] at this
  by_cases hm : src.misused t = true
  · simp [hm, Except.map] at this
  · simp [hm, Except.map] at this
    exact ⟨by simpa using hm, this⟩

theorem eq_follows_doc {V F} (src : Source) (e : Entry) (h : HAttrs) (c : CmpImpl)
    (hb : buildCmp .partialEq src e h = .ok c) (σ : Env V F) (a b : Val V) (ha : src.ValidVal a) :
    evalEq c σ a b = docEq src σ a b := by
  obtain ⟨_, hbody⟩ := body_of_ok hb
  cases src with
  | struct_ name g fields =>
    simp only [evalEq, hbody, Source.docBody, docEq, Source.isEnum, Source.fieldsOf, Bool.false_and, Bool.false_eq_true, if_false]
    exact evalPeFields_doc σ a b fields
  | enum_ name g variants =>
    simp only [evalEq, hbody, Source.docBody, docEq, Source.isEnum, Source.fieldsOf, Bool.true_and]
    by_cases hv : a.variant = b.variant
    · have hlt : a.variant < variants.length := ha
      have hne : (a.variant != b.variant) = false := by simp [hv]
      rw [if_pos hv, hne]
      simp only [List.getElem?_map, List.getElem?_eq_getElem hlt, Option.map_some, Bool.false_eq_true, if_false]
      exact evalPeFields_doc σ a b _
    · simp [hv]

theorem partial_cmp_follows_doc {V F} (src : Source) (e : Entry) (h : HAttrs) (c : CmpImpl)
    (hb : buildCmp .partialOrd src e h = .ok c) (σ : Env V F) (a b : Val V) (ha : src.ValidVal a) :
    evalPartialCmp c σ a b = docPartialCmp src σ a b := by
  obtain ⟨_, hbody⟩ := body_of_ok hb
  cases src with
  | struct_ name g fields =>
    simp only [evalPartialCmp, hbody, Source.docBody, docPartialCmp, Source.isEnum, Source.fieldsOf, Bool.false_and,
      Bool.false_eq_true, if_false]
    exact evalPoFields_doc σ a b fields
  | enum_ name g variants =>
    simp only [evalPartialCmp, hbody, Source.docBody, docPartialCmp, Source.isEnum, Source.fieldsOf, Bool.true_and]
    by_cases hv : a.variant = b.variant
    · have hlt : a.variant < variants.length := ha
      have hne : (a.variant != b.variant) = false := by simp [hv]
      rw [if_pos hv, hne]
      simp only [List.getElem?_map, List.getElem?_eq_getElem hlt, Option.map_some, Bool.false_eq_true, if_false]
      exact evalPoFields_doc σ a b _
    · simp [hv]

theorem cmp_follows_doc {V F} (src : Source) (e : Entry) (h : HAttrs) (c : CmpImpl)
    (hb : buildCmp .ord src e h = .ok c) (σ : Env V F) (a b : Val V) (ha : src.ValidVal a) :
    evalCmp c σ a b = docCmp src σ a b := by
  obtain ⟨_, hbody⟩ := body_of_ok hb
  cases src with
  | struct_ name g fields =>
    simp only [evalCmp, hbody, Source.docBody, docCmp, Source.isEnum, Source.fieldsOf, Bool.false_and,
      Bool.false_eq_true, if_false]
    exact evalOrdFields_doc σ a b fields
  | enum_ name g variants =>
    simp only [evalCmp, hbody, Source.docBody, docCmp, Source.isEnum, Source.fieldsOf, Bool.true_and]
    by_cases hv : a.variant = b.variant
    · have hlt : a.variant < variants.length := ha
      have hne : (a.variant != b.variant) = false := by simp [hv]
      rw [if_pos hv, hne]
      simp only [List.getElem?_map, List.getElem?_eq_getElem hlt, Option.map_some, Bool.false_eq_true, if_false]
      exact evalOrdFields_doc σ a b _
    · simp [hv]

/-- the comparison body does not depend on the derive entry's own arguments
(`bound`, `dump`) nor on the type-level helper attributes: whichever list it was
requested in, through whichever entry point, the comparator is the same -/
theorem body_independent_of_entry (t : CmpOp) (src : Source) (e e' : Entry) (h h' : HAttrs) :
    (buildCmp t src e h).map (·.body) = (buildCmp t src e' h').map (·.body) := by
  rw [buildCmp_doc, buildCmp_doc]

end DX
