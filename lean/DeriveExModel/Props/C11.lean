import DeriveExModel.Sem.Basic
/-
C11 — `default()` returns the documented value.
-/
namespace DX

/-- the documented per-field value: the field's own `#[default(expr)]` — wrapped in `Into`
exactly when `expr` is a string literal or a path — else `Default::default()` of the field type -/
def docFieldDefault (f : FieldE) : DefVal :=
  match f.h.dflt with
  | some { value := some (e, cls), .. } =>
    if cls == .strLit || cls == .path then .into f.field.ty e else .raw e (cls == .blockLead)
  | _ => .dflt f.field.ty

theorem defaultCtorArgs_vals (fields : List FieldE) (use : Bool) (w : WCB) :
    (defaultCtorArgs fields use w).1 = fields.map docFieldDefault := by
  unfold defaultCtorArgs
  suffices h : ∀ (acc : List DefVal) (w : WCB),
      (fields.foldl (fun (p : List DefVal × WCB) f =>
        let value := f.h.defaultValue f.field.ty
        let (w, u) := f.h.pushBoundsTo use .dflt p.2
        let w := if u && value.isNone then w.pushField f.field.ty else w
        (p.1 ++ [value.getD (.dflt f.field.ty)], w)) (acc, w)).1 = acc ++ fields.map docFieldDefault by
    simpa using h [] w
  induction fields with
  | nil => intro acc w; simp
  | cons f fs ih =>
    intro acc w
    simp only [List.foldl_cons, List.map_cons]
    rw [ih]
    have : (f.h.defaultValue f.field.ty).getD (.dflt f.field.ty) = docFieldDefault f := by
      unfold HAttrs.defaultValue docFieldDefault DefaultH.valueFor
      cases f.h.dflt with
      | none => rfl
      | some a =>
        obtain ⟨value, bounds⟩ := a
        cases value with
        | none => rfl
        | some v => obtain ⟨e, cls⟩ := v; rfl
    simp [this]

/-- the Into / no-Into boundary -/
theorem into_iff_strlit_or_path (a : DefaultH) (ty : Ty) (e : Toks) (cls : ExprClass)
    (h : a.value = some (e, cls)) :
    a.valueFor ty = some (if cls == .strLit || cls == .path then .into ty e else .raw e (cls == .blockLead)) := by
  simp [DefaultH.valueFor, h]

/-- struct: the type-level `#[default(expr)]` if given, otherwise the struct with every field
at its documented value -/
theorem default_struct_follows_doc (s : ItemStruct) (e : Entry) (h : HAttrs) (fields : List FieldE) :
    (buildDefaultStruct s e h fields).body =
      match h.defaultValue Ty.selfTy with
      | some v => .value v
      | none => .ctor [s.name] s.fields (fields.map docFieldDefault) := by
  unfold buildDefaultStruct
  cases h.defaultValue Ty.selfTy with
  | some v => rfl
  | none => simp [defaultCtorArgs_vals]

/-- variants marked `#[default]` / `#[default(..)]` -/
def markedVariants (variants : List VariantE) : List (VariantE × DefaultH) :=
  variants.filterMap fun v => v.h.dflt.map fun a => (v, a)

/-- enum without a type-level value: accepted iff there is exactly one marked variant (without a
value of its own), or none but the enum has a single variant -/
theorem default_enum_rejections (en : ItemEnum) (e : Entry) (h : HAttrs) (variants : List VariantE)
    (hn : h.defaultValue Ty.selfTy = none) :
    (buildDefaultEnum en e h variants).isOk =
      match markedVariants variants with
      | [] => decide (variants.length = 1)
      | [(_, a)] => a.value.isNone
      | _ => false := by
  unfold buildDefaultEnum markedVariants
  simp only [hn, bind, Except.bind, pure, Except.pure]
  cases hm : variants.filterMap fun v => v.h.dflt.map fun a => (v, a) with
  | nil =>
    cases variants with
    | nil => simp [bail, Except.isOk, Except.toBool]
    | cons v vs =>
      cases vs with
      | nil => simp [Except.isOk, Except.toBool]
      | cons v' vs' => simp [bail, Except.isOk, Except.toBool]
  | cons va rest =>
    cases rest with
    | nil =>
      obtain ⟨v, a⟩ := va
      cases hv : a.value <;> simp [hv, bail, Except.isOk, Except.toBool]
    | cons vb rest' => simp [bail, Except.isOk, Except.toBool]

/-- … and then the value is that variant with every field at its documented value -/
theorem default_enum_follows_doc (en : ItemEnum) (e : Entry) (h : HAttrs) (variants : List VariantE)
    (d : DefaultImpl) (hn : h.defaultValue Ty.selfTy = none)
    (hb : buildDefaultEnum en e h variants = .ok d) :
    ∃ v ∈ variants, d.body = .ctor [en.name, "::", v.variant.name] v.variant.fields (v.fields.map docFieldDefault) ∧
      (markedVariants variants = [] ∨ ∃ a, markedVariants variants = [(v, a)]) := by
  unfold buildDefaultEnum at hb
  unfold markedVariants
  simp only [hn, bind, Except.bind, pure, Except.pure] at hb
  cases hm : variants.filterMap fun v => v.h.dflt.map fun a => (v, a) with
  | nil =>
    rw [hm] at hb
    cases variants with
    | nil => simp [bail] at hb
    | cons v vs =>
      cases vs with
      | cons v' vs' => simp [bail] at hb
      | nil =>
        simp only [Option.isSome_none, Bool.false_eq_true, if_false] at hb
        simp only [Except.ok.injEq] at hb
        subst hb
        exact ⟨v, by simp, by simp [defaultCtorArgs_vals], Or.inl rfl⟩
  | cons va rest =>
    rw [hm] at hb
    cases rest with
    | cons vb rest' => simp [bail] at hb
    | nil =>
      obtain ⟨v, a⟩ := va
      simp only at hb
      cases hv : a.value with
      | some x => simp [hv, bail] at hb
      | none =>
        simp only [hv, Option.isSome_none, Bool.false_eq_true, if_false, Except.ok.injEq] at hb
        subst hb
        have hmem : (v, a) ∈ variants.filterMap fun v => v.h.dflt.map fun a => (v, a) := by rw [hm]; simp
        simp only [List.mem_filterMap, Option.map_eq_some_iff] at hmem
        obtain ⟨v0, hv0, a0, _, heq⟩ := hmem
        have : v0 = v := by simpa using congrArg Prod.fst heq
        subst this
        exact ⟨v0, hv0, by simp [defaultCtorArgs_vals], Or.inr ⟨a, rfl⟩⟩

end DX
