import DeriveExModel.Props.C01
import DeriveExModel.Entry
/-
C05 — documented misuse of comparison attributes is rejected; valid use is accepted.
-/
namespace DX

/-- a field makes trait `t` fail exactly when it is misused for `t` (M1–M3 of `docMisuse`) -/
theorem field_error_iff_misuse (t : CmpOp) (f : FieldE) :
    cmpField1 t f = .error () ↔ docMisuse t f.h.cmp = true := by
  rw [cmpField1_eq_doc]
  unfold docField1
  cases docMisuse t f.h.cmp <;> cases docSkips t f.h.cmp <;> simp

/-- a trait's impl is refused exactly when some field of the item is misused for it;
otherwise it is generated -/
theorem trait_error_iff_misuse (t : CmpOp) (src : Source) (e : Entry) (h : HAttrs) :
    (buildCmp t src e h).isOk = !src.misused t := by
  have := buildCmp_doc t src e h
  cases hb : buildCmp t src e h with
  | error _ =>
    rw [hb] at this
    by_cases hm : src.misused t = true
    · simp [hm, Except.isOk, Except.toBool]
    · simp [hm, Except.map] at this
  | ok c =>
    rw [hb] at this
    by_cases hm : src.misused t = true
    · simp [hm, Except.map] at this
    · simp [hm, Except.isOk, Except.toBool]

/-- every combination the documentation allows is accepted -/
theorem valid_use_accepted (t : CmpOp) (src : Source) (e : Entry) (h : HAttrs)
    (hv : src.misused t = false) : ∃ c, buildCmp t src e h = .ok c := by
  have := trait_error_iff_misuse t src e h
  rw [hv] at this
  cases hb : buildCmp t src e h with
  | error _ => rw [hb] at this; simp [Except.isOk, Except.toBool] at this
  | ok c => exact ⟨c, rfl⟩

/-- `ignore` / `reverse` / `key` / `by` on a recognised comparison attribute
placed on a type or a variant fails the whole derive; on a field it never does -/
theorem misplaced_iff (c : CmpHs) (target : Target) :
    c.verify target = .error () ↔
      target ≠ .field ∧ ∃ w ∈ CmpAttr.all, (c.get w).fieldOnlyArgs = true := by
  cases target <;>
  simp only [CmpHs.verify, CmpAttr.all, CmpH.verify, CmpHs.get, bind, Except.bind,
    pure, Except.pure, bail, ne_eq, reduceCtorEq, not_false_eq_true, not_true_eq_false, true_and, false_and,
    List.mem_cons, List.not_mem_nil, or_false, exists_eq_or_imp, exists_eq_left] <;>
  cases c.ord.fieldOnlyArgs <;> cases c.partialOrd.fieldOnlyArgs <;> cases c.eq.fieldOnlyArgs <;>
  cases c.partialEq.fieldOnlyArgs <;> cases c.hash.fieldOnlyArgs <;> simp

/-- isolation: when the item-level parsing succeeds, the outcome of each derive
entry is a function of that entry alone — an error (or `dump`) in one entry
leaves the segments of every other entry untouched -/
theorem struct_entries_isolated (attr : Option Args) (s : ItemStruct) (es : List Entry) (h : HAttrs)
    (fields : List FieldE)
    (hes : Entry.fromRoot attr s.attrs = .ok es)
    (hh : HAttrs.fromAttrs s.attrs .type ((Kinds.new true).extend es).withoutDeriveEx = .ok h)
    (hf : FieldE.fromFields s.fields ((Kinds.new true).extend es) = .ok fields) :
    (structCore attr s).result = .ok (es.map fun e => (e, applyDump e (buildStructEntry s h fields e))) := by
  simp [structCore, hes, hh, hf, bind, Except.bind, pure, Except.pure]

end DX
