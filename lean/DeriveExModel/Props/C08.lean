import DeriveExModel.Props.C07
/-
C08 — operators derived from a struct act field-wise in all reference forms.
-/
namespace DX

/-- the emitted forms are exactly the documented ones, in the documented order -/
theorem forms_emitted :
    (∀ o, opForms (.bin o) = [(false, false), (false, true), (true, false), (true, true)]) ∧
    (∀ o, opForms (.assign o) = [(false, false), (false, true)]) ∧
    (∀ o, opForms (.un o) = [(false, false), (true, false)]) := ⟨fun _ => rfl, fun _ => rfl, fun _ => rfl⟩

theorem ops_one_impl_per_form (kind : Kind) (s : ItemStruct) (e : Entry) (fields : List FieldE) :
    (buildOps kind s e fields).render.length = (opForms kind).length := by
  simp [OpsImpl.render, buildOps]

/-- `l op r` in form `(lRef, rRef)`: field `i` of the result is the field's operator on
field `i` of the operands, left operand on the left; one call per field, in order, in that form -/
theorem bin_fieldwise {V} (o : OpsImpl) (σ : OpSem V) (l r : Bool) (x y : Val V) (hd : IndexDistinct o.fields) :
    (∀ f ∈ o.fields, (evalBin o σ l r x y).1.field f.index = σ.bin f l r (x.field f.index) (y.field f.index)) ∧
    (evalBin o σ l r x y).2 = o.fields.map (fun f => { field := f.index, lhsRef := l, rhsRef := r }) :=
  ⟨fun f hf => updFields_mem _ _ _ hd f hf, rfl⟩

theorem assign_fieldwise {V} (o : OpsImpl) (σ : OpSem V) (r : Bool) (x y : Val V) (hd : IndexDistinct o.fields) :
    (∀ f ∈ o.fields, (evalAssign o σ r x y).1.field f.index = σ.assign f r (x.field f.index) (y.field f.index)) ∧
    (evalAssign o σ r x y).2 = o.fields.map (fun f => { field := f.index, lhsRef := false, rhsRef := r }) :=
  ⟨fun f hf => updFields_mem _ _ _ hd f hf, rfl⟩

theorem un_fieldwise {V} (o : OpsImpl) (σ : OpSem V) (l : Bool) (x : Val V) (hd : IndexDistinct o.fields) :
    (∀ f ∈ o.fields, (evalUn o σ l x).1.field f.index = σ.un f l (x.field f.index)) ∧
    (evalUn o σ l x).2 = o.fields.map (fun f => { field := f.index, lhsRef := l, rhsRef := false }) :=
  ⟨fun f hf => updFields_mem _ _ _ hd f hf, rfl⟩

/-- the operator walks exactly the struct's fields -/
theorem ops_fields (kind : Kind) (s : ItemStruct) (e : Entry) (fields : List FieldE) :
    (buildOps kind s e fields).fields = fields := rfl

/-- if the field type's reference forms agree with its owned form, so do the struct's -/
theorem forms_agree {V} (o : OpsImpl) (σ : OpSem V) (l r : Bool) (x y : Val V) (hd : IndexDistinct o.fields)
    (ha : ∀ f a b, σ.bin f l r a b = σ.bin f false false a b) :
    ∀ f ∈ o.fields, (evalBin o σ l r x y).1.field f.index = (evalBin o σ false false x y).1.field f.index := by
  intro f hf
  rw [(bin_fieldwise o σ l r x y hd).1 f hf, (bin_fieldwise o σ false false x y hd).1 f hf, ha]

end DX
