import DeriveExModel.Props.C20
import DeriveExModel.Props.C19
/-
C13 / C20 — syntactic hygiene of everything the expander writes.

Every token of every expansion carries its provenance (`Tok.lean`).  Tokens copied from the input (`user`) are the
user's business.  A segment of an absolute path (`abs`) is *fused* with the `::` in front of it, a member name (`mem`)
with the `.` / `::` / `fn` / `type` in front of it or the `=` of a binding behind it: the data type has no way of writing
one without its anchor, and `GTok.strs` prints anchor and name next to each other.  What remains — the tokens written
literally in the templates (`lit`) — is proved here to consist of punctuation, keywords, primitive type names, literals,
`__`-reserved names and three names that are defined and used inside one generated block (`_eq`, `_f`, and the
parameter `T` of `_eq`).  So no identifier the expander writes can be captured by, or capture, a name the user chose
(names starting with `__` being reserved): `attr_output_hygienic`, `derive_output_hygienic` — `tokOK` for every token of
every segment of every expansion.
-/
namespace DX

def rustKeywords : List String :=
  -- the strict and reserved keywords of Rust 2021 (none of them can be a user-chosen name) and `_`
  ["as", "break", "const", "continue", "crate", "dyn", "else", "enum", "extern", "false", "fn", "for", "if", "impl", "in", "let",
   "loop", "match", "mod", "move", "mut", "pub", "ref", "return", "self", "Self", "static", "struct", "super", "trait", "true",
   "type", "unsafe", "use", "where", "while", "async", "await", "abstract", "become", "box", "do", "final", "macro", "override",
   "priv", "typeof", "unsized", "virtual", "yield", "try", "_"]
/-- primitive types written unqualified (as the standard derives do) -/
def primTypes : List String := []   -- (until F23: `bool`, `usize`; now `::core::primitive::bool`)
/-- names defined and used inside one generated block only -/
def blockLocalNames : List String := []   -- (until F24: `_eq`, `_f`, `T` — visible to the key expressions pasted next to them)

/-- what a template may write literally -/
def litOK (s : String) : Bool :=
  match s.toList with
  | [] => true
  | '\'' :: rest => rest.take 2 == ['_', '_']        -- a generated lifetime is reserved
  | '"' :: _ => true                                   -- string literal
  | c :: rest =>
    if c.isDigit then true                             -- number literal
    else if isIdentStart c then
      (c == '_' && rest.head? == some '_') || rustKeywords.contains s || primTypes.contains s || blockLocalNames.contains s
    else true                                          -- punctuation, delimiters

/-- what a generated token may be, by provenance: a literally written token is punctuation / keyword / primitive type /
literal / reserved name and has no anchor; a segment of an absolute path is fused with the `::` in front of it; a member
name is fused with `::`, `fn` or `type` in front of it or with the `=` of a binding behind it.  A name behind `.` is *not*
admitted: `x.name(..)` is looked up among the traits in scope of the user (F31) -/
def tokOK (t : GTok) : Bool :=
  match t.p with
  | .lit => litOK t.s && t.pre == "" && t.post == ""
  | .root => t.s == "core" && t.pre == "::" && t.post == ""     -- absolute paths start at `::core`
  | .abs => t.pre == "::" && t.post == ""
  | .mem => ((t.pre == "::" || t.pre == "fn" || t.pre == "type") && t.post == "") || (t.pre == "" && t.post == "=")
  | _ => t.pre == "" && t.post == ""

/-- every token of the list is allowed -/
def Hyg (l : GToks) : Prop := ∀ t ∈ l, tokOK t = true

theorem Hyg.nil : Hyg [] := by intro t h; cases h
@[simp] theorem tokOK_u (s : String) : tokOK (u s) = true := rfl
@[simp] theorem tokOK_fnM (s : String) : tokOK (fnM s) = true := rfl
@[simp] theorem tokOK_typeM (s : String) : tokOK (typeM s) = true := rfl
@[simp] theorem tokOK_pathM (s : String) : tokOK (pathM s) = true := rfl
@[simp] theorem tokOK_bindM (s : String) : tokOK (bindM s) = true := rfl
@[simp] theorem tokOK_idxLit (i : Nat) : tokOK (idxLit i) = true := rfl
theorem tokOK_lit (s : String) (h : litOK s = true) : tokOK ((s : String) : GTok) = true := by
  simp [tokOK, h]
theorem hyg_append {a b : GToks} : Hyg (a ++ b) ↔ Hyg a ∧ Hyg b := by
  unfold Hyg; simp only [List.mem_append]
  constructor
  · intro h; exact ⟨fun t ht => h t (Or.inl ht), fun t ht => h t (Or.inr ht)⟩
  · rintro ⟨h1, h2⟩ t (ht | ht); exact h1 t ht; exact h2 t ht
theorem hyg_cons {t : GTok} {l : GToks} : Hyg (t :: l) ↔ tokOK t = true ∧ Hyg l := by
  unfold Hyg; simp only [List.mem_cons]
  constructor
  · intro h; exact ⟨h t (Or.inl rfl), fun x hx => h x (Or.inr hx)⟩
  · rintro ⟨h1, h2⟩ x (hx | hx)
    · subst hx; exact h1
    · exact h2 x hx
@[simp] theorem hyg_gapp {a b : GToks} : Hyg (a +++ b) ↔ Hyg a ∧ Hyg b := hyg_append
@[simp] theorem hyg_gcons {t : GTok} {l : GToks} : Hyg (t ::: l) ↔ tokOK t = true ∧ Hyg l := hyg_cons
theorem hyg_U (ts : Toks) : Hyg (U ts) := by
  intro t ht; simp only [U, List.mem_map] at ht; obtain ⟨s, _, rfl⟩ := ht; rfl
theorem hyg_absPath (segs : List String) (h : segs.head? = some "core") : Hyg (absPath segs) := by
  cases segs with
  | nil => cases h
  | cons r rest =>
    simp only [List.head?_cons, Option.some.injEq] at h
    subst h
    intro t ht
    simp only [absPath, List.mem_cons, List.mem_map] at ht
    rcases ht with rfl | ⟨s, _, rfl⟩ <;> rfl
theorem hyg_genAttr (xs : List String) : Hyg (genAttr xs) := by
  intro t ht
  simp only [genAttr, List.mem_cons, List.mem_append, List.mem_map, List.not_mem_nil, or_false] at ht
  rcases ht with rfl | rfl | ⟨s, _, rfl⟩ | rfl
  · decide
  · decide
  · rfl
  · decide

theorem hyg_wrap (o c : String) (ho : litOK o = true) (hc : litOK c = true) {l : GToks} :
    Hyg (({ s := o } : GTok) :: l ++ [({ s := c } : GTok)]) ↔ Hyg l := by
  rw [hyg_append, hyg_cons, hyg_cons]
  constructor
  · exact fun h => h.1.2
  · exact fun h => ⟨⟨tokOK_lit o ho, h⟩, tokOK_lit c hc, Hyg.nil⟩
theorem hyg_paren {l : GToks} : Hyg (paren l) ↔ Hyg l := hyg_wrap "(" ")" (by decide) (by decide)
theorem hyg_brace {l : GToks} : Hyg (brace l) ↔ Hyg l := hyg_wrap "{" "}" (by decide) (by decide)
theorem hyg_angle {l : GToks} : Hyg (angle l) ↔ Hyg l := hyg_wrap "<" ">" (by decide) (by decide)
theorem hyg_flatMap {α} (l : List α) (f : α → GToks) (h : ∀ x ∈ l, Hyg (f x)) : Hyg (l.flatMap f) := by
  intro t ht
  simp only [List.mem_flatMap] at ht
  obtain ⟨x, hx, htx⟩ := ht
  exact h x hx t htx
theorem hyg_termBy (sep : GTok) (xs : List GToks) (hs : tokOK sep = true) (h : ∀ x ∈ xs, Hyg x) :
    Hyg (termBy sep xs) := by
  unfold termBy
  apply hyg_flatMap
  intro x hx
  rw [hyg_append]
  exact ⟨h x hx, by rw [hyg_cons]; exact ⟨hs, Hyg.nil⟩⟩
theorem hyg_sepBy (sep : GTok) (xs : List GToks) (hs : tokOK sep = true) (h : ∀ x ∈ xs, Hyg x) :
    Hyg (sepBy sep xs) := by
  induction xs with
  | nil => exact Hyg.nil
  | cons x rest ih =>
    cases rest with
    | nil => simpa [sepBy] using h x (by simp)
    | cons y rest' =>
      simp only [sepBy, hyg_append, hyg_cons]
      exact ⟨h x (by simp), hs, ih (fun z hz => h z (by simp [hz]))⟩

/-- literal tokens: closed facts, decided by evaluation -/
macro "hyg_lits" : tactic => `(tactic| (first | decide | (intro _; decide)))

end DX

namespace DX
@[simp] theorem hyg_U' (ts : Toks) : Hyg (U ts) ↔ True := iff_true_intro (hyg_U ts)
@[simp] theorem hyg_absPath' (r : String) (rest : List String) : Hyg (absPath (r :: rest)) ↔ r = "core" := by
  constructor
  · intro h
    have := h { s := r, p := .root, pre := "::" } (by simp [absPath])
    simpa [tokOK] using this
  · intro h; exact hyg_absPath _ (by simp [h])
@[simp] theorem hyg_genAttr' (xs : List String) : Hyg (genAttr xs) ↔ True := iff_true_intro (hyg_genAttr xs)
@[simp] theorem hyg_allowUserLints : Hyg allowUserLints ↔ True := iff_true_intro (hyg_genAttr _)
@[simp] theorem hyg_nil' : Hyg [] ↔ True := iff_true_intro Hyg.nil

theorem hyg_kindPath (k : Kind) : Hyg k.path := by
  cases k <;> simp [Kind.path, CmpOp.path]
  case cmp o => cases o <;> simp [CmpOp.path]

theorem hyg_wcbBuild (w : WCB) (f : Ty → GToks) (hf : ∀ ty, Hyg (f ty)) : Hyg (w.build f) := by
  unfold WCB.build
  by_cases h : (w.items f).isEmpty = true
  · simp only [h, if_true]; exact Hyg.nil
  · simp only [h, Bool.false_eq_true, if_false]
    rw [hyg_cons]
    refine ⟨by decide, hyg_termBy _ _ (by decide) ?_⟩
    intro x hx
    simp only [WCB.items, List.mem_append, List.mem_map] at hx
    rcases hx with ⟨t, _, rfl⟩ | ⟨p, _, rfl⟩
    · exact hf _
    · exact hyg_U _

theorem hyg_withRef {ts : GToks} {r : Bool} : Hyg (withRef ts r) ↔ Hyg ts := by
  unfold withRef
  cases r
  · simp
  · simp only [if_true]; rw [hyg_cons]; exact ⟨fun h => h.2, fun h => ⟨by decide, h⟩⟩

/-- unfold the template, split it into its pieces, decide the literal tokens by evaluation -/
macro "hyg_simp" "[" ts:Lean.Parser.Tactic.simpLemma,* "]" : tactic =>
  `(tactic| simp (config := { decide := true }) only [implItem, autoDerived, thisTyToks, ufcs, memberOf, hyg_withRef, ↓reduceIte, Bool.false_eq_true, hyg_gapp, hyg_gcons, hyg_cons,
      hyg_append, hyg_paren, hyg_brace, hyg_angle, hyg_U', hyg_absPath', hyg_genAttr', hyg_allowUserLints, hyg_nil', tokOK_u, tokOK_fnM, tokOK_typeM,
      tokOK_pathM, tokOK_bindM, tokOK_idxLit, and_true, true_and,
      and_self, false_imp_iff, imp_self, forall_const, hyg_kindPath, $ts,*])

theorem hyg_where_simple (w : WCB) (tr : GToks) (h : Hyg tr) : Hyg (w.build fun ty => U ty.toks +++ ":" ::: tr) :=
  hyg_wcbBuild _ _ (fun ty => by hyg_simp [h])

theorem hyg_copy (c : CopyImpl) : Hyg c.render := by
  hyg_simp [CopyImpl.render, hyg_where_simple]

/-! ### reserved names -/

/-- the prefixes `FieldEntry::make_ident` is called with -/
def Reserved (s : String) : Prop := ∃ r, s.toList = '_' :: '_' :: r

theorem litOK_of_reserved (s : String) (h : Reserved s) : litOK s = true := by
  obtain ⟨r, hr⟩ := h
  unfold litOK
  rw [hr]
  simp [isIdentStart]

theorem reserved_append (a b : String) (h : Reserved a) : Reserved (a ++ b) := by
  obtain ⟨r, hr⟩ := h
  exact ⟨r ++ b.toList, by rw [String.toList_append, hr]; rfl⟩

theorem reserved_makeIdent (pre : String) (f : FieldE) (h : Reserved pre) : Reserved (f.makeIdent pre) := by
  unfold FieldE.makeIdent
  cases f.field.name <;> exact reserved_append _ _ (reserved_append _ _ h)

theorem hyg_makeIdent (pre : String) (f : FieldE) (h : Reserved pre) :
    tokOK ((f.makeIdent pre : String) : GTok) = true :=
  tokOK_lit _ (litOK_of_reserved _ (reserved_makeIdent pre f h))

theorem res_l : Reserved "__l" := ⟨['l'], rfl⟩
theorem res_r : Reserved "__r" := ⟨['r'], rfl⟩
theorem res_field : Reserved "__field" := ⟨"field".toList, rfl⟩
theorem res_self : Reserved "__self" := ⟨"self".toList, rfl⟩
theorem res_this : Reserved "__this" := ⟨"this".toList, rfl⟩
theorem res_other : Reserved "__other" := ⟨"other".toList, rfl⟩
theorem res_eq : Reserved "__eq_" := ⟨"eq_".toList, rfl⟩
theorem res_po : Reserved "__partial_ord_" := ⟨"partial_ord_".toList, rfl⟩
theorem res_ord : Reserved "__ord_" := ⟨"ord_".toList, rfl⟩
theorem res_hash : Reserved "__hash_" := ⟨"hash_".toList, rfl⟩

/-! ### building blocks -/

theorem hyg_ctorArgs (fs : Fields) (values : List GToks) (h : ∀ v ∈ values, Hyg v) : Hyg (ctorArgs fs values) := by
  unfold ctorArgs
  cases fs.kind
  · simp only
    rw [hyg_brace]
    apply hyg_flatMap
    rintro ⟨f, v⟩ hfv
    have hv : Hyg v := h v (List.of_mem_zip hfv).2
    hyg_simp [hv]
  · simp only
    rw [hyg_paren]
    exact hyg_termBy ("," : GTok) _ (by decide) h
  · exact Hyg.nil

theorem hyg_binders (pre : String) (hp : Reserved pre) (fields : List FieldE) :
    ∀ v ∈ fields.map (fun f => [((f.makeIdent pre : String) : GTok)]), Hyg v := by
  intro v hv
  simp only [List.mem_map] at hv
  obtain ⟨f, _, rfl⟩ := hv
  rw [hyg_cons]
  exact ⟨hyg_makeIdent pre f hp, Hyg.nil⟩

theorem hyg_makePatWith (v : VariantE) (pre : String) (hp : Reserved pre) (selfPath : GToks) (hs : Hyg selfPath) :
    Hyg (v.makePatWith pre selfPath) := by
  unfold VariantE.makePatWith
  hyg_simp [hs, hyg_ctorArgs _ _ (hyg_binders pre hp v.fields)]

theorem hyg_makePat (v : VariantE) (pre : String) (hp : Reserved pre) : Hyg (v.makePat pre) := by
  unfold VariantE.makePat
  exact hyg_makePatWith v pre hp _ (by hyg_simp [])

theorem hyg_makePatWildcard (v : VariantE) : Hyg v.makePatWildcard := by
  unfold VariantE.makePatWildcard
  cases v.variant.fields.kind <;> hyg_simp []

theorem hyg_matchSelf (arms : List GToks) (h : ∀ a ∈ arms, Hyg a) : Hyg (matchSelf arms) := by
  unfold matchSelf
  split
  · hyg_simp []
  · hyg_simp [hyg_termBy ("," : GTok) _ (by decide) h]


/-! ### the templates -/

theorem hyg_derefSig (d : DerefImpl) : Hyg d.sig := by
  unfold DerefImpl.sig
  split <;> hyg_simp [derefTargetToks]

theorem hyg_deref (d : DerefImpl) : Hyg d.render := by
  unfold DerefImpl.render
  split <;> hyg_simp [hyg_where_simple, hyg_derefSig]

theorem hyg_defVal (v : DefVal) : Hyg v.render := by
  cases v <;> hyg_simp [DefVal.render]

theorem hyg_default (d : DefaultImpl) : Hyg d.render := by
  unfold DefaultImpl.render
  have hv : ∀ v ∈ (match d.body with | .ctor _ _ vals => vals | _ => []).map DefVal.render, Hyg v := by
    intro v hv
    simp only [List.mem_map] at hv
    obtain ⟨x, _, rfl⟩ := hv
    exact hyg_defVal x
  cases hb : d.body with
  | value v =>
    cases v with
    | raw e b => cases b <;> hyg_simp [hyg_where_simple, DefVal.render]
    | into ty e => hyg_simp [hyg_where_simple, DefVal.render]
    | dflt ty => hyg_simp [hyg_where_simple, DefVal.render]
  | ctor path src vals =>
    rw [hb] at hv
    hyg_simp [hyg_where_simple, hyg_ctorArgs _ _ hv]

theorem hyg_debugExpr (x : DebugExpr) (toExpr : FieldE → GToks) (h : ∀ f, Hyg (toExpr f)) : Hyg (x.render toExpr) := by
  cases x with
  | transparent f => hyg_simp [DebugExpr.render, h]
  | builder named ident fields =>
    have hn : ∀ t : String, tokOK ((nameLit t : String) : GTok) = true := by
      intro t
      apply tokOK_lit
      unfold litOK nameLit
      rw [String.toList_append, String.toList_append]
      rfl
    unfold DebugExpr.render
    have hfold : ∀ (fs : List FieldE) (acc : GToks), Hyg acc →
        Hyg (fs.foldl (fun acc f =>
          absPath ["core", "fmt", if named then "DebugStruct" else "DebugTuple", "field"] +++ paren
            (acc +++ (if named then "," ::: nameLit f.member ::: "," ::: toExpr f else "," ::: toExpr f))) acc) := by
      intro fs
      induction fs with
      | nil => intro acc ha; exact ha
      | cons f fs ih =>
        intro acc ha
        apply ih
        cases named <;> hyg_simp [h, hn, ha]
    hyg_simp []
    apply hfold
    hyg_simp [hn]

theorem hyg_debug (d : DebugImpl) : Hyg d.render := by
  unfold DebugImpl.render
  cases hb : d.body with
  | struct_ x =>
    hyg_simp [hyg_where_simple]
    apply hyg_debugExpr
    intro f
    split <;> hyg_simp []
  | enum_ arms =>
    hyg_simp [hyg_where_simple]
    apply hyg_matchSelf
    intro a ha
    simp only [List.mem_map] at ha
    obtain ⟨⟨v, x⟩, _, rfl⟩ := ha
    hyg_simp [hyg_makePat v _ res_field]
    apply hyg_debugExpr
    intro f
    rw [hyg_cons]
    exact ⟨hyg_makeIdent _ f res_field, Hyg.nil⟩


theorem hyg_mapMem {α} (l : List α) (f : α → GToks) (h : ∀ x, Hyg (f x)) : ∀ v ∈ l.map f, Hyg v := by
  intro v hv
  simp only [List.mem_map] at hv
  obtain ⟨x, _, rfl⟩ := hv
  exact h x

theorem hyg_clone (c : CloneImpl) : Hyg c.render := by
  unfold CloneImpl.render
  have hk : Hyg cloneTrait := hyg_kindPath .clone
  cases hs : c.shape with
  | struct_ src fields =>
    hyg_simp [hyg_where_simple, hk, cloneTrait]
    refine ⟨?_, ?_⟩
    · apply hyg_ctorArgs
      apply hyg_mapMem
      intro f
      hyg_simp []
    · apply hyg_termBy (";" : GTok) _ (by decide)
      apply hyg_mapMem
      intro f
      hyg_simp []
  | enum_ vs =>
    hyg_simp [hyg_where_simple, hk, cloneTrait]
    refine ⟨?_, ?_⟩
    · apply hyg_matchSelf
      apply hyg_mapMem
      intro v
      hyg_simp [hyg_ctorArgs _ _ (hyg_binders "__l" res_l v.fields)]
      apply hyg_ctorArgs
      apply hyg_mapMem
      intro f
      hyg_simp [hyg_makeIdent "__l" f res_l]
    · apply hyg_termBy ("," : GTok) _ (by decide)
      apply hyg_mapMem
      intro v
      hyg_simp [hyg_ctorArgs _ _ (hyg_binders "__l" res_l v.fields), hyg_ctorArgs _ _ (hyg_binders "__r" res_r v.fields)]
      apply hyg_termBy (";" : GTok) _ (by decide)
      apply hyg_mapMem
      intro f
      hyg_simp [hyg_makeIdent "__l" f res_l, hyg_makeIdent "__r" f res_r]


theorem hyg_refFieldTy (ty : Ty) (r : Bool) : Hyg (refFieldTy ty r) := by
  unfold refFieldTy; split <;> hyg_simp []

theorem hyg_opsForm (o : OpsImpl) (l r : Bool) (w : WCB) : Hyg (o.renderForm l r w) := by
  unfold OpsImpl.renderForm
  have hk : Hyg o.kind.path := hyg_kindPath _
  cases hkind : o.kind with
  | bin b =>
    rw [hkind] at hk
    cases l <;> cases r <;>
    · hyg_simp [hk]
      refine ⟨?_, ?_⟩
      · apply hyg_wcbBuild
        intro ty
        hyg_simp [hk]
      · apply hyg_ctorArgs
        apply hyg_mapMem
        intro f
        hyg_simp [hk, hyg_refFieldTy]
  | assign b =>
    rw [hkind] at hk
    cases r <;>
    · hyg_simp [hk]
      refine ⟨?_, ?_⟩
      · apply hyg_wcbBuild
        intro ty
        hyg_simp [hk]
      · apply hyg_termBy (";" : GTok) _ (by decide)
        apply hyg_mapMem
        intro f
        hyg_simp [hk, hyg_refFieldTy]
  | un u' =>
    rw [hkind] at hk
    cases l <;>
    · hyg_simp [hk]
      refine ⟨?_, ?_⟩
      · apply hyg_wcbBuild
        intro ty
        hyg_simp [hk]
      · apply hyg_ctorArgs
        apply hyg_mapMem
        intro f
        hyg_simp [hk, hyg_refFieldTy]
  | _ => exact Hyg.nil

theorem hyg_ops (o : OpsImpl) : ∀ ts ∈ o.render, Hyg ts := by
  intro ts hts
  simp only [OpsImpl.render, List.mem_map] at hts
  obtain ⟨⟨⟨l, r⟩, w⟩, _, rfl⟩ := hts
  exact hyg_opsForm o l r w


/-! ### the comparison traits -/

theorem hyg_applyTemplate (tmpl : Toks) (value : GToks) (h : Hyg value) : Hyg (applyTemplate tmpl value) := by
  unfold applyTemplate
  apply hyg_flatMap
  intro t _
  split
  · exact h
  · hyg_simp []

theorem hyg_selfOf (k : SrcKind) (f : FieldE) : Hyg (selfOf k f) := by
  cases k <;> hyg_simp [selfOf, hyg_makeIdent "__self" f res_self]
theorem hyg_thisOf (k : SrcKind) (f : FieldE) : Hyg (thisOf k f) := by
  cases k <;> hyg_simp [thisOf, hyg_makeIdent "__this" f res_this]
theorem hyg_otherOf (k : SrcKind) (f : FieldE) : Hyg (otherOf k f) := by
  cases k <;> hyg_simp [otherOf, hyg_makeIdent "__other" f res_other]

theorem hyg_optOrdering : Hyg optOrdering := by hyg_simp [optOrdering]
theorem hyg_ordering : Hyg ordering := by hyg_simp [ordering]
theorem hyg_someEqual : Hyg someEqual := by hyg_simp [someEqual]
theorem hyg_orderingEqual : Hyg orderingEqual := by hyg_simp [orderingEqual]
theorem hyg_coreFn : Hyg coreFn := by hyg_simp [coreFn]
theorem hyg_primBool : Hyg primBool := by hyg_simp [primBool]
theorem hyg_refT : Hyg refT := by hyg_simp [refT]
theorem hyg_helperT : Hyg helperT := by hyg_simp [helperT]

theorem hyg_helperFnBlock (id : String) (hid : Reserved id) (generics : GToks) (params : List GToks) (ret body : GToks)
    (args : List GToks) (hg : Hyg generics) (hp : ∀ p ∈ params, Hyg p) (hr : Hyg ret) (hb : Hyg body)
    (ha : ∀ a ∈ args, Hyg a) : Hyg (helperFnBlock id generics params ret body args) := by
  unfold helperFnBlock
  have hidok : tokOK ((id : String) : GTok) = true := tokOK_lit _ (litOK_of_reserved id hid)
  hyg_simp [hg, hr, hb, hidok, hyg_sepBy ("," : GTok) _ (by decide) hp, hyg_sepBy ("," : GTok) _ (by decide) ha]

theorem hyg_ufcs2 (path : List String) (a b : GToks) (hp : path.head? = some "core") (ha : Hyg a) (hb : Hyg b) :
    Hyg (ufcs2 path a b) := by
  have := hyg_absPath path hp
  hyg_simp [ufcs2, ha, hb, this]

theorem hyg_list3 {a b c : GToks} (ha : Hyg a) (hb : Hyg b) (hc : Hyg c) : ∀ x ∈ [a, b, c], Hyg x := by
  intro x hx
  simp only [List.mem_cons, List.not_mem_nil, or_false] at hx
  rcases hx with rfl | rfl | rfl <;> assumption

theorem hyg_peExpr (k : SrcKind) (cf : CmpField) : Hyg (peExpr k cf) := by
  unfold peExpr
  have hs := hyg_selfOf k cf.f
  have ho := hyg_otherOf k cf.f
  have hid := reserved_makeIdent "__eq_" cf.f res_eq
  have hargs : ∀ e : Toks, ∀ a ∈ [("&" : GTok) ::: selfOf k cf.f, ("&" : GTok) ::: otherOf k cf.f, U e], Hyg a := by
    intro e
    apply hyg_list3 <;> hyg_simp [hs, ho]
  cases hsel : cf.sel with
  | by_ src e =>
    cases src <;>
    · simp only
      apply hyg_helperFnBlock _ hid _ _ _ _ _ hyg_helperT
      · apply hyg_list3 <;> hyg_simp [hyg_refT, hyg_coreFn, hyg_optOrdering, hyg_ordering, hyg_primBool]
      · hyg_simp [hyg_primBool]
      · hyg_simp [hyg_someEqual, hyg_orderingEqual]
      · exact hargs e
  | key src t => exact hyg_ufcs2 _ _ _ rfl (hyg_applyTemplate _ _ hs) (hyg_applyTemplate _ _ ho)
  | dflt => exact hyg_ufcs2 _ _ _ rfl hs ho

theorem hyg_eqChecker (this : GToks) (h : Hyg this) : Hyg (eqChecker this) := by
  hyg_simp [eqChecker, h]

theorem hyg_eqExpr (k : SrcKind) (cf : CmpField) : Hyg (eqExpr k cf) := by
  unfold eqExpr
  have ht := hyg_thisOf k cf.f
  cases cf.sel with
  | by_ _ _ => exact Hyg.nil
  | key _ t => exact hyg_eqChecker _ (hyg_applyTemplate _ _ ht)
  | dflt => exact hyg_eqChecker _ ht


theorem hyg_poExpr0 (k : SrcKind) (cf : CmpField) : Hyg (poExpr0 k cf) := by
  unfold poExpr0
  have hs := hyg_selfOf k cf.f
  have ho := hyg_otherOf k cf.f
  have hid := reserved_makeIdent "__partial_ord_" cf.f res_po
  have hargs : ∀ e : Toks, ∀ a ∈ [("&" : GTok) ::: selfOf k cf.f, ("&" : GTok) ::: otherOf k cf.f, U e], Hyg a := by
    intro e
    apply hyg_list3 <;> hyg_simp [hs, ho]
  cases hsel : cf.sel with
  | by_ src e =>
    cases src <;>
    · simp only
      apply hyg_helperFnBlock _ hid _ _ _ _ _ hyg_helperT
      · apply hyg_list3 <;> hyg_simp [hyg_refT, hyg_coreFn, hyg_optOrdering, hyg_ordering]
      · hyg_simp [hyg_optOrdering]
      · hyg_simp []
      · exact hargs e
  | key src t => exact hyg_ufcs2 _ _ _ rfl (hyg_applyTemplate _ _ hs) (hyg_applyTemplate _ _ ho)
  | dflt => exact hyg_ufcs2 _ _ _ rfl hs ho

theorem hyg_poExpr (k : SrcKind) (cf : CmpField) : Hyg (poExpr k cf) := by
  unfold poExpr
  split <;> hyg_simp [hyg_poExpr0]

theorem hyg_ordExpr0 (k : SrcKind) (cf : CmpField) : Hyg (ordExpr0 k cf) := by
  unfold ordExpr0
  have hs := hyg_selfOf k cf.f
  have ho := hyg_otherOf k cf.f
  have hid := reserved_makeIdent "__ord_" cf.f res_ord
  cases hsel : cf.sel with
  | by_ src e =>
    simp only
    apply hyg_helperFnBlock _ hid _ _ _ _ _ hyg_helperT
    · apply hyg_list3 <;> hyg_simp [hyg_refT, hyg_coreFn, hyg_ordering]
    · hyg_simp [hyg_ordering]
    · hyg_simp []
    · apply hyg_list3 <;> hyg_simp [hs, ho]
  | key src t => exact hyg_ufcs2 _ _ _ rfl (hyg_applyTemplate _ _ hs) (hyg_applyTemplate _ _ ho)
  | dflt => exact hyg_ufcs2 _ _ _ rfl hs ho

theorem hyg_ordExpr (k : SrcKind) (cf : CmpField) : Hyg (ordExpr k cf) := by
  unfold ordExpr
  split <;> hyg_simp [hyg_ordExpr0]

theorem hyg_hashStmt (x : GToks) (h : Hyg x) : Hyg (hashStmt x) := by hyg_simp [hashStmt, h]

theorem hyg_hashExpr (k : SrcKind) (cf : CmpField) : Hyg (hashExpr k cf) := by
  unfold hashExpr
  have hs := hyg_selfOf k cf.f
  have hid := reserved_makeIdent "__hash_" cf.f res_hash
  cases hsel : cf.sel with
  | by_ src e =>
    simp only
    apply hyg_helperFnBlock _ hid
    · hyg_simp []
    · apply hyg_list3 <;> hyg_simp [hyg_refT, hyg_coreFn]
    · exact Hyg.nil
    · hyg_simp []
    · apply hyg_list3 <;> hyg_simp [hs]
  | key src t => exact hyg_hashStmt _ (hyg_applyTemplate _ _ hs)
  | dflt => exact hyg_hashStmt _ hs

theorem hyg_toIndexFn (vs : List VariantE) : Hyg (toIndexFn vs) := by
  unfold toIndexFn
  hyg_simp []
  apply hyg_flatMap
  rintro ⟨v, i⟩ _
  hyg_simp [hyg_makePatWildcard]


theorem hyg_poStep (e : GToks) (h : Hyg e) : Hyg (poStep e) := by hyg_simp [poStep, h, hyg_someEqual]
theorem hyg_ordStep (e : GToks) (h : Hyg e) : Hyg (ordStep e) := by hyg_simp [ordStep, h, hyg_orderingEqual]

theorem hyg_cmpFieldsBody (op : CmpOp) (k : SrcKind) (fs : List CmpField) : Hyg (cmpFieldsBody op k fs) := by
  unfold cmpFieldsBody
  cases op
  · -- ord
    hyg_simp [hyg_orderingEqual]
    exact hyg_flatMap _ _ (fun cf _ => hyg_ordStep _ (hyg_ordExpr k cf))
  · hyg_simp [hyg_someEqual]
    exact hyg_flatMap _ _ (fun cf _ => hyg_poStep _ (hyg_poExpr k cf))
  · exact hyg_flatMap _ _ (fun cf _ => hyg_eqExpr k cf)
  · simp only
    split
    · hyg_simp []
    · apply hyg_sepBy ("&&" : GTok) _ (by decide)
      apply hyg_mapMem
      intro cf
      rw [hyg_paren]
      exact hyg_peExpr k cf
  · exact hyg_flatMap _ _ (fun cf _ => hyg_hashExpr k cf)

theorem hyg_cmpThisTy (c : CmpImpl) : Hyg c.thisTy := by hyg_simp [CmpImpl.thisTy]

theorem hyg_cmpInner (c : CmpImpl) : Hyg c.inner := by
  unfold CmpImpl.inner
  cases hb : c.body with
  | struct_ fs => exact hyg_cmpFieldsBody _ _ _
  | enum_ vs =>
    have harms2 : ∀ op, Hyg (vs.flatMap fun (p : VariantE × List CmpField) =>
        paren (p.1.makePat "__self" +++ "," ::: p.1.makePat "__other") +++ "=>" ::: brace (cmpFieldsBody op .enum_ p.2)) := by
      intro op
      apply hyg_flatMap
      rintro ⟨v, fs⟩ _
      hyg_simp [hyg_makePat v _ res_self, hyg_makePat v _ res_other, hyg_cmpFieldsBody]
    simp only
    cases c.op
    · hyg_simp [harms2, hyg_toIndexFn]
    · hyg_simp [harms2, hyg_toIndexFn]
    · hyg_simp []
      apply hyg_flatMap
      rintro ⟨v, fs⟩ _
      have hn : Hyg ([u c.name] : GToks) := by hyg_simp []
      hyg_simp [hyg_makePatWith v _ res_this _ hn, hyg_cmpFieldsBody]
    · hyg_simp [harms2]
    · hyg_simp []
      apply hyg_flatMap
      rintro ⟨v, fs⟩ _
      hyg_simp [hyg_makePat v _ res_self, hyg_cmpFieldsBody]

theorem hyg_cmpAttrs : Hyg cmpAttrs := by hyg_simp [cmpAttrs]
theorem hyg_cmpAllowAttrs : Hyg cmpAllowAttrs := by hyg_simp [cmpAllowAttrs]

theorem hyg_cmpOpPath (o : CmpOp) : Hyg o.path := by cases o <;> hyg_simp [CmpOp.path]

theorem hyg_cmp (c : CmpImpl) : ∀ ts ∈ c.render, Hyg ts := by
  intro ts hts
  unfold CmpImpl.render at hts
  have hw : Hyg ((c.wc.selfExpanded (DX.thisTy c.name c.generics)).build fun ty => U ty.toks +++ ":" ::: c.op.path) :=
    hyg_where_simple _ _ (hyg_cmpOpPath _)
  cases hop : c.op <;> rw [hop] at hts hw <;> simp only [List.mem_cons, List.not_mem_nil, or_false] at hts
  all_goals
    first
    | (subst hts
       hyg_simp [hyg_cmpAttrs, hyg_cmpOpPath, hyg_cmpThisTy, hw, hyg_cmpInner, hyg_optOrdering, hyg_ordering, hyg_primBool])
    | (rcases hts with rfl | rfl <;>
       hyg_simp [hyg_cmpAttrs, hyg_cmpAllowAttrs, hyg_cmpOpPath, hyg_cmpThisTy, hw, hyg_cmpInner])


/-! ### forwarding impls -/

theorem hyg_opTraitPath (o : BinOp) (f : OpForm) : Hyg (opTraitPath o f) := by hyg_simp [opTraitPath]

theorem hyg_changeOwned (expr : GToks) (ty : Ty) (a b : Bool) (h : Hyg expr) : Hyg (changeOwned expr ty a b) := by
  unfold changeOwned
  cases a <;> cases b <;> hyg_simp [h]

theorem hyg_fwdItem (f : FwdImpl) (it : FwdItem) : Hyg (f.renderItem it) := by
  have hself : Hyg (["self"] : GToks) := by hyg_simp []
  have hrhs : Hyg (["__rhs"] : GToks) := by hyg_simp []
  cases it with
  | binary l r =>
    hyg_simp [FwdImpl.renderItem, hyg_opTraitPath, hyg_changeOwned _ _ _ _ hself, hyg_changeOwned _ _ _ _ hrhs]
  | assign rhs callL =>
    hyg_simp [FwdImpl.renderItem, hyg_opTraitPath, hyg_changeOwned _ _ _ _ hself]
  | binFromAssign =>
    hyg_simp [FwdImpl.renderItem, hyg_opTraitPath]

theorem hyg_fwd (f : FwdImpl) : ∀ ts ∈ f.render, Hyg ts := by
  intro ts hts
  simp only [FwdImpl.render, List.mem_map] at hts
  obtain ⟨it, _, rfl⟩ := hts
  exact hyg_fwdItem f it

/-! ### every expansion -/

theorem hyg_genImpl (g : GenImpl) : ∀ ts ∈ g.render, Hyg ts := by
  cases g with
  | cmp c => exact hyg_cmp c
  | ops o => exact hyg_ops o
  | clone c => intro ts h; simp only [GenImpl.render, List.mem_cons, List.not_mem_nil, or_false] at h; subst h; exact hyg_clone c
  | copy c => intro ts h; simp only [GenImpl.render, List.mem_cons, List.not_mem_nil, or_false] at h; subst h; exact hyg_copy c
  | debug d => intro ts h; simp only [GenImpl.render, List.mem_cons, List.not_mem_nil, or_false] at h; subst h; exact hyg_debug d
  | dflt d => intro ts h; simp only [GenImpl.render, List.mem_cons, List.not_mem_nil, or_false] at h; subst h; exact hyg_default d
  | deref d => intro ts h; simp only [GenImpl.render, List.mem_cons, List.not_mem_nil, or_false] at h; subst h; exact hyg_deref d

theorem hyg_flatten (l : List GToks) (h : ∀ ts ∈ l, Hyg ts) : Hyg l.flatten := by
  intro t ht
  simp only [List.mem_flatten] at ht
  obtain ⟨ts, hts, htt⟩ := ht
  exact h ts hts t htt

theorem fst_mem_of_mem_zipIdx {α} (l : List α) (k : Nat) (p : α × Nat) (h : p ∈ l.zipIdx k) : p.1 ∈ l := by
  induction l generalizing k with
  | nil => simp at h
  | cons x xs ih =>
    simp only [List.zipIdx_cons, List.mem_cons] at h
    rcases h with rfl | h
    · simp
    · exact List.mem_cons_of_mem _ (ih _ h)

theorem hyg_entrySegs (i : Nat) (e : Entry) (o : EntryOut) : ∀ seg ∈ entrySegs i e o, Hyg seg.tokens := by
  intro seg hseg
  unfold entrySegs at hseg
  cases o with
  | ok g =>
    simp only [List.mem_map] at hseg
    obtain ⟨⟨ts, j⟩, hmem, rfl⟩ := hseg
    exact hyg_genImpl g ts (fst_mem_of_mem_zipIdx _ _ _ hmem)
  | dump g =>
    simp only [List.mem_cons, List.not_mem_nil, or_false] at hseg
    subst hseg
    exact hyg_flatten _ (hyg_genImpl g)
  | err =>
    simp only [List.mem_cons, List.not_mem_nil, or_false] at hseg
    subst hseg
    exact Hyg.nil


theorem hyg_coreSegs (r : R (List (Entry × EntryOut))) : ∀ seg ∈ coreSegs r, Hyg seg.tokens := by
  intro seg hseg
  unfold coreSegs at hseg
  cases r with
  | error _ =>
    simp only [List.mem_cons, List.not_mem_nil, or_false] at hseg
    subst hseg; exact Hyg.nil
  | ok xs =>
    simp only [List.mem_flatMap] at hseg
    obtain ⟨⟨⟨e, o⟩, i⟩, _, h⟩ := hseg
    exact hyg_entrySegs i e o seg h

theorem hyg_implSegs (attr : Args) (i : ItemImpl) : ∀ seg ∈ implSegs attr i, Hyg seg.tokens := by
  intro seg hseg
  unfold implSegs at hseg
  cases hb : buildFwd attr i with
  | error _ =>
    rw [hb] at hseg
    simp only [List.mem_cons, List.not_mem_nil, or_false] at hseg
    subst hseg; exact Hyg.nil
  | ok f =>
    rw [hb] at hseg
    simp only at hseg
    split at hseg
    · simp only [List.mem_cons, List.not_mem_nil, or_false] at hseg
      subst hseg
      exact hyg_flatten _ (hyg_fwd f)
    · simp only [List.mem_map] at hseg
      obtain ⟨⟨ts, j⟩, hmem, rfl⟩ := hseg
      exact hyg_fwd f ts (fst_mem_of_mem_zipIdx _ _ _ hmem)

/-- **Hygiene of the attribute macro.**  For every item and every argument list, every token of every emitted segment
satisfies `tokOK`: one that the expander wrote literally is punctuation, a keyword, a primitive type, a literal, a
`__`-reserved name or one of the three block-local names; a segment of an absolute path directly follows `::`; a member
name directly follows `.` / `::` / `fn` / `type` or directly precedes the `=` of a binding; the rest is copied from the
input, sits inside a generated attribute, or is a computed integer literal. -/
theorem attr_output_hygienic (attr : Args) (item : Item) : ∀ seg ∈ expandAttr attr item, Hyg seg.tokens := by
  intro seg hseg
  unfold expandAttr at hseg
  cases item with
  | struct_ s =>
    simp only [List.mem_cons] at hseg
    rcases hseg with rfl | h
    · exact hyg_U _
    · exact hyg_coreSegs _ seg h
  | enum_ e =>
    simp only [List.mem_cons] at hseg
    rcases hseg with rfl | h
    · exact hyg_U _
    · exact hyg_coreSegs _ seg h
  | impl_ i =>
    simp only [List.mem_cons] at hseg
    rcases hseg with rfl | h
    · exact hyg_U _
    · exact hyg_implSegs attr i seg h
  | other ts =>
    simp only [List.mem_cons, List.not_mem_nil, or_false] at hseg
    rcases hseg with rfl | rfl
    · exact hyg_U _
    · exact Hyg.nil

/-- **Hygiene of `#[derive(Ex)]`.** -/
theorem derive_output_hygienic (item : Item) : ∀ seg ∈ expandDerive item, Hyg seg.tokens := by
  intro seg hseg
  unfold expandDerive at hseg
  cases item with
  | struct_ s => exact hyg_coreSegs _ seg hseg
  | enum_ e => exact hyg_coreSegs _ seg hseg
  | impl_ i => simp only [List.mem_cons, List.not_mem_nil, or_false] at hseg; subst hseg; exact Hyg.nil
  | other ts => simp only [List.mem_cons, List.not_mem_nil, or_false] at hseg; subst hseg; exact Hyg.nil

/-! ### the anchored provenances are produced behind their anchor -/

/-- what `absPath` prints: `::` in front of every segment -/
theorem absPath_strs (segs : List String) : (absPath segs).strs = segs.flatMap (fun s => ["::", s]) := by
  cases segs with
  | nil => rfl
  | cons r rest =>
    have h : ∀ l : List String, GToks.strs (l.map fun s => ({ s, p := .abs, pre := "::" } : GTok)) = l.flatMap (fun s => ["::", s]) := by
      intro l
      induction l with
      | nil => rfl
      | cons x xs ih =>
        simp only [GToks.strs, List.map_cons, List.flatMap_cons] at ih ⊢
        rw [ih]; rfl
    simp only [absPath, GToks.strs, List.flatMap_cons] at h ⊢
    rw [h]; rfl

/-- the first segment of every absolute path the templates write is `core` (so the path starts at the crate root
`::core`, which no user-chosen name can shadow) — checked on the trait table and on the fixed paths -/
theorem kind_paths_rooted (k : Kind) : ∃ rest, k.path = ({ s := "core", p := .root, pre := "::" } : GTok) :: rest := by
  cases k <;> first
    | exact ⟨_, rfl⟩
    | (rename_i o; cases o <;> exact ⟨_, rfl⟩)

/-- non-vacuity: a comparison impl with a `by` helper really contains literal tokens, reserved names among them -/
example : (({ s := "__this" } : GTok) ∈ refT ++ [({ s := "__this" } : GTok)]) ∧ litOK "__this" = true ∧ litOK "this" = false ∧
    litOK "Some" = false ∧ litOK "clone" = false := by
  refine ⟨by simp, by decide, by decide, by decide, by decide⟩

end DX
