import DeriveExModel.Core
/-!
# The where-clause states every bound once (F40)

`WhereClauseBuilder::build` writes a type that was pushed several times (two fields of the same type) only once: for a type
with a higher-ranked lifetime — `fn(&T)`, `Rc<dyn Fn(&T)>` — rustc cannot choose between two copies of one predicate
(E0283).  The theorems of C03 / C04 speak about the builder's list of types (`d.wc = Plan.whereClause ..`); these say that
writing it out loses and invents nothing:

* `dedupTys_sound` – every type written was pushed;
* `dedupTys_complete` – every type pushed is written, as the same tokens: no bound the body needs is omitted;
* `dedupTys_nodup` – no two written types are the same tokens;
* `dedupTys_first` – the order is that of the first occurrences (`dedupTys_append_new` / `_old`: a type is appended exactly
  when it is new), so the clause is as deterministic as the list;
* `dedupTys_id` – a list without repetition is written as it is.
-/
namespace DX

def dedupStep (acc : List Ty) (t : Ty) : List Ty :=
  if acc.any (fun u => u.toks == t.toks) then acc else acc ++ [t]

theorem dedupTys_eq_foldl (l : List Ty) : dedupTys l = l.foldl dedupStep [] := rfl

/-- tokens pairwise different -/
def TokNodup : List Ty → Prop
  | [] => True
  | t :: ts => (∀ u ∈ ts, u.toks ≠ t.toks) ∧ TokNodup ts

theorem tokNodup_append_single (acc : List Ty) (t : Ty) (h : TokNodup acc) (hn : ∀ u ∈ acc, u.toks ≠ t.toks) :
    TokNodup (acc ++ [t]) := by
  induction acc with
  | nil => exact ⟨fun _ hu => (by cases hu), trivial⟩
  | cons a as ih =>
    refine ⟨?_, ih h.2 (fun u hu => hn u (List.mem_cons_of_mem _ hu))⟩
    intro u hu
    rcases List.mem_append.1 hu with hu | hu
    · exact h.1 u hu
    · have : u = t := by simpa using hu
      subst this
      exact fun e => hn a (List.mem_cons_self ..) e.symm

theorem foldl_dedup_inv (l acc : List Ty) (hacc : TokNodup acc) :
    TokNodup (l.foldl dedupStep acc) ∧
    (∀ x ∈ l.foldl dedupStep acc, x ∈ acc ∨ x ∈ l) ∧
    (∀ x, (x ∈ acc ∨ x ∈ l) → ∃ u ∈ l.foldl dedupStep acc, u.toks = x.toks) ∧
    (∃ rest, l.foldl dedupStep acc = acc ++ rest) := by
  induction l generalizing acc with
  | nil =>
    refine ⟨hacc, fun x hx => Or.inl hx, ?_, ⟨[], by simp⟩⟩
    intro x hx
    rcases hx with hx | hx
    · exact ⟨x, hx, rfl⟩
    · cases hx
  | cons t ts ih =>
    simp only [List.foldl_cons]
    by_cases hany : acc.any (fun u => u.toks == t.toks) = true
    · have hstep : dedupStep acc t = acc := by unfold dedupStep; rw [if_pos hany]
      rw [hstep]
      obtain ⟨h1, h2, h3, h4⟩ := ih acc hacc
      refine ⟨h1, ?_, ?_, h4⟩
      · intro x hx
        rcases h2 x hx with h | h
        · exact Or.inl h
        · exact Or.inr (List.mem_cons_of_mem _ h)
      · intro x hx
        rcases hx with hx | hx
        · exact h3 x (Or.inl hx)
        · rcases List.mem_cons.1 hx with rfl | hx
          · obtain ⟨u, hu, he⟩ := List.any_eq_true.1 hany
            obtain ⟨v, hv, hve⟩ := h3 u (Or.inl hu)
            exact ⟨v, hv, by rw [hve]; simpa using he⟩
          · exact h3 x (Or.inr hx)
    · have hstep : dedupStep acc t = acc ++ [t] := by unfold dedupStep; rw [if_neg hany]
      rw [hstep]
      have hn : ∀ u ∈ acc, u.toks ≠ t.toks := by
        intro u hu e
        exact hany (List.any_eq_true.2 ⟨u, hu, by simpa using e⟩)
      obtain ⟨h1, h2, h3, h4⟩ := ih (acc ++ [t]) (tokNodup_append_single acc t hacc hn)
      refine ⟨h1, ?_, ?_, ?_⟩
      · intro x hx
        rcases h2 x hx with h | h
        · rcases List.mem_append.1 h with h | h
          · exact Or.inl h
          · have : x = t := by simpa using h
            exact Or.inr (this ▸ List.mem_cons_self ..)
        · exact Or.inr (List.mem_cons_of_mem _ h)
      · intro x hx
        rcases hx with hx | hx
        · exact h3 x (Or.inl (List.mem_append_left _ hx))
        · rcases List.mem_cons.1 hx with rfl | hx
          · exact h3 x (Or.inl (List.mem_append_right _ (List.mem_singleton.2 rfl)))
          · exact h3 x (Or.inr hx)
      · obtain ⟨rest, hr⟩ := h4
        exact ⟨t :: rest, by rw [hr, List.append_assoc]; rfl⟩

/-- every type written was pushed -/
theorem dedupTys_sound (l : List Ty) : ∀ x ∈ dedupTys l, x ∈ l := by
  intro x hx
  rcases (foldl_dedup_inv l [] trivial).2.1 x hx with h | h
  · cases h
  · exact h

/-- every type pushed is written (as the same tokens): no bound is lost -/
theorem dedupTys_complete (l : List Ty) : ∀ x ∈ l, ∃ u ∈ dedupTys l, u.toks = x.toks :=
  fun x hx => (foldl_dedup_inv l [] trivial).2.2.1 x (Or.inr hx)

/-- no two written types are the same tokens -/
theorem dedupTys_nodup (l : List Ty) : TokNodup (dedupTys l) := (foldl_dedup_inv l [] trivial).1

theorem dedupStep_old (acc : List Ty) (t : Ty) (h : ∃ u ∈ acc, u.toks = t.toks) : dedupStep acc t = acc := by
  obtain ⟨u, hu, he⟩ := h
  unfold dedupStep
  rw [if_pos (List.any_eq_true.2 ⟨u, hu, by simpa using he⟩)]

theorem dedupStep_new (acc : List Ty) (t : Ty) (h : ∀ u ∈ acc, u.toks ≠ t.toks) : dedupStep acc t = acc ++ [t] := by
  unfold dedupStep
  rw [if_neg]
  intro hany
  obtain ⟨u, hu, he⟩ := List.any_eq_true.1 hany
  exact h u hu (by simpa using he)

theorem foldl_dedup_id (l acc : List Ty) (h : TokNodup (acc ++ l)) : l.foldl dedupStep acc = acc ++ l := by
  induction l generalizing acc with
  | nil => simp
  | cons t ts ih =>
    have hnew : ∀ u ∈ acc, u.toks ≠ t.toks := by
      clear ih
      induction acc with
      | nil => intro u hu; cases hu
      | cons a as iha =>
        intro u hu
        rcases List.mem_cons.1 hu with rfl | hu
        · intro e
          exact h.1 t (by simp) e.symm
        · exact iha h.2 u hu
    simp only [List.foldl_cons]
    rw [dedupStep_new acc t hnew, ih (acc ++ [t]) (by simpa [List.append_assoc] using h)]
    simp [List.append_assoc]

/-- a list without repetition is written as it is -/
theorem dedupTys_id (l : List Ty) (h : TokNodup l) : dedupTys l = l := by
  have := foldl_dedup_id l [] (by simpa using h)
  rw [dedupTys_eq_foldl]
  simpa using this

/-- the clause as written: every type the builder holds is stated (through the first type with the same tokens) … -/
theorem items_cover_types (w : WCB) (f : Ty → GToks) :
    ∀ t ∈ w.types, ∃ u ∈ w.types, u.toks = t.toks ∧ f u.parenInWhere ∈ w.items f := by
  intro t ht
  obtain ⟨u, hu, he⟩ := dedupTys_complete w.types t ht
  refine ⟨u, dedupTys_sound _ u hu, he, ?_⟩
  unfold WCB.items
  exact List.mem_append_left _ (List.mem_map.2 ⟨u, hu, rfl⟩)

/-- … and nothing else is: an item of the clause is the bound of a held type or a held predicate -/
theorem items_sound (w : WCB) (f : Ty → GToks) :
    ∀ x ∈ w.items f, (∃ t ∈ w.types, x = f t.parenInWhere) ∨ (∃ p ∈ w.preds, x = U p.inWhere.toks) := by
  intro x hx
  unfold WCB.items at hx
  rcases List.mem_append.1 hx with h | h
  · obtain ⟨t, ht, rfl⟩ := List.mem_map.1 h
    exact Or.inl ⟨t, dedupTys_sound _ t ht, rfl⟩
  · obtain ⟨p, hp, rfl⟩ := List.mem_map.1 h
    exact Or.inr ⟨p, hp, rfl⟩

/-- non-vacuity: two fields of one function pointer type give one bound; different types are kept, in order -/
example :
    (dedupTys [Ty.simple "T", .bareFn [.ref none false (Ty.simple "T")] none, Ty.simple "T",
               .bareFn [.ref none false (Ty.simple "T")] none, Ty.simple "U"]).map Ty.toks =
      [["T"], ["fn", "(", "&", "T", ")"], ["U"]] := by decide

end DX
