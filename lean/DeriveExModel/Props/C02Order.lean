import DeriveExModel.Props.C02
/-
C02, continued — the derived `cmp` of a whole item is a total order.

`C02.lean` proves that on values of one variant `cmp` is a lexicographic product of lawful
comparisons, and that the order of variant positions is lawful.  Here the two are combined:
a comparison that first compares tags and, on equal tags, uses the tag's own lawful comparison
is lawful; hence `docCmp` (to which the generated `cmp` is proved equal in C01) is lawful on
*all* pairs and triples of values — reflexive on equals, anti-symmetric under swap, transitive.
-/
namespace DX

variable {V F : Type}

/-- tag first, then the tag's own comparison -/
def sumCmp {α} (tag : α → Nat) (k : Nat → α → α → Ordering) (a b : α) : Ordering :=
  if tag a != tag b then compare (tag a) (tag b) else k (tag a) a b

theorem nat_compare_ne_eq {m n : Nat} (h : m ≠ n) : compare m n ≠ .eq := by
  intro he; exact h (Nat.compare_eq_eq.mp he)

theorem sumCmp_lawful {α} (tag : α → Nat) (k : Nat → α → α → Ordering) (hk : ∀ v, LawfulCmp (k v)) :
    LawfulCmp (sumCmp tag k) := by
  refine ⟨?_, ?_, ?_⟩
  · intro x y
    unfold sumCmp
    by_cases h : tag x = tag y
    · have h' : tag y = tag x := h.symm
      simp only [h, bne_self_eq_false, Bool.false_eq_true, if_false]
      exact (hk (tag y)).swap x y
    · have h' : tag y ≠ tag x := fun e => h e.symm
      simp only [bne_iff_ne, ne_eq, h, h', not_false_eq_true, if_true]
      exact nat_compare_lawful.swap _ _
  · intro x y z hxy
    unfold sumCmp at hxy ⊢
    by_cases h : tag x = tag y
    · simp only [h, bne_self_eq_false, Bool.false_eq_true, if_false] at hxy ⊢
      by_cases h2 : tag y = tag z
      · simp only [h2, bne_self_eq_false, Bool.false_eq_true, if_false]
        rw [← h2]
        exact (hk (tag y)).eq_congr x y z hxy
      · simp [bne_iff_ne, h2]
    · simp only [bne_iff_ne, ne_eq, h, not_false_eq_true, if_true] at hxy
      exact absurd hxy (nat_compare_ne_eq h)
  · intro x y z h1 h2
    unfold sumCmp at h1 h2 ⊢
    by_cases hxy : tag x = tag y
    · by_cases hyz : tag y = tag z
      · simp only [hxy, hyz, bne_self_eq_false, Bool.false_eq_true, if_false] at h1 h2 ⊢
        exact (hk (tag z)).lt_trans x y z h1 h2
      · simp only [hxy, bne_self_eq_false, Bool.false_eq_true, if_false, bne_iff_ne, ne_eq, hyz, not_false_eq_true,
          if_true] at h1 h2 ⊢
        exact h2
    · simp only [bne_iff_ne, ne_eq, hxy, not_false_eq_true, if_true] at h1
      have lt1 : tag x < tag y := Nat.compare_eq_lt.mp h1
      by_cases hyz : tag y = tag z
      · have hxz : tag x ≠ tag z := by omega
        simp only [bne_iff_ne, ne_eq, hxz, not_false_eq_true, if_true]
        exact Nat.compare_eq_lt.mpr (by omega)
      · simp only [bne_iff_ne, ne_eq, hyz, not_false_eq_true, if_true] at h2
        have lt2 : tag y < tag z := Nat.compare_eq_lt.mp h2
        have hxz : tag x ≠ tag z := by omega
        simp only [bne_iff_ne, ne_eq, hxz, not_false_eq_true, if_true]
        exact Nat.compare_eq_lt.mpr (by omega)

/-- the documented `cmp` of an item in the shape of `sumCmp` -/
theorem docCmp_eq_sumCmp (src : Source) (σ : Env V F) (a b : Val V) (he : src.isEnum = true) :
    docCmp src σ a b = sumCmp (fun v : Val V => v.variant) (fun t x y => docCmpFields σ x y (src.fieldsOf t)) a b := by
  unfold docCmp sumCmp
  simp [he]

/-- **the derived `cmp` is a total order on all values of the item** (every accepted attribute placement, one key
per field, lawful field comparisons): it flips under argument swap, `Equal` is a congruence, and it is transitive —
across variants as well as within one -/
theorem cmp_lawful (src : Source) (σ : Env V F) (cmpD cmpK hashK) (hc : CoherentEnv σ cmpD cmpK hashK)
    (hD : ∀ f, LawfulCmp (cmpD f)) (hK : ∀ f, LawfulCmp (cmpK f)) (ho : src.misused .ord = false) :
    LawfulCmp (docCmp src σ) := by
  have hv : ∀ t, LawfulCmp (fun x y => docCmpFields σ x y (src.fieldsOf t)) := fun t =>
    cmp_fields_lawful σ cmpD cmpK hashK hc hD hK _ (accepted_fieldsOf _ src t ho)
  cases he : src.isEnum
  · -- a struct: one field list
    have : docCmp src σ = fun x y => docCmpFields σ x y (src.fieldsOf 0) := by
      funext a b
      unfold docCmp
      simp only [he, Bool.false_and, Bool.false_eq_true, if_false]
      cases src with
      | struct_ _ _ _ => rfl
      | enum_ _ _ _ => cases he
    rw [this]
    exact hv 0
  · have : docCmp src σ = sumCmp (fun v : Val V => v.variant) (fun t x y => docCmpFields σ x y (src.fieldsOf t)) := by
      funext a b
      exact docCmp_eq_sumCmp src σ a b he
    rw [this]
    exact sumCmp_lawful _ _ hv

/-- transitivity of `<=` in the usual form: `a <= b` and `b <= c` give `a <= c` -/
theorem cmp_le_trans (src : Source) (σ : Env V F) (cmpD cmpK hashK) (hc : CoherentEnv σ cmpD cmpK hashK)
    (hD : ∀ f, LawfulCmp (cmpD f)) (hK : ∀ f, LawfulCmp (cmpK f)) (ho : src.misused .ord = false) (a b c : Val V)
    (h1 : docCmp src σ a b ≠ .gt) (h2 : docCmp src σ b c ≠ .gt) : docCmp src σ a c ≠ .gt := by
  have L := cmp_lawful src σ cmpD cmpK hashK hc hD hK ho
  intro h3
  cases hab : docCmp src σ a b with
  | gt => exact h1 hab
  | eq =>
    have := L.eq_congr a b c hab
    rw [this] at h3
    exact h2 h3
  | lt =>
    cases hbc : docCmp src σ b c with
    | gt => exact h2 hbc
    | lt =>
      have := L.lt_trans a b c hab hbc
      rw [this] at h3; cases h3
    | eq =>
      have := L.eq_congr_right a b c hbc
      rw [← this, hab] at h3; cases h3

/-- `==` is an equivalence relation on all values of the item (transitivity across the whole item) -/
theorem eq_trans (src : Source) (σ : Env V F) (cmpD cmpK hashK) (hc : CoherentEnv σ cmpD cmpK hashK)
    (hD : ∀ f, LawfulCmp (cmpD f)) (hK : ∀ f, LawfulCmp (cmpK f))
    (hpe : src.misused .partialEq = false) (ho : src.misused .ord = false) (a b c : Val V)
    (h1 : docEq src σ a b = true) (h2 : docEq src σ b c = true) : docEq src σ a c = true := by
  have L := cmp_lawful src σ cmpD cmpK hashK hc hD hK ho
  rw [eq_iff_cmp_equal src σ cmpD cmpK hashK hc hpe ho] at h1 h2 ⊢
  have e1 : docCmp src σ a b = .eq := by simpa using h1
  have e2 : docCmp src σ b c = .eq := by simpa using h2
  have := L.eq_congr a b c e1
  rw [this, e2]
  rfl

/-- … and without `Ord` being derived: `==` is transitive on all values of the item -/
theorem eq_trans_item (src : Source) (σ : Env V F) (cmpD cmpK hashK) (hc : CoherentEnv σ cmpD cmpK hashK)
    (hD : ∀ f, LawfulOrd (cmpD f)) (hK : ∀ f, LawfulOrd (cmpK f))
    (hpe : src.misused .partialEq = false) (a b c : Val V)
    (h1 : docEq src σ a b = true) (h2 : docEq src σ b c = true) : docEq src σ a c = true := by
  unfold docEq at h1 h2 ⊢
  by_cases hab : (src.isEnum && a.variant != b.variant) = true
  · simp [hab] at h1
  · by_cases hbc : (src.isEnum && b.variant != c.variant) = true
    · simp [hbc] at h2
    · simp only [hab, hbc, Bool.false_eq_true, if_false] at h1 h2
      -- the three values use one field list
      have hfl : src.fieldsOf b.variant = src.fieldsOf a.variant ∧ src.fieldsOf c.variant = src.fieldsOf a.variant ∧
          (src.isEnum && a.variant != c.variant) = false := by
        cases src with
        | struct_ _ _ _ => exact ⟨rfl, rfl, rfl⟩
        | enum_ _ _ _ =>
          simp only [Source.isEnum, Bool.true_and, bne_iff_ne, ne_eq, Decidable.not_not] at hab hbc
          rw [← hbc, ← hab]
          simp
      rw [hfl.1] at h2
      simp only [hfl.2.2, Bool.false_eq_true, if_false]
      exact eq_trans_fields σ cmpD cmpK hashK hc hD hK _ (accepted_fieldsOf _ src _ hpe) a b c h1 h2

/-- non-vacuity of the hypotheses of `cmp_lawful`: `compare` on `Nat` is a lawful field comparison, and an item whose
field customises through `ord(key = ..)` is accepted for `Ord` -/
example : LawfulCmp (fun m n : Nat => compare m n) ∧
    (Source.struct_ "X" {} [{ field := { ty := .never }, index := 0, h := { cmp := { ord := { key := some ["k"] } } } }]).misused .ord = false :=
  ⟨nat_compare_lawful, by decide⟩

end DX
