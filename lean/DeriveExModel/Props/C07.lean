import DeriveExModel.Sem.Basic
/-
C07 — `clone` is field-wise; `clone_from` leaves the target equal to a clone of the source.
-/
namespace DX

/-- field indices are pairwise distinct (they are positions) -/
def IndexDistinct (fs : List FieldE) : Prop := fs.Pairwise fun a b => a.index ≠ b.index

theorem updFields_mem {V} (fs : List FieldE) (g : FieldE → V) (old : Nat → V) (hd : IndexDistinct fs)
    (f : FieldE) (hf : f ∈ fs) : updFields fs g old f.index = g f := by
  unfold updFields
  induction fs with
  | nil => cases hf
  | cons x xs ih =>
    have hd' := List.pairwise_cons.mp hd
    rcases List.mem_cons.mp hf with rfl | hmem
    · simp [List.find?_cons]
    · have hne : x.index ≠ f.index := hd'.1 f hmem
      have : (x.index == f.index) = false := by simpa using hne
      simp only [List.find?_cons, this]
      exact ih hd'.2 hmem

theorem updFields_not_mem {V} (fs : List FieldE) (g : FieldE → V) (old : Nat → V) (i : Nat)
    (h : ∀ f ∈ fs, f.index ≠ i) : updFields fs g old i = old i := by
  unfold updFields
  have : fs.find? (·.index == i) = none := by
    simp only [List.find?_eq_none]
    intro f hf
    simpa using h f hf
  rw [this]

/-- `clone`: same variant; every field is the field's own clone; exactly one `clone`
call per field, in declaration order -/
theorem clone_fieldwise {V} (c : CloneImpl) (σ : CloneSem V) (a : Val V)
    (hd : IndexDistinct (fieldsOfShape c.shape a.variant)) :
    (evalClone c σ a).1.variant = a.variant ∧
    (∀ f ∈ fieldsOfShape c.shape a.variant, (evalClone c σ a).1.field f.index = σ.clone f (a.field f.index)) ∧
    (evalClone c σ a).2 = (fieldsOfShape c.shape a.variant).map (fun f => CloneEv.clone f.index) := by
  refine ⟨rfl, ?_, rfl⟩
  intro f hf
  exact updFields_mem _ _ _ hd f hf

/-- the fields `clone` walks are exactly the item's fields (struct) -/
theorem clone_struct_fields (s : ItemStruct) (e : Entry) (fields : List FieldE) (variant : Nat) :
    fieldsOfShape (buildCloneStruct s e fields).shape variant = fields := rfl

theorem clone_enum_fields (en : ItemEnum) (e : Entry) (variants : List VariantE) (variant : Nat) :
    fieldsOfShape (buildCloneEnum en e variants).shape variant =
      (match variants[variant]? with | some v => v.fields | none => []) := rfl

/-- same variant (or a struct): one `clone_from` per field, in order, and no `clone` -/
theorem clone_from_same_variant {V} (c : CloneImpl) (σ : CloneSem V) (dst src : Val V)
    (hs : sameArm c dst src = true) (hd : IndexDistinct (fieldsOfShape c.shape dst.variant)) :
    (evalCloneFrom c σ dst src).1.variant = dst.variant ∧
    (∀ f ∈ fieldsOfShape c.shape dst.variant,
      (evalCloneFrom c σ dst src).1.field f.index = σ.cloneFrom f (dst.field f.index) (src.field f.index)) ∧
    (evalCloneFrom c σ dst src).2 = (fieldsOfShape c.shape dst.variant).map (fun f => CloneEv.cloneFrom f.index) := by
  have : (evalCloneFrom c σ dst src) =
      ({ variant := dst.variant,
         field := updFields (fieldsOfShape c.shape dst.variant)
           (fun f => σ.cloneFrom f (dst.field f.index) (src.field f.index)) dst.field },
       (fieldsOfShape c.shape dst.variant).map fun f => CloneEv.cloneFrom f.index) := by
    unfold evalCloneFrom
    rw [if_pos hs]
  rw [this]
  refine ⟨rfl, ?_, rfl⟩
  intro f hf
  exact updFields_mem _ _ _ hd f hf

/-- different variants: the target is replaced by a clone of the source -/
theorem clone_from_other_variant {V} (c : CloneImpl) (σ : CloneSem V) (dst src : Val V)
    (hs : sameArm c dst src = false) :
    (evalCloneFrom c σ dst src).1 = (evalClone c σ src).1 ∧
    (evalCloneFrom c σ dst src).2 = CloneEv.cloneWhole :: (evalClone c σ src).2 := by
  unfold evalCloneFrom
  rw [if_neg (by simp [hs])]
  exact ⟨rfl, rfl⟩

/-- with a lawful field `Clone` (`clone_from(d, s)` leaves `d = clone(s)`) the target
always ends up equal to `source.clone()`, in both cases -/
theorem clone_from_spec {V} (c : CloneImpl) (σ : CloneSem V) (dst src : Val V)
    (hl : ∀ f d s, σ.cloneFrom f d s = σ.clone f s)
    (hv : match c.shape with | .struct_ _ _ => True | .enum_ vs => src.variant < vs.length ∧ dst.variant < vs.length)
    (hd : IndexDistinct (fieldsOfShape c.shape src.variant)) :
    (∀ f ∈ fieldsOfShape c.shape src.variant,
      (evalCloneFrom c σ dst src).1.field f.index = (evalClone c σ src).1.field f.index) ∧
    (match c.shape with
     | .struct_ _ _ => True
     | .enum_ _ => (evalCloneFrom c σ dst src).1.variant = src.variant) := by
  cases hs : sameArm c dst src
  · have h := clone_from_other_variant c σ dst src hs
    rw [h.1]
    refine ⟨fun _ _ => rfl, ?_⟩
    cases c.shape <;> simp [evalClone]
  · -- same arm: the variants coincide (or it is a struct)
    have hvar : fieldsOfShape c.shape dst.variant = fieldsOfShape c.shape src.variant := by
      unfold sameArm at hs
      cases hsh : c.shape with
      | struct_ a b => simp [fieldsOfShape]
      | enum_ vs =>
        rw [hsh] at hs
        simp only [Bool.and_eq_true, beq_iff_eq, decide_eq_true_eq] at hs
        simp [fieldsOfShape, hs.1]
    have h := clone_from_same_variant c σ dst src hs (by rw [hvar]; exact hd)
    refine ⟨?_, ?_⟩
    · intro f hf
      rw [h.2.1 f (by rw [hvar]; exact hf), hl]
      exact ((clone_fieldwise c σ src hd).2.1 f hf).symm
    · unfold sameArm at hs
      cases hsh : c.shape with
      | struct_ a b => trivial
      | enum_ vs =>
        rw [hsh] at hs
        simp only [Bool.and_eq_true, beq_iff_eq, decide_eq_true_eq] at hs
        simp only
        rw [h.1, hs.1]

end DX
