import DeriveExModel.Generated.Tables
import DeriveExModel.Lemmas.Kinds
import DeriveExModel.Props.TablesDefs
/-
T — finite tables regenerated from the real expander on every run (Generated/Tables.lean is
rewritten by `xcheck tables`) and re-checked here against the model and the documentation.
A change of such a table in the code breaks these proof obligations directly.
-/
namespace DX

/-- which helper attributes the real expander consumes, for every set of derived traits:
equal to the model's `is_match` … -/
theorem isMatch_table_model :
    Generated.isMatchTable.all (fun (a, m, b) =>
      ((Kinds.new true).extend ((maskKinds m).map fun k => { kind := k })).isMatch (attrOfIdx a) == b) = true := by
  decide +kernel

/-- … and to the documentation's attribute / trait table -/
theorem isMatch_table_doc :
    Generated.isMatchTable.all (fun (a, m, b) => docOwnsAttr (maskKinds m) (attrOfIdx a) == b) = true := by
  decide +kernel

theorem isMatch_table_complete : Generated.isMatchTable.length = 8 * 128 := by decide +kernel

end DX

namespace DX
theorem trait_table_model :
    Generated.traitTable.all (fun (n, p, ms) => modelTraitRow n == some (p, ms)) = true := by
  decide +kernel
theorem trait_table_complete : Generated.traitTable.length = 33 := by decide +kernel
end DX
