import DeriveExModel.Sem.Basic
/-
C09 — operators derived from a user `impl` forward to it faithfully.
-/
namespace DX

/-- an operand is cloned exactly when it was received by reference but is needed by value -/
theorem clone_exactly_when_needed (inputRef outputRef : Bool) :
    (passOf inputRef outputRef = .cloned ↔ (inputRef = true ∧ outputRef = false)) ∧
    (passOf inputRef outputRef = .borrowed ↔ (inputRef = false ∧ outputRef = true)) := by
  cases inputRef <;> cases outputRef <;> simp [passOf]

/-- every generated binary form calls the user's base form `(thisIsRef, rhsIsRef)`, with
`self` on the left and `rhs` on the right, adapting each operand independently -/
theorem binary_forwards_to_base (f : FwdImpl) (l r : Bool) :
    let c := f.call (.binary l r)
    c.calleeAssign = false ∧ c.calleeLRef = f.thisIsRef ∧ c.calleeRhs = refTypeWith f.rhs f.rhsIsRef ∧
    c.lhs = passOf l f.thisIsRef ∧ c.rhs = passOf r f.rhsIsRef ∧ c.storesToSelf = false ∧ c.returnsSelf = false :=
  ⟨rfl, rfl, rfl, rfl, rfl, rfl, rfl⟩

/-- `a op= b` derived from `op` is `*a = (a' op b)` where `a'` is `a` itself when the callee takes
`&T`, and a clone of it when the callee takes `T` (the only way to get a value out of `&mut self`) -/
theorem assign_is_op (f : FwdImpl) (rhs : Ty) (callL : Bool) :
    let c := f.call (.assign rhs callL)
    c.calleeAssign = false ∧ c.storesToSelf = true ∧ c.rhs = .asIs ∧ c.calleeRhs = rhs ∧
    (c.lhs = if callL then .asIs else .cloned) := by
  cases callL <;> exact ⟨rfl, rfl, rfl, rfl, rfl⟩

/-- `a op b` derived from `op=` is `{ a op= b; a }`, nothing cloned -/
theorem op_from_assign (f : FwdImpl) :
    let c := f.call .binFromAssign
    c.calleeAssign = true ∧ c.returnsSelf = true ∧ c.lhs = .asIs ∧ c.rhs = .asIs ∧ c.calleeRhs = f.rhsOrig :=
  ⟨rfl, rfl, rfl, rfl, rfl⟩

/-- which binary impls are generated from `impl Op<R'> for L'`: the three other
(owned / reference) forms, in the order TT, T&, &T, && -/
theorem emitted_binary_forms :
    binForms false false = [.binary false true, .binary true false, .binary true true] ∧
    binForms false true = [.binary false false, .binary true false, .binary true true] ∧
    binForms true false = [.binary false false, .binary false true, .binary true true] ∧
    binForms true true = [.binary false false, .binary false true, .binary true false] :=
  ⟨rfl, rfl, rfl, rfl⟩

/-- requested sets: `{Op}` → the missing binary forms; `{Op, OpAssign}` → those, then `op=`
for `Rhs` and `&Rhs` (both through the `&T op …` forms, so nothing is cloned);
`{OpAssign}` → `op=` for the user's own right-hand side, through the user's own form -/
theorem emitted_forms (thisIsRef rhsIsRef : Bool) (rhs rhsOrig : Ty) :
    fwdItemsBinary true false thisIsRef rhsIsRef rhs rhsOrig = binForms thisIsRef rhsIsRef ∧
    fwdItemsBinary true true thisIsRef rhsIsRef rhs rhsOrig =
      binForms thisIsRef rhsIsRef ++ [.assign rhs true, .assign (refType rhs) true] ∧
    fwdItemsBinary false true thisIsRef rhsIsRef rhs rhsOrig = [.assign rhsOrig thisIsRef] ∧
    fwdItemsBinary false false thisIsRef rhsIsRef rhs rhsOrig = [] := by
  simp [fwdItemsBinary]

/-- the user's generics, where-clause with `Self` expanded, self type and right-hand side carry over -/
theorem carries_over (attr : Args) (i : ItemImpl) (f : FwdImpl) (hb : buildFwd attr i = .ok f) :
    f.generics = i.generics.expandSelf i.selfTy ∧ f.thisOrig = i.selfTy ∧ f.rhsOrig = i.rhsOrig ∧
    (f.this, f.thisIsRef) = toRefElem i.selfTy ∧ (f.rhs, f.rhsIsRef) = toRefElem i.rhsOrig := by
  unfold buildFwd at hb
  split at hb
  · simp [bail] at hb
  · simp only [pure, Except.pure, Except.ok.injEq] at hb
    subst hb
    exact ⟨rfl, rfl, rfl, rfl, rfl⟩

end DX
