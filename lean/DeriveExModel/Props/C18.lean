import DeriveExModel.Sem.Basic
/-
C18 — `Deref` / `DerefMut` target the single field itself.
-/
namespace DX

/-- accepted exactly for single-field structs -/
theorem arity_rejected (kind : Kind) (s : ItemStruct) (e : Entry) (fields : List FieldE) :
    (buildDeref kind s e fields).isOk = decide (fields.length = 1) := by
  unfold buildDeref
  cases fields with
  | nil => simp [bail, Except.isOk, Except.toBool]
  | cons f fs =>
    cases fs with
    | nil => simp [pure, Except.pure, Except.isOk, Except.toBool]
    | cons g gs => simp [bail, Except.isOk, Except.toBool]

/-- the returned reference is to the place `self.<that field>`, and `Target` is the field's
declared type, token for token -/
theorem deref_is_field_place (kind : Kind) (s : ItemStruct) (e : Entry) (f : FieldE) (d : DerefImpl)
    (hb : buildDeref kind s e [f] = .ok d) :
    evalDerefPlace d = f.member ∧ derefTarget d = f.field.ty ∧ d.mut_ = (kind == .derefMut) := by
  unfold buildDeref at hb
  simp only [pure, Except.pure, Except.ok.injEq] at hb
  subst hb
  exact ⟨rfl, rfl, rfl⟩

/-- `Target` is declared as the field's type, token for token, and nowhere else does the impl's signature mention it: the
method's return type is spelled `&<Self as ::core::ops::Deref>::Target`, whatever the field type looks like (unsized trait
objects included) -/
theorem deref_sig_free_of_field_type (d : DerefImpl) (ty : Ty) :
    ({ d with field := { d.field with field := { d.field.field with ty := ty } } } : DerefImpl).sig = d.sig := rfl

theorem deref_returns_trait_target (d : DerefImpl) :
    d.sig.strs = (if d.mut_ then ["fn", "deref_mut", "(", "&", "mut", "self", ")", "->", "&", "mut"] else ["fn", "deref", "(", "&", "self", ")", "->", "&"]) ++
      ["<", "Self", "as", "::", "core", "::", "ops", "::", "Deref", ">", "::", "Target"] := by
  unfold DerefImpl.sig
  cases d.mut_ <;> rfl

end DX
