import DeriveExModel.Sem.Basic
/-
C18 — `Deref` / `DerefMut` target the single field itself.
-/
namespace DX

/-- accepted exactly for single-field structs -/
theorem arity_rejected (kind : Kind) (s : ItemStruct) (e : Entry) (fields : List FieldE) :
    (buildDeref kind s e fields).isOk = decide (fields.length = 1) := by
  unfold buildDeref
  cases fields with
  | nil => simp [bail, Except.isOk, Except.toBool]
  | cons f fs =>
    cases fs with
    | nil => simp [pure, Except.pure, Except.isOk, Except.toBool]
    | cons g gs => simp [bail, Except.isOk, Except.toBool]

/-- the returned reference is to the place `self.<that field>`, and `Target` is the field's
declared type, token for token -/
theorem deref_is_field_place (kind : Kind) (s : ItemStruct) (e : Entry) (f : FieldE) (d : DerefImpl)
    (hb : buildDeref kind s e [f] = .ok d) :
    evalDerefPlace d = f.member ∧ derefTarget d = f.field.ty ∧ d.mut_ = (kind == .derefMut) := by
  unfold buildDeref at hb
  simp only [pure, Except.pure, Except.ok.injEq] at hb
  subst hb
  exact ⟨rfl, rfl, rfl⟩

end DX
