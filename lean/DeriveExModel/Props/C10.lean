import DeriveExModel.Sem.Basic
/-
C10 — `Debug` prints like the standard derive minus ignored fields; `transparent` delegates.
Statements are about the sequence of `Formatter` builder calls: equal call sequences on
the same formatter print the same text under every flag combination.
-/
namespace DX

/-- what `#[derive(Debug)]` does for a struct / variant called `name` with these fields
(documented expansion of the standard derive): `debug_struct(name).field("a", &a)….finish()`
for named fields, `debug_tuple(name).field(&0)….finish()` otherwise -/
def stdDebugTrace (name : String) (kind : FieldsKind) (fields : List FieldE) : List DebugEv :=
  -- (the standard derive, too, passes names without the `r#` prefix of raw identifiers)
  (if kind == .named then DebugEv.debugStruct (unraw name) else .debugTuple (unraw name)) ::
    (fields.map fun f => if kind == .named then DebugEv.namedField (unraw f.member) f.index else .field f.index) ++ [.finish]


/-- no transparent field: the call sequence is the standard derive's on the type with its
`#[debug(ignore)]` fields deleted -/
theorem debug_trace_is_std (ident : String) (src : Fields) (fields : List FieldE) (use : Bool) (w : WCB)
    (hn : transparentFields fields = []) :
    ∃ w', debugExpr ident src fields use w = .ok (.builder (src.kind == .named) ident (shownFields fields), w') ∧
      (DebugExpr.builder (src.kind == .named) ident (shownFields fields)).trace =
        stdDebugTrace ident src.kind (shownFields fields) := by
  unfold debugExpr
  unfold transparentFields at hn
  rw [hn]
  exact ⟨_, rfl, rfl⟩

/-- exactly one transparent field: formatting delegates to that field with the same formatter -/
theorem transparent_delegates (ident : String) (src : Fields) (fields : List FieldE) (use : Bool) (w : WCB)
    (f : FieldE) (h1 : transparentFields fields = [f]) :
    ∃ w', debugExpr ident src fields use w = .ok (.transparent f, w') ∧
      (DebugExpr.transparent f).trace = [.delegate f.index] := by
  unfold debugExpr
  unfold transparentFields at h1
  rw [h1]
  exact ⟨_, rfl, rfl⟩

/-- more than one transparent field in a struct or variant is rejected — and only that -/
theorem two_transparent_rejected (ident : String) (src : Fields) (fields : List FieldE) (use : Bool) (w : WCB) :
    (debugExpr ident src fields use w).isOk = decide ((transparentFields fields).length ≤ 1) := by
  unfold debugExpr transparentFields
  cases h : fields.filter (·.h.debug.transparent) with
  | nil => simp [Except.isOk, Except.toBool, pure, Except.pure]
  | cons a t =>
    cases t with
    | nil => simp [Except.isOk, Except.toBool, pure, Except.pure]
    | cons b t' => simp [Except.isOk, Except.toBool, bail]

/-- struct: the impl's call sequence -/
theorem debug_struct_trace (s : ItemStruct) (e : Entry) (h : HAttrs) (fields : List FieldE) (d : DebugImpl)
    (hb : buildDebugStruct s e h fields = .ok d) (hn : transparentFields fields = []) (variant : Nat) :
    evalDebug d variant = stdDebugTrace s.name s.fields.kind (shownFields fields) := by
  unfold buildDebugStruct at hb
  simp only [bind, Except.bind, pure, Except.pure] at hb
  obtain ⟨w', hx, htr⟩ := debug_trace_is_std s.name s.fields fields
    (e.pushBoundsToWith h .debug (WCB.new s.generics)).2 (e.pushBoundsToWith h .debug (WCB.new s.generics)).1 hn
  rw [hx] at hb
  simp only [Except.ok.injEq] at hb
  subst hb
  simpa [evalDebug] using htr

end DX
