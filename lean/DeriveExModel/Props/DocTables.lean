import DeriveExModel.Generated.DocTables
import DeriveExModel.Spec.Cmp
import DeriveExModel.Spec.Bounds
import DeriveExModel.Spec.Strip
/-
D — the tables of doc/derive_ex.md that the specification restates are parsed from the documentation of the repository on
every run (`Generated/DocTables.lean`, rewritten by `bin/vlib.py`) and the specification is proved equal to them here:
the hand-written `Spec/*.lean` is tied to the text of the documentation, not only to my reading of it.
-/
namespace DX

def cmpAttrOfIdx : Nat → CmpAttr
  | 0 => .ord | 1 => .partialOrd | 2 => .eq | 3 => .partialEq | _ => .hash
def cmpOpOfIdx : Nat → CmpOp
  | 0 => .ord | 1 => .partialOrd | 2 => .eq | 3 => .partialEq | _ => .hash

/-- "which helper attributes affect which trait", as printed: the recognition table `docOwns` -/
theorem doc_attr_trait_table :
    Generated.docAttrTraitTable.all (fun (a, t, b) => docOwns (cmpAttrOfIdx a) (cmpOpOfIdx t) == b) = true := by
  decide +kernel
theorem doc_attr_trait_complete : Generated.docAttrTraitTable.length = 25 := by decide +kernel

/-- the behavioural table `docAffects` is the printed one except for the tick `partial_eq` → `Eq`, which only matters for
recognition (`#[partial_eq(..)]` cannot change what `Eq` asserts) -/
theorem doc_affects_table :
    Generated.docAttrTraitTable.all (fun (a, t, b) =>
      docAffects (cmpAttrOfIdx a) (cmpOpOfIdx t) == (b && !(a == 3 && t == 2))) = true := by
  decide +kernel

/-- the five arguments of a comparison helper attribute, each alone -/
def argRecord : Nat → CmpH
  | 0 => { ignore := true }
  | 1 => { reverse := true }
  | 2 => { by_ := some ["f"] }
  | 3 => { key := some ["$"] }
  | _ => { bounds := { pred := [], ty := [], dflt := false } }
def placeTarget : Nat → Target
  | 0 | 1 => .type
  | 2 => .variant
  | _ => .field

/-- "helper attribute arguments and the locations where they can be used": `ignore`, `reverse`, `by`, `key` on fields only,
`bound(..)` everywhere — the rule `verify(target)` enforces (C05 `misplaced_iff`) -/
theorem doc_arg_place_table :
    Generated.docArgPlaceTable.all (fun (a, p, b) => ((argRecord a).verify (placeTarget p)).isOk == b) = true := by
  decide +kernel
theorem doc_arg_place_complete : Generated.docArgPlaceTable.length = 20 := by decide +kernel

/-- the order in which `Plan.whereClause` (Spec/Bounds.lean) visits the levels: per placement (type, variant, field) the
helper attribute, the per-trait argument, the shared argument -/
def specLevelOrder : List (Nat × Nat) :=
  [0, 1, 2].flatMap fun placement => [0, 1, 2].map fun source => (source, placement)

/-- "the lower the number, the higher the priority": the numbers of the documentation's table are the positions in that
order -/
theorem doc_level_table :
    Generated.docLevelTable.all (fun (s, p, n) => specLevelOrder[n - 1]? == some (s, p)) = true := by
  decide +kernel
theorem doc_level_complete : Generated.docLevelTable.length = 9 := by decide +kernel

end DX
