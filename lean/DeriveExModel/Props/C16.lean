import DeriveExModel.Props.C14
/-
C16 — expansion is total and deterministic (model level).

`expandAttr` and `expandDerive` are total Lean functions: Lean's termination checker accepted
them (and everything they call) without `partial` or fuel, so on every input of the model's
input language the model yields a value, and being a function, always the same one.
What remains to state is the *shape* of that value.  Panic-freedom of the Rust process, and inputs outside
the model's input language, are covered by the L1 runs (catch_unwind, run-twice) and the mutation fuzzer only.
-/
namespace DX

/-- every segment is an item (tokens), a `compile_error!`, or a `dump` error — nothing else can be produced -/
theorem output_shape (s : OSeg) : (∃ ts, s.body = .toks ts) ∨ s.body = .err ∨ (∃ ts, s.body = .dump ts) := by
  cases h : s.body with
  | toks ts => exact Or.inl ⟨ts, rfl⟩
  | err => exact Or.inr (Or.inl rfl)
  | dump ts => exact Or.inr (Or.inr ⟨ts, rfl⟩)

/-- the attribute macro always re-emits the item first -/
theorem attr_output_nonempty (args : Args) (item : Item) : 1 ≤ (expandAttr args item).length := by
  cases item <;> simp [expandAttr]

/-- a rejected derive input yields exactly one `compile_error!` -/
theorem derive_rejects_with_one_error (item : Item) (h : ∀ s, item ≠ .struct_ s) (h' : ∀ e, item ≠ .enum_ e) :
    ∃ l, expandDerive item = [{ label := l, body := .err }] := by
  cases item with
  | struct_ s => exact absurd rfl (h s)
  | enum_ e => exact absurd rfl (h' e)
  | impl_ i => exact ⟨_, rfl⟩
  | other ts => exact ⟨_, rfl⟩

/-- a failure before the per-trait loop yields exactly one `compile_error!` (after the item) -/
theorem core_error_single : coreSegs (.error ()) = [{ label := "err", body := .err }] := rfl

/-- determinism: the expansion is a function of (entry point, arguments, item) -/
theorem deterministic (args args' : Args) (item item' : Item) (h1 : args = args') (h2 : item = item') :
    expandAttr args item = expandAttr args' item' := by subst h1; subst h2; rfl

end DX
