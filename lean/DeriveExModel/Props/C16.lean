import DeriveExModel.Props.C14
import DeriveExModel.Props.C08
/-
C16 — expansion is total and deterministic (model level).

`expandAttr` and `expandDerive` are total Lean functions: Lean's termination checker accepted
them (and everything they call) without `partial` or fuel, so on every input of the model's
input language the model yields a value, and being a function, always the same one.
What remains to state is the *shape* of that value.  Panic-freedom of the Rust process, and inputs outside
the model's input language, are covered by the L1 runs (catch_unwind, run-twice) and the mutation fuzzer only.
-/
namespace DX

/-- every segment is an item (tokens), a `compile_error!`, or a `dump` error — nothing else can be produced -/
theorem output_shape (s : OSeg) : (∃ ts, s.body = .toks ts) ∨ s.body = .err ∨ (∃ ts, s.body = .dump ts) := by
  cases h : s.body with
  | toks ts => exact Or.inl ⟨ts, rfl⟩
  | err => exact Or.inr (Or.inl rfl)
  | dump ts => exact Or.inr (Or.inr ⟨ts, rfl⟩)

/-- the attribute macro always re-emits the item first -/
theorem attr_output_nonempty (args : Args) (item : Item) : 1 ≤ (expandAttr args item).length := by
  cases item <;> simp [expandAttr]

/-- a rejected derive input yields exactly one `compile_error!` -/
theorem derive_rejects_with_one_error (item : Item) (h : ∀ s, item ≠ .struct_ s) (h' : ∀ e, item ≠ .enum_ e) :
    ∃ l, expandDerive item = [{ label := l, body := .err }] := by
  cases item with
  | struct_ s => exact absurd rfl (h s)
  | enum_ e => exact absurd rfl (h' e)
  | impl_ i => exact ⟨_, rfl⟩
  | other ts => exact ⟨_, rfl⟩

/-- a failure before the per-trait loop yields exactly one `compile_error!` (after the item) -/
theorem core_error_single : coreSegs (.error ()) = [{ label := "err", body := .err }] := rfl

/-- determinism: the expansion is a function of (entry point, arguments, item) -/
theorem deterministic (args args' : Args) (item item' : Item) (h1 : args = args') (h2 : item = item') :
    expandAttr args item = expandAttr args' item' := by subst h1; subst h2; rfl

/-! ### every accepted entry produces something

An entry that is accepted never silently produces nothing: its impl family has at least one item (and for the operators
exactly one per documented form, `Props/C08.lean`), so every listed trait is answered either by items or by a
`compile_error!`. -/

theorem cmp_render_nonempty (c : CmpImpl) : c.render ≠ [] := by
  unfold CmpImpl.render
  cases c.op <;> simp

theorem ops_render_nonempty (kind : Kind) (s : ItemStruct) (e : Entry) (fields : List FieldE)
    (hk : (opForms kind) ≠ []) : (buildOps kind s e fields).render ≠ [] := by
  intro h
  have := ops_one_impl_per_form kind s e fields
  rw [h] at this
  simp at this
  exact hk (List.eq_nil_of_length_eq_zero this.symm)

theorem opForms_nonempty_of_op (kind : Kind) (h : (∃ o, kind = .bin o) ∨ (∃ o, kind = .assign o) ∨ (∃ o, kind = .un o)) :
    opForms kind ≠ [] := by
  rcases h with ⟨o, rfl⟩ | ⟨o, rfl⟩ | ⟨o, rfl⟩ <;> simp [opForms]

theorem struct_entry_nonempty (s : ItemStruct) (h : HAttrs) (fields : List FieldE) (e : Entry) (g : GenImpl)
    (hb : buildStructEntry s h fields e = .ok g) : g.render ≠ [] := by
  unfold buildStructEntry at hb
  split at hb
  · simp only [pure, Except.pure, Except.ok.injEq] at hb
    subst hb
    exact ops_render_nonempty _ s e fields (opForms_nonempty_of_op _ (Or.inl ⟨_, by assumption⟩))
  · simp only [pure, Except.pure, Except.ok.injEq] at hb
    subst hb
    exact ops_render_nonempty _ s e fields (opForms_nonempty_of_op _ (Or.inr (Or.inl ⟨_, by assumption⟩)))
  · simp only [pure, Except.pure, Except.ok.injEq] at hb
    subst hb
    exact ops_render_nonempty _ s e fields (opForms_nonempty_of_op _ (Or.inr (Or.inr ⟨_, by assumption⟩)))
  · simp only [bind, Except.bind, pure, Except.pure] at hb
    split at hb
    · simp at hb
    · simp only [Except.ok.injEq] at hb
      subst hb
      exact cmp_render_nonempty _
  all_goals
    first
    | (simp only [pure, Except.pure, Except.ok.injEq] at hb; subst hb; simp [GenImpl.render])
    | (simp only [bind, Except.bind, pure, Except.pure] at hb
       split at hb
       · simp at hb
       · simp only [Except.ok.injEq] at hb
         subst hb
         simp [GenImpl.render])

theorem enum_entry_nonempty (en : ItemEnum) (h : HAttrs) (variants : List VariantE) (e : Entry) (r : R GenImpl) (g : GenImpl)
    (hs : buildEnumEntry en h variants e = some r) (hb : r = .ok g) : g.render ≠ [] := by
  subst hb
  unfold buildEnumEntry at hs
  split at hs
  · simp only [Option.some.injEq, bind, Except.bind, pure, Except.pure] at hs
    split at hs
    · simp at hs
    · simp only [Except.ok.injEq] at hs
      subst hs
      exact cmp_render_nonempty _
  · simp only [Option.some.injEq, pure, Except.pure, Except.ok.injEq] at hs
    subst hs
    simp [GenImpl.render]
  · simp only [Option.some.injEq, pure, Except.pure, Except.ok.injEq] at hs
    subst hs
    simp [GenImpl.render]
  · simp only [Option.some.injEq, bind, Except.bind, pure, Except.pure] at hs
    split at hs
    · simp at hs
    · simp only [Except.ok.injEq] at hs
      subst hs
      simp [GenImpl.render]
  · simp only [Option.some.injEq, bind, Except.bind, pure, Except.pure] at hs
    split at hs
    · simp at hs
    · simp only [Except.ok.injEq] at hs
      subst hs
      simp [GenImpl.render]
  · simp at hs

/-- every entry is answered by at least one segment: items, one `compile_error!`, or one dump -/
theorem entry_answered (i : Nat) (e : Entry) (o : EntryOut) (ho : ∀ g, o = .ok g → g.render ≠ []) :
    entrySegs i e o ≠ [] := by
  cases o with
  | ok g =>
    have := ho g rfl
    simp only [entrySegs]
    intro h
    simp at h
    exact this h
  | dump g => simp [entrySegs]
  | err => simp [entrySegs]

/-- the derive entry point never re-emits anything but impls and errors for structs and enums: its output is `coreSegs` -/
theorem derive_is_core_struct (s : ItemStruct) : expandDerive (.struct_ s) = coreSegs (structCore none s).result := rfl
theorem derive_is_core_enum (e : ItemEnum) : expandDerive (.enum_ e) = coreSegs (enumCore none e).result := rfl

/-- the attribute entry point: the item, then exactly what the derive entry point yields for the same (merged) list -/
theorem attr_is_item_then_core_struct (a : Args) (s : ItemStruct) :
    (expandAttr a (.struct_ s)).tail = coreSegs (structCore (some a) s).result := rfl
theorem attr_is_item_then_core_enum (a : Args) (e : ItemEnum) :
    (expandAttr a (.enum_ e)).tail = coreSegs (enumCore (some a) e).result := rfl

end DX
