import DeriveExModel.Props.C04Enum
/-
C03 — with no `bound(..)` anywhere, the bounds of every derived impl are the item's declared where-clause plus
`FieldTy: Trait` for exactly the fields the generated code uses and whose type mentions a type or const parameter.

`Props/C04*.lean` prove, builder by builder, that the where-clause is `Plan.whereClause` of the documented plan.
Here the plan is evaluated once and for all for the case that every level of every chain is absent
(`plan_default_exact`), and the result is spelled out for every builder in the words of the property:
which fields count as "used" differs per trait (all fields for Clone / Copy / the operators; the shown fields or the
single transparent field for Debug; the fields without an explicit value, of the default variant only, for Default;
the compared fields that are not compared through `key` / `by` for the comparison traits; none for Deref).
-/
namespace DX

/-- no `bound(..)` on the type, on a variant or on a field -/
def Plan.noBounds (p : Plan) : Prop :=
  allAbsent p.typeLevels ∧ ∀ v ∈ p.variants, allAbsent v.levels ∧ ∀ f ∈ v.fields, allAbsent f.levels

/-- the types of the used fields that mention a parameter, in declaration order -/
def usedTys (gps : List String) (fs : List FieldPlan) : List Ty :=
  (fs.filter fun f => f.used && f.ty.mentions gps).map (·.ty)

def Plan.usedFieldTys (gps : List String) (p : Plan) : List Ty :=
  p.variants.flatMap fun v => usedTys gps v.fields

theorem variant_default_exact (gps : List String) (v : VariantPlan)
    (h : allAbsent v.levels ∧ ∀ f ∈ v.fields, allAbsent f.levels) :
    v.contrib gps = { tys := usedTys gps v.fields, preds := [] } := by
  obtain ⟨c1, c2⟩ := absent_contrib v.levels h.1
  simp only [VariantPlan.contrib, c1, c2, if_true, Contrib.empty_append]
  exact default_fields_exact gps v.fields h.2

theorem variants_default_exact (gps : List String) (vs : List VariantPlan)
    (h : ∀ v ∈ vs, allAbsent v.levels ∧ ∀ f ∈ v.fields, allAbsent f.levels) :
    Contrib.concat (vs.map (VariantPlan.contrib gps)) =
      { tys := vs.flatMap fun v => usedTys gps v.fields, preds := [] } := by
  induction vs with
  | nil => rfl
  | cons v vs ih =>
    have ih' := ih (fun x hx => h x (by simp [hx]))
    simp only [List.map_cons, Contrib.concat, List.foldr] at ih' ⊢
    rw [ih', variant_default_exact gps v (h v (by simp))]
    apply Contrib.ext' <;> simp

/-- **C03 at the level of the documented plan.**  With no `bound(..)` anywhere the where-clause consists of the
declared predicates, untouched, and of one `Ty: Trait` per used field whose type mentions a parameter — nothing is
required of a parameter merely because it is a parameter, no used field is left out, the order is the declaration
order. -/
theorem plan_default_exact (g : Generics) (p : Plan) (h : p.noBounds) :
    (p.whereClause g).types = p.usedFieldTys g.paramSet ∧ (p.whereClause g).preds = g.wheres := by
  obtain ⟨c1, c2⟩ := absent_contrib p.typeLevels h.1
  have hv := variants_default_exact g.paramSet p.variants h.2
  simp only [Plan.whereClause, Plan.contrib, c1, c2, if_true, Contrib.empty_append, hv, WCB.addC, WCB.new,
    List.nil_append, List.append_nil, Plan.usedFieldTys, and_self]

/-- a parameter that no used field mentions gets no bound -/
theorem no_bound_without_use (g : Generics) (p : Plan) (h : p.noBounds) (t : Ty)
    (hn : ∀ v ∈ p.variants, ∀ f ∈ v.fields, f.used = true → f.ty ≠ t) :
    t ∉ (p.whereClause g).types := by
  rw [(plan_default_exact g p h).1]
  simp only [Plan.usedFieldTys, usedTys, List.mem_flatMap, List.mem_map, List.mem_filter, Bool.and_eq_true, not_exists,
    not_and, and_imp]
  intro v hv f hf hu _ heq
  exact hn v hv f hf hu heq

/-- every used field that mentions a parameter is bounded -/
theorem bound_for_every_use (g : Generics) (p : Plan) (h : p.noBounds) (v : VariantPlan) (hv : v ∈ p.variants)
    (f : FieldPlan) (hf : f ∈ v.fields) (hu : f.used = true) (hm : f.ty.mentions g.paramSet = true) :
    f.ty ∈ (p.whereClause g).types := by
  rw [(plan_default_exact g p h).1]
  simp only [Plan.usedFieldTys, usedTys, List.mem_flatMap, List.mem_map, List.mem_filter, Bool.and_eq_true]
  exact ⟨v, hv, f, ⟨hf, hu, hm⟩, rfl⟩

/-! ### spelled out per builder -/

theorem usedTys_plain (gps : List String) (kind : Kind) (fields : List FieldE) :
    usedTys gps (plainFields kind fields) = (fields.filter fun f => f.field.ty.mentions gps).map (·.field.ty) := by
  simp [usedTys, plainFields, List.filter_map, Function.comp_def]

theorem plain_noBounds (kind : Kind) (tl : List Bounds) (fields : List FieldE)
    (ht : allAbsent tl) (hf : ∀ f ∈ fields, allAbsent (f.h.levels true kind)) :
    Plan.noBounds { typeLevels := tl, variants := [{ levels := [], fields := plainFields kind fields }] } := by
  refine ⟨ht, ?_⟩
  intro v hv
  simp only [List.mem_singleton] at hv
  subst hv
  refine ⟨fun b hb => by simp at hb, ?_⟩
  intro f hf'
  simp only [plainFields, List.mem_map] at hf'
  obtain ⟨x, hx, rfl⟩ := hf'
  exact hf x hx

/-- Clone, Copy on a struct: every field is used -/
theorem clone_struct_default (s : ItemStruct) (e : Entry) (fields : List FieldE)
    (he : allAbsent e.levels) (hf : ∀ f ∈ fields, allAbsent (f.h.levels true .clone)) :
    (buildCloneStruct s e fields).wc.types =
        (fields.filter fun f => f.field.ty.mentions s.generics.paramSet).map (·.field.ty) ∧
    (buildCloneStruct s e fields).wc.preds = s.generics.wheres := by
  rw [clone_struct_where]
  have := plan_default_exact s.generics _ (plain_noBounds .clone e.levels fields he hf)
  simpa [Plan.usedFieldTys, usedTys_plain] using this

theorem copy_struct_default (s : ItemStruct) (e : Entry) (fields : List FieldE)
    (he : allAbsent e.levels) (hf : ∀ f ∈ fields, allAbsent (f.h.levels true .copy)) :
    (buildCopyStruct s e fields).wc.types =
        (fields.filter fun f => f.field.ty.mentions s.generics.paramSet).map (·.field.ty) ∧
    (buildCopyStruct s e fields).wc.preds = s.generics.wheres := by
  rw [copy_struct_where]
  have := plan_default_exact s.generics _ (plain_noBounds .copy e.levels fields he hf)
  simpa [Plan.usedFieldTys, usedTys_plain] using this

/-- the operators: every field, in every emitted form, over the `Self`-expanded generics -/
theorem ops_default (kind : Kind) (s : ItemStruct) (e : Entry) (fields : List FieldE)
    (he : allAbsent e.levels) (hf : ∀ f ∈ fields, allAbsent (f.h.levels true kind)) :
    ∀ w ∈ (buildOps kind s e fields).wcs,
      w.types = (fields.filter fun f =>
                  f.field.ty.mentions (s.generics.expandSelf (thisTy s.name s.generics)).paramSet).map (·.field.ty) ∧
      w.preds = (s.generics.expandSelf (thisTy s.name s.generics)).wheres := by
  intro w hw
  rw [ops_where kind s e fields w hw]
  have := plan_default_exact (s.generics.expandSelf (thisTy s.name s.generics)) _ (plain_noBounds kind e.levels fields he hf)
  simpa [Plan.usedFieldTys, usedTys_plain] using this

/-- Clone, Copy on an enum: every field of every variant -/
theorem cloneEnum_noBounds (kind : Kind) (tl : List Bounds) (variants : List VariantE) (ht : allAbsent tl)
    (hv : ∀ v ∈ variants, allAbsent (v.h.levels false kind) ∧ ∀ f ∈ v.fields, allAbsent (f.h.levels true kind)) :
    Plan.noBounds { typeLevels := tl, variants := variants.map (cloneVariantPlan kind) } := by
  refine ⟨ht, ?_⟩
  intro p hp
  simp only [List.mem_map] at hp
  obtain ⟨v, hv', rfl⟩ := hp
  refine ⟨(hv v hv').1, ?_⟩
  intro f hf
  simp only [cloneVariantPlan, plainFields, List.mem_map] at hf
  obtain ⟨x, hx, rfl⟩ := hf
  exact (hv v hv').2 x hx

theorem clone_enum_default (en : ItemEnum) (e : Entry) (variants : List VariantE) (he : allAbsent e.levels)
    (hv : ∀ v ∈ variants, allAbsent (v.h.levels false .clone) ∧ ∀ f ∈ v.fields, allAbsent (f.h.levels true .clone)) :
    (buildCloneEnum en e variants).wc.types =
        (variants.flatMap fun v => (v.fields.filter fun f => f.field.ty.mentions en.generics.paramSet).map (·.field.ty)) ∧
    (buildCloneEnum en e variants).wc.preds = en.generics.wheres := by
  rw [clone_enum_where]
  have := plan_default_exact en.generics _ (cloneEnum_noBounds .clone e.levels variants he hv)
  simpa [Plan.usedFieldTys, cloneVariantPlan, usedTys_plain, List.flatMap_map] using this

theorem copy_enum_default (en : ItemEnum) (e : Entry) (variants : List VariantE) (he : allAbsent e.levels)
    (hv : ∀ v ∈ variants, allAbsent (v.h.levels false .copy) ∧ ∀ f ∈ v.fields, allAbsent (f.h.levels true .copy)) :
    (buildCopyEnum en e variants).wc.types =
        (variants.flatMap fun v => (v.fields.filter fun f => f.field.ty.mentions en.generics.paramSet).map (·.field.ty)) ∧
    (buildCopyEnum en e variants).wc.preds = en.generics.wheres := by
  rw [copy_enum_where]
  have := plan_default_exact en.generics _ (cloneEnum_noBounds .copy e.levels variants he hv)
  simpa [Plan.usedFieldTys, cloneVariantPlan, usedTys_plain, List.flatMap_map] using this

/-! #### Default: a field with an explicit value contributes nothing; only the default variant is looked at -/

theorem usedTys_default (gps : List String) (fields : List FieldE) :
    usedTys gps (defaultFieldPlans fields) =
      (fields.filter fun f => (f.h.defaultValue f.field.ty).isNone && f.field.ty.mentions gps).map (·.field.ty) := by
  simp [usedTys, defaultFieldPlans, List.filter_map, Function.comp_def]

theorem default_noBounds (tl vl : List Bounds) (fields : List FieldE) (ht : allAbsent tl) (hvl : allAbsent vl)
    (hf : ∀ f ∈ fields, allAbsent (f.h.levels true .dflt)) :
    Plan.noBounds { typeLevels := tl, variants := [{ levels := vl, fields := defaultFieldPlans fields }] } := by
  refine ⟨ht, ?_⟩
  intro v hv
  simp only [List.mem_singleton] at hv
  subst hv
  refine ⟨hvl, ?_⟩
  intro f hf'
  simp only [defaultFieldPlans, List.mem_map] at hf'
  obtain ⟨x, hx, rfl⟩ := hf'
  exact hf x hx

theorem default_struct_default (s : ItemStruct) (e : Entry) (h : HAttrs) (fields : List FieldE)
    (hn : h.defaultValue Ty.selfTy = none)
    (ht : allAbsent (h.levels true .dflt ++ e.levels)) (hf : ∀ f ∈ fields, allAbsent (f.h.levels true .dflt)) :
    (buildDefaultStruct s e h fields).wc.types =
        (fields.filter fun f => (f.h.defaultValue f.field.ty).isNone && f.field.ty.mentions s.generics.paramSet).map
          (·.field.ty) ∧
    (buildDefaultStruct s e h fields).wc.preds = s.generics.wheres := by
  rw [default_struct_where s e h fields hn]
  have := plan_default_exact s.generics _ (default_noBounds _ [] fields ht (fun b hb => by simp at hb) hf)
  simpa [Plan.usedFieldTys, usedTys_default] using this

/-- a type-level `#[default(value)]`: no field is used, no bound at all -/
theorem default_struct_value_default (s : ItemStruct) (e : Entry) (h : HAttrs) (fields : List FieldE) (v : DefVal)
    (hv : h.defaultValue Ty.selfTy = some v) (ht : allAbsent (h.levels true .dflt ++ e.levels)) :
    (buildDefaultStruct s e h fields).wc.types = [] ∧ (buildDefaultStruct s e h fields).wc.preds = s.generics.wheres := by
  rw [default_struct_where_value s e h fields v hv]
  have := plan_default_exact s.generics { typeLevels := h.levels true .dflt ++ e.levels, variants := [] }
    ⟨ht, fun v hv => by simp at hv⟩
  simpa [Plan.usedFieldTys] using this

/-- enum: only the fields of the default variant (the marked one, or the only one) -/
theorem default_enum_default (en : ItemEnum) (e : Entry) (h : HAttrs) (variants : List VariantE) (d : DefaultImpl)
    (hn : h.defaultValue Ty.selfTy = none) (hb : buildDefaultEnum en e h variants = .ok d)
    (ht : allAbsent (h.levels true .dflt ++ e.levels))
    (hvs : ∀ v ∈ variants, allAbsent (v.h.levels true .dflt) ∧ ∀ f ∈ v.fields, allAbsent (f.h.levels true .dflt)) :
    ∃ v ∈ variants, (markedVariants variants = [] ∨ ∃ a, markedVariants variants = [(v, a)]) ∧
      d.wc.types =
        (v.fields.filter fun f => (f.h.defaultValue f.field.ty).isNone && f.field.ty.mentions en.generics.paramSet).map
          (·.field.ty) ∧
      d.wc.preds = en.generics.wheres := by
  obtain ⟨v, hv, hm, hw⟩ := default_enum_where en e h variants d hn hb
  refine ⟨v, hv, hm, ?_⟩
  rw [hw]
  have := plan_default_exact en.generics _ (default_noBounds _ _ v.fields ht (hvs v hv).1 (hvs v hv).2)
  simpa [Plan.usedFieldTys, usedTys_default] using this

/-! #### Debug: ignored fields contribute nothing; with a transparent field only that field -/

theorem debug_struct_default (s : ItemStruct) (e : Entry) (h : HAttrs) (fields : List FieldE) (d : DebugImpl)
    (hb : buildDebugStruct s e h fields = .ok d)
    (ht : allAbsent (h.levels true .debug ++ e.levels)) (hf : ∀ f ∈ fields, allAbsent (f.h.levels true .debug)) :
    d.wc.types = ((debugUsedFields fields).filter fun f => f.field.ty.mentions s.generics.paramSet).map (·.field.ty) ∧
    d.wc.preds = s.generics.wheres := by
  have hw : d.wc = Plan.whereClause s.generics
      { typeLevels := h.levels true .debug ++ e.levels,
        variants := [{ levels := [], fields := plainFields .debug (debugUsedFields fields) }] } :=
    debug_struct_where s e h fields d hb
  rw [hw]
  have hsub : ∀ f ∈ debugUsedFields fields, f ∈ fields := by
    intro f hf'
    unfold debugUsedFields transparentFields shownFields at hf'
    split at hf'
    · rename_i g heq
      have : f ∈ fields.filter (·.h.debug.transparent) := by rw [heq]; exact hf'
      exact (List.mem_filter.mp this).1
    · exact (List.mem_filter.mp hf').1
  have := plan_default_exact s.generics _
    (plain_noBounds .debug _ (debugUsedFields fields) ht (fun f hf' => hf f (hsub f hf')))
  simpa [Plan.usedFieldTys, usedTys_plain] using this

theorem debug_enum_default (en : ItemEnum) (e : Entry) (h : HAttrs) (variants : List VariantE) (d : DebugImpl)
    (hb : buildDebugEnum en e h variants = .ok d)
    (ht : allAbsent (h.levels true .debug ++ e.levels))
    (hvs : ∀ v ∈ variants, allAbsent (v.h.levels true .debug) ∧ ∀ f ∈ v.fields, allAbsent (f.h.levels true .debug)) :
    d.wc.types = (variants.flatMap fun v =>
        ((debugUsedFields v.fields).filter fun f => f.field.ty.mentions en.generics.paramSet).map (·.field.ty)) ∧
    d.wc.preds = en.generics.wheres := by
  rw [debug_enum_where en e h variants d hb]
  have hsub : ∀ (fields : List FieldE), ∀ f ∈ debugUsedFields fields, f ∈ fields := by
    intro fields f hf'
    unfold debugUsedFields transparentFields shownFields at hf'
    split at hf'
    · rename_i g heq
      have : f ∈ fields.filter (·.h.debug.transparent) := by rw [heq]; exact hf'
      exact (List.mem_filter.mp this).1
    · exact (List.mem_filter.mp hf').1
  have hnb : Plan.noBounds { typeLevels := h.levels true .debug ++ e.levels, variants := variants.map debugVariantPlan } := by
    refine ⟨ht, ?_⟩
    intro p hp
    simp only [List.mem_map] at hp
    obtain ⟨v, hv', rfl⟩ := hp
    refine ⟨(hvs v hv').1, ?_⟩
    intro f hf
    simp only [debugVariantPlan, plainFields, List.mem_map] at hf
    obtain ⟨x, hx, rfl⟩ := hf
    exact (hvs v hv').2 x (hsub _ x hx)
  have := plan_default_exact en.generics _ hnb
  simpa [Plan.usedFieldTys, debugVariantPlan, usedTys_plain, List.flatMap_map] using this

/-! #### the comparison traits: ignored fields are not walked; a field compared through `key` / `by` is not used -/

/-- the compared fields whose own impl of the trait the generated code calls -/
def cmpDefaultFields (op : CmpOp) (fields : List FieldE) : List FieldE :=
  (docCompared op fields).filter fun f => match (docSel op f.h.cmp).getD .dflt with | .dflt => true | _ => false

theorem usedTys_cmp (gps : List String) (op : CmpOp) (fields : List FieldE) :
    usedTys gps ((docFieldsOut op fields).map (cmpFieldPlan op)) =
      ((cmpDefaultFields op fields).filter fun f => f.field.ty.mentions gps).map (·.field.ty) := by
  simp only [usedTys, docFieldsOut, cmpDefaultFields, List.map_map, List.filter_map, List.filter_filter, Function.comp_def,
    cmpFieldPlan, docMk]
  congr 1
  apply List.filter_congr
  intro f _
  cases (docSel op f.h.cmp).getD Sel.dflt <;> simp

/-- no `bound(..)` in any attribute the field's comparator selection consults, nor in its `#[derive_ex(..)]` -/
def cmpFieldNoBounds (op : CmpOp) (f : FieldE) : Prop :=
  allAbsent (selLevels op f.h.cmp ++ f.h.itemLevels (.cmp op))

theorem cmp_struct_default (op : CmpOp) (name : String) (g : Generics) (fields : List FieldE) (e : Entry) (h : HAttrs)
    (c : CmpImpl) (hb : buildCmp op (.struct_ name g fields) e h = .ok c)
    (ht : allAbsent (h.levels true (.cmp op) ++ e.levels)) (hf : ∀ f ∈ fields, cmpFieldNoBounds op f) :
    c.wc.types = ((cmpDefaultFields op fields).filter fun f =>
        f.field.ty.mentions (g.expandSelf (thisTy name g)).paramSet).map (·.field.ty) ∧
    c.wc.preds = (g.expandSelf (thisTy name g)).wheres := by
  rw [cmp_struct_where op name g fields e h c hb]
  have hnb : Plan.noBounds { typeLevels := h.levels true (.cmp op) ++ e.levels,
                             variants := [{ levels := [], fields := (docFieldsOut op fields).map (cmpFieldPlan op) }] } := by
    refine ⟨ht, ?_⟩
    intro v hv
    simp only [List.mem_singleton] at hv
    subst hv
    refine ⟨fun b hb => by simp at hb, ?_⟩
    intro p hp
    simp only [docFieldsOut, docCompared, List.map_map, List.mem_map, List.mem_filter] at hp
    obtain ⟨x, ⟨hx, _⟩, rfl⟩ := hp
    exact hf x hx
  have := plan_default_exact (g.expandSelf (thisTy name g)) _ hnb
  simpa [Plan.usedFieldTys, usedTys_cmp] using this

theorem cmp_enum_default (op : CmpOp) (name : String) (g : Generics) (variants : List VariantE) (e : Entry) (h : HAttrs)
    (c : CmpImpl) (hb : buildCmp op (.enum_ name g variants) e h = .ok c)
    (ht : allAbsent (h.levels true (.cmp op) ++ e.levels))
    (hvs : ∀ v ∈ variants, allAbsent (v.h.levels true (.cmp op)) ∧ ∀ f ∈ v.fields, cmpFieldNoBounds op f) :
    c.wc.types = (variants.flatMap fun v => ((cmpDefaultFields op v.fields).filter fun f =>
        f.field.ty.mentions (g.expandSelf (thisTy name g)).paramSet).map (·.field.ty)) ∧
    c.wc.preds = (g.expandSelf (thisTy name g)).wheres := by
  rw [cmp_enum_where op name g variants e h c hb]
  have hnb : Plan.noBounds { typeLevels := h.levels true (.cmp op) ++ e.levels,
                             variants := (variants.map fun v => (v, docFieldsOut op v.fields)).map (cmpVariantPlan op) } := by
    refine ⟨ht, ?_⟩
    intro p hp
    simp only [List.map_map, List.mem_map, Function.comp_def] at hp
    obtain ⟨v, hv', rfl⟩ := hp
    refine ⟨(hvs v hv').1, ?_⟩
    intro q hq
    simp only [cmpVariantPlan, docFieldsOut, docCompared, List.map_map, List.mem_map, List.mem_filter] at hq
    obtain ⟨x, ⟨hx, _⟩, rfl⟩ := hq
    exact (hvs v hv').2 x hx
  have := plan_default_exact (g.expandSelf (thisTy name g)) _ hnb
  simpa [Plan.usedFieldTys, cmpVariantPlan, usedTys_cmp, List.flatMap_map, Function.comp_def] using this

/-! #### Deref / DerefMut: the field type is never bounded -/

theorem deref_default (kind : Kind) (s : ItemStruct) (e : Entry) (fields : List FieldE) (d : DerefImpl)
    (hb : buildDeref kind s e fields = .ok d) (he : allAbsent e.levels) :
    d.wc.types = [] ∧ d.wc.preds = s.generics.wheres := by
  rw [deref_where kind s e fields d hb]
  have := plan_default_exact s.generics { typeLevels := e.levels, variants := [] } ⟨he, fun v hv => by simp at hv⟩
  simpa [Plan.usedFieldTys] using this

/-! #### `Self`-expansion does not change which names are parameters -/

theorem paramSet_expandSelf (to : Ty) (g : Generics) : (g.expandSelf to).paramSet = g.paramSet := by
  simp only [Generics.expandSelf, Generics.paramSet, List.filterMap_map]
  congr 1
  funext p
  cases p <;> rfl

/-! #### an item without type or const parameters gets no bound at all; more parameters never mean fewer bounds -/

theorem headIn_nil (g : Bool) (segs : List Seg) : headIn [] g segs = false := by
  unfold headIn
  cases g <;> simp
  cases segs with
  | nil => rfl
  | cons s _ => cases s <;> simp

theorem mentions_nil : ∀ t : Ty, t.mentions [] = false := by
  intro t
  apply Ty.rec
    (motive_1 := fun t => t.mentions [] = false)
    (motive_2 := fun s => s.mentions [] = false)
    (motive_3 := fun a => a.mentions [] = false)
    (motive_4 := fun l => Seg.mentionsL [] l = false)
    (motive_5 := fun l => Ty.mentionsL [] l = false)
    (motive_6 := fun o => Ty.mentionsO [] o = false)
    (motive_7 := fun l => GArg.mentionsL [] l = false)
  case array =>
    intro t len ih
    cases len <;> simp [Ty.mentions, ih]
  case cblock =>
    intro e
    cases e <;> simp [GArg.mentions]
  all_goals (intros; simp_all [Ty.mentions, Ty.mentionsO, Ty.mentionsL, Seg.mentions, Seg.mentionsL, GArg.mentions,
    GArg.mentionsL, headIn_nil])

/-- lifetimes are not "parameters" in the sense of C03: an item with lifetime parameters only gets no default bound -/
theorem nongeneric_no_default_bounds (g : Generics) (p : Plan) (h : p.noBounds) (hg : g.paramSet = []) :
    (p.whereClause g).types = [] := by
  rw [(plan_default_exact g p h).1, hg]
  simp [Plan.usedFieldTys, usedTys, mentions_nil]

/-! ### the hypotheses are satisfiable, the conclusion is not trivial -/

/-- `struct S<T, U> { a: Vec<T>, b: u8, c: PhantomData<U> }` with `Clone` and no attribute: the hypotheses of
`clone_struct_default` hold -/
example :
    let mkF (i : Nat) (n : String) (t : Ty) : FieldE :=
      { field := { name := some n, ty := t }, index := i, h := {} }
    let fields := [mkF 0 "a" (Ty.app "Vec" [Ty.simple "T"]), mkF 1 "b" (Ty.simple "u8"),
                   mkF 2 "c" (Ty.app "PhantomData" [Ty.simple "U"])]
    let e : Entry := { kind := .clone }
    allAbsent e.levels ∧ ∀ f ∈ fields, allAbsent (f.h.levels true .clone) := by
  refine ⟨?_, ?_⟩
  · intro b hb
    simp only [Entry.levels, List.mem_cons, List.mem_nil_iff, or_false] at hb
    rcases hb with rfl | rfl <;> exact ⟨rfl, rfl, rfl⟩
  · intro f hf b hb
    simp only [List.mem_cons, List.mem_nil_iff, or_false] at hf
    rcases hf with rfl | rfl | rfl <;>
      (simp only [HAttrs.levels, HAttrs.helperLevels, HAttrs.itemLevels] at hb
       simp at hb
       try (rcases hb with rfl | rfl <;> exact ⟨rfl, rfl, rfl⟩))

end DX
