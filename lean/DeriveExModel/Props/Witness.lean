import DeriveExModel.L2
import DeriveExModel.Props.C02Order
import DeriveExModel.Props.C01
import DeriveExModel.Props.C07
import DeriveExModel.Props.C08
/-
Non-vacuity of the hypotheses the property theorems carry, on concrete non-trivial states — and, for C02, on the very
environment the compiled `lawRun` programs run in: the Lean twin `lawSem` of the lawful L2 prelude (field type `W`, one key
`kk`, every `by` function the comparator that key induces) satisfies `Coherent`, the hypothesis of every coherence law of
`Props/C02.lean` and `Props/C02Order.lean`.  The theorems therefore speak about the programs L2 compiles, not about an
environment nothing inhabits.
-/
namespace DX

theorem nat_beq_compare (a b : Nat) : (a == b) = (compare a b == .eq) := by
  by_cases h : a = b
  · subst h; simp
  · have h1 : compare a b ≠ .eq := fun e => h (Nat.compare_eq_eq.1 e)
    rw [beq_eq_false_iff_ne.2 h, beq_eq_false_iff_ne.2 h1]

/-- the lawful environment of `lawRun` satisfies the hypothesis of the coherence theorems -/
theorem lawSem_coherent :
    Coherent lawSem (fun a b : Nat => compare a b) (fun a b => compare (a / 2) (b / 2)) (fun a => [s!"u8:{a / 2}"]) where
  eqD a b := nat_beq_compare a b
  pcmpD _ _ := rfl
  cmpD_ _ _ := rfl
  hashD a b h := by rw [Nat.compare_eq_eq.1 h]
  keyEq _ a b := nat_beq_compare (a / 2) (b / 2)
  keyPcmp _ _ _ := rfl
  keyCmp _ _ _ := rfl
  keyHash _ _ := rfl
  byEq _ a b := nat_beq_compare (a / 2) (b / 2)
  byPcmp _ _ _ := rfl
  byCmp _ _ _ := rfl
  byHash _ _ := rfl
  hashK_ a b h := by
    have : a / 2 = b / 2 := Nat.compare_eq_eq.1 h
    simp [this]

theorem lawEnv_coherent :
    CoherentEnv (fun _ => lawSem) (fun _ a b => compare a b) (fun _ a b => compare (a / 2) (b / 2))
      (fun _ a => [s!"u8:{a / 2}"]) := fun _ => lawSem_coherent

/-- the key comparison of the lawful environment is a lawful three-way comparison -/
theorem keyCompare_lawful : LawfulCmp (fun a b : Nat => compare (a / 2) (b / 2)) where
  swap x y := nat_compare_lawful.swap (x / 2) (y / 2)
  eq_congr x y z := nat_compare_lawful.eq_congr (x / 2) (y / 2) (z / 2)
  lt_trans x y z := nat_compare_lawful.lt_trans (x / 2) (y / 2) (z / 2)

/-- a two-variant enum whose fields customise through `ord(key = kk(&$))`, `ord(reverse)` and `ord(ignore)` -/
def witnessSrc : Source :=
  .enum_ "X" {} [
    { variant := { name := "A", fields := { kind := .unit } }, fields := [], h := {} },
    { variant := { name := "B", fields := { kind := .unnamed } },
      fields := [
        { index := 0, field := { ty := Ty.simple "W" }, h := { cmp := { ord := { key := some ["kk", "(", "&", "$", ")"] } } } },
        { index := 1, field := { ty := Ty.simple "W" }, h := { cmp := { ord := { reverse := true } } } },
        { index := 2, field := { ty := Ty.simple "W" }, h := { cmp := { ord := { ignore := true } } } }],
      h := {} }]

/-- it is accepted for every comparison trait … -/
example : ∀ t : CmpOp, witnessSrc.misused t = false := by intro t; cases t <;> decide

/-- … so `cmp_lawful` applies to it in the environment of `lawRun`: the derived `cmp` of this enum is a total order -/
example : LawfulCmp (docCmp witnessSrc (fun _ => lawSem)) :=
  cmp_lawful witnessSrc _ _ _ _ lawEnv_coherent (fun _ => nat_compare_lawful) (fun _ => keyCompare_lawful) (by decide)

/-- … and the implication `a == b → equal hasher feeds` is not vacuous on it: two different values are equal -/
example :
    let a : Val Nat := { variant := 1, field := fun i => if i == 0 then 2 else if i == 1 then 5 else 0 }
    let b : Val Nat := { variant := 1, field := fun i => if i == 0 then 3 else if i == 1 then 5 else 9 }
    docEq witnessSrc (fun _ => lawSem) a b = true ∧ docCmp witnessSrc (fun _ => lawSem) a b = .eq := by
  decide

end DX

/-! ### `IndexDistinct`, the hypothesis of the Clone / operator theorems, holds for every field list the expander builds -/
namespace DX

theorem mapM_ok_map {α β γ} {f : α → R β} {g : β → γ} {g' : α → γ} (hfg : ∀ a b, f a = .ok b → g b = g' a) :
    ∀ (l : List α) (r : List β), l.mapM f = .ok r → r.map g = l.map g'
  | [], r, h => by
    simp only [List.mapM_nil, pure, Except.pure, Except.ok.injEq] at h
    subst h; rfl
  | a :: l, r, h => by
    rw [List.mapM_cons] at h
    cases hfa : f a with
    | error e => simp [hfa, bind, Except.bind] at h
    | ok b =>
      cases hl : l.mapM f with
      | error e => simp [hfa, hl, bind, Except.bind] at h
      | ok bs =>
        simp only [hfa, hl, bind, Except.bind, pure, Except.pure, Except.ok.injEq] at h
        subst h
        simp [hfg a b hfa, mapM_ok_map hfg l bs hl]

/-- the fields of a struct or variant, as the expander numbers them, have pairwise different indices -/
theorem fromFields_indexDistinct (fs : Fields) (k : Kinds) (fields : List FieldE)
    (h : FieldE.fromFields fs k = .ok fields) : IndexDistinct fields := by
  unfold FieldE.fromFields at h
  have hm : fields.map (·.index) = (fs.fields.zipIdx).map (·.2) := by
    refine mapM_ok_map (g := (·.index)) (g' := (·.2)) ?_ _ _ h
    rintro ⟨f, i⟩ b hb
    cases hh : HAttrs.fromAttrs f.attrs .field k with
    | error e => simp [hh, bind, Except.bind] at hb
    | ok ha =>
      simp only [hh, bind, Except.bind, pure, Except.pure, Except.ok.injEq] at hb
      subst hb; rfl
  unfold IndexDistinct
  have : (fields.map (·.index)).Pairwise (· ≠ ·) := by
    rw [hm]
    have : (fs.fields.zipIdx).map (·.2) = List.range' 0 fs.fields.length := by
      simp [List.zipIdx_eq_zip_range', List.map_snd_zip]
    rw [this]
    exact List.nodup_range'
  exact (List.pairwise_map.1 this)

/-- so the conclusion of `clone_fieldwise` holds for every struct the expander accepts, without side condition -/
example (s : ItemStruct) (e : Entry) (k : Kinds) (fields : List FieldE) (h : FieldE.fromFields s.fields k = .ok fields)
    {V} (σ : CloneSem V) (a : Val V) :
    (evalClone (buildCloneStruct s e fields) σ a).snd = fields.map fun f => CloneEv.clone f.index := by
  have hd := fromFields_indexDistinct s.fields k fields h
  have := clone_fieldwise (buildCloneStruct s e fields) σ a (by rwa [clone_struct_fields])
  rw [this.2.2, clone_struct_fields]

end DX

namespace DX

theorem mapM_ok_mem {α β} {f : α → R β} :
    ∀ (l : List α) (r : List β), l.mapM f = .ok r → ∀ b ∈ r, ∃ a ∈ l, f a = .ok b
  | [], r, h, b, hb => by
    simp only [List.mapM_nil, pure, Except.pure, Except.ok.injEq] at h
    subst h; cases hb
  | a :: l, r, h, b, hb => by
    rw [List.mapM_cons] at h
    cases hfa : f a with
    | error e => simp [hfa, bind, Except.bind] at h
    | ok b0 =>
      cases hl : l.mapM f with
      | error e => simp [hfa, hl, bind, Except.bind] at h
      | ok bs =>
        simp only [hfa, hl, bind, Except.bind, pure, Except.pure, Except.ok.injEq] at h
        subst h
        rcases List.mem_cons.1 hb with rfl | hb
        · exact ⟨a, by simp, hfa⟩
        · obtain ⟨a', ha', hfa'⟩ := mapM_ok_mem l bs hl b hb
          exact ⟨a', by simp [ha'], hfa'⟩

/-- the same for every variant of an enum -/
theorem fromVariants_indexDistinct (vs : List Variant) (k : Kinds) (variants : List VariantE)
    (h : VariantE.fromVariants vs k = .ok variants) : ∀ v ∈ variants, IndexDistinct v.fields := by
  intro v hv
  unfold VariantE.fromVariants at h
  obtain ⟨v0, _, hv0⟩ := mapM_ok_mem _ _ h v hv
  cases hf : FieldE.fromFields v0.fields k with
  | error e => simp [hf, bind, Except.bind] at hv0
  | ok fields =>
    cases hh : HAttrs.fromAttrs v0.attrs .variant k with
    | error e => simp [hf, hh, bind, Except.bind] at hv0
    | ok ha =>
      simp only [hf, hh, bind, Except.bind, pure, Except.pure, Except.ok.injEq] at hv0
      subst hv0
      exact fromFields_indexDistinct _ _ _ hf

/-- **C08 without side condition**: for every struct the expander accepts, every form of a derived binary operator
computes field `i` of the result from field `i` of the operands, left operand on the left, and runs each field's operator
exactly once, in declaration order -/
theorem bin_fieldwise_pipeline (kind : Kind) (s : ItemStruct) (e : Entry) (k : Kinds) (fields : List FieldE)
    (h : FieldE.fromFields s.fields k = .ok fields) {V} (σ : OpSem V) (l r : Bool) (x y : Val V) :
    (∀ f ∈ fields, (evalBin (buildOps kind s e fields) σ l r x y).1.field f.index =
        σ.bin f l r (x.field f.index) (y.field f.index)) ∧
    (evalBin (buildOps kind s e fields) σ l r x y).2 =
      fields.map fun f => { field := f.index, lhsRef := l, rhsRef := r } := by
  have hd := fromFields_indexDistinct s.fields k fields h
  have := bin_fieldwise (buildOps kind s e fields) σ l r x y (by rwa [ops_fields])
  rw [ops_fields] at this
  exact this

/-- **C07 without side condition**, enums: `clone` of a value of variant `i` calls `Clone::clone` once per field of that
variant, in declaration order -/
theorem clone_enum_trace_pipeline (en : ItemEnum) (e : Entry) (k : Kinds) (variants : List VariantE)
    (h : VariantE.fromVariants en.variants k = .ok variants) {V} (σ : CloneSem V) (a : Val V)
    (v : VariantE) (hv : variants[a.variant]? = some v) :
    (evalClone (buildCloneEnum en e variants) σ a).2 = v.fields.map fun f => CloneEv.clone f.index := by
  have hd := fromVariants_indexDistinct en.variants k variants h v (List.mem_of_getElem? hv)
  have hf : fieldsOfShape (buildCloneEnum en e variants).shape a.variant = v.fields := by
    rw [clone_enum_fields, hv]
  have := clone_fieldwise (buildCloneEnum en e variants) σ a (by rwa [hf])
  rw [this.2.2, hf]

end DX
