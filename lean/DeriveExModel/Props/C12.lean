import DeriveExModel.Props.C02
import DeriveExModel.Props.C10
import DeriveExModel.Props.C11
import DeriveExModel.Props.C06
/-
C12 — without helper attributes derive_ex is a drop-in for the standard derives.
Corollaries of C01 / C06 / C10 / C11 for attribute-free items: the documented rule, with no
attribute in play, *is* the standard derive's rule.  That the generated program compiles on every
shape the standard derives accept, and prints / compares identically, is what the twin programs
of the L2 run check against the real standard derives.
-/
namespace DX

/-- no comparison helper attribute is in effect on the field -/
def PlainCmp (f : FieldE) : Prop :=
  f.h.cmp.ord.ignore = false ∧ f.h.cmp.partialOrd.ignore = false ∧ f.h.cmp.eq.ignore = false ∧
  f.h.cmp.partialEq.ignore = false ∧ f.h.cmp.hash.ignore = false ∧
  f.h.cmp.ord.reverse = false ∧ f.h.cmp.partialOrd.reverse = false ∧ f.h.cmp.anyKeyBy = false

theorem plain_record (f : FieldE) (hp : PlainCmp f) (t : CmpOp) :
    docSkips t f.h.cmp = false ∧ docSel t f.h.cmp = none ∧ docReversed t f.h.cmp = false ∧ docMisuse t f.h.cmp = false := by
  obtain ⟨h1, h2, h3, h4, h5, h6, h7, h8⟩ := hp
  have hsel := docSel_none_of_no_keyBy t f.h.cmp h8
  have hskip : docSkips t f.h.cmp = false := by
    cases t <;> simp [docSkips, docPrecedence, docAffects, List.filter, List.any, CmpHs.get, h1, h2, h3, h4, h5]
  have hrev : docReversed t f.h.cmp = false := by
    cases t <;> simp [docReversed, docPrecedence, docAffects, List.filter, List.any, CmpHs.get, h6, h7]
  refine ⟨hskip, hsel, hrev, ?_⟩
  have hpe : docSkips .partialEq f.h.cmp = false := by
    simp [docSkips, docPrecedence, docAffects, List.filter, List.any, CmpHs.get, h1, h2, h3, h4]
  simp [docMisuse, hskip, hsel, h8, hpe, h7]

/-- attribute-free fields are never refused -/
theorem plain_accepted (t : CmpOp) (fields : List FieldE) (hp : ∀ f ∈ fields, PlainCmp f) :
    fieldsMisused t fields = false := by
  simp only [fieldsMisused, List.any_eq_false]
  intro f hf
  simp [(plain_record f (hp f hf) t).2.2.2]

theorem plain_compared (t : CmpOp) (fields : List FieldE) (hp : ∀ f ∈ fields, PlainCmp f) :
    docCompared t fields = fields := by
  unfold docCompared
  apply List.filter_eq_self.mpr
  intro f hf
  simp [(plain_record f (hp f hf) t).1]

/-- `==` of the standard derive: every field equal, by the field's own `PartialEq` -/
theorem plain_eq_is_std {V F} (σ : Env V F) (a b : Val V) (fields : List FieldE) (hp : ∀ f ∈ fields, PlainCmp f) :
    docEqFields σ a b fields = fields.all fun f => (σ f).eq (a.field f.index) (b.field f.index) := by
  unfold docEqFields
  rw [plain_compared .partialEq fields hp]
  apply all_congr_mem
  intro f hf
  simp [docFieldEq, (plain_record f (hp f hf) .partialEq).2.1]

/-- `cmp` of the standard derive: fields in declaration order by their own `Ord`, first non-equal decides -/
theorem plain_cmp_is_std {V F} (σ : Env V F) (a b : Val V) (fields : List FieldE) (hp : ∀ f ∈ fields, PlainCmp f) :
    docCmpFields σ a b fields = firstNonEq (fields.map fun f => (σ f).cmp (a.field f.index) (b.field f.index)) := by
  unfold docCmpFields
  rw [plain_compared .ord fields hp]
  congr 1
  apply List.map_congr_left
  intro f hf
  simp [docFieldCmp, (plain_record f (hp f hf) .ord).2.1, (plain_record f (hp f hf) .ord).2.2.1]

theorem plain_pcmp_is_std {V F} (σ : Env V F) (a b : Val V) (fields : List FieldE) (hp : ∀ f ∈ fields, PlainCmp f) :
    docPcmpFields σ a b fields = firstNonEqOpt (fields.map fun f => (σ f).pcmp (a.field f.index) (b.field f.index)) := by
  unfold docPcmpFields
  rw [plain_compared .partialOrd fields hp]
  congr 1
  apply List.map_congr_left
  intro f hf
  simp [docFieldPcmp, (plain_record f (hp f hf) .partialOrd).2.1, (plain_record f (hp f hf) .partialOrd).2.2.1]

/-- `Hash` feeds every field's own feed, in declaration order -/
theorem plain_hash_is_fieldwise {V F} (σ : Env V F) (a : Val V) (fields : List FieldE) (hp : ∀ f ∈ fields, PlainCmp f) :
    docHashFields σ a fields = fields.flatMap fun f => (σ f).hash (a.field f.index) := by
  unfold docHashFields
  rw [plain_compared .hash fields hp]
  apply flatMap_congr_mem
  intro f hf
  simp [docFieldHash, (plain_record f (hp f hf) .hash).2.1]

/-- `Debug` without `#[debug(..)]`: the standard derive's builder calls over all fields -/
theorem plain_debug_is_std (ident : String) (src : Fields) (fields : List FieldE) (use : Bool) (w : WCB)
    (hp : ∀ f ∈ fields, f.h.debug.transparent = false ∧ f.h.debug.ignore = false) :
    ∃ w', debugExpr ident src fields use w = .ok (.builder (src.kind == .named) ident fields, w') ∧
      (DebugExpr.builder (src.kind == .named) ident fields).trace = stdDebugTrace ident src.kind fields := by
  have ht : transparentFields fields = [] := by
    simp only [transparentFields, List.filter_eq_nil_iff]
    intro f hf
    simp [(hp f hf).1]
  have hs : shownFields fields = fields := by
    simp only [shownFields]
    apply List.filter_eq_self.mpr
    intro f hf
    simp [(hp f hf).2]
  obtain ⟨w', h1, h2⟩ := debug_trace_is_std ident src fields use w ht
  rw [hs] at h1 h2
  exact ⟨w', h1, h2⟩

/-- `Default` without `#[default(..)]` on the field: `Default::default()` of the field type -/
theorem plain_default_is_std (f : FieldE) (hp : f.h.dflt = none) : docFieldDefault f = .dflt f.field.ty := by
  simp [docFieldDefault, hp]

/-! ### the whole item

The standard derives' rule, written out: values of different variants are unequal / ordered by declaration position;
otherwise the fields decide, every one of them, through its own impl.  For an item without comparison helper
attributes `derive_ex` is never the one to refuse, and the impls it generates compute exactly this. -/

/-- no field of the item carries a comparison helper attribute -/
def Source.Plain : Source → Prop
  | .struct_ _ _ fields => ∀ f ∈ fields, PlainCmp f
  | .enum_ _ _ variants => ∀ v ∈ variants, ∀ f ∈ v.fields, PlainCmp f

theorem Source.Plain.fieldsOf {src : Source} (hp : src.Plain) (i : Nat) : ∀ f ∈ src.fieldsOf i, PlainCmp f := by
  cases src with
  | struct_ name g fields => exact hp
  | enum_ name g variants =>
    intro f hf
    simp only [Source.fieldsOf] at hf
    cases hv : variants[i]? with
    | none => simp [hv] at hf
    | some v =>
      simp only [hv] at hf
      exact hp v (List.mem_of_getElem? hv) f hf

def stdEq {V F} (src : Source) (σ : Env V F) (a b : Val V) : Bool :=
  if src.isEnum && a.variant != b.variant then false
  else (src.fieldsOf a.variant).all fun f => (σ f).eq (a.field f.index) (b.field f.index)

def stdPartialCmp {V F} (src : Source) (σ : Env V F) (a b : Val V) : Option Ordering :=
  if src.isEnum && a.variant != b.variant then some (compare a.variant b.variant)
  else firstNonEqOpt ((src.fieldsOf a.variant).map fun f => (σ f).pcmp (a.field f.index) (b.field f.index))

def stdCmp {V F} (src : Source) (σ : Env V F) (a b : Val V) : Ordering :=
  if src.isEnum && a.variant != b.variant then compare a.variant b.variant
  else firstNonEq ((src.fieldsOf a.variant).map fun f => (σ f).cmp (a.field f.index) (b.field f.index))

def stdHashFeed {V F} (src : Source) (σ : Env V F) (a : Val V) : List F :=
  (src.fieldsOf a.variant).flatMap fun f => (σ f).hash (a.field f.index)

/-- an attribute-free item is never refused, whichever comparison trait is derived -/
theorem plain_item_accepted (t : CmpOp) (src : Source) (e : Entry) (h : HAttrs) (hp : src.Plain) :
    ∃ c, buildCmp t src e h = .ok c := by
  have hm : src.misused t = false := by
    cases src with
    | struct_ name g fields => exact plain_accepted t fields hp
    | enum_ name g variants =>
      simp only [Source.misused, List.any_eq_false]
      intro v hv
      simp [plain_accepted t v.fields (hp v hv)]
  have := buildCmp_doc t src e h
  rw [hm] at this
  cases hb : buildCmp t src e h with
  | ok c => exact ⟨c, rfl⟩
  | error _ => rw [hb] at this; simp [Except.map] at this

theorem plain_item_eq {V F} (src : Source) (e : Entry) (h : HAttrs) (c : CmpImpl)
    (hb : buildCmp .partialEq src e h = .ok c) (hp : src.Plain) (σ : Env V F) (a b : Val V) (ha : src.ValidVal a) :
    evalEq c σ a b = stdEq src σ a b := by
  rw [eq_follows_doc src e h c hb σ a b ha]
  simp only [docEq, stdEq, plain_eq_is_std σ a b _ (hp.fieldsOf a.variant)]

theorem plain_item_partial_cmp {V F} (src : Source) (e : Entry) (h : HAttrs) (c : CmpImpl)
    (hb : buildCmp .partialOrd src e h = .ok c) (hp : src.Plain) (σ : Env V F) (a b : Val V) (ha : src.ValidVal a) :
    evalPartialCmp c σ a b = stdPartialCmp src σ a b := by
  rw [partial_cmp_follows_doc src e h c hb σ a b ha]
  simp only [docPartialCmp, stdPartialCmp, plain_pcmp_is_std σ a b _ (hp.fieldsOf a.variant)]

theorem plain_item_cmp {V F} (src : Source) (e : Entry) (h : HAttrs) (c : CmpImpl)
    (hb : buildCmp .ord src e h = .ok c) (hp : src.Plain) (σ : Env V F) (a b : Val V) (ha : src.ValidVal a) :
    evalCmp c σ a b = stdCmp src σ a b := by
  rw [cmp_follows_doc src e h c hb σ a b ha]
  simp only [docCmp, stdCmp, plain_cmp_is_std σ a b _ (hp.fieldsOf a.variant)]

theorem plain_item_hash {V F} (src : Source) (e : Entry) (h : HAttrs) (c : CmpImpl)
    (hb : buildCmp .hash src e h = .ok c) (hp : src.Plain) (σ : Env V F) (a : Val V) (ha : src.ValidVal a) :
    evalHash c σ a = stdHashFeed src σ a := by
  rw [feed_follows_doc src e h c hb σ a ha]
  simp only [docHashFeed, stdHashFeed, plain_hash_is_fieldwise σ a _ (hp.fieldsOf a.variant)]

end DX
