import DeriveExModel.Props.C02
import DeriveExModel.Props.C10
import DeriveExModel.Props.C11
/-
C12 — without helper attributes derive_ex is a drop-in for the standard derives.
Corollaries of C01 / C06 / C10 / C11 for attribute-free items: the documented rule, with no
attribute in play, *is* the standard derive's rule.  That the generated program compiles on every
shape the standard derives accept, and prints / compares identically, is what the twin programs
of the L2 run check against the real standard derives.
-/
namespace DX

/-- no comparison helper attribute is in effect on the field -/
def PlainCmp (f : FieldE) : Prop :=
  f.h.cmp.ord.ignore = false ∧ f.h.cmp.partialOrd.ignore = false ∧ f.h.cmp.eq.ignore = false ∧
  f.h.cmp.partialEq.ignore = false ∧ f.h.cmp.hash.ignore = false ∧
  f.h.cmp.ord.reverse = false ∧ f.h.cmp.partialOrd.reverse = false ∧ f.h.cmp.anyKeyBy = false

theorem plain_record (f : FieldE) (hp : PlainCmp f) (t : CmpOp) :
    docSkips t f.h.cmp = false ∧ docSel t f.h.cmp = none ∧ docReversed t f.h.cmp = false ∧ docMisuse t f.h.cmp = false := by
  obtain ⟨h1, h2, h3, h4, h5, h6, h7, h8⟩ := hp
  have hsel := docSel_none_of_no_keyBy t f.h.cmp h8
  have hskip : docSkips t f.h.cmp = false := by
    cases t <;> simp [docSkips, docPrecedence, docAffects, List.filter, List.any, CmpHs.get, h1, h2, h3, h4, h5]
  have hrev : docReversed t f.h.cmp = false := by
    cases t <;> simp [docReversed, docPrecedence, docAffects, List.filter, List.any, CmpHs.get, h6, h7]
  refine ⟨hskip, hsel, hrev, ?_⟩
  have hpe : docSkips .partialEq f.h.cmp = false := by
    simp [docSkips, docPrecedence, docAffects, List.filter, List.any, CmpHs.get, h1, h2, h3, h4]
  simp [docMisuse, hskip, hsel, h8, hpe, h7]

/-- attribute-free fields are never refused -/
theorem plain_accepted (t : CmpOp) (fields : List FieldE) (hp : ∀ f ∈ fields, PlainCmp f) :
    fieldsMisused t fields = false := by
  simp only [fieldsMisused, List.any_eq_false]
  intro f hf
  simp [(plain_record f (hp f hf) t).2.2.2]

theorem plain_compared (t : CmpOp) (fields : List FieldE) (hp : ∀ f ∈ fields, PlainCmp f) :
    docCompared t fields = fields := by
  unfold docCompared
  apply List.filter_eq_self.mpr
  intro f hf
  simp [(plain_record f (hp f hf) t).1]

/-- `==` of the standard derive: every field equal, by the field's own `PartialEq` -/
theorem plain_eq_is_std {V F} (σ : Env V F) (a b : Val V) (fields : List FieldE) (hp : ∀ f ∈ fields, PlainCmp f) :
    docEqFields σ a b fields = fields.all fun f => (σ f).eq (a.field f.index) (b.field f.index) := by
  unfold docEqFields
  rw [plain_compared .partialEq fields hp]
  apply all_congr_mem
  intro f hf
  simp [docFieldEq, (plain_record f (hp f hf) .partialEq).2.1]

/-- `cmp` of the standard derive: fields in declaration order by their own `Ord`, first non-equal decides -/
theorem plain_cmp_is_std {V F} (σ : Env V F) (a b : Val V) (fields : List FieldE) (hp : ∀ f ∈ fields, PlainCmp f) :
    docCmpFields σ a b fields = firstNonEq (fields.map fun f => (σ f).cmp (a.field f.index) (b.field f.index)) := by
  unfold docCmpFields
  rw [plain_compared .ord fields hp]
  congr 1
  apply List.map_congr_left
  intro f hf
  simp [docFieldCmp, (plain_record f (hp f hf) .ord).2.1, (plain_record f (hp f hf) .ord).2.2.1]

theorem plain_pcmp_is_std {V F} (σ : Env V F) (a b : Val V) (fields : List FieldE) (hp : ∀ f ∈ fields, PlainCmp f) :
    docPcmpFields σ a b fields = firstNonEqOpt (fields.map fun f => (σ f).pcmp (a.field f.index) (b.field f.index)) := by
  unfold docPcmpFields
  rw [plain_compared .partialOrd fields hp]
  congr 1
  apply List.map_congr_left
  intro f hf
  simp [docFieldPcmp, (plain_record f (hp f hf) .partialOrd).2.1, (plain_record f (hp f hf) .partialOrd).2.2.1]

/-- `Hash` feeds every field's own feed, in declaration order -/
theorem plain_hash_is_fieldwise {V F} (σ : Env V F) (a : Val V) (fields : List FieldE) (hp : ∀ f ∈ fields, PlainCmp f) :
    docHashFields σ a fields = fields.flatMap fun f => (σ f).hash (a.field f.index) := by
  unfold docHashFields
  rw [plain_compared .hash fields hp]
  apply flatMap_congr_mem
  intro f hf
  simp [docFieldHash, (plain_record f (hp f hf) .hash).2.1]

/-- `Debug` without `#[debug(..)]`: the standard derive's builder calls over all fields -/
theorem plain_debug_is_std (ident : String) (src : Fields) (fields : List FieldE) (use : Bool) (w : WCB)
    (hp : ∀ f ∈ fields, f.h.debug.transparent = false ∧ f.h.debug.ignore = false) :
    ∃ w', debugExpr ident src fields use w = .ok (.builder (src.kind == .named) ident fields, w') ∧
      (DebugExpr.builder (src.kind == .named) ident fields).trace = stdDebugTrace ident src.kind fields := by
  have ht : transparentFields fields = [] := by
    simp only [transparentFields, List.filter_eq_nil_iff]
    intro f hf
    simp [(hp f hf).1]
  have hs : shownFields fields = fields := by
    simp only [shownFields]
    apply List.filter_eq_self.mpr
    intro f hf
    simp [(hp f hf).2]
  obtain ⟨w', h1, h2⟩ := debug_trace_is_std ident src fields use w ht
  rw [hs] at h1 h2
  exact ⟨w', h1, h2⟩

/-- `Default` without `#[default(..)]` on the field: `Default::default()` of the field type -/
theorem plain_default_is_std (f : FieldE) (hp : f.h.dflt = none) : docFieldDefault f = .dflt f.field.ty := by
  simp [docFieldDefault, hp]

end DX
