import DeriveExModel.Props.C01
/-
C17 — `derive_ex(Eq)` asserts `Eq` of exactly the compared components.
-/
namespace DX

/-- the documented list: every field that takes part in equality and is not
compared with `by = …` contributes its `key` expression (from `eq`, else `ord`)
or else itself -/
def docEqComponentsOf (fields : List FieldE) : List EqComponent :=
  (docCompared .eq fields).flatMap fun f =>
    match docSel .eq f.h.cmp with
    | some (.by_ _ _) => []
    | some (.key _ k) => [.key f k]
    | _ => [.field f]

def docEqComponents : Source → List EqComponent
  | .struct_ _ _ fields => docEqComponentsOf fields
  | .enum_ _ _ variants => variants.flatMap fun v => docEqComponentsOf v.fields

theorem eqAssertedFields_doc (fields : List FieldE) :
    eqAssertedFields (docFieldsOut .eq fields) = docEqComponentsOf fields := by
  unfold docFieldsOut docEqComponentsOf
  induction docCompared .eq fields with
  | nil => rfl
  | cons f fs ih =>
    simp only [List.map_cons, eqAssertedFields, List.flatMap_cons, ih]
    congr 1
    unfold docMk
    cases docSel .eq f.h.cmp with
    | none => rfl
    | some s => cases s <;> rfl

theorem eq_assert_exact (src : Source) (e : Entry) (h : HAttrs) (c : CmpImpl)
    (hb : buildCmp .eq src e h = .ok c) : eqAsserted c = docEqComponents src := by
  obtain ⟨_, hbody⟩ := body_of_ok hb
  cases src with
  | struct_ name g fields =>
    simp only [eqAsserted, hbody, Source.docBody, docEqComponents]
    exact eqAssertedFields_doc fields
  | enum_ name g variants =>
    simp only [eqAsserted, hbody, Source.docBody, docEqComponents, List.flatMap_map]
    congr 1
    funext v
    exact eqAssertedFields_doc v.fields

/-! ### the emitted tokens

`eqAsserted` is read off the structured impl; the theorems below tie it to what is *printed*: the body of the hidden
function `_f` consists of exactly one checker block `{ fn _eq<T: ::core::cmp::Eq + ?Sized>(__this: &T) {} _eq(&(expr)) }`
per asserted component — `expr` being the field or its `key` expression —, in declaration order, and of nothing else. -/

/-- the expression a component is checked through -/
def EqComponent.expr (k : SrcKind) : EqComponent → GToks
  | .field f => thisOf k f
  | .key f t => applyTemplate t (thisOf k f)

theorem eq_body_tokens (k : SrcKind) (fs : List CmpField) :
    cmpFieldsBody .eq k fs = (eqAssertedFields fs).flatMap fun c => eqChecker (c.expr k) := by
  simp only [cmpFieldsBody]
  induction fs with
  | nil => rfl
  | cons cf rest ih =>
    simp only [List.flatMap_cons, eqAssertedFields, List.flatMap_append, ih]
    congr 1
    unfold eqExpr
    cases cf.sel <;> simp [EqComponent.expr, List.flatMap_cons]

theorem op_of_ok {t : CmpOp} {src : Source} {e : Entry} {h : HAttrs} {c : CmpImpl}
    (hb : buildCmp t src e h = .ok c) : c.op = t := by
  unfold buildCmp at hb
  cases src with
  | struct_ name g fields =>
    simp only [bind, Except.bind, pure, Except.pure] at hb
    split at hb
    · simp at hb
    · simp only [Except.ok.injEq] at hb
      rw [← hb]
  | enum_ name g variants =>
    simp only [bind, Except.bind, pure, Except.pure] at hb
    split at hb
    · simp at hb
    · simp only [Except.ok.injEq] at hb
      rw [← hb]

/-- a struct: the body of `_f` is the checker blocks of the documented components -/
theorem eq_struct_tokens (name : String) (g : Generics) (fields : List FieldE) (e : Entry) (h : HAttrs) (c : CmpImpl)
    (hb : buildCmp .eq (.struct_ name g fields) e h = .ok c) :
    c.inner = (docEqComponentsOf fields).flatMap fun x => eqChecker (x.expr .struct_) := by
  obtain ⟨_, hbody⟩ := body_of_ok hb
  simp only [CmpImpl.inner, hbody, Source.docBody, op_of_ok hb, eq_body_tokens, docFieldsOut]
  rw [← eqAssertedFields_doc]
  rfl

/-- an enum: one arm per variant, holding the checker blocks of that variant's documented components -/
theorem eq_enum_tokens (name : String) (g : Generics) (variants : List VariantE) (e : Entry) (h : HAttrs) (c : CmpImpl)
    (hb : buildCmp .eq (.enum_ name g variants) e h = .ok c) :
    c.inner = "match" ::: "__this" ::: brace (
        (variants.flatMap fun v => v.makePatWith "__this" [u c.name] +++ "=>" :::
          brace ((docEqComponentsOf v.fields).flatMap fun x => eqChecker (x.expr .enum_))) +++
        ["_", "=>", "{", "}"]) := by
  obtain ⟨_, hbody⟩ := body_of_ok hb
  simp only [CmpImpl.inner, hbody, Source.docBody, op_of_ok hb, List.flatMap_map, eq_body_tokens]
  congr 3
  simp only [eqAssertedFields_doc]

/-- the checker demands `Eq` of the type of the expression it is given, and nothing else: its only bound is
`T: ::core::cmp::Eq + ?Sized` -/
theorem eqChecker_shape (e : GToks) :
    (eqChecker e).strs =
      ["{", "fn", "__assert_eq", "<", "__T", ":", "::", "core", "::", "cmp", "::", "Eq", "+", "?", "::", "core", "::", "marker", "::", "Sized", ">",
       "(", "__this", ":", "&", "__T", ")", "{", "}", "__assert_eq", "(", "&", "("] ++ e.strs ++ [")", ")", "}"] := by
  simp [eqChecker, brace, paren, absPath, GToks.strs, GTok.strs, gapp, gcons, OfStr.ofStr, List.flatMap_append,
    List.flatMap_cons]

end DX
