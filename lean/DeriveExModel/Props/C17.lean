import DeriveExModel.Props.C01
/-
C17 — `derive_ex(Eq)` asserts `Eq` of exactly the compared components.
-/
namespace DX

/-- the documented list: every field that takes part in equality and is not
compared with `by = …` contributes its `key` expression (from `eq`, else `ord`)
or else itself -/
def docEqComponentsOf (fields : List FieldE) : List EqComponent :=
  (docCompared .eq fields).flatMap fun f =>
    match docSel .eq f.h.cmp with
    | some (.by_ _ _) => []
    | some (.key _ k) => [.key f k]
    | _ => [.field f]

def docEqComponents : Source → List EqComponent
  | .struct_ _ _ fields => docEqComponentsOf fields
  | .enum_ _ _ variants => variants.flatMap fun v => docEqComponentsOf v.fields

theorem eqAssertedFields_doc (fields : List FieldE) :
    eqAssertedFields (docFieldsOut .eq fields) = docEqComponentsOf fields := by
  unfold docFieldsOut docEqComponentsOf
  induction docCompared .eq fields with
  | nil => rfl
  | cons f fs ih =>
    simp only [List.map_cons, eqAssertedFields, List.flatMap_cons, ih]
    congr 1
    unfold docMk
    cases docSel .eq f.h.cmp with
    | none => rfl
    | some s => cases s <;> rfl

theorem eq_assert_exact (src : Source) (e : Entry) (h : HAttrs) (c : CmpImpl)
    (hb : buildCmp .eq src e h = .ok c) : eqAsserted c = docEqComponents src := by
  obtain ⟨_, hbody⟩ := body_of_ok hb
  cases src with
  | struct_ name g fields =>
    simp only [eqAsserted, hbody, Source.docBody, docEqComponents]
    exact eqAssertedFields_doc fields
  | enum_ name g variants =>
    simp only [eqAsserted, hbody, Source.docBody, docEqComponents, List.flatMap_map]
    congr 1
    funext v
    exact eqAssertedFields_doc v.fields

end DX
