import DeriveExModel.Props.C15
/-
C19 — `dump` shows exactly the code that would have been generated.
-/
namespace DX

def OSeg.tokens (s : OSeg) : GToks :=
  match s.body with
  | .toks ts => ts
  | .dump ts => ts
  | .err => []

/-- no builder looks at the entry's `dump` flag: the code generated for an entry is the
same with and without it -/
theorem build_ignores_dump_struct (s : ItemStruct) (h : HAttrs) (fields : List FieldE) (e : Entry) (d : Bool) :
    buildStructEntry s h fields { e with dump := d } = buildStructEntry s h fields e := by
  unfold buildStructEntry
  cases e.kind <;> rfl

theorem build_ignores_dump_enum (en : ItemEnum) (h : HAttrs) (variants : List VariantE) (e : Entry) (d : Bool) :
    buildEnumEntry en h variants { e with dump := d } = buildEnumEntry en h variants e := by
  unfold buildEnumEntry
  cases e.kind <;> rfl

theorem flatten_zipIdx (l : List GToks) (k : Nat) (lab : Nat → String) :
    ((l.zipIdx k).map (fun x => OSeg.tokens { label := lab x.2, body := .toks x.1 })).flatten = l.flatten := by
  induction l generalizing k with
  | nil => rfl
  | cons t ts ih => simp [List.zipIdx_cons, OSeg.tokens, ih]

/-- the payload of a dumped entry is, token for token, the concatenation of the items the
entry would otherwise have generated; its label (position) is unchanged -/
theorem dump_payload (i : Nat) (e : Entry) (g : GenImpl) (hd : e.dump = true) :
    entrySegs i e (applyDump e (.ok g)) =
      [{ label := "e" ++ toString i ++ ":" ++ e.kind.str,
         body := .dump ((entrySegs i { e with dump := false } (applyDump { e with dump := false } (.ok g))).flatMap OSeg.tokens) }] := by
  simp only [applyDump, hd, if_true, entrySegs, Bool.false_eq_true, if_false]
  congr 2
  simp only [List.flatMap, List.map_map]
  congr 1
  have := flatten_zipIdx g.render 0 (fun j => if (j == 0) = true then "e" ++ toString i ++ ":" ++ e.kind.str
                else "e" ++ toString i ++ ":" ++ e.kind.str ++ "#" ++ toString j)
  rw [← this]
  rfl

/-- an entry that fails still fails with `dump` -/
theorem dump_of_error (i : Nat) (e : Entry) :
    entrySegs i e (applyDump e (.error ())) = [{ label := "e" ++ toString i ++ ":" ++ e.kind.str, body := .err }] := rfl

/-- which attributes are stripped does not depend on any `dump` flag -/
theorem kinds_ignore_dump (k : Kinds) (es : List Entry) :
    k.extend (es.map fun e => { e with dump := false }) = k.extend es := by
  unfold Kinds.extend
  induction es generalizing k with
  | nil => rfl
  | cons e es ih => simp [List.foldl_cons, ih]

/-- `impl` items: the dump payload is the concatenation of the impls that would have been generated -/
theorem dump_impl (attr : Args) (i : ItemImpl) (f : FwdImpl) (hb : buildFwd attr i = .ok f) (hd : attr.dump = true) :
    implSegs attr i = [{ label := "impl", body := .dump f.render.flatten }] := by
  simp [implSegs, hb, hd]

/-- … and `buildFwd` itself does not look at `dump` -/
theorem fwd_ignores_dump (attr : Args) (i : ItemImpl) (d : Bool) :
    buildFwd { attr with dump := d } i = buildFwd attr i := rfl

end DX
