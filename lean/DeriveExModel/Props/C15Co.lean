import DeriveExModel.Props.C15
/-
C15, third clause — "for any one trait, regardless of which other traits are requested
alongside it (as long as the item carries no helper attribute that belongs only to those
other traits)": the impl generated for one entry of the list is the same under any two
sets of co-derived traits.
-/
namespace DX

/-- two sets of derived traits recognise the same helper attributes among those an
attribute list actually carries -/
def AgreeOn (attrs : List Attr) (k k' : Kinds) : Prop :=
  k.deriveEx = k'.deriveEx ∧
  (k.dflt = k'.dflt ∨ defaultBodies attrs = []) ∧
  (k.debug = k'.debug ∨ debugBodies attrs = []) ∧
  ∀ w, k.matchCmp w = k'.matchCmp w ∨ cmpBodies attrs w = []

theorem fromAttrs_agree (attrs : List Attr) (t : Target) (k k' : Kinds) (h : AgreeOn attrs k k') :
    HAttrs.fromAttrs attrs t k = HAttrs.fromAttrs attrs t k' :=
  fromAttrs_congr attrs t k k' h.1 h.2.1 h.2.2.1 h.2.2.2

theorem AgreeOn.withoutDeriveEx {attrs : List Attr} {k k' : Kinds} (h : AgreeOn attrs k k') :
    AgreeOn attrs k.withoutDeriveEx k'.withoutDeriveEx :=
  ⟨rfl, h.2.1, h.2.2.1, h.2.2.2⟩

theorem mapM_congr_R {α β} {f g : α → R β} (l : List α) (h : ∀ x ∈ l, f x = g x) :
    l.mapM f = l.mapM g := by
  induction l with
  | nil => rfl
  | cons x xs ih =>
    rw [List.mapM_cons, List.mapM_cons, h x (by simp), ih (fun y hy => h y (by simp [hy]))]

theorem fromFields_agree (fs : Fields) (k k' : Kinds) (h : ∀ f ∈ fs.fields, AgreeOn f.attrs k k') :
    FieldE.fromFields fs k = FieldE.fromFields fs k' := by
  unfold FieldE.fromFields
  apply mapM_congr_R
  rintro ⟨f, i⟩ hx
  have hf : f ∈ fs.fields := by
    rw [(List.mem_zipIdx' hx).2]
    exact List.getElem_mem _
  simp only [fromAttrs_agree f.attrs .field k k' (h f hf)]

theorem fromVariants_agree (vs : List Variant) (k k' : Kinds)
    (h : ∀ v ∈ vs, AgreeOn v.attrs k k' ∧ ∀ f ∈ v.fields.fields, AgreeOn f.attrs k k') :
    VariantE.fromVariants vs k = VariantE.fromVariants vs k' := by
  unfold VariantE.fromVariants
  apply mapM_congr_R
  intro v hv
  rw [fromFields_agree v.fields k k' (h v hv).2, fromAttrs_agree v.attrs .variant k k' (h v hv).1]

/-- what `build_by_item_struct_core` produces for one entry of the list, as a function of the
set of derived traits -/
def structEntryOut (k : Kinds) (s : ItemStruct) (e : Entry) : R EntryOut := do
  let h ← HAttrs.fromAttrs s.attrs .type k.withoutDeriveEx
  let fields ← FieldE.fromFields s.fields k
  pure (applyDump e (buildStructEntry s h fields e))

def enumEntryOut (k : Kinds) (en : ItemEnum) (e : Entry) : R (Option EntryOut) := do
  let h ← HAttrs.fromAttrs en.attrs .type k.withoutDeriveEx
  let variants ← VariantE.fromVariants en.variants k
  pure ((buildEnumEntry en h variants e).map (applyDump e))

/-- the struct driver is `structEntryOut` for every listed entry -/
theorem structCore_entries (attr : Option Args) (s : ItemStruct) (es : List Entry)
    (hes : Entry.fromRoot attr s.attrs = .ok es) (r : List (Entry × EntryOut))
    (hr : (structCore attr s).result = .ok r) :
    r.map (·.1) = es ∧ ∀ p ∈ r, structEntryOut ((Kinds.new true).extend es) s p.1 = .ok p.2 := by
  unfold structCore at hr
  simp only [hes] at hr
  unfold structEntryOut
  cases hh : HAttrs.fromAttrs s.attrs .type ((Kinds.new true).extend es).withoutDeriveEx with
  | error _ => simp [hh, bind, Except.bind] at hr
  | ok h =>
    cases hf : FieldE.fromFields s.fields ((Kinds.new true).extend es) with
    | error _ => simp [hh, hf, bind, Except.bind] at hr
    | ok fields =>
      simp only [hh, hf, bind, Except.bind, pure, Except.pure, Except.ok.injEq] at hr ⊢
      subst hr
      constructor
      · simp [List.map_map, Function.comp_def]
      · intro p hp
        obtain ⟨e, _, rfl⟩ := List.mem_map.1 hp
        rfl

/-- **any co-derived set (structs).**  Under two sets of derived traits that recognise the same
helper attributes among those the item, and each of its fields, actually carries, every entry
turns into the same impls (or the same error, or the same dump). -/
theorem struct_entry_codrived_independent (s : ItemStruct) (e : Entry) (k k' : Kinds)
    (hs : AgreeOn s.attrs k k') (hf : ∀ f ∈ s.fields.fields, AgreeOn f.attrs k k') :
    structEntryOut k s e = structEntryOut k' s e := by
  unfold structEntryOut
  rw [fromAttrs_agree s.attrs .type _ _ hs.withoutDeriveEx, fromFields_agree s.fields k k' hf]

/-- **any co-derived set (enums).** -/
theorem enum_entry_codrived_independent (en : ItemEnum) (e : Entry) (k k' : Kinds)
    (hs : AgreeOn en.attrs k k')
    (hv : ∀ v ∈ en.variants, AgreeOn v.attrs k k' ∧ ∀ f ∈ v.fields.fields, AgreeOn f.attrs k k') :
    enumEntryOut k en e = enumEntryOut k' en e := by
  unfold enumEntryOut
  rw [fromAttrs_agree en.attrs .type _ _ hs.withoutDeriveEx, fromVariants_agree en.variants k k' hv]

/-! ### the hypothesis in the property's words -/

/-- no attribute of the list belongs only to traits other than `t`: whatever the documentation
assigns to some derivable trait, it assigns (also) to `t` -/
def NoneOnlyForOthers (t : Kind) (attrs : List Attr) : Prop :=
  ∀ a ∈ attrs, ∀ d : List Kind, docOwnsAttr d a = true → docOwnsAttr [t] a = true

theorem derives_mono {d : List Kind} {t κ : Kind} (ht : t ∈ d) (h : derives [t] κ = true) : derives d κ = true := by
  simp only [derives, List.any_cons, List.any_nil, Bool.or_false, decide_eq_true_eq] at h
  subst h
  simp [derives, ht]

theorem docOwnsAttr_mono {d : List Kind} {t : Kind} (ht : t ∈ d) (a : Attr) (h : docOwnsAttr [t] a = true) :
    docOwnsAttr d a = true := by
  cases a with
  | foreign _ => simp [docOwnsAttr] at h
  | deriveEx _ => rfl
  | dflt _ => exact derives_mono ht h
  | debug _ => exact derives_mono ht h
  | cmp w _ =>
    simp only [docOwnsAttr, List.any_eq_true, Bool.and_eq_true] at h ⊢
    obtain ⟨x, hx, ho, hd⟩ := h
    exact ⟨x, hx, ho, derives_mono ht hd⟩

theorem agreeOn_of_isMatch (attrs : List Attr) (k k' : Kinds) (hde : k.deriveEx = k'.deriveEx)
    (h : ∀ a ∈ attrs, k.isMatch a = k'.isMatch a) : AgreeOn attrs k k' := by
  refine ⟨hde, ?_, ?_, ?_⟩
  · by_cases hn : defaultBodies attrs = []
    · exact .inr hn
    · left
      obtain ⟨b, hb⟩ := List.exists_mem_of_ne_nil _ hn
      obtain ⟨a, ha, hab⟩ := List.mem_filterMap.1 hb
      cases a <;> simp at hab
      subst hab
      simpa [Kinds.isMatch] using h _ ha
  · by_cases hn : debugBodies attrs = []
    · exact .inr hn
    · left
      obtain ⟨b, hb⟩ := List.exists_mem_of_ne_nil _ hn
      obtain ⟨a, ha, hab⟩ := List.mem_filterMap.1 hb
      cases a <;> simp at hab
      subst hab
      simpa [Kinds.isMatch] using h _ ha
  · intro w
    by_cases hn : cmpBodies attrs w = []
    · exact .inr hn
    · left
      obtain ⟨b, hb⟩ := List.exists_mem_of_ne_nil _ hn
      obtain ⟨a, ha, hab⟩ := List.mem_filterMap.1 hb
      cases a <;> simp at hab
      obtain ⟨hw, rfl⟩ := hab
      rename_i w' _
      have := h _ ha
      cases w' <;> cases w <;> first | exact absurd hw (by decide) | simpa [Kinds.isMatch] using this

/-- an item that carries no helper attribute belonging only to other traits is read the same under
any two lists of derived traits that both contain `t` -/
theorem agreeOn_of_noneOnlyForOthers (t : Kind) (attrs : List Attr) (es es' : List Entry)
    (ht : t ∈ es.map (·.kind)) (ht' : t ∈ es'.map (·.kind)) (h : NoneOnlyForOthers t attrs) :
    AgreeOn attrs ((Kinds.new true).extend es) ((Kinds.new true).extend es') := by
  apply agreeOn_of_isMatch
  · rw [extend_eq, extend_eq, foldl_add, foldl_add]
  · intro a ha
    rw [isMatch_extend, isMatch_extend]
    cases h1 : docOwnsAttr (es.map (·.kind)) a with
    | true => exact (docOwnsAttr_mono ht' a (h a ha _ h1)).symm
    | false =>
      cases h2 : docOwnsAttr (es'.map (·.kind)) a with
      | false => rfl
      | true => rw [docOwnsAttr_mono ht a (h a ha _ h2)] at h1; cases h1

/-- **C15, any co-derived set, in the property's words (structs):** if neither the struct nor any of
its fields carries a helper attribute that belongs only to traits other than `e`'s, then `e` yields the
same impls under any two lists of derived traits that contain it. -/
theorem struct_any_coderived_set (s : ItemStruct) (e : Entry) (es es' : List Entry)
    (he : e ∈ es) (he' : e ∈ es')
    (hs : NoneOnlyForOthers e.kind s.attrs) (hf : ∀ f ∈ s.fields.fields, NoneOnlyForOthers e.kind f.attrs) :
    structEntryOut ((Kinds.new true).extend es) s e = structEntryOut ((Kinds.new true).extend es') s e :=
  have ht := List.mem_map.2 ⟨e, he, rfl⟩
  have ht' := List.mem_map.2 ⟨e, he', rfl⟩
  struct_entry_codrived_independent s e _ _
    (agreeOn_of_noneOnlyForOthers e.kind s.attrs es es' ht ht' hs)
    (fun f hfm => agreeOn_of_noneOnlyForOthers e.kind f.attrs es es' ht ht' (hf f hfm))

/-- **C15, any co-derived set, in the property's words (enums).** -/
theorem enum_any_coderived_set (en : ItemEnum) (e : Entry) (es es' : List Entry)
    (he : e ∈ es) (he' : e ∈ es')
    (hs : NoneOnlyForOthers e.kind en.attrs)
    (hv : ∀ v ∈ en.variants, NoneOnlyForOthers e.kind v.attrs ∧ ∀ f ∈ v.fields.fields, NoneOnlyForOthers e.kind f.attrs) :
    enumEntryOut ((Kinds.new true).extend es) en e = enumEntryOut ((Kinds.new true).extend es') en e :=
  have ht := List.mem_map.2 ⟨e, he, rfl⟩
  have ht' := List.mem_map.2 ⟨e, he', rfl⟩
  enum_entry_codrived_independent en e _ _
    (agreeOn_of_noneOnlyForOthers e.kind en.attrs es es' ht ht' hs)
    (fun v hvm => ⟨agreeOn_of_noneOnlyForOthers e.kind v.attrs es es' ht ht' (hv v hvm).1,
      fun f hfm => agreeOn_of_noneOnlyForOthers e.kind f.attrs es es' ht ht' ((hv v hvm).2 f hfm)⟩)

/-- the hypothesis is satisfiable by items that do carry helper attributes: `#[ord(key = ..)]` on a field
belongs to every comparison trait, so it never "belongs only to the others" -/
example (b : HBody CmpArgs) (o : CmpOp) : NoneOnlyForOthers (.cmp o) [.cmp .ord b, .foreign ["x"]] := by
  intro a ha d _
  simp only [List.mem_cons, List.mem_nil_iff, or_false] at ha
  rcases ha with rfl | rfl
  · cases o <;> simp [docOwnsAttr, CmpOp.all, docOwns, docAffects, derives]
  · simp_all [docOwnsAttr]

end DX
