import DeriveExModel.Props.C05
/-
C02 — accepted attribute combinations give mutually coherent Eq / Ord / Hash impls.

Hypothesis (`Coherent`): per field there is one key order `cmpK` (and hash `hashK`) such that
every `key` / `by` supplied on the field is the comparator that key induces, and the field
type's own impls are the comparators of one order `cmpD` (with a compatible hash).  Nothing
is assumed about which attributes are present: that the *accepted* combinations are exactly
those on which all derived traits then agree is what is proved.
-/
namespace DX

structure Coherent {V F} (s : FieldSem V F) (cmpD cmpK : V → V → Ordering) (hashK : V → List F) : Prop where
  eqD : ∀ a b, s.eq a b = (cmpD a b == .eq)
  pcmpD : ∀ a b, s.pcmp a b = some (cmpD a b)
  cmpD_ : ∀ a b, s.cmp a b = cmpD a b
  hashD : ∀ a b, cmpD a b = .eq → s.hash a = s.hash b
  keyEq : ∀ k a b, s.keyEq k a b = (cmpK a b == .eq)
  keyPcmp : ∀ k a b, s.keyPcmp k a b = some (cmpK a b)
  keyCmp : ∀ k a b, s.keyCmp k a b = cmpK a b
  keyHash : ∀ k a, s.keyHash k a = hashK a
  byEq : ∀ e a b, s.byEq e a b = (cmpK a b == .eq)
  byPcmp : ∀ e a b, s.byPcmp e a b = some (cmpK a b)
  byCmp : ∀ e a b, s.byCmp e a b = cmpK a b
  byHash : ∀ e a, s.byHash e a = hashK a
  hashK_ : ∀ a b, cmpK a b = .eq → hashK a = hashK b

/-! ### the crux: finite facts about the attribute record -/

theorem docSel_none_of_no_keyBy (t : CmpOp) (c : CmpHs) (h : c.anyKeyBy = false) : docSel t c = none := by
  simp only [CmpHs.anyKeyBy, CmpH.hasKeyBy, Bool.or_eq_false_iff, Option.isSome_eq_false_iff, Option.isNone_iff_eq_none] at h
  obtain ⟨⟨⟨⟨⟨h1, h2⟩, ⟨h3, h4⟩⟩, ⟨h5, h6⟩⟩, ⟨h7, h8⟩⟩, ⟨h9, h10⟩⟩ := h
  cases t <;>
  simp [docSel, docPrecedence, docAffects, byUsable, CmpHs.get, List.filter, List.findSome?, h1, h2, h3, h4, h5, h6, h7,
    h8, h9, h10]

theorem docSel_some_anyKeyBy (t : CmpOp) (c : CmpHs) (h : (docSel t c).isSome = true) : c.anyKeyBy = true := by
  cases hk : c.anyKeyBy
  · rw [docSel_none_of_no_keyBy t c hk] at h; cases h
  · rfl

theorem docSel_ne_dflt (t : CmpOp) (c : CmpHs) : docSel t c ≠ some .dflt := by
  intro h
  unfold docSel at h
  obtain ⟨a, _, ha⟩ := List.exists_of_findSome?_eq_some h
  revert ha
  cases (if byUsable a t then (c.get a).by_ else none) <;> cases (c.get a).key <;> simp

/-- accepted and compared: the trait customises iff *any* recognised attribute customises —
hence all accepted traits agree on default-versus-custom -/
theorem sel_isSome_eq_anyKeyBy (t : CmpOp) (c : CmpHs) (hm : docMisuse t c = false) (hs : docSkips t c = false) :
    (docSel t c).isSome = c.anyKeyBy := by
  cases hk : c.anyKeyBy
  · cases hsel : (docSel t c).isSome
    · rfl
    · rw [docSel_some_anyKeyBy t c hsel] at hk; cases hk
  · unfold docMisuse at hm
    simp only [hs, hk, Bool.not_false, Bool.true_and, Bool.and_true, Bool.or_eq_false_iff] at hm
    cases hsel : docSel t c with
    | none => simp [hsel] at hm
    | some _ => rfl

/-- accepted and compared by `t`: `PartialEq` compares the field too -/
theorem skip_uniform (t : CmpOp) (c : CmpHs) (hm : docMisuse t c = false) (hs : docSkips t c = false) :
    docSkips .partialEq c = false := by
  unfold docMisuse at hm
  simp only [hs, Bool.not_false, Bool.true_and, Bool.or_eq_false_iff] at hm
  exact hm.1.2

/-- accepted and compared by `Ord`: `Ord` and `PartialOrd` reverse alike -/
theorem rev_uniform (c : CmpHs) (hm : docMisuse .ord c = false) (hs : docSkips .ord c = false) :
    docReversed .partialOrd c = docReversed .ord c := by
  unfold docMisuse at hm
  simp only [hs, Bool.not_false, Bool.true_and, Bool.or_eq_false_iff] at hm
  have hr : c.partialOrd.reverse = false := by
    have := hm.2
    cases hr : c.partialOrd.reverse
    · rfl
    · rw [hr] at this; cases this
  simp [docReversed, docPrecedence, docAffects, List.filter, List.any, CmpHs.get, hr]

/-! ### one field -/

/-- the order a coherent field is compared by: the key order if anything customises, else its own -/
def fieldOrd {V} (c : CmpHs) (cmpD cmpK : V → V → Ordering) : V → V → Ordering :=
  if c.anyKeyBy then cmpK else cmpD

theorem revOrd_eq_iff (o : Ordering) : (revOrd o == .eq) = (o == .eq) := by cases o <;> rfl

theorem docFieldEq_coherent {V F} (s : FieldSem V F) (cmpD cmpK hashK) (hc : Coherent s cmpD cmpK hashK)
    (c : CmpHs) (hm : docMisuse .partialEq c = false) (hs : docSkips .partialEq c = false) (a b : V) :
    docFieldEq s c a b = (fieldOrd c cmpD cmpK a b == .eq) := by
  have hsel := sel_isSome_eq_anyKeyBy .partialEq c hm hs
  unfold docFieldEq fieldOrd
  cases hd : docSel .partialEq c with
  | none =>
    rw [hd] at hsel
    have hk : c.anyKeyBy = false := hsel.symm
    simp only [hk, Bool.false_eq_true, if_false, hc.eqD]
  | some sel =>
    rw [hd] at hsel
    have hk : c.anyKeyBy = true := hsel.symm
    simp only [hk, if_true]
    cases sel with
    | dflt =>
      exact absurd hd (docSel_ne_dflt _ _)
    | key w k => simp only [hc.keyEq]
    | by_ w e => cases w <;> simp [hc.byEq, hc.byPcmp, hc.byCmp]

def revIf (r : Bool) (o : Ordering) : Ordering := if r then revOrd o else o

theorem revIf_eq_iff (r : Bool) (o : Ordering) : (revIf r o == .eq) = (o == .eq) := by
  cases r <;> cases o <;> rfl

theorem docFieldPcmp_coherent {V F} (s : FieldSem V F) (cmpD cmpK hashK) (hc : Coherent s cmpD cmpK hashK)
    (c : CmpHs) (hm : docMisuse .partialOrd c = false) (hs : docSkips .partialOrd c = false) (a b : V) :
    docFieldPcmp s c a b = some (revIf (docReversed .partialOrd c) (fieldOrd c cmpD cmpK a b)) := by
  have hsel := sel_isSome_eq_anyKeyBy .partialOrd c hm hs
  unfold docFieldPcmp fieldOrd revIf
  cases hd : docSel .partialOrd c with
  | none =>
    rw [hd] at hsel
    have hk : c.anyKeyBy = false := hsel.symm
    simp only [hk, Bool.false_eq_true, if_false, hc.pcmpD]
    cases docReversed .partialOrd c <;> rfl
  | some sel =>
    rw [hd] at hsel
    have hk : c.anyKeyBy = true := hsel.symm
    simp only [hk, if_true]
    cases sel with
    | dflt => exact absurd hd (docSel_ne_dflt _ _)
    | key w k => simp only [hc.keyPcmp]; cases docReversed .partialOrd c <;> rfl
    | by_ w e => cases w <;> simp only [hc.byPcmp, hc.byCmp] <;> cases docReversed .partialOrd c <;> rfl

theorem docFieldCmp_coherent {V F} (s : FieldSem V F) (cmpD cmpK hashK) (hc : Coherent s cmpD cmpK hashK)
    (c : CmpHs) (hm : docMisuse .ord c = false) (hs : docSkips .ord c = false) (a b : V) :
    docFieldCmp s c a b = revIf (docReversed .ord c) (fieldOrd c cmpD cmpK a b) := by
  have hsel := sel_isSome_eq_anyKeyBy .ord c hm hs
  unfold docFieldCmp fieldOrd revIf
  cases hd : docSel .ord c with
  | none =>
    rw [hd] at hsel
    have hk : c.anyKeyBy = false := hsel.symm
    simp only [hk, Bool.false_eq_true, if_false, hc.cmpD_]
  | some sel =>
    rw [hd] at hsel
    have hk : c.anyKeyBy = true := hsel.symm
    simp only [hk, if_true]
    cases sel with
    | dflt => exact absurd hd (docSel_ne_dflt _ _)
    | key w k => simp only [hc.keyCmp]
    | by_ w e => simp only [hc.byCmp]

theorem docFieldHash_coherent {V F} (s : FieldSem V F) (cmpD cmpK hashK) (hc : Coherent s cmpD cmpK hashK)
    (c : CmpHs) (hm : docMisuse .hash c = false) (hs : docSkips .hash c = false) (a b : V)
    (he : fieldOrd c cmpD cmpK a b = .eq) : docFieldHash s c a = docFieldHash s c b := by
  have hsel := sel_isSome_eq_anyKeyBy .hash c hm hs
  unfold docFieldHash
  unfold fieldOrd at he
  cases hd : docSel .hash c with
  | none =>
    rw [hd] at hsel
    have hk : c.anyKeyBy = false := hsel.symm
    simp only [hk, Bool.false_eq_true, if_false] at he
    exact hc.hashD a b he
  | some sel =>
    rw [hd] at hsel
    have hk : c.anyKeyBy = true := hsel.symm
    simp only [hk, if_true] at he
    cases sel with
    | dflt => exact absurd hd (docSel_ne_dflt _ _)
    | key w k => simp only [hc.keyHash]; exact hc.hashK_ a b he
    | by_ w e => simp only [hc.byHash]; exact hc.hashK_ a b he

/-! ### field lists: lexicographic products -/

def lexOrd : List Ordering → Ordering
  | [] => .eq
  | .eq :: os => lexOrd os
  | o :: _ => o

theorem firstNonEq_eq_lex (l : List Ordering) : firstNonEq l = lexOrd l := by
  unfold firstNonEq
  induction l with
  | nil => rfl
  | cons o os ih =>
    cases o
    · rfl
    · exact ih
    · rfl

theorem firstNonEqOpt_some (l : List Ordering) : firstNonEqOpt (l.map some) = some (lexOrd l) := by
  unfold firstNonEqOpt
  induction l with
  | nil => rfl
  | cons o os ih =>
    cases o
    · rfl
    · exact ih
    · rfl

theorem all_congr_mem {α} {l : List α} {p q : α → Bool} (h : ∀ a ∈ l, p a = q a) : l.all p = l.all q := by
  induction l with
  | nil => rfl
  | cons x xs ih =>
    simp only [List.all_cons]
    rw [h x (by simp), ih (fun a ha => h a (by simp [ha]))]

theorem flatMap_congr_mem {α β} {l : List α} {f g : α → List β} (h : ∀ a ∈ l, f a = g a) :
    l.flatMap f = l.flatMap g := by
  induction l with
  | nil => rfl
  | cons x xs ih =>
    simp only [List.flatMap_cons]
    rw [h x (by simp), ih (fun a ha => h a (by simp [ha]))]

theorem lexOrd_eq_iff (l : List Ordering) : (lexOrd l == .eq) = l.all (· == .eq) := by
  induction l with
  | nil => rfl
  | cons o os ih => cases o <;> simp [lexOrd, ih]

/-- every field of the list is accepted for `t` -/
def accepted (t : CmpOp) (fields : List FieldE) : Prop := ∀ f ∈ fields, docMisuse t f.h.cmp = false

theorem accepted_of_not_misused (t : CmpOp) (fields : List FieldE) (h : fieldsMisused t fields = false) :
    accepted t fields := by
  intro f hf
  simp only [fieldsMisused, List.any_eq_false] at h
  simpa using h f hf

/-- an accepted order-like trait compares exactly the fields `PartialEq` compares -/
theorem docSkips_eq_partialEq (t : CmpOp) (c : CmpHs) (hm : docMisuse t c = false) (ht : t ≠ .hash) :
    docSkips t c = docSkips .partialEq c := by
  cases hs : docSkips t c
  · exact (skip_uniform t c hm hs).symm
  · exact (docSkips_partialEq_of c t hs ht).symm

theorem docCompared_eq_partialEq (t : CmpOp) (fields : List FieldE) (ha : accepted t fields) (ht : t ≠ .hash) :
    docCompared t fields = docCompared .partialEq fields := by
  unfold docCompared
  apply List.filter_congr
  intro f hf
  rw [docSkips_eq_partialEq t f.h.cmp (ha f hf) ht]

variable {V F : Type}

/-- per-field coherence of the environment -/
def CoherentEnv (σ : Env V F) (cmpD cmpK : FieldE → V → V → Ordering) (hashK : FieldE → V → List F) : Prop :=
  ∀ f, Coherent (σ f) (cmpD f) (cmpK f) (hashK f)

/-- the (reversal-free) order of one field -/
def fo (cmpD cmpK : FieldE → V → V → Ordering) (a b : Val V) (f : FieldE) : Ordering :=
  fieldOrd f.h.cmp (cmpD f) (cmpK f) (a.field f.index) (b.field f.index)

theorem mem_compared {t : CmpOp} {fields : List FieldE} {f : FieldE} (h : f ∈ docCompared t fields) :
    f ∈ fields ∧ docSkips t f.h.cmp = false := by
  simp only [docCompared, List.mem_filter, Bool.not_eq_true'] at h
  exact h

theorem docEqFields_coherent (σ : Env V F) (cmpD cmpK hashK) (hc : CoherentEnv σ cmpD cmpK hashK)
    (a b : Val V) (fields : List FieldE) (ha : accepted .partialEq fields) :
    docEqFields σ a b fields = (docCompared .partialEq fields).all fun f => fo cmpD cmpK a b f == .eq := by
  unfold docEqFields
  apply all_congr_mem
  intro f hf
  obtain ⟨hmem, hs⟩ := mem_compared hf
  exact docFieldEq_coherent (σ f) _ _ _ (hc f) f.h.cmp (ha f hmem) hs _ _

theorem docCmpFields_coherent (σ : Env V F) (cmpD cmpK hashK) (hc : CoherentEnv σ cmpD cmpK hashK)
    (a b : Val V) (fields : List FieldE) (ha : accepted .ord fields) :
    docCmpFields σ a b fields =
      lexOrd ((docCompared .ord fields).map fun f => revIf (docReversed .ord f.h.cmp) (fo cmpD cmpK a b f)) := by
  unfold docCmpFields
  rw [firstNonEq_eq_lex]
  congr 1
  apply List.map_congr_left
  intro f hf
  obtain ⟨hmem, hs⟩ := mem_compared hf
  exact docFieldCmp_coherent (σ f) _ _ _ (hc f) f.h.cmp (ha f hmem) hs _ _

theorem docPcmpFields_coherent (σ : Env V F) (cmpD cmpK hashK) (hc : CoherentEnv σ cmpD cmpK hashK)
    (a b : Val V) (fields : List FieldE) (ha : accepted .partialOrd fields) :
    docPcmpFields σ a b fields =
      some (lexOrd ((docCompared .partialOrd fields).map fun f =>
        revIf (docReversed .partialOrd f.h.cmp) (fo cmpD cmpK a b f))) := by
  unfold docPcmpFields
  rw [← firstNonEqOpt_some, List.map_map]
  congr 1
  apply List.map_congr_left
  intro f hf
  obtain ⟨hmem, hs⟩ := mem_compared hf
  exact docFieldPcmp_coherent (σ f) _ _ _ (hc f) f.h.cmp (ha f hmem) hs _ _

/-- `a == b` iff `cmp(a, b) == Equal` -/
theorem fields_eq_iff_cmp (σ : Env V F) (cmpD cmpK hashK) (hc : CoherentEnv σ cmpD cmpK hashK)
    (a b : Val V) (fields : List FieldE) (hpe : accepted .partialEq fields) (ho : accepted .ord fields) :
    docEqFields σ a b fields = (docCmpFields σ a b fields == .eq) := by
  rw [docEqFields_coherent σ _ _ _ hc a b fields hpe, docCmpFields_coherent σ _ _ _ hc a b fields ho,
    lexOrd_eq_iff, docCompared_eq_partialEq .ord fields ho (by decide), List.all_map]
  apply all_congr_mem
  intro f _
  simp [revIf_eq_iff]

/-- `partial_cmp(a, b) == Some(cmp(a, b))` -/
theorem fields_pcmp_eq_some_cmp (σ : Env V F) (cmpD cmpK hashK) (hc : CoherentEnv σ cmpD cmpK hashK)
    (a b : Val V) (fields : List FieldE) (hpo : accepted .partialOrd fields) (ho : accepted .ord fields) :
    docPcmpFields σ a b fields = some (docCmpFields σ a b fields) := by
  rw [docPcmpFields_coherent σ _ _ _ hc a b fields hpo, docCmpFields_coherent σ _ _ _ hc a b fields ho,
    docCompared_eq_partialEq .ord fields ho (by decide), docCompared_eq_partialEq .partialOrd fields hpo (by decide)]
  congr 2
  apply List.map_congr_left
  intro f hf
  obtain ⟨hmem, hs⟩ := mem_compared hf
  have hso : docSkips .ord f.h.cmp = false := by
    rw [docSkips_eq_partialEq .ord f.h.cmp (ho f hmem) (by decide)]; exact hs
  rw [rev_uniform f.h.cmp (ho f hmem) hso]

/-- `a == b` iff `partial_cmp(a, b) == Some(Equal)` -/
theorem fields_eq_iff_pcmp (σ : Env V F) (cmpD cmpK hashK) (hc : CoherentEnv σ cmpD cmpK hashK)
    (a b : Val V) (fields : List FieldE) (hpe : accepted .partialEq fields) (hpo : accepted .partialOrd fields) :
    docEqFields σ a b fields = (docPcmpFields σ a b fields == some .eq) := by
  rw [docEqFields_coherent σ _ _ _ hc a b fields hpe, docPcmpFields_coherent σ _ _ _ hc a b fields hpo,
    docCompared_eq_partialEq .partialOrd fields hpo (by decide)]
  have : ∀ o : Ordering, (some o == some Ordering.eq) = (o == .eq) := by intro o; cases o <;> rfl
  rw [this, lexOrd_eq_iff, List.all_map]
  apply all_congr_mem
  intro f _
  simp [revIf_eq_iff]

/-- `a == b` implies byte-identical hasher feeds -/
theorem fields_eq_imp_hash_eq (σ : Env V F) (cmpD cmpK hashK) (hc : CoherentEnv σ cmpD cmpK hashK)
    (a b : Val V) (fields : List FieldE) (hpe : accepted .partialEq fields) (hh : accepted .hash fields)
    (heq : docEqFields σ a b fields = true) :
    docHashFields σ a fields = docHashFields σ b fields := by
  rw [docEqFields_coherent σ _ _ _ hc a b fields hpe] at heq
  unfold docHashFields
  apply flatMap_congr_mem
  intro f hf
  obtain ⟨hmem, hs⟩ := mem_compared hf
  have hpes : docSkips .partialEq f.h.cmp = false := skip_uniform .hash f.h.cmp (hh f hmem) hs
  have hin : f ∈ docCompared .partialEq fields := by
    simp only [docCompared, List.mem_filter, Bool.not_eq_true']
    exact ⟨hmem, hpes⟩
  have hfo : fo cmpD cmpK a b f = .eq := by
    have := (List.all_eq_true.mp heq) f hin
    simpa using this
  exact docFieldHash_coherent (σ f) _ _ _ (hc f) f.h.cmp (hh f hmem) hs _ _ hfo

/-! ### whole items -/

theorem accepted_fieldsOf (t : CmpOp) (src : Source) (variant : Nat) (h : src.misused t = false) :
    accepted t (src.fieldsOf variant) := by
  cases src with
  | struct_ name g fields => exact accepted_of_not_misused t fields h
  | enum_ name g variants =>
    simp only [Source.fieldsOf]
    cases hv : variants[variant]? with
    | none => intro f hf; cases hf
    | some v =>
      apply accepted_of_not_misused
      simp only [Source.misused, List.any_eq_false] at h
      have hmem : v ∈ variants := List.mem_of_getElem? hv
      simpa using h v hmem

theorem nat_compare_eq (m n : Nat) : (compare m n == Ordering.eq) = (m == n) := by
  rcases Nat.lt_trichotomy m n with h | h | h
  · have h1 : compare m n = .lt := Nat.compare_eq_lt.mpr h
    have h2 : (m == n) = false := by simpa using Nat.ne_of_lt h
    rw [h1, h2]; rfl
  · subst h; simp
  · have h1 : compare m n = .gt := Nat.compare_eq_gt.mpr h
    have h2 : (m == n) = false := by simpa using Nat.ne_of_gt h
    rw [h1, h2]; rfl

/-- `a == b` iff `cmp(a, b) == Equal` -/
theorem eq_iff_cmp_equal (src : Source) (σ : Env V F) (cmpD cmpK hashK) (hc : CoherentEnv σ cmpD cmpK hashK)
    (hpe : src.misused .partialEq = false) (ho : src.misused .ord = false) (a b : Val V) :
    docEq src σ a b = (docCmp src σ a b == .eq) := by
  unfold docEq docCmp
  by_cases hv : (src.isEnum && a.variant != b.variant) = true
  · simp only [hv, if_true]
    have hne : (a.variant == b.variant) = false := by
      simp only [Bool.and_eq_true, bne_iff_ne, ne_eq] at hv
      simpa using hv.2
    rw [nat_compare_eq, hne]
  · simp only [hv, Bool.false_eq_true, if_false]
    exact fields_eq_iff_cmp σ _ _ _ hc a b _ (accepted_fieldsOf _ src _ hpe) (accepted_fieldsOf _ src _ ho)

/-- `partial_cmp(a, b) == Some(cmp(a, b))` -/
theorem pcmp_eq_some_cmp (src : Source) (σ : Env V F) (cmpD cmpK hashK) (hc : CoherentEnv σ cmpD cmpK hashK)
    (hpo : src.misused .partialOrd = false) (ho : src.misused .ord = false) (a b : Val V) :
    docPartialCmp src σ a b = some (docCmp src σ a b) := by
  unfold docPartialCmp docCmp
  by_cases hv : (src.isEnum && a.variant != b.variant) = true
  · simp only [hv, if_true]
  · simp only [hv, Bool.false_eq_true, if_false]
    exact fields_pcmp_eq_some_cmp σ _ _ _ hc a b _ (accepted_fieldsOf _ src _ hpo) (accepted_fieldsOf _ src _ ho)

/-- `a == b` iff `partial_cmp(a, b) == Some(Equal)` -/
theorem eq_iff_pcmp_equal (src : Source) (σ : Env V F) (cmpD cmpK hashK) (hc : CoherentEnv σ cmpD cmpK hashK)
    (hpe : src.misused .partialEq = false) (hpo : src.misused .partialOrd = false) (a b : Val V) :
    docEq src σ a b = (docPartialCmp src σ a b == some .eq) := by
  unfold docEq docPartialCmp
  by_cases hv : (src.isEnum && a.variant != b.variant) = true
  · simp only [hv, if_true]
    have hne : (a.variant == b.variant) = false := by
      simp only [Bool.and_eq_true, bne_iff_ne, ne_eq] at hv
      simpa using hv.2
    have : ∀ o : Ordering, (some o == some Ordering.eq) = (o == .eq) := by intro o; cases o <;> rfl
    rw [this, nat_compare_eq, hne]
  · simp only [hv, Bool.false_eq_true, if_false]
    exact fields_eq_iff_pcmp σ _ _ _ hc a b _ (accepted_fieldsOf _ src _ hpe) (accepted_fieldsOf _ src _ hpo)

/-- `a == b` implies that the two values feed every hasher identically -/
theorem eq_imp_hash_eq (src : Source) (σ : Env V F) (cmpD cmpK hashK) (hc : CoherentEnv σ cmpD cmpK hashK)
    (hpe : src.misused .partialEq = false) (hh : src.misused .hash = false) (a b : Val V)
    (heq : docEq src σ a b = true) : docHashFeed src σ a = docHashFeed src σ b := by
  unfold docEq at heq
  unfold docHashFeed
  by_cases hv : (src.isEnum && a.variant != b.variant) = true
  · simp [hv] at heq
  · simp only [hv, Bool.false_eq_true, if_false] at heq
    have hsame : src.fieldsOf b.variant = src.fieldsOf a.variant := by
      cases src with
      | struct_ _ _ _ => rfl
      | enum_ _ _ _ =>
        simp only [Source.isEnum, Bool.true_and, bne_iff_ne, ne_eq, Decidable.not_not] at hv
        rw [hv]
    rw [hsame]
    exact fields_eq_imp_hash_eq σ _ _ _ hc a b _ (accepted_fieldsOf _ src _ hpe) (accepted_fieldsOf _ src _ hh) heq

/-! ### order laws -/

structure LawfulOrd (c : V → V → Ordering) : Prop where
  swap : ∀ x y, c y x = revOrd (c x y)
  eq_trans : ∀ x y z, c x y = .eq → c y z = .eq → c x z = .eq

theorem revOrd_revIf (r : Bool) (o : Ordering) : revIf r (revOrd o) = revOrd (revIf r o) := by
  cases r <;> cases o <;> rfl

theorem lexOrd_swap {α} (l : List α) (g h : α → Ordering) (hs : ∀ x ∈ l, h x = revOrd (g x)) :
    lexOrd (l.map h) = revOrd (lexOrd (l.map g)) := by
  induction l with
  | nil => rfl
  | cons x xs ih =>
    simp only [List.map_cons]
    rw [hs x (by simp)]
    cases hg : g x <;> simp [lexOrd, revOrd, hg]
    exact ih (fun y hy => hs y (by simp [hy]))

theorem fieldOrd_swap (c : CmpHs) (cmpD cmpK : V → V → Ordering) (hD : LawfulOrd cmpD) (hK : LawfulOrd cmpK) (x y : V) :
    fieldOrd c cmpD cmpK y x = revOrd (fieldOrd c cmpD cmpK x y) := by
  unfold fieldOrd
  cases c.anyKeyBy
  · exact hD.swap x y
  · exact hK.swap x y

/-- `cmp(b, a) == cmp(a, b).reverse()` -/
theorem cmp_swap (src : Source) (σ : Env V F) (cmpD cmpK hashK) (hc : CoherentEnv σ cmpD cmpK hashK)
    (hD : ∀ f, LawfulOrd (cmpD f)) (hK : ∀ f, LawfulOrd (cmpK f))
    (ho : src.misused .ord = false) (a b : Val V) :
    docCmp src σ b a = revOrd (docCmp src σ a b) := by
  unfold docCmp
  by_cases hv : (src.isEnum && a.variant != b.variant) = true
  · have hv' : (src.isEnum && b.variant != a.variant) = true := by
      simp only [Bool.and_eq_true, bne_iff_ne, ne_eq] at hv ⊢
      exact ⟨hv.1, fun h => hv.2 h.symm⟩
    simp only [hv, hv', if_true]
    rcases Nat.lt_trichotomy a.variant b.variant with h | h | h
    · rw [Nat.compare_eq_lt.mpr h, Nat.compare_eq_gt.mpr h]; rfl
    · simp [h] at hv
    · rw [Nat.compare_eq_gt.mpr h, Nat.compare_eq_lt.mpr h]; rfl
  · have hv' : ¬ (src.isEnum && b.variant != a.variant) = true := by
      simp only [Bool.and_eq_true, bne_iff_ne, ne_eq, not_and, Decidable.not_not] at hv ⊢
      exact fun h => (hv h).symm
    simp only [hv, hv', Bool.false_eq_true, if_false]
    have hsame : src.fieldsOf b.variant = src.fieldsOf a.variant := by
      cases src with
      | struct_ _ _ _ => rfl
      | enum_ _ _ _ =>
        simp only [Source.isEnum, Bool.true_and, bne_iff_ne, ne_eq, Decidable.not_not] at hv
        rw [hv]
    rw [hsame]
    have hacc := accepted_fieldsOf .ord src a.variant ho
    rw [docCmpFields_coherent σ _ _ _ hc b a _ hacc, docCmpFields_coherent σ _ _ _ hc a b _ hacc]
    apply lexOrd_swap
    intro f _
    rw [← revOrd_revIf]
    congr 1
    exact fieldOrd_swap f.h.cmp _ _ (hD f) (hK f) _ _

/-- `==` is reflexive and symmetric (transitivity: `eq_trans_fields` below) -/
theorem eq_refl_symm (src : Source) (σ : Env V F) (cmpD cmpK hashK) (hc : CoherentEnv σ cmpD cmpK hashK)
    (hD : ∀ f, LawfulOrd (cmpD f)) (hK : ∀ f, LawfulOrd (cmpK f))
    (hpe : src.misused .partialEq = false) (ho : src.misused .ord = false) (a b : Val V) :
    docEq src σ a a = true ∧ docEq src σ a b = docEq src σ b a := by
  have hself : ∀ o : Ordering, o = revOrd o → o = .eq := by intro o; cases o <;> simp [revOrd]
  constructor
  · rw [eq_iff_cmp_equal src σ _ _ _ hc hpe ho]
    have := cmp_swap src σ _ _ _ hc hD hK ho a a
    rw [hself _ this]; rfl
  · rw [eq_iff_cmp_equal src σ _ _ _ hc hpe ho, eq_iff_cmp_equal src σ _ _ _ hc hpe ho,
      cmp_swap src σ _ _ _ hc hD hK ho a b, revOrd_eq_iff]

/-- `==` is transitive on values of one variant -/
theorem eq_trans_fields (σ : Env V F) (cmpD cmpK hashK) (hc : CoherentEnv σ cmpD cmpK hashK)
    (hD : ∀ f, LawfulOrd (cmpD f)) (hK : ∀ f, LawfulOrd (cmpK f))
    (fields : List FieldE) (hpe : accepted .partialEq fields) (a b c : Val V)
    (h1 : docEqFields σ a b fields = true) (h2 : docEqFields σ b c fields = true) :
    docEqFields σ a c fields = true := by
  rw [docEqFields_coherent σ _ _ _ hc _ _ fields hpe] at h1 h2 ⊢
  rw [List.all_eq_true] at h1 h2 ⊢
  intro f hf
  have e1 := h1 f hf
  have e2 := h2 f hf
  simp only [fo, fieldOrd, beq_iff_eq] at e1 e2 ⊢
  cases hk : f.h.cmp.anyKeyBy
  · simp only [hk, Bool.false_eq_true, if_false] at e1 e2 ⊢
    exact (hD f).eq_trans _ _ _ e1 e2
  · simp only [hk, if_true] at e1 e2 ⊢
    exact (hK f).eq_trans _ _ _ e1 e2

/-- non-vacuity: a record that customises through `ord(key)` is accepted by all five traits -/
example : ∀ t : CmpOp, docMisuse t { ord := { key := some ["k"] } } = false := by
  intro t; cases t <;> decide

end DX

namespace DX

/-! ### `cmp` is a total order: reflexive-on-equal, flips under swap, transitive -/

/-- a lawful three-way comparison -/
structure LawfulCmp {α} (c : α → α → Ordering) : Prop where
  swap : ∀ x y, c y x = revOrd (c x y)
  eq_congr : ∀ x y z, c x y = .eq → c x z = c y z
  lt_trans : ∀ x y z, c x y = .lt → c y z = .lt → c x z = .lt

theorem revOrd_revOrd (o : Ordering) : revOrd (revOrd o) = o := by cases o <;> rfl
theorem revOrd_eq_eq (o : Ordering) : revOrd o = .eq ↔ o = .eq := by cases o <;> simp [revOrd]
theorem revOrd_eq_lt (o : Ordering) : revOrd o = .lt ↔ o = .gt := by cases o <;> simp [revOrd]
theorem revOrd_eq_gt (o : Ordering) : revOrd o = .gt ↔ o = .lt := by cases o <;> simp [revOrd]

/-- congruence in the right argument, and transitivity for `>` , follow -/
theorem LawfulCmp.eq_congr_right {α} {c : α → α → Ordering} (h : LawfulCmp c) (x y z : α) (hyz : c y z = .eq) :
    c x y = c x z := by
  have h1 : c z y = .eq := by rw [h.swap y z, hyz]; rfl
  have h2 := h.eq_congr z y x h1
  rw [h.swap x z, h.swap x y] at h2
  have := congrArg revOrd h2
  simp only [revOrd_revOrd] at this
  exact this.symm

theorem LawfulCmp.gt_trans {α} {c : α → α → Ordering} (h : LawfulCmp c) (x y z : α) (h1 : c x y = .gt) (h2 : c y z = .gt) :
    c x z = .gt := by
  have a : c y x = .lt := by rw [h.swap x y, h1]; rfl
  have b : c z y = .lt := by rw [h.swap y z, h2]; rfl
  have := h.lt_trans z y x b a
  rw [h.swap z x, this]; rfl

/-- reversing a lawful comparison is lawful -/
theorem LawfulCmp.rev {α} {c : α → α → Ordering} (h : LawfulCmp c) (r : Bool) : LawfulCmp (fun x y => revIf r (c x y)) := by
  cases r
  · exact ⟨h.swap, h.eq_congr, h.lt_trans⟩
  · refine ⟨?_, ?_, ?_⟩
    · intro x y; simp only [revIf, if_true]; rw [h.swap x y]
    · intro x y z hxy
      simp only [revIf, if_true] at hxy ⊢
      rw [h.eq_congr x y z ((revOrd_eq_eq _).mp hxy)]
    · intro x y z h1 h2
      simp only [revIf, if_true] at h1 h2 ⊢
      rw [revOrd_eq_lt] at h1 h2 ⊢
      exact h.gt_trans x y z h1 h2

/-- the lexicographic product of lawful comparisons (one per index of the list) -/
def lexL {α ι} (k : ι → α → α → Ordering) (l : List ι) (x y : α) : Ordering := lexOrd (l.map fun i => k i x y)

theorem lexL_cons {α ι} (k : ι → α → α → Ordering) (i : ι) (l : List ι) (x y : α) :
    lexL k (i :: l) x y = match k i x y with | .eq => lexL k l x y | o => o := by
  unfold lexL
  simp only [List.map_cons]
  cases h : k i x y <;> simp [lexOrd, h]

theorem lexL_lawful {α ι} (k : ι → α → α → Ordering) (l : List ι) (hk : ∀ i ∈ l, LawfulCmp (k i)) : LawfulCmp (lexL k l) := by
  induction l with
  | nil => exact ⟨fun _ _ => rfl, fun _ _ _ _ => rfl, fun _ _ _ h _ => by cases h⟩
  | cons i l ih =>
    have hi := hk i (by simp)
    have ih' := ih (fun j hj => hk j (by simp [hj]))
    refine ⟨?_, ?_, ?_⟩
    · intro x y
      rw [lexL_cons, lexL_cons, hi.swap x y]
      cases h : k i x y <;> simp [revOrd]
      exact ih'.swap x y
    · intro x y z hxy
      rw [lexL_cons] at hxy
      cases h : k i x y <;> rw [h] at hxy <;> simp at hxy
      rw [lexL_cons, lexL_cons, hi.eq_congr x y z h]
      cases k i y z <;> simp
      exact ih'.eq_congr x y z hxy
    · intro x y z h1 h2
      rw [lexL_cons] at h1 h2 ⊢
      cases hxy : k i x y <;> rw [hxy] at h1 <;> simp at h1
      · -- k i x y = lt
        cases hyz : k i y z <;> rw [hyz] at h2 <;> simp at h2
        · rw [hi.lt_trans x y z hxy hyz]
        · rw [← hi.eq_congr_right x y z hyz, hxy]
      · -- k i x y = eq
        rw [hi.eq_congr x y z hxy]
        cases hyz : k i y z
        · rfl
        · rw [hyz] at h2
          show lexL k l x z = .lt
          exact ih'.lt_trans x y z h1 h2
        · rw [hyz] at h2
          cases h2

theorem nat_compare_lawful : LawfulCmp (fun m n : Nat => compare m n) := by
  refine ⟨?_, ?_, ?_⟩
  · intro x y
    rcases Nat.lt_trichotomy x y with h | h | h
    · simp only [Nat.compare_eq_lt.mpr h, Nat.compare_eq_gt.mpr h]; rfl
    · subst h; simp [revOrd]
    · simp only [Nat.compare_eq_gt.mpr h, Nat.compare_eq_lt.mpr h]; rfl
  · intro x y z h
    have : x = y := Nat.compare_eq_eq.mp h
    subst this; rfl
  · intro x y z h1 h2
    exact Nat.compare_eq_lt.mpr (Nat.lt_trans (Nat.compare_eq_lt.mp h1) (Nat.compare_eq_lt.mp h2))

/-- per-field comparison of two values, reversal included -/
def fieldCmpK (cmpD cmpK : FieldE → V → V → Ordering) (f : FieldE) (a b : Val V) : Ordering :=
  revIf (docReversed .ord f.h.cmp) (fo cmpD cmpK a b f)

theorem fieldCmpK_lawful (cmpD cmpK : FieldE → V → V → Ordering)
    (hD : ∀ f, LawfulCmp (cmpD f)) (hK : ∀ f, LawfulCmp (cmpK f)) (f : FieldE) :
    LawfulCmp (fieldCmpK cmpD cmpK f) := by
  have base : LawfulCmp (fun (a b : Val V) => fo cmpD cmpK a b f) := by
    unfold fo fieldOrd
    cases f.h.cmp.anyKeyBy
    · exact ⟨fun x y => (hD f).swap _ _, fun x y z h => (hD f).eq_congr _ _ _ h, fun x y z h1 h2 => (hD f).lt_trans _ _ _ h1 h2⟩
    · exact ⟨fun x y => (hK f).swap _ _, fun x y z h => (hK f).eq_congr _ _ _ h, fun x y z h1 h2 => (hK f).lt_trans _ _ _ h1 h2⟩
  exact base.rev _

/-- on values of one variant (or a struct) the derived `cmp` is the lexicographic product of lawful comparisons:
it is transitive, flips under swap, and `Equal` is a congruence -/
theorem cmp_fields_lawful (σ : Env V F) (cmpD cmpK hashK) (hc : CoherentEnv σ cmpD cmpK hashK)
    (hD : ∀ f, LawfulCmp (cmpD f)) (hK : ∀ f, LawfulCmp (cmpK f))
    (fields : List FieldE) (ha : accepted .ord fields) :
    LawfulCmp (fun a b => docCmpFields σ a b fields) := by
  have heq : (fun a b => docCmpFields σ a b fields) = lexL (fieldCmpK cmpD cmpK) (docCompared .ord fields) := by
    funext a b
    rw [docCmpFields_coherent σ _ _ _ hc a b fields ha]
    rfl
  rw [heq]
  exact lexL_lawful _ _ (fun f _ => fieldCmpK_lawful cmpD cmpK hD hK f)

/-- strict transitivity of the derived `cmp` on values of one variant -/
theorem cmp_trans_fields (σ : Env V F) (cmpD cmpK hashK) (hc : CoherentEnv σ cmpD cmpK hashK)
    (hD : ∀ f, LawfulCmp (cmpD f)) (hK : ∀ f, LawfulCmp (cmpK f))
    (fields : List FieldE) (ha : accepted .ord fields) (a b c : Val V)
    (h1 : docCmpFields σ a b fields = .lt) (h2 : docCmpFields σ b c fields = .lt) :
    docCmpFields σ a c fields = .lt :=
  (cmp_fields_lawful σ cmpD cmpK hashK hc hD hK fields ha).lt_trans a b c h1 h2

/-- across variants the order is that of the declaration positions, which is lawful as well -/
theorem variant_order_lawful : LawfulCmp (fun (a b : Val V) => compare a.variant b.variant) :=
  ⟨fun x y => nat_compare_lawful.swap _ _, fun x y z h => nat_compare_lawful.eq_congr _ _ _ h,
   fun x y z h1 h2 => nat_compare_lawful.lt_trans _ _ _ h1 h2⟩

end DX
