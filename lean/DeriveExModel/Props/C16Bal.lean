import DeriveExModel.Props.C13Hyg
/-
C16 — "… yields either well-formed Rust items or a `compile_error!` …": the part of well-formedness that is decided
before any grammar is — every segment the expander emits is a sequence of *token trees*: the delimiters it writes itself
(`(` `)` `[` `]` `{` `}`) are balanced and properly nested, whatever the input is.  Tokens copied from the input are token
trees already (the expander receives and copies whole `TokenStream`s) and are skipped.
-/
namespace DX

def isOpen (s : String) : Bool := s == "(" || s == "[" || s == "{"
def isClose (s : String) : Bool := s == ")" || s == "]" || s == "}"
def closes (o c : String) : Bool := (o == "(" && c == ")") || (o == "[" && c == "]") || (o == "{" && c == "}")

/-- run over the tokens with a stack of open delimiters -/
def scan : List String → List String → Option (List String)
  | [], st => some st
  | t :: ts, st =>
    if isOpen t then scan ts (t :: st)
    else if isClose t then
      match st with
      | o :: st' => if closes o t then scan ts st' else none
      | [] => none
    else scan ts st

/-- what the expander writes itself -/
def skel (l : GToks) : List String := l.flatMap fun t => if t.p == .user then [] else t.strs

/-- balanced, in any context -/
def Bal (l : GToks) : Prop := ∀ st, scan (skel l) st = some st

theorem scan_append (a b : List String) (st : List String) : scan (a ++ b) st = (scan a st).bind (scan b) := by
  induction a generalizing st with
  | nil => rfl
  | cons t ts ih =>
    simp only [List.cons_append, scan]
    by_cases h1 : isOpen t = true
    · simp only [h1, if_true]; exact ih _
    · simp only [h1, Bool.false_eq_true, if_false]
      by_cases h2 : isClose t = true
      · simp only [h2, if_true]
        cases st with
        | nil => rfl
        | cons o st' =>
          by_cases h3 : closes o t = true
          · simp only [h3, if_true]; exact ih _
          · simp only [h3, Bool.false_eq_true, if_false]; rfl
      · simp only [h2, Bool.false_eq_true, if_false]; exact ih _

theorem skel_append (a b : GToks) : skel (a ++ b) = skel a ++ skel b := by simp [skel]

theorem bal_nil : Bal [] := fun _ => rfl

theorem bal_append {a b : GToks} (ha : Bal a) (hb : Bal b) : Bal (a ++ b) := by
  intro st
  rw [skel_append, scan_append, ha st]
  exact hb st

theorem bal_gapp {a b : GToks} (ha : Bal a) (hb : Bal b) : Bal (a +++ b) := bal_append ha hb

/-- a token that contributes no delimiter -/
def plainTok (t : GTok) : Bool := t.p == .user || t.strs.all fun s => !isOpen s && !isClose s

theorem scan_plain (xs : List String) (h : xs.all (fun s => !isOpen s && !isClose s) = true) (st : List String) :
    scan xs st = some st := by
  induction xs with
  | nil => rfl
  | cons x xs ih =>
    simp only [List.all_cons, Bool.and_eq_true, Bool.not_eq_true'] at h
    simp only [scan, h.1.1, h.1.2, Bool.false_eq_true, if_false]
    exact ih (by simpa using h.2)

theorem bal_single {t : GTok} (h : plainTok t = true) : Bal [t] := by
  intro st
  simp only [skel, List.flatMap_cons, List.flatMap_nil, List.append_nil]
  unfold plainTok at h
  cases hp : t.p == .user
  · simp only [hp, Bool.false_or] at h
    simp only [Bool.false_eq_true, if_false]
    exact scan_plain _ h st
  · simp [scan]

theorem bal_cons {t : GTok} {l : GToks} (h : plainTok t = true) (hl : Bal l) : Bal (t :: l) :=
  bal_append (a := [t]) (bal_single h) hl

theorem bal_gcons {t : GTok} {l : GToks} (h : plainTok t = true) (hl : Bal l) : Bal (t ::: l) := bal_cons h hl

theorem bal_U (ts : Toks) : Bal (U ts) := by
  intro st
  have : skel (U ts) = [] := by
    unfold skel
    rw [List.flatMap_eq_nil_iff]
    intro t ht
    simp only [U, List.mem_map] at ht
    obtain ⟨s, _, rfl⟩ := ht
    rfl
  rw [this]
  rfl

theorem bal_wrap (o c : String) (ho : isOpen o = true) (hc : isClose c = true) (hoc : closes o c = true) (hco : isOpen c = false)
    {l : GToks} (hl : Bal l) : Bal ((o : GTok) :: l ++ [(c : GTok)]) := by
  intro st
  have h1 : skel ((o : GTok) :: l ++ [(c : GTok)]) = [o] ++ skel l ++ [c] := by
    simp (config := { decide := true }) [skel, GTok.strs]
  rw [h1, scan_append, scan_append]
  simp only [scan, ho, if_true, Option.bind, hl (o :: st), hco, Bool.false_eq_true, if_false, hc, hoc]

theorem bal_paren {l : GToks} (hl : Bal l) : Bal (paren l) := bal_wrap "(" ")" rfl rfl rfl rfl hl
theorem bal_brace {l : GToks} (hl : Bal l) : Bal (brace l) := bal_wrap "{" "}" rfl rfl rfl rfl hl
theorem bal_bracket {l : GToks} (hl : Bal l) : Bal (bracket l) := bal_wrap "[" "]" rfl rfl rfl rfl hl

theorem bal_angle {l : GToks} (hl : Bal l) : Bal (angle l) := by
  unfold angle
  exact bal_cons (by decide) (bal_append hl (bal_single (by decide)))

theorem bal_flatMap {α} (l : List α) (f : α → GToks) (h : ∀ x ∈ l, Bal (f x)) : Bal (l.flatMap f) := by
  induction l with
  | nil => exact bal_nil
  | cons x xs ih =>
    simp only [List.flatMap_cons]
    exact bal_append (h x (by simp)) (ih fun y hy => h y (by simp [hy]))

theorem bal_flatten (l : List GToks) (h : ∀ x ∈ l, Bal x) : Bal l.flatten := by
  induction l with
  | nil => exact bal_nil
  | cons x xs ih =>
    simp only [List.flatten_cons]
    exact bal_append (h x (by simp)) (ih fun y hy => h y (by simp [hy]))

theorem bal_termBy (sep : GTok) (xs : List GToks) (hs : plainTok sep = true) (h : ∀ x ∈ xs, Bal x) : Bal (termBy sep xs) := by
  unfold termBy
  apply bal_flatMap
  intro x hx
  exact bal_append (h x hx) (bal_single hs)

theorem bal_sepBy (sep : GTok) (xs : List GToks) (hs : plainTok sep = true) (h : ∀ x ∈ xs, Bal x) : Bal (sepBy sep xs) := by
  induction xs with
  | nil => exact bal_nil
  | cons x xs ih =>
    cases xs with
    | nil => simpa [sepBy] using h x (by simp)
    | cons y ys =>
      simp only [sepBy]
      exact bal_append (h x (by simp)) (bal_cons hs (ih fun z hz => h z (by simp [hz])))

theorem bal_all_plain (l : GToks) (h : l.all plainTok = true) : Bal l := by
  induction l with
  | nil => exact bal_nil
  | cons t ts ih =>
    simp only [List.all_cons, Bool.and_eq_true] at h
    exact bal_cons h.1 (ih h.2)

attribute [irreducible] Bal

/-! ### tokens that cannot be delimiters -/

theorem plain_u (s : String) : plainTok (u s) = true := rfl
theorem not_delim_of_two (s : String) (c d : Char) (r : List Char) (h : s.toList = c :: d :: r) :
    (!isOpen s && !isClose s) = true := by
  have hne : ∀ x : String, x.toList.length = 1 → s ≠ x := by
    intro x hx heq
    rw [heq] at h
    rw [h] at hx
    simp at hx
  simp only [isOpen, isClose, Bool.and_eq_true, Bool.not_eq_true', Bool.or_eq_false_iff, beq_eq_false_iff_ne, ne_eq]
  exact ⟨⟨⟨hne "(" rfl, hne "[" rfl⟩, hne "{" rfl⟩, ⟨⟨hne ")" rfl, hne "]" rfl⟩, hne "}" rfl⟩⟩

theorem plain_reserved (s : String) (h : Reserved s) : plainTok ((s : String) : GTok) = true := by
  obtain ⟨r, hr⟩ := h
  simp only [plainTok, GTok.strs, List.all_cons, List.all_nil, Bool.and_true]
  simp (config := { decide := true }) [not_delim_of_two s '_' '_' r hr]

theorem plain_makeIdent (pre : String) (f : FieldE) (h : Reserved pre) : plainTok ((f.makeIdent pre : String) : GTok) = true :=
  plain_reserved _ (reserved_makeIdent pre f h)

theorem bal_autoDerived : Bal autoDerived := by unfold Bal; exact fun _ => rfl
theorem bal_allowUserLints : Bal allowUserLints := by unfold Bal; exact fun _ => rfl
theorem bal_cmpAttrs : Bal cmpAttrs := by unfold Bal; exact fun _ => rfl
theorem bal_cmpAllowAttrs : Bal cmpAllowAttrs := by unfold Bal; exact fun _ => rfl

/-- one step: split the list, enter a delimited group, discharge a single token -/
macro "bal_step" : tactic => `(tactic| first
  | exact bal_nil
  | exact bal_autoDerived
  | exact bal_allowUserLints
  | exact bal_cmpAttrs
  | exact bal_cmpAllowAttrs
  | exact bal_U _
  | assumption
  | exact plain_u _
  | apply bal_paren
  | apply bal_brace
  | apply bal_bracket
  | apply bal_angle
  | apply bal_gapp
  | apply bal_gcons
  | apply bal_append
  | apply bal_cons
  | (show plainTok _ = true; decide))
macro "bal" : tactic => `(tactic| repeat' bal_step)

/-! ### building blocks -/

theorem bal_cmpOpPath (o : CmpOp) : Bal o.path := by cases o <;> exact bal_all_plain _ (by decide)

theorem bal_kindPath (k : Kind) : Bal k.path := by
  cases k with
  | bin o => cases o <;> exact bal_all_plain _ (by decide)
  | assign o => cases o <;> exact bal_all_plain _ (by decide)
  | un o => cases o <;> exact bal_all_plain _ (by decide)
  | cmp o => exact bal_cmpOpPath o
  | _ => exact bal_all_plain _ (by decide)

theorem bal_mapMem {α} (l : List α) (f : α → GToks) (h : ∀ x, Bal (f x)) : ∀ v ∈ l.map f, Bal v := by
  intro v hv
  simp only [List.mem_map] at hv
  obtain ⟨x, _, rfl⟩ := hv
  exact h x

theorem bal_wcbBuild (w : WCB) (f : Ty → GToks) (hf : ∀ ty, Bal (f ty)) : Bal (w.build f) := by
  unfold WCB.build
  simp only
  split
  · exact bal_nil
  · refine bal_cons (by decide) (bal_termBy _ _ (by decide) ?_)
    intro x hx
    simp only [WCB.items, List.mem_append, List.mem_map] at hx
    rcases hx with ⟨t, _, rfl⟩ | ⟨p, _, rfl⟩
    · exact hf _
    · exact bal_U _

theorem bal_where_simple (w : WCB) (tr : GToks) (h : Bal tr) : Bal (w.build fun ty => U ty.toks +++ ":" ::: tr) :=
  bal_wcbBuild _ _ (fun ty => by bal)

theorem bal_thisTyToks (name : String) (g : Generics) : Bal (thisTyToks name g) := by
  unfold thisTyToks; bal

theorem bal_ctorArgs (fs : Fields) (values : List GToks) (h : ∀ v ∈ values, Bal v) : Bal (ctorArgs fs values) := by
  unfold ctorArgs
  cases fs.kind
  · simp only
    apply bal_brace
    apply bal_flatMap
    rintro ⟨f, v⟩ hfv
    have hv : Bal v := h v (List.of_mem_zip hfv).2
    simp only
    bal
  · simp only
    exact bal_paren (bal_termBy _ _ (by decide) h)
  · exact bal_nil

theorem bal_binders (pre : String) (hp : Reserved pre) (fields : List FieldE) :
    ∀ v ∈ fields.map (fun f => [((f.makeIdent pre : String) : GTok)]), Bal v := by
  intro v hv
  simp only [List.mem_map] at hv
  obtain ⟨f, _, rfl⟩ := hv
  exact bal_single (plain_makeIdent pre f hp)

theorem bal_makePatWith (v : VariantE) (pre : String) (hp : Reserved pre) (selfPath : GToks) (hs : Bal selfPath) :
    Bal (v.makePatWith pre selfPath) := by
  unfold VariantE.makePatWith
  have := bal_ctorArgs v.variant.fields _ (bal_binders pre hp v.fields)
  bal

theorem bal_makePat (v : VariantE) (pre : String) (hp : Reserved pre) : Bal (v.makePat pre) := by
  unfold VariantE.makePat
  exact bal_makePatWith v pre hp _ (by bal)

theorem bal_makePatWildcard (v : VariantE) : Bal v.makePatWildcard := by
  unfold VariantE.makePatWildcard
  cases v.variant.fields.kind <;> (simp only; bal)

theorem bal_withRef {ts : GToks} (r : Bool) (h : Bal ts) : Bal (withRef ts r) := by
  unfold withRef
  cases r <;> simp only [if_true, Bool.false_eq_true, if_false]
  · exact h
  · bal

theorem bal_memberOf (this : GTok) (hp : plainTok this = true) (f : FieldE) : Bal (memberOf this f) := by
  unfold memberOf; bal


theorem bal_implItem {attrs implG trait_ selfTy wheres body : GToks} (h1 : Bal attrs) (h2 : Bal implG) (h3 : Bal trait_)
    (h4 : Bal selfTy) (h5 : Bal wheres) (h6 : Bal body) : Bal (implItem attrs implG trait_ selfTy wheres body) := by
  unfold implItem; bal

theorem bal_ufcs {ty trait_ : GToks} (f : String) (hf : plainTok (pathM f) = true) (h1 : Bal ty) (h2 : Bal trait_) :
    Bal (ufcs ty trait_ f) := by
  unfold ufcs
  bal

theorem bal_matchSelf (arms : List GToks) (h : ∀ a ∈ arms, Bal a) : Bal (matchSelf arms) := by
  unfold matchSelf
  split
  · unfold Bal; exact fun _ => rfl
  · have := bal_termBy ("," : GTok) arms (by decide) h
    bal

theorem bal_refFieldTy (ty : Ty) (r : Bool) : Bal (refFieldTy ty r) := by
  unfold refFieldTy; split <;> bal

theorem bal_termBy_map {α} (sep : GTok) (l : List α) (f : α → GToks) (hs : plainTok sep = true) (h : ∀ x, Bal (f x)) :
    Bal (termBy sep (l.map f)) := bal_termBy sep _ hs (bal_mapMem l f h)
theorem bal_sepBy_map {α} (sep : GTok) (l : List α) (f : α → GToks) (hs : plainTok sep = true) (h : ∀ x, Bal (f x)) :
    Bal (sepBy sep (l.map f)) := bal_sepBy sep _ hs (bal_mapMem l f h)
theorem bal_ctorArgs_map {α} (fs : Fields) (l : List α) (f : α → GToks) (h : ∀ x, Bal (f x)) :
    Bal (ctorArgs fs (l.map f)) := bal_ctorArgs fs _ (bal_mapMem l f h)
theorem bal_matchSelf_map {α} (l : List α) (f : α → GToks) (h : ∀ x, Bal (f x)) :
    Bal (matchSelf (l.map f)) := bal_matchSelf _ (bal_mapMem l f h)
theorem bal_flatMap' {α} (l : List α) (f : α → GToks) (h : ∀ x, Bal (f x)) : Bal (l.flatMap f) :=
  bal_flatMap l f (fun x _ => h x)

theorem plain_nameLit (t : Tok) : plainTok ((nameLit t : String) : GTok) = true := by
  simp only [plainTok, GTok.strs]
  have h : ∃ c d r, (nameLit t).toList = c :: d :: r := by
    unfold nameLit
    rw [String.toList_append, String.toList_append]
    cases hx : (unraw t).toList with
    | nil => exact ⟨'"', '"', [], by simp⟩
    | cons a as => exact ⟨'"', a, as ++ ['"'], by simp⟩
  obtain ⟨c, d, r, hr⟩ := h
  simp (config := { decide := true }) [not_delim_of_two _ c d r hr]

macro "res_any" : tactic => `(tactic| first
  | exact res_l | exact res_r | exact res_field | exact res_self | exact res_this
  | exact res_other | exact res_eq | exact res_po | exact res_ord | exact res_hash)

/-- the full tactic: structural steps, the building blocks above, binders -/
macro "bal2_step" : tactic => `(tactic| first
  | assumption
  | bal_step
  | exact bal_autoDerived
  | exact bal_kindPath _
  | exact bal_cmpOpPath _
  | exact bal_thisTyToks _ _
  | exact bal_refFieldTy _ _
  | exact bal_makePatWildcard _
  | apply bal_withRef
  | apply bal_memberOf
  | apply bal_ufcs
  | apply bal_ctorArgs_map
  | apply bal_wcbBuild
  | apply bal_matchSelf_map
  | apply bal_termBy_map
  | apply bal_sepBy_map
  | apply bal_flatMap'
  | (apply plain_makeIdent; res_any)
  | exact plain_nameLit _
  | (unfold Bal; exact fun _ => rfl)
  | intro _)
macro "bal2" : tactic => `(tactic| repeat' bal2_step)

theorem plain_funcName (o : OpsImpl) : plainTok (fnM o.funcName) = true ∧ plainTok (pathM o.funcName) = true := by
  unfold OpsImpl.funcName
  cases o.kind with
  | bin b => cases b <;> decide
  | assign b => cases b <;> decide
  | un u => cases u <;> decide
  | _ => simp only; decide

set_option hygiene false in
macro "ops_case" : tactic => `(tactic| (
  unfold OpsImpl.renderForm
  have hf1 := (plain_funcName o).1
  have hf2 := (plain_funcName o).2
  have htr : Bal o.kind.path := bal_kindPath _
  generalize o.kind.path = tr at htr ⊢
  simp only [hk]
  bal2))

theorem bal_opsForm_bin_ff (o : OpsImpl) (w : WCB) (b : BinOp) (hk : o.kind = .bin b) : Bal (o.renderForm false false w) := by ops_case
theorem bal_opsForm_bin_ft (o : OpsImpl) (w : WCB) (b : BinOp) (hk : o.kind = .bin b) : Bal (o.renderForm false true w) := by ops_case
theorem bal_opsForm_bin_tf (o : OpsImpl) (w : WCB) (b : BinOp) (hk : o.kind = .bin b) : Bal (o.renderForm true false w) := by ops_case
theorem bal_opsForm_bin_tt (o : OpsImpl) (w : WCB) (b : BinOp) (hk : o.kind = .bin b) : Bal (o.renderForm true true w) := by ops_case
theorem bal_opsForm_assign_f (o : OpsImpl) (l : Bool) (w : WCB) (b : BinOp) (hk : o.kind = .assign b) : Bal (o.renderForm l false w) := by ops_case
theorem bal_opsForm_assign_t (o : OpsImpl) (l : Bool) (w : WCB) (b : BinOp) (hk : o.kind = .assign b) : Bal (o.renderForm l true w) := by ops_case
theorem bal_opsForm_un_f (o : OpsImpl) (r : Bool) (w : WCB) (u : UnOp) (hk : o.kind = .un u) : Bal (o.renderForm false r w) := by ops_case
theorem bal_opsForm_un_t (o : OpsImpl) (r : Bool) (w : WCB) (u : UnOp) (hk : o.kind = .un u) : Bal (o.renderForm true r w) := by ops_case

theorem bal_opsForm (o : OpsImpl) (l r : Bool) (w : WCB) : Bal (o.renderForm l r w) := by
  cases hk : o.kind with
  | bin b => cases l <;> cases r
             · exact bal_opsForm_bin_ff o w b hk
             · exact bal_opsForm_bin_ft o w b hk
             · exact bal_opsForm_bin_tf o w b hk
             · exact bal_opsForm_bin_tt o w b hk
  | assign b => cases r
                · exact bal_opsForm_assign_f o l w b hk
                · exact bal_opsForm_assign_t o l w b hk
  | un u => cases l
            · exact bal_opsForm_un_f o r w u hk
            · exact bal_opsForm_un_t o r w u hk
  | _ => unfold OpsImpl.renderForm; simp only [hk]; exact bal_nil

theorem bal_ops (o : OpsImpl) : ∀ ts ∈ o.render, Bal ts := by
  intro ts hts
  simp only [OpsImpl.render, List.mem_map] at hts
  obtain ⟨⟨⟨l, r⟩, w⟩, _, rfl⟩ := hts
  exact bal_opsForm o l r w

set_option maxHeartbeats 400000 in
theorem bal_clone_struct (c : CloneImpl) (src : Fields) (fields : List FieldE) (hs : c.shape = .struct_ src fields) :
    Bal c.render := by
  unfold CloneImpl.render
  have htr : Bal cloneTrait := bal_kindPath .clone
  generalize cloneTrait = tr at htr ⊢
  simp only [hs]
  bal2

set_option maxHeartbeats 400000 in
theorem bal_clone_enum (c : CloneImpl) (vs : List VariantE) (hs : c.shape = .enum_ vs) : Bal c.render := by
  unfold CloneImpl.render
  have htr : Bal cloneTrait := bal_kindPath .clone
  generalize cloneTrait = tr at htr ⊢
  simp only [hs]
  bal2

theorem bal_clone (c : CloneImpl) : Bal c.render := by
  cases hs : c.shape with
  | struct_ src fields => exact bal_clone_struct c src fields hs
  | enum_ vs => exact bal_clone_enum c vs hs

theorem bal_copy (c : CopyImpl) : Bal c.render := by
  unfold CopyImpl.render
  bal2

theorem bal_foldl_wrap (pre : GToks) (g : FieldE → GToks) (hpre : Bal pre) (hg : ∀ f, Bal (g f)) :
    ∀ (fs : List FieldE) (acc : GToks), Bal acc → Bal (fs.foldl (fun acc f => pre +++ paren (acc +++ g f)) acc) := by
  intro fs
  induction fs with
  | nil => intro acc ha; exact ha
  | cons f fs ih =>
    intro acc ha
    apply ih
    have := hg f
    bal2

theorem bal_debugExpr (x : DebugExpr) (toExpr : FieldE → GToks) (h : ∀ f, Bal (toExpr f)) : Bal (x.render toExpr) := by
  cases x with
  | transparent f =>
    unfold DebugExpr.render
    have := h f
    bal2
  | builder named ident fields =>
    unfold DebugExpr.render
    cases named <;> simp only [if_true, Bool.false_eq_true, if_false]
    · have := bal_foldl_wrap (absPath ["core", "fmt", "DebugTuple", "field"]) (fun f => "," ::: toExpr f)
        (by bal2) (fun f => by have := h f; bal2) fields
        ((["&", "mut"] : GToks) +++ absPath ["core", "fmt", "Formatter", "debug_tuple"] +++ paren ["__f", ",", nameLit ident])
        (by bal2)
      bal2
    · have := bal_foldl_wrap (absPath ["core", "fmt", "DebugStruct", "field"])
        (fun f => "," ::: nameLit f.member ::: "," ::: toExpr f)
        (by bal2) (fun f => by have := h f; bal2) fields
        ((["&", "mut"] : GToks) +++ absPath ["core", "fmt", "Formatter", "debug_struct"] +++ paren ["__f", ",", nameLit ident])
        (by bal2)
      bal2

set_option maxHeartbeats 400000 in
theorem bal_debug (d : DebugImpl) : Bal d.render := by
  unfold DebugImpl.render
  have htr : Bal Kind.debug.path := bal_kindPath _
  generalize Kind.debug.path = tr at htr ⊢
  have hb : Bal (match d.body with
    | .struct_ x => x.render fun f =>
        if d.unsizedLast == some f.index then ["&", "&", "self", ".", u f.member] else ["&", "self", ".", u f.member]
    | .enum_ arms =>
      matchSelf (arms.map fun (v, x) =>
        v.makePat "__field" +++ "=>" ::: x.render fun f => [f.makeIdent "__field"])) := by
    cases d.body with
    | struct_ x =>
      apply bal_debugExpr
      intro f
      split <;> bal2
    | enum_ arms =>
      apply bal_matchSelf_map
      rintro ⟨v, x⟩
      have h1 := bal_makePat v "__field" res_field
      have h2 : Bal (x.render fun f => [((f.makeIdent "__field" : String) : GTok)]) :=
        bal_debugExpr x _ (fun f => bal_single (plain_makeIdent _ f res_field))
      bal2
  simp only
  bal2

theorem bal_defVal (v : DefVal) : Bal v.render := by
  have hpp : Bal [("(" : GTok), (")" : GTok)] := by unfold Bal; exact fun _ => rfl
  cases v <;> (unfold DefVal.render; bal2)

set_option maxHeartbeats 400000 in
theorem bal_default (d : DefaultImpl) : Bal d.render := by
  unfold DefaultImpl.render
  have htr : Bal Kind.dflt.path := bal_kindPath _
  generalize Kind.dflt.path = tr at htr ⊢
  have hhead : Bal [fnM "default", ("(" : GTok), (")" : GTok), ("->" : GTok), ("Self" : GTok)] := by
    unfold Bal; exact fun _ => rfl
  have hv : Bal (match d.body with
    | .value (.raw e true) => paren (U e)
    | .value v => v.render
    | .ctor path src vals => U path +++ ctorArgs src (vals.map DefVal.render)) := by
    split
    · bal2
    · exact bal_defVal _
    · have := bal_ctorArgs_map (by assumption) (by assumption) DefVal.render bal_defVal
      bal2
  simp only
  bal2

theorem bal_derefTarget : Bal derefTargetToks := by
  unfold derefTargetToks
  have := bal_kindPath .deref
  bal2

theorem bal_derefSig (d : DerefImpl) : Bal d.sig := by
  unfold DerefImpl.sig
  have := bal_derefTarget
  split <;> bal2

theorem bal_deref (d : DerefImpl) : Bal d.render := by
  unfold DerefImpl.render
  have h1 := bal_kindPath .deref
  have h2 := bal_kindPath .derefMut
  have h3 := bal_derefSig d
  simp only
  cases d.mut_ <;> simp only [if_true, Bool.false_eq_true, if_false] <;> bal2

/-! ### the comparison family -/

theorem bal_applyTemplate (tmpl : Toks) (value : GToks) (h : Bal value) : Bal (applyTemplate tmpl value) := by
  unfold applyTemplate
  apply bal_flatMap'
  intro t
  split
  · exact h
  · exact bal_single (plain_u _)

theorem bal_selfOf (k : SrcKind) (f : FieldE) : Bal (selfOf k f) := by
  unfold selfOf; cases k <;> (simp only; bal2)
theorem bal_thisOf (k : SrcKind) (f : FieldE) : Bal (thisOf k f) := by
  unfold thisOf; cases k <;> (simp only; bal2)
theorem bal_otherOf (k : SrcKind) (f : FieldE) : Bal (otherOf k f) := by
  unfold otherOf; cases k <;> (simp only; bal2)

theorem bal_optOrdering : Bal optOrdering := by unfold optOrdering; bal2
theorem bal_ordering : Bal ordering := by unfold ordering; bal2
theorem bal_someEqual : Bal someEqual := by unfold someEqual; bal2
theorem bal_orderingEqual : Bal orderingEqual := by unfold orderingEqual; bal2
theorem bal_coreFn : Bal coreFn := by unfold coreFn; bal2
theorem bal_refT : Bal refT := by unfold refT; bal2
theorem bal_helperT : Bal helperT := by unfold helperT; bal2

theorem bal_helperFnBlock (id : String) (hid : plainTok ((id : String) : GTok) = true) (generics : GToks) (params : List GToks)
    (ret body : GToks) (args : List GToks) (hg : Bal generics) (hp : ∀ x ∈ params, Bal x) (hr : Bal ret) (hb : Bal body)
    (ha : ∀ x ∈ args, Bal x) : Bal (helperFnBlock id generics params ret body args) := by
  unfold helperFnBlock
  have h1 := bal_sepBy ("," : GTok) params (by decide) hp
  have h2 := bal_sepBy ("," : GTok) args (by decide) ha
  bal2

theorem bal_ufcs2 (path : List String) (a b : GToks) (hp : Bal (absPath path)) (ha : Bal a) (hb : Bal b) :
    Bal (ufcs2 path a b) := by
  unfold ufcs2; bal2

theorem bal_list3 {a b c : GToks} (ha : Bal a) (hb : Bal b) (hc : Bal c) : ∀ x ∈ [a, b, c], Bal x := by
  intro x hx
  simp only [List.mem_cons, List.mem_nil_iff, or_false] at hx
  rcases hx with rfl | rfl | rfl <;> assumption

theorem plain_idxLit (i : Nat) : plainTok (idxLit i) = true := by
  have h : ∃ c d r, (toString i ++ "usize").toList = c :: d :: r := by
    rw [String.toList_append]
    cases (toString i).toList with
    | nil => exact ⟨'u', 's', ['i', 'z', 'e'], rfl⟩
    | cons a as => exact ⟨a, (as ++ "usize".toList).head!, (as ++ "usize".toList).tail, by cases as <;> rfl⟩
  obtain ⟨c, d, r, hr⟩ := h
  have hh := not_delim_of_two _ c d r hr
  have hs : (idxLit i).strs = [toString i ++ "usize"] := rfl
  unfold plainTok
  rw [hs]
  simp only [List.all_cons, List.all_nil, Bool.and_true, hh, Bool.or_true]

set_option hygiene false in
macro "cmp_facts" : tactic => `(tactic| (
  have hrefT := bal_refT
  have hcoreFn := bal_coreFn
  have hoptOrd := bal_optOrdering
  have hord := bal_ordering
  have hsomeEq := bal_someEqual
  have hordEq := bal_orderingEqual
  have hhelperT := bal_helperT))

theorem bal_peExpr (k : SrcKind) (cf : CmpField) : Bal (peExpr k cf) := by
  unfold peExpr
  have hs := bal_selfOf k cf.f
  have ho := bal_otherOf k cf.f
  have hid := plain_makeIdent "__eq_" cf.f res_eq
  cmp_facts
  have hargs : ∀ e : Toks, ∀ a ∈ [("&" : GTok) ::: selfOf k cf.f, ("&" : GTok) ::: otherOf k cf.f, U e], Bal a := by
    intro e
    apply bal_list3 <;> bal2
  cases hsel : cf.sel with
  | by_ src e =>
    cases src <;>
    · simp only
      apply bal_helperFnBlock _ hid _ _ _ _ _ hhelperT
      · apply bal_list3 <;> bal2
      · bal2
      · bal2
      · exact hargs e
  | key src t =>
    exact bal_ufcs2 _ _ _ (by bal2) (bal_applyTemplate _ _ hs) (bal_applyTemplate _ _ ho)
  | dflt => exact bal_ufcs2 _ _ _ (by bal2) hs ho

theorem bal_eqChecker (this : GToks) (h : Bal this) : Bal (eqChecker this) := by
  unfold eqChecker; bal2

theorem bal_eqExpr (k : SrcKind) (cf : CmpField) : Bal (eqExpr k cf) := by
  unfold eqExpr
  have ht := bal_thisOf k cf.f
  cases cf.sel with
  | by_ _ _ => exact bal_nil
  | key _ t => exact bal_eqChecker _ (bal_applyTemplate _ _ ht)
  | dflt => exact bal_eqChecker _ ht

theorem bal_poExpr0 (k : SrcKind) (cf : CmpField) : Bal (poExpr0 k cf) := by
  unfold poExpr0
  have hs := bal_selfOf k cf.f
  have ho := bal_otherOf k cf.f
  have hid := plain_makeIdent "__partial_ord_" cf.f res_po
  cmp_facts
  have hargs : ∀ e : Toks, ∀ a ∈ [("&" : GTok) ::: selfOf k cf.f, ("&" : GTok) ::: otherOf k cf.f, U e], Bal a := by
    intro e
    apply bal_list3 <;> bal2
  cases hsel : cf.sel with
  | by_ src e =>
    cases src <;>
    · simp only
      apply bal_helperFnBlock _ hid _ _ _ _ _ hhelperT
      · apply bal_list3 <;> bal2
      · bal2
      · bal2
      · exact hargs e
  | key src t =>
    exact bal_ufcs2 _ _ _ (by bal2) (bal_applyTemplate _ _ hs) (bal_applyTemplate _ _ ho)
  | dflt => exact bal_ufcs2 _ _ _ (by bal2) hs ho

theorem bal_poExpr (k : SrcKind) (cf : CmpField) : Bal (poExpr k cf) := by
  unfold poExpr
  have := bal_poExpr0 k cf
  split <;> bal2

theorem bal_ordExpr0 (k : SrcKind) (cf : CmpField) : Bal (ordExpr0 k cf) := by
  unfold ordExpr0
  have hs := bal_selfOf k cf.f
  have ho := bal_otherOf k cf.f
  have hid := plain_makeIdent "__ord_" cf.f res_ord
  cmp_facts
  cases hsel : cf.sel with
  | by_ src e =>
    simp only
    apply bal_helperFnBlock _ hid _ _ _ _ _ hhelperT
    · apply bal_list3 <;> bal2
    · bal2
    · bal2
    · apply bal_list3 <;> bal2
  | key src t =>
    exact bal_ufcs2 _ _ _ (by bal2) (bal_applyTemplate _ _ hs) (bal_applyTemplate _ _ ho)
  | dflt => exact bal_ufcs2 _ _ _ (by bal2) hs ho

theorem bal_ordExpr (k : SrcKind) (cf : CmpField) : Bal (ordExpr k cf) := by
  unfold ordExpr
  have := bal_ordExpr0 k cf
  split <;> bal2

theorem bal_hashStmt (x : GToks) (h : Bal x) : Bal (hashStmt x) := by
  unfold hashStmt; bal2

theorem bal_hashExpr (k : SrcKind) (cf : CmpField) : Bal (hashExpr k cf) := by
  unfold hashExpr
  have hs := bal_selfOf k cf.f
  have hid := plain_makeIdent "__hash_" cf.f res_hash
  cmp_facts
  cases hsel : cf.sel with
  | by_ src e =>
    simp only
    apply bal_helperFnBlock _ hid
    · bal2
    · apply bal_list3 <;> bal2
    · exact bal_nil
    · bal2
    · apply bal_list3 <;> bal2
  | key src t => exact bal_hashStmt _ (bal_applyTemplate _ _ hs)
  | dflt => exact bal_hashStmt _ hs

theorem bal_toIndexFn (vs : List VariantE) : Bal (toIndexFn vs) := by
  unfold toIndexFn
  have hlit : Bal [("!" : GTok), ("(" : GTok), (")" : GTok), ("," : GTok)] := by unfold Bal; exact fun _ => rfl
  have harms : Bal (vs.zipIdx.flatMap fun (v, i) => paren v.makePatWildcard +++ ["=>", idxLit i, ","]) := by
    apply bal_flatMap'
    rintro ⟨v, i⟩
    have := plain_idxLit i
    have hw := bal_makePatWildcard v
    simp only
    bal2
  bal2

theorem bal_poStep (e : GToks) (h : Bal e) : Bal (poStep e) := by
  unfold poStep
  have := bal_someEqual
  have hlit : Bal [("=>" : GTok), ("{" : GTok), ("}" : GTok), ("__o" : GTok), ("=>" : GTok), ("return" : GTok), ("__o" : GTok), ("," : GTok)] := by
    unfold Bal; exact fun _ => rfl
  bal2

theorem bal_ordStep (e : GToks) (h : Bal e) : Bal (ordStep e) := by
  unfold ordStep
  have := bal_orderingEqual
  have hlit : Bal [("=>" : GTok), ("{" : GTok), ("}" : GTok), ("__o" : GTok), ("=>" : GTok), ("return" : GTok), ("__o" : GTok), ("," : GTok)] := by
    unfold Bal; exact fun _ => rfl
  bal2

theorem bal_cmpFieldsBody (op : CmpOp) (k : SrcKind) (fs : List CmpField) : Bal (cmpFieldsBody op k fs) := by
  unfold cmpFieldsBody
  cases op <;> simp only
  · exact bal_append (bal_flatMap' _ _ fun cf => bal_ordStep _ (bal_ordExpr k cf)) bal_orderingEqual
  · exact bal_append (bal_flatMap' _ _ fun cf => bal_poStep _ (bal_poExpr k cf)) bal_someEqual
  · exact bal_flatMap' _ _ (bal_eqExpr k)
  · split
    · bal2
    · exact bal_sepBy_map _ _ _ (by decide) fun cf => bal_paren (bal_peExpr k cf)
  · exact bal_flatMap' _ _ (bal_hashExpr k)

theorem bal_cmpThisTy (c : CmpImpl) : Bal c.thisTy := by unfold CmpImpl.thisTy; bal2

set_option maxHeartbeats 400000 in
theorem bal_cmpInner (c : CmpImpl) : Bal c.inner := by
  unfold CmpImpl.inner
  cases hb : c.body with
  | struct_ fs => exact bal_cmpFieldsBody _ _ _
  | enum_ vs =>
    have harms2 : ∀ op, Bal (vs.flatMap fun (p : VariantE × List CmpField) =>
        paren (p.1.makePat "__self" +++ "," ::: p.1.makePat "__other") +++ "=>" ::: brace (cmpFieldsBody op .enum_ p.2)) := by
      intro op
      apply bal_flatMap'
      rintro ⟨v, fs⟩
      have h1 := bal_makePat v _ res_self
      have h2 := bal_makePat v _ res_other
      have h3 := bal_cmpFieldsBody op .enum_ fs
      simp only
      bal2
    have hti := bal_toIndexFn (vs.map (·.1))
    have hunr : Bal [("!" : GTok), ("(" : GTok), (")" : GTok), ("," : GTok)] := by unfold Bal; exact fun _ => rfl
    have hlast : Bal [("_" : GTok), ("=>" : GTok), ("{" : GTok), ("}" : GTok)] := by unfold Bal; exact fun _ => rfl
    simp only
    cases c.op <;> simp only
    · have := harms2 .ord
      bal2
    · have := harms2 .partialOrd
      bal2
    · have : Bal (vs.flatMap fun (p : VariantE × List CmpField) =>
          p.1.makePatWith "__this" [u c.name] +++ "=>" ::: brace (cmpFieldsBody .eq .enum_ p.2)) := by
        apply bal_flatMap'
        rintro ⟨v, fs⟩
        have h1 := bal_makePatWith v _ res_this [u c.name] (bal_single (plain_u _))
        have h3 := bal_cmpFieldsBody .eq .enum_ fs
        simp only
        bal2
      bal2
    · have := harms2 .partialEq
      bal2
    · have : Bal (vs.flatMap fun (p : VariantE × List CmpField) =>
          p.1.makePat "__self" +++ "=>" ::: brace (cmpFieldsBody .hash .enum_ p.2)) := by
        apply bal_flatMap'
        rintro ⟨v, fs⟩
        have h1 := bal_makePat v _ res_self
        have h3 := bal_cmpFieldsBody .hash .enum_ fs
        simp only
        bal2
      bal2


set_option maxHeartbeats 800000 in
theorem bal_cmp (c : CmpImpl) : ∀ ts ∈ c.render, Bal ts := by
  intro ts hts
  unfold CmpImpl.render at hts
  have hp : Bal c.op.path := bal_cmpOpPath _
  have hw : Bal (c.wc.build fun ty => U ty.toks +++ ":" ::: c.op.path) := bal_where_simple _ _ hp
  have h1 := bal_cmpAttrs
  have h2 := bal_cmpAllowAttrs
  have h3 := bal_cmpThisTy c
  have h4 := bal_cmpInner c
  have h5 := bal_optOrdering
  have h6 := bal_ordering
  have hconst : Bal [("const" : GTok), ("_" : GTok), (":" : GTok), ("(" : GTok), (")" : GTok), ("=" : GTok)] := by
    unfold Bal; exact fun _ => rfl
  cases hop : c.op <;> rw [hop] at hts hw hp <;> simp only [List.mem_cons, List.not_mem_nil, or_false] at hts
  all_goals
    first
    | (subst hts; bal2)
    | (rcases hts with rfl | rfl <;> bal2)

theorem bal_opTraitPath (o : BinOp) (f : OpForm) : Bal (opTraitPath o f) := by
  unfold opTraitPath
  cases o <;> cases f <;> exact bal_all_plain _ (by decide)

theorem plain_opFunc (o : BinOp) (f : OpForm) : plainTok (fnM (opFunc o f)) = true ∧ plainTok (pathM (opFunc o f)) = true := by
  cases o <;> cases f <;> decide

theorem bal_changeOwned (expr : GToks) (ty : Ty) (a b : Bool) (h : Bal expr) : Bal (changeOwned expr ty a b) := by
  unfold changeOwned
  cases a <;> cases b <;> simp only <;> bal2

set_option maxHeartbeats 800000 in
theorem bal_fwdItem (f : FwdImpl) (it : FwdItem) : Bal (f.renderItem it) := by
  have hself : Bal (["self"] : GToks) := by bal
  have hrhs : Bal (["__rhs"] : GToks) := by bal
  have hb := bal_opTraitPath f.op .binary
  have ha := bal_opTraitPath f.op .assign
  have hf1 := (plain_opFunc f.op .binary).1
  have hf2 := (plain_opFunc f.op .binary).2
  have hf3 := (plain_opFunc f.op .assign).1
  have hf4 := (plain_opFunc f.op .assign).2
  cases it with
  | binary l r =>
    have h1 := bal_changeOwned _ f.this l f.thisIsRef hself
    have h2 := bal_changeOwned _ f.rhs r f.rhsIsRef hrhs
    unfold FwdImpl.renderItem
    simp only
    bal2
  | assign rhs callL =>
    have h1 := bal_changeOwned _ f.this true callL hself
    unfold FwdImpl.renderItem
    simp only
    bal2
  | binFromAssign =>
    unfold FwdImpl.renderItem
    simp only
    bal2

theorem bal_fwd (f : FwdImpl) : ∀ ts ∈ f.render, Bal ts := by
  intro ts hts
  simp only [FwdImpl.render, List.mem_map] at hts
  obtain ⟨it, _, rfl⟩ := hts
  exact bal_fwdItem f it

/-! ### every expansion -/

theorem bal_genImpl (g : GenImpl) : ∀ ts ∈ g.render, Bal ts := by
  cases g with
  | cmp c => exact bal_cmp c
  | ops o => exact bal_ops o
  | clone c => intro ts h; simp only [GenImpl.render, List.mem_cons, List.not_mem_nil, or_false] at h; subst h; exact bal_clone c
  | copy c => intro ts h; simp only [GenImpl.render, List.mem_cons, List.not_mem_nil, or_false] at h; subst h; exact bal_copy c
  | debug d => intro ts h; simp only [GenImpl.render, List.mem_cons, List.not_mem_nil, or_false] at h; subst h; exact bal_debug d
  | dflt d => intro ts h; simp only [GenImpl.render, List.mem_cons, List.not_mem_nil, or_false] at h; subst h; exact bal_default d
  | deref d => intro ts h; simp only [GenImpl.render, List.mem_cons, List.not_mem_nil, or_false] at h; subst h; exact bal_deref d

theorem bal_entrySegs (i : Nat) (e : Entry) (o : EntryOut) : ∀ seg ∈ entrySegs i e o, Bal seg.tokens := by
  intro seg hseg
  unfold entrySegs at hseg
  cases o with
  | ok g =>
    simp only [List.mem_map] at hseg
    obtain ⟨⟨ts, j⟩, hmem, rfl⟩ := hseg
    exact bal_genImpl g ts (fst_mem_of_mem_zipIdx _ _ _ hmem)
  | dump g =>
    simp only [List.mem_cons, List.not_mem_nil, or_false] at hseg
    subst hseg
    exact bal_flatten _ (bal_genImpl g)
  | err =>
    simp only [List.mem_cons, List.not_mem_nil, or_false] at hseg
    subst hseg
    exact bal_nil

theorem bal_coreSegs (r : R (List (Entry × EntryOut))) : ∀ seg ∈ coreSegs r, Bal seg.tokens := by
  intro seg hseg
  unfold coreSegs at hseg
  cases r with
  | error _ =>
    simp only [List.mem_cons, List.not_mem_nil, or_false] at hseg
    subst hseg; exact bal_nil
  | ok xs =>
    simp only [List.mem_flatMap] at hseg
    obtain ⟨⟨⟨e, o⟩, i⟩, _, h⟩ := hseg
    exact bal_entrySegs i e o seg h

theorem bal_implSegs (attr : Args) (i : ItemImpl) : ∀ seg ∈ implSegs attr i, Bal seg.tokens := by
  intro seg hseg
  unfold implSegs at hseg
  cases hb : buildFwd attr i with
  | error _ =>
    rw [hb] at hseg
    simp only [List.mem_cons, List.not_mem_nil, or_false] at hseg
    subst hseg; exact bal_nil
  | ok f =>
    rw [hb] at hseg
    simp only at hseg
    split at hseg
    · simp only [List.mem_cons, List.not_mem_nil, or_false] at hseg
      subst hseg
      exact bal_flatten _ (bal_fwd f)
    · simp only [List.mem_map] at hseg
      obtain ⟨⟨ts, j⟩, hmem, rfl⟩ := hseg
      exact bal_fwd f ts (fst_mem_of_mem_zipIdx _ _ _ hmem)

/-- **Every segment the attribute macro emits is a sequence of token trees**: for every item and every argument list, the
delimiters the expander writes are balanced and properly nested in every segment (tokens copied from the input — the
re-emitted item, types, expressions, predicates — arrive as token trees and are skipped). -/
theorem attr_output_balanced (attr : Args) (item : Item) : ∀ seg ∈ expandAttr attr item, Bal seg.tokens := by
  intro seg hseg
  unfold expandAttr at hseg
  cases item with
  | struct_ s =>
    simp only [List.mem_cons] at hseg
    rcases hseg with rfl | h
    · exact bal_U _
    · exact bal_coreSegs _ seg h
  | enum_ e =>
    simp only [List.mem_cons] at hseg
    rcases hseg with rfl | h
    · exact bal_U _
    · exact bal_coreSegs _ seg h
  | impl_ i =>
    simp only [List.mem_cons] at hseg
    rcases hseg with rfl | h
    · exact bal_U _
    · exact bal_implSegs attr i seg h
  | other ts =>
    simp only [List.mem_cons, List.not_mem_nil, or_false] at hseg
    rcases hseg with rfl | rfl
    · exact bal_U _
    · exact bal_nil

/-- … and so is every segment `#[derive(Ex)]` emits -/
theorem derive_output_balanced (item : Item) : ∀ seg ∈ expandDerive item, Bal seg.tokens := by
  intro seg hseg
  unfold expandDerive at hseg
  cases item with
  | struct_ s => exact bal_coreSegs _ seg hseg
  | enum_ e => exact bal_coreSegs _ seg hseg
  | impl_ i => simp only [List.mem_cons, List.not_mem_nil, or_false] at hseg; subst hseg; exact bal_nil
  | other ts => simp only [List.mem_cons, List.not_mem_nil, or_false] at hseg; subst hseg; exact bal_nil

/-- what `Bal` says, unfolded: scanning the written tokens with a stack of open delimiters, starting from any stack,
ends with the same stack — no closing delimiter without its opener, no opener left open, no `(` closed by `]` -/
theorem bal_iff (l : GToks) : Bal l ↔ ∀ st, scan (skel l) st = some st := by unfold Bal; exact Iff.rfl

/-- non-vacuity: an unbalanced list is not `Bal` -/
example : ¬ Bal [("(" : GTok)] := by
  rw [bal_iff]
  intro h
  have := h []
  exact absurd this (by decide)

end DX

namespace DX

/-! ### every segment begins like an item

Each generated segment starts with `#[automatically_derived] impl` (for the hidden `Eq` checker: with
`const _: () = {` ) — it is an item, not a stray expression or a fragment. -/

theorem strs_append (a b : GToks) : GToks.strs (a ++ b) = GToks.strs a ++ GToks.strs b := by simp [GToks.strs]

def itemHead : List String :=
  ["#", "[", "allow", "(", "deprecated", ",", "non_camel_case_types", ",", "non_snake_case", ",", "non_upper_case_globals", ")", "]",
   "#", "[", "automatically_derived", "]"]

/-- the segment starts with `#[allow(..)] #[automatically_derived]` or with `const _` -/
def StartsLikeItem (ts : GToks) : Prop :=
  (∃ rest, GToks.strs ts = itemHead ++ rest) ∨ (∃ rest, GToks.strs ts = "const" :: "_" :: rest)

theorem autoDerived_strs : GToks.strs autoDerived = itemHead := by decide

theorem prefix_append_left {p : List String} {a : GToks} (b : GToks) (h : ∃ rest, GToks.strs a = p ++ rest) :
    ∃ rest, GToks.strs (a ++ b) = p ++ rest := by
  obtain ⟨r, hr⟩ := h
  exact ⟨r ++ GToks.strs b, by rw [strs_append, hr, List.append_assoc]⟩

theorem starts_implItem (implG trait_ selfTy wheres body : GToks) :
    StartsLikeItem (implItem autoDerived implG trait_ selfTy wheres body) := by
  left
  unfold implItem
  simp only [gapp_eq, gcons_eq]
  repeat (first | exact ⟨[], by rw [autoDerived_strs, List.append_nil]⟩ | apply prefix_append_left)

theorem starts_ops (o : OpsImpl) : ∀ ts ∈ o.render, StartsLikeItem ts := by
  intro ts hts
  simp only [OpsImpl.render, List.mem_map] at hts
  obtain ⟨⟨⟨l, r⟩, w⟩, hmem, rfl⟩ := hts
  have hf := (List.of_mem_zip hmem).1
  unfold OpsImpl.renderForm
  cases hk : o.kind <;> simp only [hk, opForms, List.not_mem_nil] at hf ⊢
  all_goals exact starts_implItem _ _ _ _ _

theorem starts_clone (c : CloneImpl) : StartsLikeItem c.render := by unfold CloneImpl.render; exact starts_implItem _ _ _ _ _
theorem starts_copy (c : CopyImpl) : StartsLikeItem c.render := by unfold CopyImpl.render; exact starts_implItem _ _ _ _ _
theorem starts_debug (d : DebugImpl) : StartsLikeItem d.render := by unfold DebugImpl.render; exact starts_implItem _ _ _ _ _
theorem starts_default (d : DefaultImpl) : StartsLikeItem d.render := by unfold DefaultImpl.render; exact starts_implItem _ _ _ _ _
theorem starts_deref (d : DerefImpl) : StartsLikeItem d.render := by unfold DerefImpl.render; exact starts_implItem _ _ _ _ _

theorem cmpAttrs_head : ∃ rest, GToks.strs cmpAttrs = itemHead ++ rest :=
  ⟨GToks.strs (genAttr ["allow", "(", "clippy", "::", "double_parens", ")"] +++ genAttr ["allow", "(", "unused_parens", ")"]), by decide⟩

theorem starts_cmp (c : CmpImpl) : ∀ ts ∈ c.render, StartsLikeItem ts := by
  intro ts hts
  unfold CmpImpl.render at hts
  cases hop : c.op <;> rw [hop] at hts <;> simp only [List.mem_cons, List.not_mem_nil, or_false] at hts
  all_goals
    first
    | (subst hts
       left
       simp only [gapp_eq, gcons_eq]
       repeat (first | exact cmpAttrs_head | apply prefix_append_left))
    | (rcases hts with rfl | rfl
       · left
         simp only [gapp_eq, gcons_eq]
         repeat (first | exact cmpAttrs_head | apply prefix_append_left)
       · right
         exact ⟨_, rfl⟩)

theorem starts_fwd (f : FwdImpl) : ∀ ts ∈ f.render, StartsLikeItem ts := by
  intro ts hts
  simp only [FwdImpl.render, List.mem_map] at hts
  obtain ⟨it, _, rfl⟩ := hts
  cases it <;> (unfold FwdImpl.renderItem; exact starts_implItem _ _ _ _ _)

theorem starts_genImpl (g : GenImpl) : ∀ ts ∈ g.render, StartsLikeItem ts := by
  cases g with
  | cmp c => exact starts_cmp c
  | ops o => exact starts_ops o
  | clone c => intro ts h; simp only [GenImpl.render, List.mem_cons, List.not_mem_nil, or_false] at h; subst h; exact starts_clone c
  | copy c => intro ts h; simp only [GenImpl.render, List.mem_cons, List.not_mem_nil, or_false] at h; subst h; exact starts_copy c
  | debug d => intro ts h; simp only [GenImpl.render, List.mem_cons, List.not_mem_nil, or_false] at h; subst h; exact starts_debug d
  | dflt d => intro ts h; simp only [GenImpl.render, List.mem_cons, List.not_mem_nil, or_false] at h; subst h; exact starts_default d
  | deref d => intro ts h; simp only [GenImpl.render, List.mem_cons, List.not_mem_nil, or_false] at h; subst h; exact starts_deref d

/-- every impl an accepted, undumped entry yields starts like an item -/
theorem entry_items_start_like_items (i : Nat) (e : Entry) (g : GenImpl) :
    ∀ seg ∈ entrySegs i e (.ok g), ∃ ts, seg.body = .toks ts ∧ StartsLikeItem ts := by
  intro seg hseg
  simp only [entrySegs, List.mem_map] at hseg
  obtain ⟨⟨ts, j⟩, hmem, rfl⟩ := hseg
  exact ⟨ts, rfl, starts_genImpl g ts (fst_mem_of_mem_zipIdx _ _ _ hmem)⟩

end DX
