import DeriveExModel.Props.C14
/-
C15 — same impls via either entry point, merged or split lists, any co-derived set.
-/
namespace DX

/-! ### either entry point -/

theorem fromAttrs_cons_deriveEx (a : Args) (attrs : List Attr) (t : Target) (k : Kinds) (hk : k.deriveEx = false) :
    HAttrs.fromAttrs (.deriveEx a :: attrs) t k = HAttrs.fromAttrs attrs t k := by
  simp [HAttrs.fromAttrs, itemsPart, dfltPart, debugPart, cmpPart, hk, DefaultH.fromAttrs, DebugH.fromAttrs,
    CmpHs.fromAttrs, CmpH.fromAttrs, defaultBodies, debugBodies, cmpBodies, List.filterMap_cons]

theorem fromRoot_cons_deriveEx (a : Args) (attrs : List Attr) :
    Entry.fromRoot none (.deriveEx a :: attrs) = Entry.fromRoot (some a) attrs := by
  simp [Entry.fromRoot, deriveExArgs, List.filterMap_cons]

/-- no builder reads the item's own attribute list -/
theorem buildStructEntry_attrs (s : ItemStruct) (attrs' : List Attr) (h : HAttrs) (fields : List FieldE) (e : Entry) :
    buildStructEntry { s with attrs := attrs' } h fields e = buildStructEntry s h fields e := by
  unfold buildStructEntry
  cases e.kind <;> rfl

theorem buildEnumEntry_attrs (en : ItemEnum) (attrs' : List Attr) (h : HAttrs) (variants : List VariantE) (e : Entry) :
    buildEnumEntry { en with attrs := attrs' } h variants e = buildEnumEntry en h variants e := by
  unfold buildEnumEntry
  cases e.kind <;> rfl

/-- `#[derive_ex(args)] struct …` and `#[derive(Ex)] #[derive_ex(args)] struct …` generate the same impls -/
theorem entry_equiv_struct (args : Args) (s : ItemStruct) :
    (structCore (some args) s).result =
      (structCore none { s with attrs := .deriveEx args :: s.attrs }).result := by
  unfold structCore
  simp only [fromRoot_cons_deriveEx]
  cases hes : Entry.fromRoot (some args) s.attrs with
  | error _ => rfl
  | ok es =>
    simp only
    rw [fromAttrs_cons_deriveEx _ _ _ _ (by rfl)]
    simp only [buildStructEntry_attrs]

theorem entry_equiv_enum (args : Args) (e : ItemEnum) :
    (enumCore (some args) e).result =
      (enumCore none { e with attrs := .deriveEx args :: e.attrs }).result := by
  unfold enumCore
  simp only [fromRoot_cons_deriveEx]
  cases hes : Entry.fromRoot (some args) e.attrs with
  | error _ => rfl
  | ok es =>
    simp only
    rw [fromAttrs_cons_deriveEx _ _ _ _ (by rfl)]
    simp only [buildEnumEntry_attrs]

/-- the segments after the re-emitted item are the segments of the derive entry point -/
theorem entry_equiv_segments_struct (args : Args) (s : ItemStruct) :
    (expandAttr args (.struct_ s)).tail =
      expandDerive (.struct_ { s with attrs := .deriveEx args :: s.attrs }) := by
  simp [expandAttr, expandDerive, entry_equiv_struct]

theorem entry_equiv_segments_enum (args : Args) (e : ItemEnum) :
    (expandAttr args (.enum_ e)).tail =
      expandDerive (.enum_ { e with attrs := .deriveEx args :: e.attrs }) := by
  simp [expandAttr, expandDerive, entry_equiv_enum]

/-! ### merged or split lists -/

theorem mapM_append_R {α β} (f : α → R β) (l₁ l₂ : List α) :
    (l₁ ++ l₂).mapM f = (do let a ← l₁.mapM f; let b ← l₂.mapM f; pure (a ++ b)) := by
  induction l₁ with
  | nil =>
    simp only [List.nil_append, List.mapM_nil, bind, Except.bind, pure, Except.pure]
    cases l₂.mapM f <;> rfl
  | cons x xs ih =>
    simp only [List.cons_append, List.mapM_cons, ih, bind, Except.bind, pure, Except.pure]
    cases f x with
    | error _ => rfl
    | ok y =>
      cases xs.mapM f with
      | error _ => rfl
      | ok ys => cases l₂.mapM f <;> rfl

/-- splitting one `derive_ex(..)` list into two attributes that repeat the shared
arguments yields the same entries, in the same order -/
theorem split_equiv (i₁ i₂ : List DeriveItem) (bound : Option (List BoundArg)) (dump : Bool) (rest : List Args) :
    Entry.ofArgsList ({ items := i₁ ++ i₂, bound, dump } :: rest) =
      Entry.ofArgsList ({ items := i₁, bound, dump } :: { items := i₂, bound, dump } :: rest) := by
  cases hb : boundOk bound with
  | false => simp [Entry.ofArgsList, List.mapM_cons, Entry.ofArgs, hb, bail, bind, Except.bind]
  | true =>
    simp only [Entry.ofArgsList, List.mapM_cons, Entry.ofArgs, hb, if_true, mapM_append_R, bind, Except.bind, pure, Except.pure]
    cases h1 : List.mapM (Entry.ofItem bound dump) i₁ with
    | error _ => rfl
    | ok a =>
      cases h2 : List.mapM (Entry.ofItem bound dump) i₂ with
      | error _ => rfl
      | ok b =>
        cases List.mapM Entry.ofArgs rest with
        | error _ => rfl
        | ok c => simp [List.flatten_cons, List.append_assoc]

/-- impls appear in the order the traits were listed -/
theorem order_preserved (r : List (Entry × EntryOut)) :
    coreSegs (Except.ok r) = (r.zipIdx).flatMap fun ((e, o), i) => entrySegs i e o := rfl

/-! ### any co-derived set -/

theorem parseSingle_nil {α} (d : α) (check : α → R α) : parseSingle ([] : List (HBody α)) d check = .ok none := rfl

/-- helper attributes are parsed the same under two sets of derived traits that
recognise the same attributes *among those actually present* -/
theorem fromAttrs_congr (attrs : List Attr) (t : Target) (k k' : Kinds)
    (hde : k.deriveEx = k'.deriveEx)
    (hd : k.dflt = k'.dflt ∨ defaultBodies attrs = [])
    (hg : k.debug = k'.debug ∨ debugBodies attrs = [])
    (hc : ∀ w, k.matchCmp w = k'.matchCmp w ∨ cmpBodies attrs w = []) :
    HAttrs.fromAttrs attrs t k = HAttrs.fromAttrs attrs t k' := by
  have hI : itemsPart attrs k = itemsPart attrs k' := by simp [itemsPart, hde]
  have hD : dfltPart attrs k = dfltPart attrs k' := by
    unfold dfltPart
    rcases hd with h | h
    · rw [h]
    · have : DefaultH.fromAttrs attrs = pure none := by
        simp [DefaultH.fromAttrs, h, parseSingle, bind, Except.bind, pure, Except.pure]
      cases k.dflt <;> cases k'.dflt <;> simp [this]
  have hG : debugPart attrs k = debugPart attrs k' := by
    unfold debugPart
    rcases hg with h | h
    · rw [h]
    · have : DebugH.fromAttrs attrs = pure {} := by
        simp [DebugH.fromAttrs, h, parseSingle, bind, Except.bind, pure, Except.pure]
      cases k.debug <;> cases k'.debug <;> simp [this]
  have hC : ∀ w, cmpPart attrs k w = cmpPart attrs k' w := by
    intro w
    unfold cmpPart
    rcases hc w with h | h
    · rw [h]
    · have : CmpH.fromAttrs attrs w = pure {} := by
        simp [CmpH.fromAttrs, h, parseSingle, bind, Except.bind, pure, Except.pure]
      cases k.matchCmp w <;> cases k'.matchCmp w <;> simp [this]
  unfold HAttrs.fromAttrs CmpHs.fromAttrs
  simp only [hI, hD, hG, hC]

end DX
