import DeriveExModel.Lemmas.Kinds
/- definitions shared by Props/Tables.lean and the table diagnostic -/
namespace DX

def maskKinds (mask : Nat) : List Kind :=
  ([Kind.cmp .ord, .cmp .partialOrd, .cmp .eq, .cmp .partialEq, .cmp .hash, .debug, .dflt].zipIdx).filterMap
    fun (k, i) => if (mask >>> i) % 2 == 1 then some k else none

def attrOfIdx : Nat → Attr
  | 0 => .cmp .ord .path | 1 => .cmp .partialOrd .path | 2 => .cmp .eq .path | 3 => .cmp .partialEq .path
  | 4 => .cmp .hash .path | 5 => .debug .path | 6 => .dflt .path | _ => .deriveEx {}

/-- trait name → `::core` path and method names, as emitted by the real expander on `struct X(i8);` -/
def modelTraitRow (name : String) : Option (String × List String) :=
  match Kind.fromStr name with
  | none => none
  | some k =>
    let path := canon (k.path +++ (match k with | .bin _ | .assign _ => angle ["X"] | _ => [])).strs
    let methods : List String := match k with
      | .bin o => [o.func] | .assign o => [o.func ++ "_assign"] | .un o => [o.func]
      | .cmp .ord => ["cmp"] | .cmp .partialOrd => ["partial_cmp"] | .cmp .eq => [] | .cmp .partialEq => ["eq"]
      | .cmp .hash => ["hash"] | .copy => [] | .clone => ["clone", "clone_from"] | .debug => ["fmt"]
      | .dflt => ["default"] | .deref => ["deref"] | .derefMut => ["deref_mut"]
    some (path, methods)

end DX
