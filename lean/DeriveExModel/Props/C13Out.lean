import DeriveExModel.ItemImpl
/-!
# No generated `Self::Output` in the impls derived from an annotated impl (F33)

In an impl generated from the user's `impl Op<R> for X` the self type is the user's and may be an enum; `Self::Output` would
then be looked up among its variants first (`enum E { Output, .. }`: deny-by-default lint `ambiguous_associated_items`).
`fwd_no_generated_self_output`: for every annotated impl and every requested form, no token the expander itself writes in a
generated impl is the member `::Output` — the output type is written out.  (Tokens copied from the user's impl are not the
expander's: whatever the user wrote there, the user's own impl contains as well.)
-/
namespace DX

/-- not the generated member `::Output` -/
def noOut (t : GTok) : Bool := !(t.p == .mem && (t.pre == "::" && t.s == "Output"))
def NoOut (l : GToks) : Prop := ∀ t ∈ l, noOut t = true

theorem noOut_nil : NoOut [] := by intro t h; cases h
@[simp] theorem noOut_nil' : NoOut [] ↔ True := iff_true_intro noOut_nil
@[simp] theorem noOut_append {a b : GToks} : NoOut (a ++ b) ↔ NoOut a ∧ NoOut b := by
  unfold NoOut
  constructor
  · intro h; exact ⟨fun t ht => h t (List.mem_append_left _ ht), fun t ht => h t (List.mem_append_right _ ht)⟩
  · intro h t ht
    rcases List.mem_append.1 ht with ht | ht
    · exact h.1 t ht
    · exact h.2 t ht
@[simp] theorem noOut_cons {t : GTok} {l : GToks} : NoOut (t :: l) ↔ noOut t = true ∧ NoOut l := by
  unfold NoOut
  constructor
  · intro h; exact ⟨h t (List.mem_cons_self ..), fun u hu => h u (List.mem_cons_of_mem _ hu)⟩
  · intro h u hu
    rcases List.mem_cons.1 hu with rfl | hu
    · exact h.1
    · exact h.2 u hu
@[simp] theorem noOut_gapp {a b : GToks} : NoOut (a +++ b) ↔ NoOut a ∧ NoOut b := noOut_append
@[simp] theorem noOut_gcons {t : GTok} {l : GToks} : NoOut (t ::: l) ↔ noOut t = true ∧ NoOut l := noOut_cons

/-- a token that is not a member name passes -/
theorem noOut_of_prov (t : GTok) (h : t.p ≠ .mem) : noOut t = true := by
  unfold noOut
  have : (t.p == Prov.mem) = false := by
    cases hp : t.p with
    | mem => exact absurd hp h
    | _ => rfl
  rw [this]; rfl
@[simp] theorem noOut_lit (s : String) : noOut ((s : String) : GTok) = true := noOut_of_prov _ (fun h => by cases h)
@[simp] theorem noOut_u (s : String) : noOut (u s) = true := noOut_of_prov _ (fun h => by cases h)
@[simp] theorem noOut_fnM (s : String) : noOut (fnM s) = true := by unfold noOut fnM; simp
@[simp] theorem noOut_typeM (s : String) : noOut (typeM s) = true := by unfold noOut typeM; simp

@[simp] theorem noOut_U (ts : Toks) : NoOut (U ts) ↔ True := by
  refine iff_true_intro ?_
  intro t ht
  simp only [U, List.mem_map] at ht
  obtain ⟨s, _, rfl⟩ := ht
  exact noOut_of_prov _ (fun h => by cases h)

@[simp] theorem noOut_absPath (segs : List String) : NoOut (absPath segs) ↔ True := by
  refine iff_true_intro ?_
  cases segs with
  | nil => exact noOut_nil
  | cons r rest =>
    intro t ht
    simp only [absPath, List.mem_cons, List.mem_map] at ht
    rcases ht with rfl | ⟨s, _, rfl⟩ <;> exact noOut_of_prov _ (fun h => by cases h)

@[simp] theorem noOut_genAttr (xs : List String) : NoOut (genAttr xs) ↔ True := by
  refine iff_true_intro ?_
  intro t ht
  simp only [genAttr, List.mem_cons, List.mem_append, List.mem_map, List.not_mem_nil, or_false] at ht
  rcases ht with rfl | rfl | ⟨s, _, rfl⟩ | rfl <;> exact noOut_of_prov _ (fun h => by cases h)

theorem noOut_wrap (o c : String) {l : GToks} :
    NoOut ((OfStr.ofStr o : GTok) :: l ++ [(OfStr.ofStr c : GTok)]) ↔ NoOut l := by
  have ho : noOut (OfStr.ofStr o : GTok) = true := noOut_of_prov _ (fun h => by cases h)
  have hc : noOut (OfStr.ofStr c : GTok) = true := noOut_of_prov _ (fun h => by cases h)
  rw [noOut_append, noOut_cons, noOut_cons]
  constructor
  · intro h; exact h.1.2
  · intro h; exact ⟨⟨ho, h⟩, hc, noOut_nil⟩
@[simp] theorem noOut_paren {l : GToks} : NoOut (paren l) ↔ NoOut l := noOut_wrap "(" ")"
@[simp] theorem noOut_brace {l : GToks} : NoOut (brace l) ↔ NoOut l := noOut_wrap "{" "}"
@[simp] theorem noOut_angle {l : GToks} : NoOut (angle l) ↔ NoOut l := noOut_wrap "<" ">"

theorem opFunc_ne_output (o : BinOp) (f : OpForm) : opFunc o f ≠ "Output" := by
  cases o <;> cases f <;> decide

@[simp] theorem noOut_pathM_opFunc (o : BinOp) (f : OpForm) : noOut (pathM (opFunc o f)) = true := by
  unfold noOut pathM
  have h := opFunc_ne_output o f
  simp [h]

@[simp] theorem noOut_pathM_clone : noOut (pathM "clone") = true := by decide

theorem noOut_changeOwned (expr : GToks) (ty : Ty) (a b : Bool) (h : NoOut expr) : NoOut (changeOwned expr ty a b) := by
  unfold changeOwned
  cases a <;> cases b <;> simp [ufcs, h]

/-- **no generated impl says `Self::Output`** — nor any other `::Output` of its own: the output type is written out -/
theorem fwd_no_generated_self_output (f : FwdImpl) : ∀ ts ∈ f.render, NoOut ts := by
  intro ts hts
  simp only [FwdImpl.render, List.mem_map] at hts
  obtain ⟨it, _, rfl⟩ := hts
  have hself : NoOut (["self"] : GToks) := by simp
  have hrhs : NoOut (["__rhs"] : GToks) := by simp
  cases it with
  | binary l r =>
    simp [FwdImpl.renderItem, implItem, autoDerived, allowUserLints, ufcs, opTraitPath,
      noOut_changeOwned _ _ _ _ hself, noOut_changeOwned _ _ _ _ hrhs]
  | assign rhs callL =>
    simp [FwdImpl.renderItem, implItem, autoDerived, allowUserLints, ufcs, opTraitPath,
      noOut_changeOwned _ _ _ _ hself]
  | binFromAssign =>
    simp [FwdImpl.renderItem, implItem, autoDerived, allowUserLints, ufcs, opTraitPath]

/-- the predicate is not vacuous: the member it excludes is refused, the associated type *definition* `type Output` is not -/
example : noOut (pathM "Output") = false := by decide
example : noOut (typeM "Output") = true := by decide

end DX
