import DeriveExModel.Lemmas.Kinds
/-
C14 — the item is re-emitted unchanged apart from derive_ex's own attributes.
-/
namespace DX

theorem removeAttrs_extend (es : List Entry) (attrs : List Attr) :
    removeAttrs attrs ((Kinds.new true).extend es) = docStripAttrs (es.map (·.kind)) attrs := by
  unfold removeAttrs docStripAttrs
  congr 1
  funext a
  rw [isMatch_extend]

theorem stripStruct_extend (es : List Entry) (s : ItemStruct) :
    stripStruct ((Kinds.new true).extend es) s = docStripStruct (es.map (·.kind)) s := by
  simp [stripStruct, docStripStruct, stripFields, docStripFields, stripField, removeAttrs_extend]

theorem stripEnum_extend (es : List Entry) (e : ItemEnum) :
    stripEnum ((Kinds.new true).extend es) e = docStripEnum (es.map (·.kind)) e := by
  simp [stripEnum, docStripEnum, stripFields, docStripFields, stripField, removeAttrs_extend]

/-- the first emitted segment -/
def itemSeg (segs : List OSeg) : Option Toks :=
  match segs with
  | { label := _, body := .toks ts } :: _ => some ts.strs
  | _ => none

/-- struct: when the trait list parses, the re-emitted item is the input minus exactly
the attributes the documentation assigns to the derived traits — everything else
(visibility, generics, fields, foreign attributes, their order) is printed as written -/
theorem reemit_exact_struct (args : Args) (s : ItemStruct) (es : List Entry)
    (hes : Entry.fromRoot (some args) s.attrs = .ok es) :
    itemSeg (expandAttr args (.struct_ s)) = some (docStripStruct (es.map (·.kind)) s).toks := by
  simp [expandAttr, itemSeg, structCore, hes, stripStruct_extend]

theorem reemit_exact_enum (args : Args) (e : ItemEnum) (es : List Entry)
    (hes : Entry.fromRoot (some args) e.attrs = .ok es) :
    itemSeg (expandAttr args (.enum_ e)) = some (docStripEnum (es.map (·.kind)) e).toks := by
  simp [expandAttr, itemSeg, enumCore, hes, stripEnum_extend]

/-- when even the trait list is rejected the item is still emitted, minus only the
`derive_ex` attributes -/
theorem reemit_on_arg_error_struct (args : Args) (s : ItemStruct)
    (hes : Entry.fromRoot (some args) s.attrs = .error ()) :
    itemSeg (expandAttr args (.struct_ s)) = some (docStripStruct [] s).toks := by
  have h0 : stripStruct (Kinds.new true) s = docStripStruct [] s := by
    have := stripStruct_extend [] s
    simpa [Kinds.extend] using this
  simp [expandAttr, itemSeg, structCore, hes, h0]

theorem reemit_on_arg_error_enum (args : Args) (e : ItemEnum)
    (hes : Entry.fromRoot (some args) e.attrs = .error ()) :
    itemSeg (expandAttr args (.enum_ e)) = some (docStripEnum [] e).toks := by
  have h0 : stripEnum (Kinds.new true) e = docStripEnum [] e := by
    have := stripEnum_extend [] e
    simpa [Kinds.extend] using this
  simp [expandAttr, itemSeg, enumCore, hes, h0]

/-- `impl` items and unsupported items are re-emitted verbatim -/
theorem reemit_impl (args : Args) (i : ItemImpl) : itemSeg (expandAttr args (.impl_ i)) = some i.toks := by
  simp [expandAttr, itemSeg]
theorem reemit_other (args : Args) (ts : Toks) : itemSeg (expandAttr args (.other ts)) = some ts := by
  simp [expandAttr, itemSeg]

/-- on every path (success, per-trait error, whole-item error) an item segment is emitted -/
theorem item_always_emitted (args : Args) (item : Item) : (itemSeg (expandAttr args item)).isSome = true := by
  cases item <;> simp [expandAttr, itemSeg]

/-- foreign attributes are never removed, whatever is derived, and the surviving
attributes keep their order -/
theorem foreign_kept (derived : List Kind) (attrs : List Attr) (ts : Toks)
    (h : Attr.foreign ts ∈ attrs) : Attr.foreign ts ∈ docStripAttrs derived attrs := by
  simp [docStripAttrs, List.mem_filter, h, docOwnsAttr]

theorem strip_is_sublist (derived : List Kind) (attrs : List Attr) :
    (docStripAttrs derived attrs).Sublist attrs := List.filter_sublist

/-- helper-named attributes of traits that are not derived are kept -/
theorem underived_helper_kept (derived : List Kind) (attrs : List Attr) (w : CmpAttr) (b : HBody CmpArgs)
    (h : Attr.cmp w b ∈ attrs) (hn : ∀ t, docOwns w t = true → derives derived (.cmp t) = false) :
    Attr.cmp w b ∈ docStripAttrs derived attrs := by
  simp only [docStripAttrs, List.mem_filter, h, true_and, docOwnsAttr, Bool.not_eq_true', List.any_eq_false]
  intro t _
  cases ho : docOwns w t
  · simp
  · simp [hn t ho]

/-! ### foreign attributes are invisible to the generator

Everything the expander reads from an attribute list — the `derive_ex` lists, the helper attributes — is the same with
and without the foreign attributes in it, wherever they stand; and they are all kept (`foreign_kept`). -/

def Attr.isForeign : Attr → Bool
  | .foreign _ => true
  | _ => false

@[simp] theorem isForeign_foreign (ts : Toks) : (Attr.foreign ts).isForeign = true := rfl
@[simp] theorem isForeign_deriveEx (a : Args) : (Attr.deriveEx a).isForeign = false := rfl
@[simp] theorem isForeign_cmp (w : CmpAttr) (b : HBody CmpArgs) : (Attr.cmp w b).isForeign = false := rfl
@[simp] theorem isForeign_debug (b : HBody DebugArgs) : (Attr.debug b).isForeign = false := rfl
@[simp] theorem isForeign_dflt (b : HBody DefaultArgs) : (Attr.dflt b).isForeign = false := rfl

def dropForeign (attrs : List Attr) : List Attr := attrs.filter (!·.isForeign)

theorem deriveExArgs_foreign (attrs : List Attr) : deriveExArgs (dropForeign attrs) = deriveExArgs attrs := by
  unfold deriveExArgs dropForeign
  induction attrs with
  | nil => rfl
  | cons a as ih => cases a <;> simp [List.filter_cons, List.filterMap_cons, ih]

theorem cmpBodies_foreign (attrs : List Attr) (w : CmpAttr) : cmpBodies (dropForeign attrs) w = cmpBodies attrs w := by
  unfold cmpBodies dropForeign
  induction attrs with
  | nil => rfl
  | cons a as ih => cases a <;> simp [List.filter_cons, List.filterMap_cons, ih]

theorem debugBodies_foreign (attrs : List Attr) : debugBodies (dropForeign attrs) = debugBodies attrs := by
  unfold debugBodies dropForeign
  induction attrs with
  | nil => rfl
  | cons a as ih => cases a <;> simp [List.filter_cons, List.filterMap_cons, ih]

theorem defaultBodies_foreign (attrs : List Attr) : defaultBodies (dropForeign attrs) = defaultBodies attrs := by
  unfold defaultBodies dropForeign
  induction attrs with
  | nil => rfl
  | cons a as ih => cases a <;> simp [List.filter_cons, List.filterMap_cons, ih]

/-- the listed traits do not depend on foreign attributes -/
theorem fromRoot_foreign (a : Option Args) (attrs : List Attr) :
    Entry.fromRoot a (dropForeign attrs) = Entry.fromRoot a attrs := by
  simp only [Entry.fromRoot, deriveExArgs_foreign]

/-- the parsed helper attributes of a type, variant or field do not depend on foreign attributes -/
theorem fromAttrs_foreign (attrs : List Attr) (t : Target) (k : Kinds) :
    HAttrs.fromAttrs (dropForeign attrs) t k = HAttrs.fromAttrs attrs t k := by
  simp only [HAttrs.fromAttrs, itemsPart, dfltPart, debugPart, CmpHs.fromAttrs, cmpPart, CmpH.fromAttrs, DebugH.fromAttrs,
    DefaultH.fromAttrs, deriveExArgs_foreign, cmpBodies_foreign, debugBodies_foreign, defaultBodies_foreign]

end DX
