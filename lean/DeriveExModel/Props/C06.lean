import DeriveExModel.Props.C01
/-
C06 — `Hash` feeds exactly the effective inputs of the non-ignored fields, in order.
-/
namespace DX

theorem feed_follows_doc {V F} (src : Source) (e : Entry) (h : HAttrs) (c : CmpImpl)
    (hb : buildCmp .hash src e h = .ok c) (σ : Env V F) (a : Val V) (ha : src.ValidVal a) :
    evalHash c σ a = docHashFeed src σ a := by
  obtain ⟨_, hbody⟩ := body_of_ok hb
  cases src with
  | struct_ name g fields =>
    simp only [evalHash, hbody, Source.docBody, docHashFeed, Source.fieldsOf]
    exact evalHashFields_doc σ a fields
  | enum_ name g variants =>
    have hlt : a.variant < variants.length := ha
    simp only [evalHash, hbody, Source.docBody, docHashFeed, Source.fieldsOf, List.getElem?_map,
      List.getElem?_eq_getElem hlt, Option.map_some]
    exact evalHashFields_doc σ a _

/-- the effective input of one field: what reaches the hasher from it -/
def effectiveInputs {V F} (src : Source) (σ : Env V F) (a : Val V) : List (List F) :=
  (docCompared .hash (src.fieldsOf a.variant)).map fun f => docFieldHash (σ f) f.h.cmp (a.field f.index)

/-- equal effective inputs (same variant) give the same feed, for every hasher -/
theorem equal_inputs_equal_feed {V F} (src : Source) (e : Entry) (h : HAttrs) (c : CmpImpl)
    (hb : buildCmp .hash src e h = .ok c) (σ : Env V F) (a b : Val V)
    (ha : src.ValidVal a) (hb' : src.ValidVal b)
    (hin : effectiveInputs src σ a = effectiveInputs src σ b) :
    evalHash c σ a = evalHash c σ b := by
  rw [feed_follows_doc src e h c hb σ a ha, feed_follows_doc src e h c hb σ b hb']
  have key : ∀ x : Val V, docHashFeed src σ x = (effectiveInputs src σ x).flatten := by
    intro x
    simp [docHashFeed, docHashFields, effectiveInputs, List.flatMap]
  rw [key, key, hin]

/-- a family of codes is prefix-free: no code word is a proper prefix of another -/
def PrefixFree {F} (code : List F → Prop) : Prop :=
  ∀ x y, code x → code y → ∀ r s, x ++ r = y ++ s → x = y

theorem flatten_injective_of_prefixFree {F} (code : List F → Prop) (hp : PrefixFree code) :
    ∀ (xs ys : List (List F)), xs.length = ys.length → (∀ x ∈ xs, code x) → (∀ y ∈ ys, code y) →
      xs.flatten = ys.flatten → xs = ys
  | [], [], _, _, _, _ => rfl
  | [], _ :: _, hl, _, _, _ => by simp at hl
  | _ :: _, [], hl, _, _, _ => by simp at hl
  | x :: xs, y :: ys, hl, hx, hy, hf => by
    simp only [List.flatten_cons] at hf
    have hxy : x = y := hp x y (hx x (by simp)) (hy y (by simp)) _ _ hf
    subst hxy
    have hrest : xs.flatten = ys.flatten := List.append_cancel_left hf
    have := flatten_injective_of_prefixFree code hp xs ys (by simpa using hl)
      (fun z hz => hx z (by simp [hz])) (fun z hz => hy z (by simp [hz])) hrest
    rw [this]

/-- changing any effective input changes the feed, provided the field feeds form
a prefix-free code (as the standard library's `Hash` impls are designed to) -/
theorem feed_injective {V F} (src : Source) (e : Entry) (h : HAttrs) (c : CmpImpl)
    (hb : buildCmp .hash src e h = .ok c) (σ : Env V F) (a b : Val V)
    (ha : src.ValidVal a) (hb' : src.ValidVal b) (hsame : a.variant = b.variant)
    (code : List F → Prop) (hp : PrefixFree code)
    (hca : ∀ x ∈ effectiveInputs src σ a, code x) (hcb : ∀ x ∈ effectiveInputs src σ b, code x)
    (hfeed : evalHash c σ a = evalHash c σ b) :
    effectiveInputs src σ a = effectiveInputs src σ b := by
  rw [feed_follows_doc src e h c hb σ a ha, feed_follows_doc src e h c hb σ b hb'] at hfeed
  have key : ∀ x : Val V, docHashFeed src σ x = (effectiveInputs src σ x).flatten := by
    intro x
    simp [docHashFeed, docHashFields, effectiveInputs, List.flatMap]
  rw [key, key] at hfeed
  apply flatten_injective_of_prefixFree code hp _ _ _ hca hcb hfeed
  simp [effectiveInputs, hsame]

end DX
