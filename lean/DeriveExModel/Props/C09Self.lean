import DeriveExModel.Props.C09
import DeriveExModel.Props.C20
/-
C09 — "… the user's `Output`, generics and where-clause (including uses of `Self`) carry over."

The generated impls are written for other self types than the user's (`&X` instead of `X`, …), so a `Self` copied from the
user's impl would silently mean another type.  The theorems: every type the forwarder copies (`Output`, the right-hand
side) is the user's with `Self` replaced by the user's self type, no `Self` is left in it, and a type that does not mention
`Self` is carried over verbatim.
-/
namespace DX

/-- `expand_self` changes nothing in a type that does not mention `Self` -/
theorem expandSelf_id_of_no_self (to : Ty) : ∀ t : Ty, t.hasSelf = false → Ty.expandSelf to t = t := by
  intro t
  apply Ty.rec
    (motive_1 := fun t => t.hasSelf = false → Ty.expandSelf to t = t)
    (motive_2 := fun s => s.hasSelf = false → Seg.expandSelf to s = s)
    (motive_3 := fun a => a.hasSelf = false → GArg.expandSelf to a = a)
    (motive_4 := fun l => Seg.hasSelfL l = false → Seg.expandSelfL to l = l)
    (motive_5 := fun l => Ty.hasSelfL l = false → Ty.expandSelfL to l = l)
    (motive_6 := fun o => Ty.hasSelfO o = false → Ty.expandSelfO to o = o)
    (motive_7 := fun l => GArg.hasSelfL l = false → GArg.expandSelfL to l = l)
  case path =>
    intro g segs ih h
    simp only [Ty.hasSelf, Bool.or_eq_false_iff] at h
    unfold Ty.expandSelf
    simp [h.1, ih h.2]
  all_goals (intros; simp_all [Ty.expandSelf, Ty.hasSelf, Ty.expandSelfO, Ty.hasSelfO, Ty.expandSelfL, Ty.hasSelfL,
    Seg.expandSelf, Seg.hasSelf, Seg.expandSelfL, Seg.hasSelfL, GArg.expandSelf, GArg.hasSelf, GArg.expandSelfL, GArg.hasSelfL])

/-- the `Output` of the generated binary impls is the user's `Output` with `Self` replaced by the user's self type -/
theorem output_self_expanded (attr : Args) (i : ItemImpl) (f : FwdImpl) (hb : buildFwd attr i = .ok f)
    (hf : f.baseForm = .binary) :
    ∃ t, findOutput i.members = some t ∧ f.output = some (Ty.expandSelf i.selfTy t) := by
  unfold buildFwd at hb
  split at hb
  · simp [bail] at hb
  · rename_i p hp
    simp only [pure, Except.pure, Except.ok.injEq] at hb
    subst hb
    simp only at hf
    unfold fwdPlan at hp
    simp only [bind, Except.bind, pure, Except.pure, bail] at hp
    repeat' split at hp
    all_goals first
      | (simp at hp; done)
      | (simp only [Except.ok.injEq] at hp
         subst hp
         first
         | exact ⟨_, by assumption, rfl⟩
         | (simp_all; done))

/-- … and mentions `Self` nowhere (given the user's self type does not): in the generated impls `Self` is another type -/
theorem output_has_no_self (attr : Args) (i : ItemImpl) (f : FwdImpl) (hb : buildFwd attr i = .ok f)
    (hf : f.baseForm = .binary) (hs : i.selfTy.hasSelf = false) :
    ∃ t, f.output = some t ∧ t.hasSelf = false := by
  obtain ⟨t, _, ho⟩ := output_self_expanded attr i f hb hf
  exact ⟨_, ho, expandSelf_no_self i.selfTy hs t⟩

/-- an `Output` that does not mention `Self` is carried over verbatim -/
theorem output_verbatim (attr : Args) (i : ItemImpl) (f : FwdImpl) (hb : buildFwd attr i = .ok f)
    (hf : f.baseForm = .binary) (t : Ty) (ht : findOutput i.members = some t) (hn : t.hasSelf = false) :
    f.output = some t := by
  obtain ⟨t', ht', ho⟩ := output_self_expanded attr i f hb hf
  rw [ht] at ht'
  cases ht'
  rw [ho, expandSelf_id_of_no_self i.selfTy t hn]

/-- the right-hand side the generated impls use is the single type argument of the trait with `Self` replaced, or the
self type when the trait is written without one -/
theorem rhs_self_expanded (i : ItemImpl) (hs : i.selfTy.hasSelf = false) : i.rhsOrig.hasSelf = false := by
  unfold ItemImpl.rhsOrig
  split
  · rename_i s _
    unfold toRhs
    split
    · exact expandSelf_no_self i.selfTy hs _
    · exact hs
  · exact hs

end DX
