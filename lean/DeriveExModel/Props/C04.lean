import DeriveExModel.Lemmas.Bounds
import DeriveExModel.Lemmas.CmpItem
/-
C04 — explicit `bound(..)` follows the documented nine-level priority.
C03 — with no `bound(..)` anywhere, the default bounds are exactly the used field types that
mention a generic parameter (corollaries at the end).

`Plan.whereClause` (Spec/Bounds.lean) is the documented resolution: the type's own where-clause
is always retained; the type-level chain contributes once; if it runs off its end each variant's
chain contributes; if that runs off its end each *used* field's chain contributes, and the
field's default bound only if that chain, too, runs off its end.  The theorems say the
where-clause each builder threads through its mutable `WhereClauseBuilder` *is* that resolution,
and they spell out, per trait, which levels exist at which placement.
-/
namespace DX

@[simp] theorem WCB.new_gps (g : Generics) : (WCB.new g).gps = g.paramSet := rfl

theorem levelsContrib_nil : levelsContrib [] = Contrib.empty := rfl
theorem continues_nil : continues [] = true := rfl

/-! ### Clone -/

/-- struct: type level = the entry's two arguments; then per field: the field-level
`#[derive_ex(Clone(bound(..)), bound(..))]`, then the default bound -/
theorem clone_struct_where (s : ItemStruct) (e : Entry) (fields : List FieldE) :
    (buildCloneStruct s e fields).wc =
      Plan.whereClause s.generics
        { typeLevels := e.levels, variants := [{ levels := [], fields := plainFields .clone fields }] } := by
  simp only [buildCloneStruct, Entry.pushBoundsTo_walk, walk_true, fields_fold, Plan.whereClause, Plan.contrib,
    VariantPlan.contrib, levelsContrib_nil, continues_nil, if_true, List.map_cons, List.map_nil, Contrib.concat,
    List.foldr, Contrib.empty_append, Contrib.append_empty, WCB.addC_gps, WCB.new_gps]
  by_cases hc : continues e.levels = true <;> simp [hc, WCB.addC_addC, Contrib.append_empty]

def cloneVariantPlan (kind : Kind) (v : VariantE) : VariantPlan :=
  { levels := v.h.levels false kind, fields := plainFields kind v.fields }

theorem variant_step (kind : Kind) (use : Bool) (w : WCB) (v : VariantE) :
    (let (w', u) := v.h.pushBoundsToRaw use false kind w
     v.fields.foldl (fun w f => f.pushBoundsTo u kind w) w') =
      if use then w.addC (VariantPlan.contrib w.gps (cloneVariantPlan kind v)) else w := by
  simp only [HAttrs.pushBoundsToRaw_walk, walk_eq]
  cases use
  · simp [fields_fold]
  · simp only [if_true, fields_fold, VariantPlan.contrib, cloneVariantPlan, WCB.addC_gps]
    by_cases hc : continues (v.h.levels false kind) = true <;> simp [hc, WCB.addC_addC, Contrib.append_empty]

theorem variants_fold (kind : Kind) (use : Bool) (w : WCB) (variants : List VariantE) :
    variants.foldl (fun w v =>
        let (w', u) := v.h.pushBoundsToRaw use false kind w
        v.fields.foldl (fun w f => f.pushBoundsTo u kind w) w') w =
      if use then w.addC (Contrib.concat ((variants.map (cloneVariantPlan kind)).map (VariantPlan.contrib w.gps)))
      else w := by
  cases use
  · simp only [Bool.false_eq_true, if_false]
    apply foldl_id
    intro w x
    have := variant_step kind false w x
    simpa using this
  · simp only [if_true, List.map_map]
    apply foldl_addC _ _ _ w.gps _ _ rfl
    intro w' x hw'
    have := variant_step kind true w' x
    simp only [if_true] at this
    rw [← hw']
    exact this

/-- enum: the variant level (its `#[derive_ex(Clone(bound(..)), bound(..))]`) sits between the type and the fields -/
theorem clone_enum_where (en : ItemEnum) (e : Entry) (variants : List VariantE) :
    (buildCloneEnum en e variants).wc =
      Plan.whereClause en.generics
        { typeLevels := e.levels, variants := variants.map (cloneVariantPlan .clone) } := by
  simp only [buildCloneEnum, Entry.pushBoundsTo_walk, walk_true, variants_fold, Plan.whereClause, Plan.contrib,
    WCB.addC_gps, WCB.new_gps]
  by_cases hc : continues e.levels = true <;> simp [hc, WCB.addC_addC, Contrib.append_empty]

/-! ### Copy: the same walk (every trait derivable on enums honours the variant level) -/

theorem copy_enum_where (en : ItemEnum) (e : Entry) (variants : List VariantE) :
    (buildCopyEnum en e variants).wc =
      Plan.whereClause en.generics
        { typeLevels := e.levels, variants := variants.map (cloneVariantPlan .copy) } := by
  simp only [buildCopyEnum, Entry.pushBoundsTo_walk, walk_true, variants_fold, Plan.whereClause, Plan.contrib,
    WCB.addC_gps, WCB.new_gps]
  by_cases hc : continues e.levels = true <;> simp [hc, WCB.addC_addC, Contrib.append_empty]

theorem copy_struct_where (s : ItemStruct) (e : Entry) (fields : List FieldE) :
    (buildCopyStruct s e fields).wc =
      Plan.whereClause s.generics
        { typeLevels := e.levels, variants := [{ levels := [], fields := plainFields .copy fields }] } := by
  simp only [buildCopyStruct, Entry.pushBoundsTo_walk, walk_true, fields_fold, Plan.whereClause, Plan.contrib,
    VariantPlan.contrib, levelsContrib_nil, continues_nil, if_true, List.map_cons, List.map_nil, Contrib.concat,
    List.foldr, Contrib.empty_append, Contrib.append_empty, WCB.addC_gps, WCB.new_gps]
  by_cases hc : continues e.levels = true <;> simp [hc, WCB.addC_addC, Contrib.append_empty]

/-! ### the declared where-clause is always retained; a stop is local -/

theorem declared_where_retained (g : Generics) (p : Plan) :
    ∃ rest, (p.whereClause g).preds = g.wheres ++ rest := ⟨_, rfl⟩

/-- an empty `bound()` at the head of a chain stops it with nothing -/
theorem empty_bound_stops (rest : List Bounds) :
    levelsContrib (Bounds.ofArg (some []) :: rest) = Contrib.empty ∧
    continues (Bounds.ofArg (some []) :: rest) = false := by
  constructor <;> simp [levelsContrib, reached, continues, Bounds.ofArg, Contrib.empty]

/-- an absent level contributes nothing and lets resolution continue -/
theorem absent_level_skipped (rest : List Bounds) :
    levelsContrib (Bounds.ofArg none :: rest) = levelsContrib rest ∧
    continues (Bounds.ofArg none :: rest) = continues rest := by
  constructor <;> simp [levelsContrib, reached, continues, Bounds.ofArg, Bounds.new]

/-- a level with `..` contributes its contents and lets resolution continue -/
theorem dots_level_continues (b : Bounds) (hb : b.dflt = true) (rest : List Bounds) :
    levelsContrib (b :: rest) = { tys := b.ty, preds := b.pred } ++ levelsContrib rest ∧
    continues (b :: rest) = continues rest := by
  constructor
  · apply Contrib.ext' <;> simp [levelsContrib, reached, hb]
  · simp [continues, hb]

/-- a level without `..` contributes its contents verbatim and stops -/
theorem plain_level_stops (b : Bounds) (hb : b.dflt = false) (rest : List Bounds) :
    levelsContrib (b :: rest) = { tys := b.ty, preds := b.pred } ∧ continues (b :: rest) = false := by
  constructor
  · apply Contrib.ext' <;> simp [levelsContrib, reached, hb]
  · simp [continues, hb]

/-- a stop inside one variant changes nothing outside it -/
theorem stop_is_local (gps : List String) (tl : List Bounds) (vs₁ vs₂ : List VariantPlan) (v v' : VariantPlan) :
    ∃ pre post, Plan.contrib gps { typeLevels := tl, variants := vs₁ ++ v :: vs₂ } =
        pre ++ (if continues tl then VariantPlan.contrib gps v else Contrib.empty) ++ post ∧
      Plan.contrib gps { typeLevels := tl, variants := vs₁ ++ v' :: vs₂ } =
        pre ++ (if continues tl then VariantPlan.contrib gps v' else Contrib.empty) ++ post := by
  have hc : ∀ (l₁ l₂ : List Contrib), Contrib.concat (l₁ ++ l₂) = Contrib.concat l₁ ++ Contrib.concat l₂ := by
    intro l₁ l₂
    induction l₁ with
    | nil => simp [Contrib.concat, Contrib.empty_append]
    | cons x xs ih =>
      simp only [List.cons_append, Contrib.concat, List.foldr] at ih ⊢
      rw [ih, Contrib.append_assoc]
  refine ⟨levelsContrib tl ++ (if continues tl then Contrib.concat (vs₁.map (VariantPlan.contrib gps)) else Contrib.empty),
    (if continues tl then Contrib.concat (vs₂.map (VariantPlan.contrib gps)) else Contrib.empty), ?_, ?_⟩ <;>
  · simp only [Plan.contrib, List.map_append, List.map_cons, hc]
    cases continues tl <;>
      simp [Contrib.concat, Contrib.append_assoc, Contrib.empty_append, Contrib.append_empty]

/-! ### C03: no `bound(..)` anywhere -/

/-- every level of the chain is absent -/
def allAbsent (ls : List Bounds) : Prop := ∀ b ∈ ls, b.ty = [] ∧ b.pred = [] ∧ b.dflt = true

theorem absent_contrib (ls : List Bounds) (h : allAbsent ls) :
    levelsContrib ls = Contrib.empty ∧ continues ls = true := by
  induction ls with
  | nil => exact ⟨rfl, rfl⟩
  | cons b bs ih =>
    obtain ⟨h1, h2, h3⟩ := h b (by simp)
    obtain ⟨i1, i2⟩ := ih (fun x hx => h x (by simp [hx]))
    constructor
    · have := (dots_level_continues b h3 bs).1
      rw [this, i1]
      apply Contrib.ext' <;> simp [h1, h2]
    · simp [continues, h3] at i2 ⊢
      exact i2

/-- default bounds of one field list: exactly the used fields whose type mentions a parameter, in order -/
theorem default_fields_exact (gps : List String) (fs : List FieldPlan) (h : ∀ f ∈ fs, allAbsent f.levels) :
    Contrib.concat (fs.map (FieldPlan.contrib gps)) =
      { tys := (fs.filter fun f => f.used && f.ty.mentions gps).map (·.ty), preds := [] } := by
  induction fs with
  | nil => rfl
  | cons f fs ih =>
    have ih' := ih (fun x hx => h x (by simp [hx]))
    obtain ⟨c1, c2⟩ := absent_contrib f.levels (h f (by simp))
    simp only [List.map_cons, Contrib.concat, List.foldr] at ih' ⊢
    rw [ih']
    simp only [FieldPlan.contrib, c1, c2, Bool.true_and, Contrib.empty_append, List.filter_cons]
    cases hu : (f.used && Ty.mentions gps f.ty) <;> apply Contrib.ext' <;> simp

/-- C03 for Clone on a struct: with no `bound(..)` anywhere the where-clause is the declared
one plus `FieldTy: Clone` for exactly the fields whose type mentions a type or const parameter —
never `T: Clone` merely because `T` is a parameter -/
theorem clone_struct_default_where (s : ItemStruct) (e : Entry) (fields : List FieldE)
    (he : allAbsent e.levels) (hf : ∀ f ∈ fields, allAbsent (f.h.levels true .clone)) :
    (buildCloneStruct s e fields).wc.types =
        (fields.filter fun f => f.field.ty.mentions s.generics.paramSet).map (·.field.ty) ∧
    (buildCloneStruct s e fields).wc.preds = s.generics.wheres := by
  rw [clone_struct_where]
  obtain ⟨c1, c2⟩ := absent_contrib e.levels he
  have hfs : ∀ f ∈ plainFields .clone fields, allAbsent f.levels := by
    intro f hf'
    simp only [plainFields, List.mem_map] at hf'
    obtain ⟨g, hg, rfl⟩ := hf'
    exact hf g hg
  have := default_fields_exact s.generics.paramSet (plainFields .clone fields) hfs
  simp only [Plan.whereClause, Plan.contrib, c1, c2, if_true, Contrib.empty_append, List.map_cons, List.map_nil,
    Contrib.concat, List.foldr, VariantPlan.contrib, levelsContrib_nil, continues_nil, Contrib.append_empty] at this ⊢
  rw [this]
  simp [WCB.addC, WCB.new, plainFields, List.filter_map, Function.comp_def]

end DX
