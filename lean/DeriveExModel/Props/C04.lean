import DeriveExModel.Lemmas.Bounds
import DeriveExModel.Lemmas.CmpItem
/-
C04 — explicit `bound(..)` follows the documented nine-level priority.
C03 — with no `bound(..)` anywhere, the default bounds are exactly the used field types that
mention a generic parameter (corollaries at the end).

`Plan.whereClause` (Spec/Bounds.lean) is the documented resolution: the type's own where-clause
is always retained; the type-level chain contributes once; if it runs off its end each variant's
chain contributes; if that runs off its end each *used* field's chain contributes, and the
field's default bound only if that chain, too, runs off its end.  The theorems say the
where-clause each builder threads through its mutable `WhereClauseBuilder` *is* that resolution,
and they spell out, per trait, which levels exist at which placement.
-/
namespace DX

@[simp] theorem WCB.new_gps (g : Generics) : (WCB.new g).gps = g.paramSet := rfl

theorem levelsContrib_nil : levelsContrib [] = Contrib.empty := rfl
theorem continues_nil : continues [] = true := rfl

/-! ### Clone -/

/-- struct: type level = the entry's two arguments; then per field: the field-level
`#[derive_ex(Clone(bound(..)), bound(..))]`, then the default bound -/
theorem clone_struct_where (s : ItemStruct) (e : Entry) (fields : List FieldE) :
    (buildCloneStruct s e fields).wc =
      Plan.whereClause s.generics
        { typeLevels := e.levels, variants := [{ levels := [], fields := plainFields .clone fields }] } := by
  simp only [buildCloneStruct, Entry.pushBoundsTo_walk, walk_true, fields_fold, Plan.whereClause, Plan.contrib,
    VariantPlan.contrib, levelsContrib_nil, continues_nil, if_true, List.map_cons, List.map_nil, Contrib.concat,
    List.foldr, Contrib.empty_append, Contrib.append_empty, WCB.addC_gps, WCB.new_gps]
  by_cases hc : continues e.levels = true <;> simp [hc, WCB.addC_addC, Contrib.append_empty]

def cloneVariantPlan (kind : Kind) (v : VariantE) : VariantPlan :=
  { levels := v.h.levels false kind, fields := plainFields kind v.fields }

theorem variant_step (kind : Kind) (use : Bool) (w : WCB) (v : VariantE) :
    (let (w', u) := v.h.pushBoundsToRaw use false kind w
     v.fields.foldl (fun w f => f.pushBoundsTo u kind w) w') =
      if use then w.addC (VariantPlan.contrib w.gps (cloneVariantPlan kind v)) else w := by
  simp only [HAttrs.pushBoundsToRaw_walk, walk_eq]
  cases use
  · simp [fields_fold]
  · simp only [if_true, fields_fold, VariantPlan.contrib, cloneVariantPlan, WCB.addC_gps]
    by_cases hc : continues (v.h.levels false kind) = true <;> simp [hc, WCB.addC_addC, Contrib.append_empty]

theorem variants_fold (kind : Kind) (use : Bool) (w : WCB) (variants : List VariantE) :
    variants.foldl (fun w v =>
        let (w', u) := v.h.pushBoundsToRaw use false kind w
        v.fields.foldl (fun w f => f.pushBoundsTo u kind w) w') w =
      if use then w.addC (Contrib.concat ((variants.map (cloneVariantPlan kind)).map (VariantPlan.contrib w.gps)))
      else w := by
  cases use
  · simp only [Bool.false_eq_true, if_false]
    apply foldl_id
    intro w x
    have := variant_step kind false w x
    simpa using this
  · simp only [if_true, List.map_map]
    apply foldl_addC _ _ _ w.gps _ _ rfl
    intro w' x hw'
    have := variant_step kind true w' x
    simp only [if_true] at this
    rw [← hw']
    exact this

/-- enum: the variant level (its `#[derive_ex(Clone(bound(..)), bound(..))]`) sits between the type and the fields -/
theorem clone_enum_where (en : ItemEnum) (e : Entry) (variants : List VariantE) :
    (buildCloneEnum en e variants).wc =
      Plan.whereClause en.generics
        { typeLevels := e.levels, variants := variants.map (cloneVariantPlan .clone) } := by
  simp only [buildCloneEnum, Entry.pushBoundsTo_walk, walk_true, variants_fold, Plan.whereClause, Plan.contrib,
    WCB.addC_gps, WCB.new_gps]
  by_cases hc : continues e.levels = true <;> simp [hc, WCB.addC_addC, Contrib.append_empty]

/-! ### Copy: the same walk (every trait derivable on enums honours the variant level) -/

theorem copy_enum_where (en : ItemEnum) (e : Entry) (variants : List VariantE) :
    (buildCopyEnum en e variants).wc =
      Plan.whereClause en.generics
        { typeLevels := e.levels, variants := variants.map (cloneVariantPlan .copy) } := by
  simp only [buildCopyEnum, Entry.pushBoundsTo_walk, walk_true, variants_fold, Plan.whereClause, Plan.contrib,
    WCB.addC_gps, WCB.new_gps]
  by_cases hc : continues e.levels = true <;> simp [hc, WCB.addC_addC, Contrib.append_empty]

theorem copy_struct_where (s : ItemStruct) (e : Entry) (fields : List FieldE) :
    (buildCopyStruct s e fields).wc =
      Plan.whereClause s.generics
        { typeLevels := e.levels, variants := [{ levels := [], fields := plainFields .copy fields }] } := by
  simp only [buildCopyStruct, Entry.pushBoundsTo_walk, walk_true, fields_fold, Plan.whereClause, Plan.contrib,
    VariantPlan.contrib, levelsContrib_nil, continues_nil, if_true, List.map_cons, List.map_nil, Contrib.concat,
    List.foldr, Contrib.empty_append, Contrib.append_empty, WCB.addC_gps, WCB.new_gps]
  by_cases hc : continues e.levels = true <;> simp [hc, WCB.addC_addC, Contrib.append_empty]

/-! ### the declared where-clause is always retained; a stop is local -/

theorem declared_where_retained (g : Generics) (p : Plan) :
    ∃ rest, (p.whereClause g).preds = g.wheres ++ rest := ⟨_, rfl⟩

/-- an empty `bound()` at the head of a chain stops it with nothing -/
theorem empty_bound_stops (rest : List Bounds) :
    levelsContrib (Bounds.ofArg (some []) :: rest) = Contrib.empty ∧
    continues (Bounds.ofArg (some []) :: rest) = false := by
  constructor <;> simp [levelsContrib, reached, continues, Bounds.ofArg, Contrib.empty]

/-- an absent level contributes nothing and lets resolution continue -/
theorem absent_level_skipped (rest : List Bounds) :
    levelsContrib (Bounds.ofArg none :: rest) = levelsContrib rest ∧
    continues (Bounds.ofArg none :: rest) = continues rest := by
  constructor <;> simp [levelsContrib, reached, continues, Bounds.ofArg, Bounds.new]

/-- a level with `..` contributes its contents and lets resolution continue -/
theorem dots_level_continues (b : Bounds) (hb : b.dflt = true) (rest : List Bounds) :
    levelsContrib (b :: rest) = { tys := b.ty, preds := b.pred } ++ levelsContrib rest ∧
    continues (b :: rest) = continues rest := by
  constructor
  · apply Contrib.ext' <;> simp [levelsContrib, reached, hb]
  · simp [continues, hb]

/-- a level without `..` contributes its contents verbatim and stops -/
theorem plain_level_stops (b : Bounds) (hb : b.dflt = false) (rest : List Bounds) :
    levelsContrib (b :: rest) = { tys := b.ty, preds := b.pred } ∧ continues (b :: rest) = false := by
  constructor
  · apply Contrib.ext' <;> simp [levelsContrib, reached, hb]
  · simp [continues, hb]

/-- a stop inside one variant changes nothing outside it -/
theorem stop_is_local (gps : List String) (tl : List Bounds) (vs₁ vs₂ : List VariantPlan) (v v' : VariantPlan) :
    ∃ pre post, Plan.contrib gps { typeLevels := tl, variants := vs₁ ++ v :: vs₂ } =
        pre ++ (if continues tl then VariantPlan.contrib gps v else Contrib.empty) ++ post ∧
      Plan.contrib gps { typeLevels := tl, variants := vs₁ ++ v' :: vs₂ } =
        pre ++ (if continues tl then VariantPlan.contrib gps v' else Contrib.empty) ++ post := by
  have hc : ∀ (l₁ l₂ : List Contrib), Contrib.concat (l₁ ++ l₂) = Contrib.concat l₁ ++ Contrib.concat l₂ := by
    intro l₁ l₂
    induction l₁ with
    | nil => simp [Contrib.concat, Contrib.empty_append]
    | cons x xs ih =>
      simp only [List.cons_append, Contrib.concat, List.foldr] at ih ⊢
      rw [ih, Contrib.append_assoc]
  refine ⟨levelsContrib tl ++ (if continues tl then Contrib.concat (vs₁.map (VariantPlan.contrib gps)) else Contrib.empty),
    (if continues tl then Contrib.concat (vs₂.map (VariantPlan.contrib gps)) else Contrib.empty), ?_, ?_⟩ <;>
  · simp only [Plan.contrib, List.map_append, List.map_cons, hc]
    cases continues tl <;>
      simp [Contrib.concat, Contrib.append_assoc, Contrib.empty_append, Contrib.append_empty]

/-! ### C03: no `bound(..)` anywhere -/

/-- every level of the chain is absent -/
def allAbsent (ls : List Bounds) : Prop := ∀ b ∈ ls, b.ty = [] ∧ b.pred = [] ∧ b.dflt = true

theorem absent_contrib (ls : List Bounds) (h : allAbsent ls) :
    levelsContrib ls = Contrib.empty ∧ continues ls = true := by
  induction ls with
  | nil => exact ⟨rfl, rfl⟩
  | cons b bs ih =>
    obtain ⟨h1, h2, h3⟩ := h b (by simp)
    obtain ⟨i1, i2⟩ := ih (fun x hx => h x (by simp [hx]))
    constructor
    · have := (dots_level_continues b h3 bs).1
      rw [this, i1]
      apply Contrib.ext' <;> simp [h1, h2]
    · simp [continues, h3] at i2 ⊢
      exact i2

/-- default bounds of one field list: exactly the used fields whose type mentions a parameter, in order -/
theorem default_fields_exact (gps : List String) (fs : List FieldPlan) (h : ∀ f ∈ fs, allAbsent f.levels) :
    Contrib.concat (fs.map (FieldPlan.contrib gps)) =
      { tys := (fs.filter fun f => f.used && f.ty.mentions gps).map (·.ty), preds := [] } := by
  induction fs with
  | nil => rfl
  | cons f fs ih =>
    have ih' := ih (fun x hx => h x (by simp [hx]))
    obtain ⟨c1, c2⟩ := absent_contrib f.levels (h f (by simp))
    simp only [List.map_cons, Contrib.concat, List.foldr] at ih' ⊢
    rw [ih']
    simp only [FieldPlan.contrib, c1, c2, Bool.true_and, Contrib.empty_append, List.filter_cons]
    cases hu : (f.used && Ty.mentions gps f.ty) <;> apply Contrib.ext' <;> simp

/-- C03 for Clone on a struct: with no `bound(..)` anywhere the where-clause is the declared
one plus `FieldTy: Clone` for exactly the fields whose type mentions a type or const parameter —
never `T: Clone` merely because `T` is a parameter -/
theorem clone_struct_default_where (s : ItemStruct) (e : Entry) (fields : List FieldE)
    (he : allAbsent e.levels) (hf : ∀ f ∈ fields, allAbsent (f.h.levels true .clone)) :
    (buildCloneStruct s e fields).wc.types =
        (fields.filter fun f => f.field.ty.mentions s.generics.paramSet).map (·.field.ty) ∧
    (buildCloneStruct s e fields).wc.preds = s.generics.wheres := by
  rw [clone_struct_where]
  obtain ⟨c1, c2⟩ := absent_contrib e.levels he
  have hfs : ∀ f ∈ plainFields .clone fields, allAbsent f.levels := by
    intro f hf'
    simp only [plainFields, List.mem_map] at hf'
    obtain ⟨g, hg, rfl⟩ := hf'
    exact hf g hg
  have := default_fields_exact s.generics.paramSet (plainFields .clone fields) hfs
  simp only [Plan.whereClause, Plan.contrib, c1, c2, if_true, Contrib.empty_append, List.map_cons, List.map_nil,
    Contrib.concat, List.foldr, VariantPlan.contrib, levelsContrib_nil, continues_nil, Contrib.append_empty] at this ⊢
  rw [this]
  simp [WCB.addC, WCB.new, plainFields, List.filter_map, Function.comp_def]

end DX

namespace DX

/-! ### operators: the same walk over the `Self`-expanded generics, once per emitted form -/

theorem opsWC_where (kind : Kind) (e : Entry) (xg : Generics) (fields : List FieldE) :
    opsWC kind e xg fields =
      Plan.whereClause xg { typeLevels := e.levels, variants := [{ levels := [], fields := plainFields kind fields }] } := by
  simp only [opsWC, Entry.pushBoundsTo_walk, walk_true, fields_fold, Plan.whereClause, Plan.contrib,
    VariantPlan.contrib, levelsContrib_nil, continues_nil, if_true, List.map_cons, List.map_nil, Contrib.concat,
    List.foldr, Contrib.empty_append, Contrib.append_empty, WCB.addC_gps, WCB.new_gps]
  by_cases hc : continues e.levels = true <;> simp [hc, WCB.addC_addC, Contrib.append_empty]

theorem ops_where (kind : Kind) (s : ItemStruct) (e : Entry) (fields : List FieldE) :
    ∀ w ∈ (buildOps kind s e fields).wcs,
      w = Plan.whereClause (s.generics.expandSelf (thisTy s.name s.generics))
            { typeLevels := e.levels, variants := [{ levels := [], fields := plainFields kind fields }] } := by
  intro w hw
  simp only [buildOps, List.mem_map] at hw
  obtain ⟨_, _, rfl⟩ := hw
  exact opsWC_where kind e _ fields

/-! ### Default: level 1 is `#[default(_, bound(..))]`; a field with an explicit value is not "used" -/

def defaultFieldPlans (fields : List FieldE) : List FieldPlan :=
  fields.map fun f => { levels := f.h.levels true .dflt, ty := f.field.ty, used := (f.h.defaultValue f.field.ty).isNone }

theorem defaultCtorArgs_where (fields : List FieldE) (use : Bool) (w : WCB) :
    (defaultCtorArgs fields use w).2 =
      if use then w.addC (Contrib.concat ((defaultFieldPlans fields).map (FieldPlan.contrib w.gps))) else w := by
  unfold defaultCtorArgs
  have step : ∀ (acc : List DefVal) (w : WCB),
      (fields.foldl (fun (p : List DefVal × WCB) f =>
        let value := f.h.defaultValue f.field.ty
        let (w, u) := f.h.pushBoundsTo use .dflt p.2
        let w := if u && value.isNone then w.pushField f.field.ty else w
        (p.1 ++ [value.getD (.dflt f.field.ty)], w)) (acc, w)).2 =
      if use then w.addC (Contrib.concat ((defaultFieldPlans fields).map (FieldPlan.contrib w.gps))) else w := by
    induction fields with
    | nil => intro acc w; cases use <;> simp [defaultFieldPlans, Contrib.concat, WCB.addC_empty]
    | cons f fs ih =>
      intro acc w
      simp only [List.foldl_cons]
      rw [ih]
      simp only [HAttrs.pushBoundsTo, HAttrs.pushBoundsToRaw_walk, walk_eq]
      cases use
      · simp
      · simp only [if_true, defaultFieldPlans, List.map_cons, Contrib.concat, List.foldr, FieldPlan.contrib]
        by_cases hc : continues (f.h.levels true .dflt) = true
        · by_cases hv : (f.h.defaultValue f.field.ty).isNone = true
          · by_cases hm : Ty.mentions w.gps f.field.ty = true
            · simp [hc, hv, hm, WCB.pushField, WCB.addC, List.append_assoc]
            · simp [hc, hv, hm, WCB.pushField, WCB.addC, List.append_assoc]
          · simp [hc, hv, WCB.addC, List.append_assoc]
        · simp [hc, WCB.addC, List.append_assoc]
  simpa using step [] w

theorem default_struct_where (s : ItemStruct) (e : Entry) (h : HAttrs) (fields : List FieldE)
    (hn : h.defaultValue Ty.selfTy = none) :
    (buildDefaultStruct s e h fields).wc =
      Plan.whereClause s.generics
        { typeLevels := h.levels true .dflt ++ e.levels,
          variants := [{ levels := [], fields := defaultFieldPlans fields }] } := by
  simp only [buildDefaultStruct, hn, Entry.pushBoundsToWith_walk, walk_true, defaultCtorArgs_where, Plan.whereClause,
    Plan.contrib, VariantPlan.contrib, levelsContrib_nil, continues_nil, if_true, List.map_cons, List.map_nil,
    Contrib.concat, List.foldr, Contrib.empty_append, Contrib.append_empty, WCB.addC_gps, WCB.new_gps]
  by_cases hc : continues (h.levels true .dflt ++ e.levels) = true <;> simp [hc, WCB.addC_addC, Contrib.append_empty]

/-- a type-level `#[default(value)]` makes every field unused: only the type-level chain contributes -/
theorem default_struct_where_value (s : ItemStruct) (e : Entry) (h : HAttrs) (fields : List FieldE) (v : DefVal)
    (hv : h.defaultValue Ty.selfTy = some v) :
    (buildDefaultStruct s e h fields).wc =
      Plan.whereClause s.generics { typeLevels := h.levels true .dflt ++ e.levels, variants := [] } := by
  simp only [buildDefaultStruct, hv, Entry.pushBoundsToWith_walk, walk_true, Plan.whereClause, Plan.contrib,
    List.map_nil, Contrib.concat, List.foldr]
  by_cases hc : continues (h.levels true .dflt ++ e.levels) = true <;> simp [hc, Contrib.append_empty]

/-! ### Debug (struct): level 1 is `#[debug(bound(..))]`; ignored fields are not walked at all -/

theorem debug_struct_where (s : ItemStruct) (e : Entry) (h : HAttrs) (fields : List FieldE) (d : DebugImpl)
    (hb : buildDebugStruct s e h fields = .ok d) :
    d.wc = Plan.whereClause s.generics
      { typeLevels := h.levels true .debug ++ e.levels,
        variants := [{ levels := [],
                       fields := plainFields .debug
                         (match transparentFields fields with | [f] => [f] | _ => shownFields fields) }] } := by
  unfold buildDebugStruct at hb
  simp only [bind, Except.bind, pure, Except.pure, Entry.pushBoundsToWith_walk, walk_true] at hb
  unfold debugExpr at hb
  unfold transparentFields shownFields
  cases ht : fields.filter (·.h.debug.transparent) with
  | nil =>
    rw [ht] at hb
    simp only [pure, Except.pure, Except.ok.injEq] at hb
    subst hb
    simp only [fields_fold, Plan.whereClause, Plan.contrib, VariantPlan.contrib, levelsContrib_nil, continues_nil, if_true,
      List.map_cons, List.map_nil, Contrib.concat, List.foldr, Contrib.empty_append, Contrib.append_empty, WCB.addC_gps,
      WCB.new_gps]
    by_cases hc : continues (h.levels true .debug ++ e.levels) = true <;> simp [hc, WCB.addC_addC, Contrib.append_empty]
  | cons f rest =>
    rw [ht] at hb
    cases rest with
    | cons g rest' => simp [bail] at hb
    | nil =>
      simp only [pure, Except.pure, Except.ok.injEq] at hb
      subst hb
      simp only [FieldE.pushBoundsTo_contrib, Plan.whereClause, Plan.contrib, VariantPlan.contrib, levelsContrib_nil,
        continues_nil, if_true, plainFields, List.map_cons, List.map_nil, Contrib.concat, List.foldr, Contrib.empty_append,
        Contrib.append_empty, WCB.addC_gps, WCB.new_gps]
      by_cases hc : continues (h.levels true .debug ++ e.levels) = true <;> simp [hc, WCB.addC_addC, Contrib.append_empty]

/-! ### the comparison traits: level 7 is the chain of helper attributes consulted for the field — most specific
first, cut at the first one that supplies `key` / `by`; a field compared through `key` / `by` is not "used" -/

/-- the helper attributes a field's comparator selection consults, in order, and where consultation ends -/
def selLevels (op : CmpOp) (c : CmpHs) : List Bounds :=
  match op with
  | .partialEq =>
    c.partialEq.bounds :: (if c.partialEq.hasKeyBy then [] else
    c.eq.bounds :: (if c.eq.hasKeyBy then [] else
    c.partialOrd.bounds :: (if c.partialOrd.hasKeyBy then [] else [c.ord.bounds])))
  | .eq => c.eq.bounds :: (if c.eq.hasKeyBy then [] else [c.ord.bounds])
  | .partialOrd => c.partialOrd.bounds :: (if c.partialOrd.hasKeyBy then [] else [c.ord.bounds])
  | .ord => [c.ord.bounds]
  | .hash =>
    c.hash.bounds :: (if c.hash.hasKeyBy then [] else
    c.eq.bounds :: (if c.eq.key.isSome then [] else [c.ord.bounds]))

theorem selBounds_walk (c : CmpHs) (op : CmpOp) (use : Bool) (w : WCB) :
    c.selBounds op use w = walk w use (selLevels op c) := by
  cases op <;> simp only [CmpHs.selBounds, selLevels]
  · simp [walk]
  · cases c.partialOrd.hasKeyBy <;> simp [walk]
  · cases c.eq.hasKeyBy <;> simp [walk]
  · cases c.partialEq.hasKeyBy <;> cases c.eq.hasKeyBy <;> cases c.partialOrd.hasKeyBy <;> simp [walk]
  · cases c.hash.hasKeyBy <;> cases c.eq.key.isSome <;> simp [walk]

def cmpFieldPlan (op : CmpOp) (cf : CmpField) : FieldPlan :=
  { levels := selLevels op cf.f.h.cmp ++ cf.f.h.itemLevels (.cmp op), ty := cf.f.field.ty,
    used := match cf.sel with | .dflt => true | _ => false }

theorem cmpField_step (op : CmpOp) (use : Bool) (w : WCB) (cf : CmpField) :
    cmpFieldBounds1 op use w cf =
      if use then w.addC (FieldPlan.contrib w.gps (cmpFieldPlan op cf)) else w := by
  unfold cmpFieldBounds1
  obtain ⟨f, sel, rev⟩ := cf
  have hw : walk (walk w use (selLevels op f.h.cmp)).1 (walk w use (selLevels op f.h.cmp)).2
      (f.h.levels false (.cmp op)) = walk w use (selLevels op f.h.cmp ++ f.h.itemLevels (.cmp op)) := by
    rw [walk_append]; simp [HAttrs.levels]
  simp only [selBounds_walk, HAttrs.pushBoundsToRaw_walk]
  rw [hw, walk_eq]
  cases use
  · cases sel <;> simp
  · simp only [if_true, cmpFieldPlan, FieldPlan.contrib]
    by_cases hc : continues (selLevels op f.h.cmp ++ f.h.itemLevels (.cmp op)) = true
    · cases sel with
      | dflt =>
        by_cases hm : Ty.mentions w.gps f.field.ty = true
        · simp [hc, hm, WCB.pushField, WCB.addC, List.append_assoc]
        · simp [hc, hm, WCB.pushField, WCB.addC, List.append_assoc]
      | by_ a e => simp [hc, Contrib.append_empty]
      | key a k => simp [hc, Contrib.append_empty]
    · cases sel <;> simp [hc, Contrib.append_empty]

theorem cmpFieldsBounds_where (op : CmpOp) (fs : List CmpField) (use : Bool) (w : WCB) :
    cmpFieldsBounds op fs use w =
      if use then w.addC (Contrib.concat ((fs.map (cmpFieldPlan op)).map (FieldPlan.contrib w.gps))) else w := by
  unfold cmpFieldsBounds
  cases use
  · simp only [Bool.false_eq_true, if_false]
    apply foldl_id
    intro w cf
    simp [cmpField_step]
  · simp only [if_true, List.map_map]
    apply foldl_addC _ _ _ w.gps _ _ rfl
    intro w' cf hw'
    simp [cmpField_step, hw']

/-- comparison traits on a struct: type level = the helper attributes affecting the trait (most specific first), then
the entry's two arguments; then per compared field the chain above -/
theorem cmp_struct_where (op : CmpOp) (name : String) (g : Generics) (fields : List FieldE) (e : Entry) (h : HAttrs)
    (c : CmpImpl) (hb : buildCmp op (.struct_ name g fields) e h = .ok c) :
    c.wc = Plan.whereClause (g.expandSelf (thisTy name g))
      { typeLevels := h.levels true (.cmp op) ++ e.levels,
        variants := [{ levels := [], fields := (docFieldsOut op fields).map (cmpFieldPlan op) }] } := by
  simp only [buildCmp, Source.generics, Source.name, cmpFields_eq_doc, bind, Except.bind, pure, Except.pure] at hb
  by_cases hm : fieldsMisused op fields = true
  · simp [hm] at hb
  · simp only [hm, Bool.false_eq_true, if_false, Except.ok.injEq] at hb
    subst hb
    simp only [Entry.pushBoundsToWith_walk, walk_true, cmpFieldsBounds_where, Plan.whereClause, Plan.contrib,
      VariantPlan.contrib, levelsContrib_nil, continues_nil, if_true, List.map_cons, List.map_nil, Contrib.concat,
      List.foldr, Contrib.empty_append, Contrib.append_empty, WCB.addC_gps, WCB.new_gps]
    by_cases hc : continues (h.levels true (.cmp op) ++ e.levels) = true <;> simp [hc, WCB.addC_addC, Contrib.append_empty]

end DX

namespace DX

def cmpVariantPlan (op : CmpOp) (vf : VariantE × List CmpField) : VariantPlan :=
  { levels := vf.1.h.levels true (.cmp op), fields := vf.2.map (cmpFieldPlan op) }

theorem cmpVariant_step (op : CmpOp) (use : Bool) (w : WCB) (vf : VariantE × List CmpField) :
    (let (w', u) := vf.1.h.pushBoundsTo use (.cmp op) w
     cmpFieldsBounds op vf.2 u w') =
      if use then w.addC (VariantPlan.contrib w.gps (cmpVariantPlan op vf)) else w := by
  simp only [HAttrs.pushBoundsTo, HAttrs.pushBoundsToRaw_walk, walk_eq, cmpFieldsBounds_where]
  cases use
  · simp
  · simp only [if_true, VariantPlan.contrib, cmpVariantPlan, WCB.addC_gps]
    by_cases hc : continues (vf.1.h.levels true (.cmp op)) = true <;> simp [hc, WCB.addC_addC, Contrib.append_empty]

/-- comparison traits on an enum: the variant level (helper attributes most specific first, then the variant's
`#[derive_ex(..)]`) sits between the type and the fields; a stop on a variant is local to it -/
theorem cmp_enum_where (op : CmpOp) (name : String) (g : Generics) (variants : List VariantE) (e : Entry) (h : HAttrs)
    (c : CmpImpl) (hb : buildCmp op (.enum_ name g variants) e h = .ok c) :
    c.wc = Plan.whereClause (g.expandSelf (thisTy name g))
      { typeLevels := h.levels true (.cmp op) ++ e.levels,
        variants := (variants.map fun v => (v, docFieldsOut op v.fields)).map (cmpVariantPlan op) } := by
  simp only [buildCmp, Source.generics, Source.name, variants_mapM_doc, bind, Except.bind, pure, Except.pure] at hb
  by_cases hm : (variants.any fun v => fieldsMisused op v.fields) = true
  · simp [hm] at hb
  · simp only [hm, Bool.false_eq_true, if_false, Except.ok.injEq] at hb
    subst hb
    simp only [Entry.pushBoundsToWith_walk, walk_true, Plan.whereClause, Plan.contrib, WCB.addC_gps, WCB.new_gps]
    have hfold : ∀ (use : Bool) (w : WCB) (l : List (VariantE × List CmpField)),
        l.foldl (fun w x =>
          let (w', u) := x.1.h.pushBoundsTo use (.cmp op) w
          cmpFieldsBounds op x.2 u w') w =
        if use then w.addC (Contrib.concat ((l.map (cmpVariantPlan op)).map (VariantPlan.contrib w.gps))) else w := by
      intro use w l
      cases use
      · simp only [Bool.false_eq_true, if_false]
        apply foldl_id
        intro w x
        have := cmpVariant_step op false w x
        simpa using this
      · simp only [if_true, List.map_map]
        apply foldl_addC _ _ _ w.gps _ _ rfl
        intro w' x hw'
        have := cmpVariant_step op true w' x
        simp only [if_true] at this
        rw [← hw']
        exact this
    rw [hfold]
    by_cases hc : continues (h.levels true (.cmp op) ++ e.levels) = true <;> simp [hc, WCB.addC_addC, Contrib.append_empty]

end DX
