import DeriveExModel.Props.C04
import DeriveExModel.Props.C11
/-
C04, continued — `Debug` and `Default` on enums.  Every trait derivable on enums honours the
variant level; for `Debug` and `Default` the variant's helper attribute (`#[debug(bound(..))]`,
`#[default(_, bound(..))]`) is the most specific level of the variant's chain.
-/
namespace DX

/-- the fields the derived `Debug` formats: the transparent one, or else the ones not ignored -/
def debugUsedFields (fields : List FieldE) : List FieldE :=
  match transparentFields fields with | [f] => [f] | _ => shownFields fields

/-- what `build_debug_expr` adds to the where-clause -/
theorem debugExpr_where (ident : String) (src : Fields) (fields : List FieldE) (use : Bool) (w : WCB)
    (x : DebugExpr) (w' : WCB) (hb : debugExpr ident src fields use w = .ok (x, w')) :
    w' = if use then w.addC (Contrib.concat ((plainFields .debug (debugUsedFields fields)).map (FieldPlan.contrib w.gps)))
         else w := by
  unfold debugExpr at hb
  unfold debugUsedFields transparentFields shownFields
  cases ht : fields.filter (·.h.debug.transparent) with
  | nil =>
    rw [ht] at hb
    simp only [pure, Except.pure, Except.ok.injEq, Prod.mk.injEq] at hb
    rw [← hb.2, fields_fold]
  | cons f rest =>
    rw [ht] at hb
    cases rest with
    | cons g rest' => simp [bail] at hb
    | nil =>
      simp only [pure, Except.pure, Except.ok.injEq, Prod.mk.injEq] at hb
      rw [← hb.2, FieldE.pushBoundsTo_contrib]
      cases use <;> simp [plainFields, Contrib.concat, Contrib.append_empty]

def debugVariantPlan (v : VariantE) : VariantPlan :=
  { levels := v.h.levels true .debug, fields := plainFields .debug (debugUsedFields v.fields) }

theorem debugVariant_step (use : Bool) (w : WCB) (v : VariantE) (x : DebugExpr) (w' : WCB)
    (hb : (let (w1, u) := v.h.pushBoundsTo use .debug w
           debugExpr v.variant.name v.variant.fields v.fields u w1) = .ok (x, w')) :
    w' = if use then w.addC (VariantPlan.contrib w.gps (debugVariantPlan v)) else w := by
  simp only [HAttrs.pushBoundsTo, HAttrs.pushBoundsToRaw_walk, walk_eq] at hb
  cases use
  · simp only [Bool.false_eq_true, if_false] at hb ⊢
    have := debugExpr_where _ _ _ _ _ _ _ hb
    simpa using this
  · simp only [if_true] at hb ⊢
    have := debugExpr_where _ _ _ _ _ _ _ hb
    rw [this]
    simp only [VariantPlan.contrib, debugVariantPlan, WCB.addC_gps]
    by_cases hc : continues (v.h.levels true .debug) = true <;> simp [hc, WCB.addC_addC, Contrib.append_empty]

theorem debugVariants_fold (use : Bool) (variants : List VariantE) (arms : List (VariantE × DebugExpr)) (w : WCB)
    (arms' : List (VariantE × DebugExpr)) (w' : WCB)
    (hb : variants.foldlM (init := (arms, w)) (fun (p : List (VariantE × DebugExpr) × WCB) v => do
            let (w1, u) := v.h.pushBoundsTo use .debug p.2
            let (x, w2) ← debugExpr v.variant.name v.variant.fields v.fields u w1
            (pure (p.1 ++ [(v, x)], w2) : R _)) = .ok (arms', w')) :
    w' = if use then w.addC (Contrib.concat ((variants.map debugVariantPlan).map (VariantPlan.contrib w.gps))) else w := by
  induction variants generalizing arms w with
  | nil =>
    simp only [List.foldlM_nil, pure, Except.pure, Except.ok.injEq, Prod.mk.injEq] at hb
    cases use <;> simp [← hb.2, Contrib.concat, WCB.addC_empty]
  | cons v vs ih =>
    simp only [List.foldlM_cons, bind, Except.bind] at hb
    cases hstep : (let (w1, u) := v.h.pushBoundsTo use .debug w
                   debugExpr v.variant.name v.variant.fields v.fields u w1) with
    | error e =>
      simp only at hstep
      rw [hstep] at hb
      simp at hb
    | ok r =>
      obtain ⟨x, w2⟩ := r
      have h2 := debugVariant_step use w v x w2 hstep
      simp only at hstep
      rw [hstep] at hb
      simp only [pure, Except.pure] at hb
      have := ih _ _ hb
      rw [this, h2]
      cases use
      · simp
      · simp only [if_true, List.map_cons, Contrib.concat, List.foldr, WCB.addC_gps, WCB.addC_addC]

/-- `Debug` on an enum: type level (`#[debug(bound(..))]`, `Debug(bound(..))`, `bound(..)`), then per variant its own
three levels, then per formatted field its three levels and the default bound -/
theorem debug_enum_where (en : ItemEnum) (e : Entry) (h : HAttrs) (variants : List VariantE) (d : DebugImpl)
    (hb : buildDebugEnum en e h variants = .ok d) :
    d.wc = Plan.whereClause en.generics
      { typeLevels := h.levels true .debug ++ e.levels, variants := variants.map debugVariantPlan } := by
  unfold buildDebugEnum at hb
  simp only [bind, Except.bind, Entry.pushBoundsToWith_walk, walk_true] at hb
  split at hb
  · simp at hb
  · rename_i r hr
    obtain ⟨arms', w'⟩ := r
    simp only [pure, Except.pure, Except.ok.injEq] at hb
    subst hb
    have := debugVariants_fold _ variants [] _ arms' w' hr
    simp only [this, Plan.whereClause, Plan.contrib, WCB.addC_gps, WCB.new_gps]
    by_cases hc : continues (h.levels true .debug ++ e.levels) = true <;> simp [hc, WCB.addC_addC, Contrib.append_empty]

/-! ### Default on an enum: only the default variant is walked -/

theorem defaultVariant_where (g : Generics) (tl : List Bounds) (v : VariantE) :
    (defaultCtorArgs v.fields (walk (walk (WCB.new g) true tl).1 (walk (WCB.new g) true tl).2 (v.h.levels true .dflt)).2
        (walk (walk (WCB.new g) true tl).1 (walk (WCB.new g) true tl).2 (v.h.levels true .dflt)).1).2 =
      Plan.whereClause g
        { typeLevels := tl, variants := [{ levels := v.h.levels true .dflt, fields := defaultFieldPlans v.fields }] } := by
  simp only [walk_true, defaultCtorArgs_where, walk_eq, Plan.whereClause, Plan.contrib, VariantPlan.contrib, List.map_cons,
    List.map_nil, Contrib.concat, List.foldr, Contrib.append_empty, WCB.addC_gps, WCB.new_gps]
  by_cases hc : continues tl = true
  · by_cases hv : continues (v.h.levels true .dflt) = true <;>
      simp [hc, hv, WCB.addC_addC, Contrib.append_empty, Contrib.append_assoc]
  · simp [hc, Contrib.append_empty]

/-- `Default` on an enum without a type-level value: the type-level chain, then the chain of the default variant
alone (the other variants contribute nothing), then its fields without an explicit value -/
theorem default_enum_where (en : ItemEnum) (e : Entry) (h : HAttrs) (variants : List VariantE) (d : DefaultImpl)
    (hn : h.defaultValue Ty.selfTy = none) (hb : buildDefaultEnum en e h variants = .ok d) :
    ∃ v ∈ variants, (markedVariants variants = [] ∨ ∃ a, markedVariants variants = [(v, a)]) ∧
      d.wc = Plan.whereClause en.generics
        { typeLevels := h.levels true .dflt ++ e.levels,
          variants := [{ levels := v.h.levels true .dflt, fields := defaultFieldPlans v.fields }] } := by
  unfold buildDefaultEnum at hb
  unfold markedVariants
  simp only [hn, bind, Except.bind, pure, Except.pure] at hb
  cases hm : variants.filterMap fun v => v.h.dflt.map fun a => (v, a) with
  | nil =>
    rw [hm] at hb
    cases variants with
    | nil => simp [bail] at hb
    | cons v vs =>
      cases vs with
      | cons v' vs' => simp [bail] at hb
      | nil =>
        simp only [Option.isSome_none, Bool.false_eq_true, if_false] at hb
        simp only [Except.ok.injEq] at hb
        subst hb
        refine ⟨v, by simp, Or.inl rfl, ?_⟩
        simp only [Entry.pushBoundsToWith_walk, HAttrs.pushBoundsTo, HAttrs.pushBoundsToRaw_walk]
        exact defaultVariant_where _ _ v
  | cons va rest =>
    rw [hm] at hb
    cases rest with
    | cons vb rest' => simp [bail] at hb
    | nil =>
      obtain ⟨v, a⟩ := va
      simp only at hb
      cases hv : a.value with
      | some x => simp [hv, bail] at hb
      | none =>
        simp only [hv, Option.isSome_none, Bool.false_eq_true, if_false, Except.ok.injEq] at hb
        subst hb
        have hmem : (v, a) ∈ variants.filterMap fun v => v.h.dflt.map fun a => (v, a) := by rw [hm]; simp
        simp only [List.mem_filterMap, Option.map_eq_some_iff] at hmem
        obtain ⟨v0, hv0, a0, _, heq⟩ := hmem
        have : v0 = v := by simpa using congrArg Prod.fst heq
        subst this
        refine ⟨v0, hv0, Or.inr ⟨a, rfl⟩, ?_⟩
        simp only [Entry.pushBoundsToWith_walk, HAttrs.pushBoundsTo, HAttrs.pushBoundsToRaw_walk]
        exact defaultVariant_where _ _ v0

/-- with a type-level `#[default(value)]` no variant and no field is walked -/
theorem default_enum_where_value (en : ItemEnum) (e : Entry) (h : HAttrs) (variants : List VariantE) (d : DefaultImpl)
    (v : DefVal) (hv : h.defaultValue Ty.selfTy = some v) (hb : buildDefaultEnum en e h variants = .ok d) :
    d.wc = Plan.whereClause en.generics { typeLevels := h.levels true .dflt ++ e.levels, variants := [] } := by
  unfold buildDefaultEnum at hb
  simp only [hv, pure, Except.pure, Except.ok.injEq] at hb
  subst hb
  simp only [Entry.pushBoundsToWith_walk, walk_true, Plan.whereClause, Plan.contrib, List.map_nil, Contrib.concat, List.foldr]
  by_cases hc : continues (h.levels true .dflt ++ e.levels) = true <;> simp [hc, Contrib.append_empty]

/-! ### Deref / DerefMut: only the type level exists (the field's type is the target, not a bound) -/

theorem deref_where (kind : Kind) (s : ItemStruct) (e : Entry) (fields : List FieldE) (d : DerefImpl)
    (hb : buildDeref kind s e fields = .ok d) :
    d.wc = Plan.whereClause s.generics { typeLevels := e.levels, variants := [] } := by
  unfold buildDeref at hb
  simp only [Entry.pushBoundsTo_walk, walk_true] at hb
  cases fields with
  | nil => simp [bail] at hb
  | cons f fs =>
    cases fs with
    | cons g gs => simp [bail] at hb
    | nil =>
      simp only [pure, Except.pure, Except.ok.injEq] at hb
      subst hb
      simp only [Plan.whereClause, Plan.contrib, List.map_nil, Contrib.concat, List.foldr]
      by_cases hc : continues e.levels = true <;> simp [hc, Contrib.append_empty]

end DX
