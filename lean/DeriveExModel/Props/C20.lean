import DeriveExModel.Props.C15
/-
C20 — whatever expansion accepts without an error of its own type-checks.
C13 — hygiene.

rustc is the judge of these two properties (the L2 runs compile a well-typed grammar, also under
hostile names and scopes).  What is proved here is the explicit rule set the emitted templates obey —
one rule per way an emitted template has been seen to trip rustc.  Whether the rule set is *complete*
is validated against rustc on every run, not proved.
-/
namespace DX

/-! ### R2 — helper items nested in method bodies never name the field's type
(so they cannot mention generic parameters, lifetimes or `Self` of the enclosing impl) -/

def CmpField.withTy (cf : CmpField) (ty : Ty) : CmpField :=
  { cf with f := { cf.f with field := { cf.f.field with ty := ty } } }

theorem helper_free_of_field_type (k : SrcKind) (cf : CmpField) (ty : Ty) :
    peExpr k (cf.withTy ty) = peExpr k cf ∧ poExpr k (cf.withTy ty) = poExpr k cf ∧
    ordExpr k (cf.withTy ty) = ordExpr k cf ∧ hashExpr k (cf.withTy ty) = hashExpr k cf ∧
    eqExpr k (cf.withTy ty) = eqExpr k cf := by
  refine ⟨rfl, rfl, rfl, rfl, rfl⟩

/-! ### R3 — the hidden `Eq`-assertion function uses `Self`-expanded generics -/

mutual
def Ty.hasSelf : Ty → Bool
  | .path g segs => (Ty.path g segs).isSelf || Seg.hasSelfL segs
  | .qpath s _ tsegs rest => s.hasSelf || Seg.hasSelfL tsegs || Seg.hasSelfL rest
  | .ref _ _ t => t.hasSelf
  | .ptr _ t => t.hasSelf
  | .slice t => t.hasSelf
  | .array t _ => t.hasSelf
  | .tuple ts => Ty.hasSelfL ts
  | .bareFn args ret => Ty.hasSelfL args || Ty.hasSelfO ret
  | .paren t => t.hasSelf
  | .never => false
  | .dynT _ segs _ => Seg.hasSelfL segs
  | .macro _ => false
  | .prefixed _ t => t.hasSelf
def Ty.hasSelfO : Option Ty → Bool
  | none => false
  | some t => t.hasSelf
def Ty.hasSelfL : List Ty → Bool
  | [] => false
  | t :: ts => t.hasSelf || Ty.hasSelfL ts
def Seg.hasSelf : Seg → Bool
  | .mk _ args => GArg.hasSelfL args
  | .fn _ args ret => Ty.hasSelfL args || Ty.hasSelfO ret
def Seg.hasSelfL : List Seg → Bool
  | [] => false
  | s :: ss => s.hasSelf || Seg.hasSelfL ss
def GArg.hasSelf : GArg → Bool
  | .ty t => t.hasSelf
  | .lt _ => false
  | .lit _ => false
  | .assoc _ t => t.hasSelf
  | .cblock _ => false
def GArg.hasSelfL : List GArg → Bool
  | [] => false
  | a :: as => a.hasSelf || GArg.hasSelfL as
end

theorem parenIfPlus_hasSelf (t : Ty) : t.parenIfPlus.hasSelf = t.hasSelf := by
  unfold Ty.parenIfPlus
  split
  · simp [Ty.hasSelf]
  · rfl

/-- `expand_self` leaves no type node `Self` behind (given the replacement itself has none) -/
theorem expandSelf_no_self (to : Ty) (hto : to.hasSelf = false) :
    (∀ t : Ty, (Ty.expandSelf to t).hasSelf = false) := by
  intro t
  apply Ty.rec
    (motive_1 := fun t => (Ty.expandSelf to t).hasSelf = false)
    (motive_2 := fun s => (Seg.expandSelf to s).hasSelf = false)
    (motive_3 := fun a => (GArg.expandSelf to a).hasSelf = false)
    (motive_4 := fun l => Seg.hasSelfL (Seg.expandSelfL to l) = false)
    (motive_5 := fun l => Ty.hasSelfL (Ty.expandSelfL to l) = false)
    (motive_6 := fun o => Ty.hasSelfO (Ty.expandSelfO to o) = false)
    (motive_7 := fun l => GArg.hasSelfL (GArg.expandSelfL to l) = false)
  case path =>
    intro g segs ih
    unfold Ty.expandSelf
    by_cases h : (Ty.path g segs).isSelf = true
    · simp [h, hto, parenIfPlus_hasSelf]
    · simp only [h, Bool.false_eq_true, if_false]
      unfold Ty.hasSelf
      simp only [ih, Bool.or_false]
      -- the rebuilt path is `Self` only if the original was
      cases g <;> cases segs with
      | nil => simp [Ty.isSelf, Seg.expandSelfL]
      | cons s rest =>
        cases s with
        | mk i args =>
          cases rest with
          | cons _ _ => simp [Ty.isSelf, Seg.expandSelfL, Seg.expandSelf]
          | nil =>
            cases args with
            | cons _ _ => simp [Ty.isSelf, Seg.expandSelfL, Seg.expandSelf, GArg.expandSelfL]
            | nil => simpa [Ty.isSelf, Seg.expandSelfL, Seg.expandSelf, GArg.expandSelfL] using h
        | fn i args ret => cases rest <;> simp [Ty.isSelf, Seg.expandSelfL, Seg.expandSelf]
  all_goals (intros; simp_all [Ty.expandSelf, Ty.hasSelf, Ty.expandSelfO, Ty.hasSelfO, Ty.expandSelfL, Ty.hasSelfL,
    Seg.expandSelf, Seg.hasSelf, Seg.expandSelfL, Seg.hasSelfL, GArg.expandSelf, GArg.hasSelf, GArg.expandSelfL, GArg.hasSelfL])

/-- the comparison impls (and with them the free function asserting `Eq`) are built over the item's generics with
`Self` expanded to the concrete type -/
theorem cmp_generics_self_expanded (t : CmpOp) (src : Source) (e : Entry) (h : HAttrs) (c : CmpImpl)
    (hb : buildCmp t src e h = .ok c) :
    c.xgenerics = src.generics.expandSelf (thisTy src.name src.generics) := by
  cases src with
  | struct_ name g fields =>
    simp only [buildCmp, bind, Except.bind, pure, Except.pure] at hb
    split at hb
    · cases hb
    · simp only [Except.ok.injEq] at hb; subst hb; rfl
  | enum_ name g variants =>
    simp only [buildCmp, bind, Except.bind, pure, Except.pure] at hb
    split at hb
    · cases hb
    · simp only [Except.ok.injEq] at hb; subst hb; rfl

/-- the concrete type `X<'a, T, N>` contains no `Self` -/
theorem paramArg_no_self (p : GParam) (hp : p.name ≠ "Self") : (paramArg p).hasSelf = false := by
  cases p with
  | lt n bs => rfl
  | ty n bs d =>
    simp only [GParam.name] at hp
    simp [paramArg, GArg.hasSelf, Ty.simple, Ty.hasSelf, Ty.isSelf, Seg.hasSelfL, Seg.hasSelf, GArg.hasSelfL, GParam.name, hp]
  | const_ n t d =>
    simp only [GParam.name] at hp
    simp [paramArg, GArg.hasSelf, Ty.simple, Ty.hasSelf, Ty.isSelf, Seg.hasSelfL, Seg.hasSelf, GArg.hasSelfL, GParam.name, hp]

theorem thisTy_no_self (name : String) (g : Generics) (hn : name ≠ "Self") (hp : ∀ p ∈ g.params, p.name ≠ "Self") :
    (thisTy name g).hasSelf = false := by
  have hargs : ∀ ps : List GParam, (∀ p ∈ ps, p.name ≠ "Self") → GArg.hasSelfL (ps.map paramArg) = false := by
    intro ps hps
    induction ps with
    | nil => rfl
    | cons p ps ih =>
      simp only [List.map_cons, GArg.hasSelfL, paramArg_no_self p (hps p (by simp)),
        ih (fun q hq => hps q (by simp [hq])), Bool.or_false]
  have hlt : ∀ p ∈ ltFirst g.params, p.name ≠ "Self" := by
    intro p hp'
    apply hp
    simp only [ltFirst, List.mem_append, List.mem_filter] at hp'
    rcases hp' with h | h <;> exact h.1
  unfold thisTy Ty.hasSelf
  simp only [Seg.hasSelfL, Seg.hasSelf, hargs _ hlt, Bool.or_false]
  unfold Ty.isSelf
  split
  · rename_i heq
    simp only [Ty.path.injEq, List.cons.injEq, Seg.mk.injEq, and_true, true_and] at heq
    exact absurd heq.1 hn
  · rfl

/-! ### R4 — every operand of the `&&` chain of `eq` is parenthesised (a `by` block cannot be read as a statement) -/

theorem eq_conjuncts_parenthesised (k : SrcKind) (fs : List CmpField) (hne : fs ≠ []) :
    cmpFieldsBody .partialEq k fs = sepBy ("&&" : GTok) (fs.map fun cf => paren (peExpr k cf)) := by
  unfold cmpFieldsBody
  cases fs with
  | nil => exact absurd rfl hne
  | cons _ _ => rfl

/-! ### R5 — a `match` without arms scrutinises a value, not a reference -/

theorem empty_match_by_value : (matchSelf []).strs = ["match", "*", "self", "{", "}"] := rfl

/-- … and an enum without variants has no arms, in `clone` and in `fmt` alike -/
theorem empty_enum_no_arms {α β} (f : α → β) : ([] : List α).map f = [] := rfl

/-! ### R1 / C13-H3 — names the templates introduce next to user-chosen names are reserved (`__…`) -/

/-- generic parameters and lifetimes introduced in positions that share a scope with the item's own -/
def introducedGenerics : List String := ["__H", "'__a"]
/-- fixed locals, parameters and closure parameters of the templates -/
def introducedBinders : List String :=
  ["__rhs", "__source", "__lhs", "__f", "__other", "__this", "__state", "__o", "__to_index", "__eq", "__cmp", "__partial_cmp", "__hash"]
/-- prefixes of the per-field pattern binders and helper functions (`FieldEntry::make_ident`) -/
def binderPrefixes : List String :=
  ["__l", "__r", "__field", "__self", "__this", "__other", "__eq_", "__partial_ord_", "__ord_", "__hash_"]

def reserved (s : String) : Bool := s.startsWith "__" || s.startsWith "'__"

theorem introduced_names_reserved :
    introducedGenerics.all reserved = true ∧ introducedBinders.all reserved = true ∧ binderPrefixes.all reserved = true := by
  decide +kernel

/-- a per-field binder is its prefix, `_`, and the (unrawed) field name or index: it keeps the reserved prefix and
cannot equal a fixed binder or a binder of another family -/
theorem makeIdent_shape (pre : String) (f : FieldE) :
    f.makeIdent pre = pre ++ "_" ++ (match f.field.name with | some n => unraw n | none => toString f.index) := by
  unfold FieldE.makeIdent
  cases f.field.name <;> rfl

/-! ### R6 — a `key` template that misuses `$` is answered by the expander itself -/

/-- a recognised comparison attribute whose `key` template uses `$` where only a name can stand makes the parsing of
the helper attributes fail (an error of derive_ex's own), on whatever target it stands and whatever else is there -/
theorem bad_key_refused (attrs : List Attr) (t : Target) (k : Kinds) (w : CmpAttr) (a : CmpArgs)
    (hk : k.matchCmp w = true) (hb : cmpBodies attrs w = [.list a]) (hbad : a.keyBad = true) :
    ∃ e, HAttrs.fromAttrs attrs t k = .error e := by
  have hc : cmpPart attrs k w = .error () := by
    simp [cmpPart, hk, CmpH.fromAttrs, hb, parseSingle, CmpArgs.check, hbad, bail, bind, Except.bind]
  have hcs : CmpHs.fromAttrs attrs k = .error () := by
    unfold CmpHs.fromAttrs
    cases w <;> simp only [hc, bind, Except.bind] <;> (repeat' split) <;> rfl
  unfold HAttrs.fromAttrs
  simp only [hcs, bind, Except.bind]
  repeat' split
  all_goals exact ⟨_, rfl⟩

end DX
