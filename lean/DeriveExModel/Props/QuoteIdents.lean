import DeriveExModel.Generated.QuoteIdents
import DeriveExModel.Props.C13Hyg
import DeriveExModel.Props.C20
/-
Q — the identifiers the expander writes, read off its *source text* on every run.

`bin/quote_idents.py` lexes `derive-ex/src/*.rs`, finds every `quote!` / `quote_spanned!` / `parse_quote!` template and
classifies each identifier token in it by its syntactic anchor; the result is `Generated/QuoteIdents.lean`.  The lemmas
below are re-proved against it on every run.  They tie the hygiene theorem of `C13Hyg.lean` (stated over the model's
provenance-carrying tokens) to the source of the repository by a second route, independent of L1: a template that
introduces a new free name — a local `tmp`, a call of `Some(..)`, a path that starts at `::std` or at `core` without the
leading `::` — breaks an obligation here even if no generated input reaches that template, and the offending identifier
with its file and line is the replay.
-/
namespace DX

/-- every identifier or lifetime written in a template without an anchor (not behind `::`, `.`, `fn`, `type`, not the
name of a binding, not inside `#[..]`) is one the model's templates may write literally: a keyword, a primitive type, a
`__`-reserved name or one of the three block-local names -/
theorem quote_table_free_ok : Generated.quoteFree.all litOK = true := by decide +kernel

/-- every path of a template that starts with `::` starts at `::core` -/
theorem quote_table_abs_roots_core : Generated.quoteAbsRoots.all (· == "core") = true := by decide +kernel

/-- no template writes a path relative to the user's crate or module (`crate::..`, `super::..`, `self::..`) -/
theorem quote_table_no_relative_paths : Generated.quoteRelRoots = [] := by decide +kernel

/-- no template calls anything in method syntax (`x.name(..)`, `x.#name(..)`): a method call is looked up among the
traits in scope of the user's item as well, so it is a free name in disguise (until F31 the `Debug` builder was driven
that way, and the hygiene predicate had waved `.name` through) -/
theorem quote_table_no_method_calls : Generated.quoteMethods = [] := by decide +kernel

/-- the only `Self::name` a template writes with a literal name is `Self::Output`, and only in the file that derives from
structs: there `Self` is a struct (or a reference to one), which has no variants the name could mean instead.  In the
impls generated from an annotated impl the self type is the user's and may be an enum (F33) -/
theorem quote_table_self_paths :
    Generated.quoteSelfPaths.all (fun p => p.1 == "Output" && p.2 == "item_type.rs") = true := by decide +kernel

/-- templates that consist of a single identifier: beside what `litOK` admits, the attribute path `derive_ex` the expander
compares attributes with (not generated code) -/
def knownSingles : List String := ["derive_ex"]
theorem quote_table_singles_ok : Generated.quoteSingles.all (fun s => litOK s || knownSingles.contains s) = true := by
  decide +kernel

/-- the prefixes of per-field binders and nested helper functions in the source are exactly the model's, and reserved -/
theorem quote_table_binder_prefixes :
    Generated.quoteBinderPrefixes.all (fun s => binderPrefixes.contains s) = true ∧
    binderPrefixes.all (fun s => Generated.quoteBinderPrefixes.contains s) = true ∧
    Generated.quoteBinderPrefixes.all reserved = true := by
  decide +kernel

/-- identifiers are assembled (`format_ident!`) only as: an operator's method or trait name, with or without `Assign`
(the trait table of `Props/Tables.lean` pins those), and `prefix_name` for binders -/
def knownFormats : List String := ["{}", "{}Assign", "{}_assign", "{}_{}"]
theorem quote_table_formats_known : Generated.quoteFormatIdents.all (fun s => knownFormats.contains s) = true := by
  decide +kernel

/-- the extraction saw the templates (a refactoring that hides them from the extractor must not make the lemmas vacuous) -/
theorem quote_table_nonempty : 150 ≤ Generated.quoteTemplates ∧ 30 ≤ Generated.quoteFree.length := by decide +kernel

end DX
