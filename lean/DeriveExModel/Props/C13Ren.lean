import DeriveExModel.Basic
import DeriveExModel.Spec.Bounds
/-
C13 — the places where the expander *looks at* a user-chosen name, and why a consistent renaming cannot change
what it decides there.

The expander copies names; it inspects them in exactly three functions of the model (`grep` for string comparisons in
`Syntax.lean`, `Core.lean`, `Basic.lean`): `contains_in_type` (does a field type mention a type / const parameter — decides
the default bounds), `expand_self` (which type nodes are `Self`), `may_be_unsized` (is the last field's type `str` or a
parameter declared `?Sized`).  This file defines the renaming of a type, of generics, and proves that each of the three
gives the same answer on the renamed input, for every injective renaming that leaves `Self` and `str` alone and respects
the raw-identifier prefix.
-/
namespace DX

/-- a consistent renaming of identifiers and lifetimes -/
structure Ren where
  f : String → String
  inj : ∀ a b, f a = f b → a = b
  /-- `r#x` is renamed like `x` -/
  unraw_comm : ∀ s, unraw (f s) = f (unraw s)
  self_fixed : f "Self" = "Self"
  str_fixed : f "str" = "str"

def CExpr.rename (ρ : Ren) : CExpr → CExpr
  | .lit s => .lit s
  | .ident s => .ident (ρ.f s)

mutual
def Ty.rename (ρ : Ren) : Ty → Ty
  | .path g segs => .path g (Seg.renameL ρ segs)
  | .qpath s tg tsegs rest => .qpath (Ty.rename ρ s) tg (Seg.renameL ρ tsegs) (Seg.renameL ρ rest)
  | .ref lt m t => .ref (lt.map ρ.f) m (Ty.rename ρ t)
  | .ptr m t => .ptr m (Ty.rename ρ t)
  | .slice t => .slice (Ty.rename ρ t)
  | .array t len => .array (Ty.rename ρ t) (len.rename ρ)
  | .tuple ts => .tuple (Ty.renameL ρ ts)
  | .bareFn args ret => .bareFn (Ty.renameL ρ args) (Ty.renameO ρ ret)
  | .paren t => .paren (Ty.rename ρ t)
  | .never => .never
  | .dynT g segs more => .dynT g (Seg.renameL ρ segs) (more.map (·.map ρ.f))
  | .macro toks => .macro (toks.map ρ.f)
  | .prefixed pre t => .prefixed (pre.map ρ.f) (Ty.rename ρ t)
def Ty.renameO (ρ : Ren) : Option Ty → Option Ty
  | none => none
  | some t => some (Ty.rename ρ t)
def Ty.renameL (ρ : Ren) : List Ty → List Ty
  | [] => []
  | t :: ts => Ty.rename ρ t :: Ty.renameL ρ ts
def Seg.rename (ρ : Ren) : Seg → Seg
  | .mk i args => .mk (ρ.f i) (GArg.renameL ρ args)
  | .fn i args ret => .fn (ρ.f i) (Ty.renameL ρ args) (Ty.renameO ρ ret)
def Seg.renameL (ρ : Ren) : List Seg → List Seg
  | [] => []
  | s :: ss => Seg.rename ρ s :: Seg.renameL ρ ss
def GArg.rename (ρ : Ren) : GArg → GArg
  | .ty t => .ty (Ty.rename ρ t)
  | .lt s => .lt (ρ.f s)
  | .lit s => .lit s
  | .assoc n t => .assoc (ρ.f n) (Ty.rename ρ t)
  | .cblock e => .cblock (e.rename ρ)
def GArg.renameL (ρ : Ren) : List GArg → List GArg
  | [] => []
  | a :: as => GArg.rename ρ a :: GArg.renameL ρ as
end

def TBound.rename (ρ : Ren) : TBound → TBound
  | .trait q lts p => .trait q (lts.map ρ.f) (p.rename ρ)
  | .lt s => .lt (ρ.f s)

def GParam.rename (ρ : Ren) : GParam → GParam
  | .lt n bs => .lt (ρ.f n) (bs.map ρ.f)
  | .ty n bs d => .ty (ρ.f n) (bs.map (TBound.rename ρ)) (d.map (Ty.rename ρ))
  | .const_ n t d => .const_ (ρ.f n) (t.rename ρ) (d.map (·.map ρ.f))

def WPred.rename (ρ : Ren) : WPred → WPred
  | .ty lts t bs => .ty (lts.map ρ.f) (t.rename ρ) (bs.map (TBound.rename ρ))
  | .lt a bs => .lt (ρ.f a) (bs.map ρ.f)

def Generics.rename (ρ : Ren) (g : Generics) : Generics :=
  { params := g.params.map (GParam.rename ρ), wheres := g.wheres.map (WPred.rename ρ) }

/-! ### the parameter set -/

theorem Ren.eq_iff (ρ : Ren) (a b : String) : ρ.f a = ρ.f b ↔ a = b := ⟨ρ.inj a b, fun h => h ▸ rfl⟩

theorem mem_ren (ρ : Ren) (ps : List String) (x : String) :
    (∃ a, a ∈ ps ∧ ρ.f a = ρ.f x) ↔ x ∈ ps :=
  ⟨fun ⟨_, ha, e⟩ => ρ.inj _ _ e ▸ ha, fun h => ⟨x, h, rfl⟩⟩

theorem contains_map_ren (ρ : Ren) (ps : List String) (x : String) :
    (ps.map ρ.f).contains (ρ.f x) = ps.contains x := by
  rw [Bool.eq_iff_iff]
  simp [mem_ren]

/-- the set of type / const parameter names of the renamed generics is the renamed set -/
theorem paramSet_rename (ρ : Ren) (g : Generics) : (g.rename ρ).paramSet = g.paramSet.map ρ.f := by
  unfold Generics.paramSet Generics.rename
  simp only [List.filterMap_map, List.map_filterMap]
  congr 1
  funext p
  cases p <;> simp [GParam.rename, ρ.unraw_comm]

/-! ### `contains_in_type` -/

theorem headIn_rename (ρ : Ren) (ps : List String) (g : Bool) (segs : List Seg) :
    headIn (ps.map ρ.f) g (Seg.renameL ρ segs) = headIn ps g segs := by
  unfold headIn
  cases segs with
  | nil => simp [Seg.renameL]
  | cons s rest =>
    cases s <;> simp [Seg.renameL, Seg.rename, ρ.unraw_comm, mem_ren]

theorem cexpr_mentions_rename (ρ : Ren) (ps : List String) (e : CExpr) :
    (match e.rename ρ with | .ident s => (ps.map ρ.f).contains (unraw s) | .lit _ => false) =
    (match e with | .ident s => ps.contains (unraw s) | .lit _ => false) := by
  cases e <;> simp [CExpr.rename, ρ.unraw_comm, mem_ren]

/-- **whether a type mentions a type / const parameter does not depend on how the parameters (or anything else) are
named**: the renamed type mentions the renamed parameters exactly when the original mentions the original ones -/
theorem mentions_rename (ρ : Ren) (ps : List String) (t : Ty) :
    (t.rename ρ).mentions (ps.map ρ.f) = t.mentions ps := by
  apply Ty.rec
    (motive_1 := fun t => (t.rename ρ).mentions (ps.map ρ.f) = t.mentions ps)
    (motive_2 := fun s => (s.rename ρ).mentions (ps.map ρ.f) = s.mentions ps)
    (motive_3 := fun a => (a.rename ρ).mentions (ps.map ρ.f) = a.mentions ps)
    (motive_4 := fun l => Seg.mentionsL (ps.map ρ.f) (Seg.renameL ρ l) = Seg.mentionsL ps l)
    (motive_5 := fun l => Ty.mentionsL (ps.map ρ.f) (Ty.renameL ρ l) = Ty.mentionsL ps l)
    (motive_6 := fun o => Ty.mentionsO (ps.map ρ.f) (Ty.renameO ρ o) = Ty.mentionsO ps o)
    (motive_7 := fun l => GArg.mentionsL (ps.map ρ.f) (GArg.renameL ρ l) = GArg.mentionsL ps l)
  case path => intro g segs ih; simp [Ty.rename, Ty.mentions, ih, headIn_rename]
  case qpath => intro s tg tsegs rest ih1 ih2 ih3; simp [Ty.rename, Ty.mentions, ih1, ih2, ih3, headIn_rename]
  case ref => intro lt m t ih; simp [Ty.rename, Ty.mentions, ih]
  case ptr => intro m t ih; simp [Ty.rename, Ty.mentions, ih]
  case slice => intro t ih; simp [Ty.rename, Ty.mentions, ih]
  case array =>
    intro t len ih
    cases len <;> simp [Ty.rename, Ty.mentions, ih, CExpr.rename, ρ.unraw_comm, mem_ren]
  case tuple => intro ts ih; simp [Ty.rename, Ty.mentions, ih]
  case bareFn => intro args ret ih1 ih2; simp [Ty.rename, Ty.mentions, ih1, ih2]
  case paren => intro t ih; simp [Ty.rename, Ty.mentions, ih]
  case never => simp [Ty.rename, Ty.mentions]
  case dynT => intro g segs more ih; simp [Ty.rename, Ty.mentions, ih, headIn_rename]
  case «macro» =>
    intro toks
    simp only [Ty.rename, Ty.mentions, List.any_map, Function.comp_def, ρ.unraw_comm, contains_map_ren]
  case prefixed => intro pre t ih; simp [Ty.rename, Ty.mentions, ih]
  case mk => intro i args ih; simp [Seg.rename, Seg.mentions, ih]
  case fn => intro i args ret ih1 ih2; simp [Seg.rename, Seg.mentions, ih1, ih2]
  case ty => intro t ih; simp [GArg.rename, GArg.mentions, ih]
  case lt => intro s; simp [GArg.rename, GArg.mentions]
  case lit => intro s; simp [GArg.rename, GArg.mentions]
  case assoc => intro n t ih; simp [GArg.rename, GArg.mentions, ih]
  case cblock =>
    intro e
    cases e <;> simp [GArg.rename, GArg.mentions, CExpr.rename, ρ.unraw_comm, mem_ren]
  case nil => simp [Seg.renameL, Seg.mentionsL]
  case cons => intro s ss ih1 ih2; simp [Seg.renameL, Seg.mentionsL, ih1, ih2]
  case nil => simp [Ty.renameL, Ty.mentionsL]
  case cons => intro t ts ih1 ih2; simp [Ty.renameL, Ty.mentionsL, ih1, ih2]
  case none => simp [Ty.renameO, Ty.mentionsO]
  case some => intro t ih; simp [Ty.renameO, Ty.mentionsO, ih]
  case nil => simp [GArg.renameL, GArg.mentionsL]
  case cons => intro a as ih1 ih2; simp [GArg.renameL, GArg.mentionsL, ih1, ih2]

/-- in the expander's own terms: a field type of the renamed item mentions a parameter of the renamed item exactly when
it did before the renaming — the set of default bounds cannot change -/
theorem mentions_paramSet_rename (ρ : Ren) (g : Generics) (t : Ty) :
    (t.rename ρ).mentions (g.rename ρ).paramSet = t.mentions g.paramSet := by
  rw [paramSet_rename, mentions_rename]

/-! ### `expand_self` -/

theorem isSelf_rename (ρ : Ren) (t : Ty) : (t.rename ρ).isSelf = t.isSelf := by
  cases t with
  | path g segs =>
    cases g <;> cases segs with
    | nil => simp [Ty.rename, Seg.renameL, Ty.isSelf]
    | cons s rest =>
      cases s with
      | fn i a r => cases rest <;> simp [Ty.rename, Seg.renameL, Seg.rename, Ty.isSelf]
      | mk i args =>
        cases rest with
        | cons _ _ => simp [Ty.rename, Seg.renameL, Seg.rename, Ty.isSelf]
        | nil =>
          cases args with
          | cons _ _ => simp [Ty.rename, Seg.renameL, Seg.rename, GArg.renameL, Ty.isSelf]
          | nil =>
            by_cases h : i = "Self"
            · subst h; simp [Ty.rename, Seg.renameL, Seg.rename, GArg.renameL, Ty.isSelf, ρ.self_fixed]
            · have h' : ρ.f i ≠ "Self" := fun e => h (ρ.inj _ _ (e.trans ρ.self_fixed.symm))
              simp [Ty.rename, Seg.renameL, Seg.rename, GArg.renameL, Ty.isSelf, h, h']
  | _ => simp [Ty.rename, Ty.isSelf]

theorem parenIfPlus_rename (ρ : Ren) (t : Ty) : (t.parenIfPlus).rename ρ = (t.rename ρ).parenIfPlus := by
  cases t with
  | dynT g segs more => cases more <;> simp [Ty.parenIfPlus, Ty.rename]
  | _ => first | rfl | simp [Ty.parenIfPlus, Ty.rename]

/-- **`Self` substitution commutes with renaming**: the same type nodes are recognised as `Self`, whatever anything
else is called -/
theorem expandSelf_rename (ρ : Ren) (to : Ty) (t : Ty) :
    (Ty.expandSelf to t).rename ρ = Ty.expandSelf (to.rename ρ) (t.rename ρ) := by
  apply Ty.rec
    (motive_1 := fun t => (Ty.expandSelf to t).rename ρ = Ty.expandSelf (to.rename ρ) (t.rename ρ))
    (motive_2 := fun s => (Seg.expandSelf to s).rename ρ = Seg.expandSelf (to.rename ρ) (s.rename ρ))
    (motive_3 := fun a => (GArg.expandSelf to a).rename ρ = GArg.expandSelf (to.rename ρ) (a.rename ρ))
    (motive_4 := fun l => Seg.renameL ρ (Seg.expandSelfL to l) = Seg.expandSelfL (to.rename ρ) (Seg.renameL ρ l))
    (motive_5 := fun l => Ty.renameL ρ (Ty.expandSelfL to l) = Ty.expandSelfL (to.rename ρ) (Ty.renameL ρ l))
    (motive_6 := fun o => Ty.renameO ρ (Ty.expandSelfO to o) = Ty.expandSelfO (to.rename ρ) (Ty.renameO ρ o))
    (motive_7 := fun l => GArg.renameL ρ (GArg.expandSelfL to l) = GArg.expandSelfL (to.rename ρ) (GArg.renameL ρ l))
  case path =>
    intro g segs ih
    have hs := isSelf_rename ρ (.path g segs)
    simp only [Ty.rename] at hs
    unfold Ty.expandSelf
    simp only [Ty.rename, hs]
    by_cases h : (Ty.path g segs).isSelf = true
    · simp only [h, if_true]; exact parenIfPlus_rename ρ to
    · simp only [h, Bool.false_eq_true, if_false, Ty.rename, ih]
  case qpath => intro s tg tsegs rest ih1 ih2 ih3; simp [Ty.rename, Ty.expandSelf, ih1, ih2, ih3]
  case ref => intro lt m t ih; simp [Ty.rename, Ty.expandSelf, ih]
  case ptr => intro m t ih; simp [Ty.rename, Ty.expandSelf, ih]
  case slice => intro t ih; simp [Ty.rename, Ty.expandSelf, ih]
  case array => intro t len ih; simp [Ty.rename, Ty.expandSelf, ih]
  case tuple => intro ts ih; simp [Ty.rename, Ty.expandSelf, ih]
  case bareFn => intro args ret ih1 ih2; simp [Ty.rename, Ty.expandSelf, ih1, ih2]
  case paren => intro t ih; simp [Ty.rename, Ty.expandSelf, ih]
  case never => simp [Ty.rename, Ty.expandSelf]
  case dynT => intro g segs more ih; simp [Ty.rename, Ty.expandSelf, ih]
  case «macro» => intro toks; simp [Ty.rename, Ty.expandSelf]
  case prefixed => intro pre t ih; simp [Ty.rename, Ty.expandSelf, ih]
  case mk => intro i args ih; simp [Seg.rename, Seg.expandSelf, ih]
  case fn => intro i args ret ih1 ih2; simp [Seg.rename, Seg.expandSelf, ih1, ih2]
  case ty => intro t ih; simp [GArg.rename, GArg.expandSelf, ih]
  case lt => intro s; simp [GArg.rename, GArg.expandSelf]
  case lit => intro s; simp [GArg.rename, GArg.expandSelf]
  case assoc => intro n t ih; simp [GArg.rename, GArg.expandSelf, ih]
  case cblock => intro e; simp [GArg.rename, GArg.expandSelf]
  case nil => simp [Seg.renameL, Seg.expandSelfL]
  case cons => intro s ss ih1 ih2; simp [Seg.renameL, Seg.expandSelfL, ih1, ih2]
  case nil => simp [Ty.renameL, Ty.expandSelfL]
  case cons => intro t ts ih1 ih2; simp [Ty.renameL, Ty.expandSelfL, ih1, ih2]
  case none => simp [Ty.renameO, Ty.expandSelfO]
  case some => intro t ih; simp [Ty.renameO, Ty.expandSelfO, ih]
  case nil => simp [GArg.renameL, GArg.expandSelfL]
  case cons => intro a as ih1 ih2; simp [GArg.renameL, GArg.expandSelfL, ih1, ih2]

/-! ### `may_be_unsized` -/

theorem isMaybeBound_rename (ρ : Ren) (b : TBound) : isMaybeBound (b.rename ρ) = isMaybeBound b := by
  cases b <;> rfl

theorem isMaybeBound_comp_rename (ρ : Ren) : isMaybeBound ∘ TBound.rename ρ = isMaybeBound :=
  funext (isMaybeBound_rename ρ)

theorem beq_ren (ρ : Ren) (a b : String) : (ρ.f a == ρ.f b) = (a == b) := by
  by_cases h : a = b
  · subst h; simp
  · have : ρ.f a ≠ ρ.f b := fun e => h (ρ.inj _ _ e)
    rw [beq_eq_false_iff_ne.2 h, beq_eq_false_iff_ne.2 this]

theorem beq_ren_unraw (ρ : Ren) (a b : String) : (unraw (ρ.f a) == unraw (ρ.f b)) = (unraw a == unraw b) := by
  rw [ρ.unraw_comm, ρ.unraw_comm]; exact beq_ren ρ _ _

theorem stripParen_rename (ρ : Ren) : (t : Ty) → (t.rename ρ).stripParen = (t.stripParen).rename ρ
  | .paren t => by
    show (Ty.paren (t.rename ρ)).stripParen = _
    simp only [Ty.stripParen]
    exact stripParen_rename ρ t
  | .path .. => by simp [Ty.rename, Ty.stripParen]
  | .qpath .. => by simp [Ty.rename, Ty.stripParen]
  | .ref .. => by simp [Ty.rename, Ty.stripParen]
  | .ptr .. => by simp [Ty.rename, Ty.stripParen]
  | .slice .. => by simp [Ty.rename, Ty.stripParen]
  | .array .. => by simp [Ty.rename, Ty.stripParen]
  | .tuple .. => by simp [Ty.rename, Ty.stripParen]
  | .bareFn .. => by simp [Ty.rename, Ty.stripParen]
  | .never => by simp [Ty.rename, Ty.stripParen]
  | .dynT .. => by simp [Ty.rename, Ty.stripParen]
  | .macro .. => by simp [Ty.rename, Ty.stripParen]
  | .prefixed .. => by simp [Ty.rename, Ty.stripParen]

/-- **whether the last field may be unsized does not depend on names**: `str` stays `str`, and a parameter declared
`?Sized` (inline or in the where-clause) is found under its new name -/
theorem mayBeUnsized_rename (ρ : Ren) (ty : Ty) (g : Generics) :
    mayBeUnsized (ty.rename ρ) (g.rename ρ) = mayBeUnsized ty g := by
  unfold mayBeUnsized
  rw [stripParen_rename]
  generalize ty.stripParen = ty
  cases ty with
  | path gl segs =>
    cases gl with
    | true => simp [Ty.rename]
    | false =>
      cases segs with
      | nil => simp [Ty.rename, Seg.renameL]
      | cons s rest =>
        cases s with
        | fn i a r => cases rest <;> simp [Ty.rename, Seg.renameL, Seg.rename]
        | mk i args =>
          cases rest with
          | cons _ _ => simp [Ty.rename, Seg.renameL, Seg.rename]
          | nil =>
            cases args with
            | cons _ _ => simp [Ty.rename, Seg.renameL, Seg.rename, GArg.renameL]
            | nil =>
              simp only [Ty.rename, Seg.renameL, Seg.rename, GArg.renameL, Generics.rename, List.any_map]
              have hstr : (unraw (ρ.f i) == "str") = (unraw i == "str") := by
                have := beq_ren ρ (unraw i) "str"; rwa [ρ.str_fixed, ← ρ.unraw_comm] at this
              rw [hstr]
              congr 1
              · congr 1
                congr 1
                funext p
                cases p <;> simp [GParam.rename, beq_ren_unraw, isMaybeBound_comp_rename]
              · congr 1
                funext p
                cases p with
                | lt a bs => simp [WPred.rename]
                | ty lts t bs =>
                  cases t with
                  | path gl2 segs2 =>
                    cases gl2 <;> cases segs2 with
                    | nil => simp [WPred.rename, Ty.rename, Seg.renameL]
                    | cons s2 rest2 =>
                      cases s2 with
                      | fn i a r => cases rest2 <;> simp [WPred.rename, Ty.rename, Seg.renameL, Seg.rename]
                      | mk j args2 =>
                        cases rest2 with
                        | cons _ _ => simp [WPred.rename, Ty.rename, Seg.renameL, Seg.rename]
                        | nil =>
                          cases args2 with
                          | cons _ _ => simp [WPred.rename, Ty.rename, Seg.renameL, Seg.rename, GArg.renameL]
                          | nil => simp [WPred.rename, Ty.rename, Seg.renameL, Seg.rename, GArg.renameL, beq_ren_unraw, isMaybeBound_comp_rename]
                  | _ => simp [WPred.rename, Ty.rename]
  | _ => simp [Ty.rename]

/-! ### the hypotheses are satisfiable: exchanging two names is a renaming -/

/-- exchange the names `T` and `U` — also behind raw-identifier prefixes —, leave everything else alone -/
def swapL : List Char → List Char
  | 'r' :: '#' :: rest => 'r' :: '#' :: swapL rest
  | ['T'] => ['U']
  | ['U'] => ['T']
  | l => l

theorem swapL_invol (l : List Char) : swapL (swapL l) = l := by
  fun_induction swapL l <;> simp_all [swapL]

theorem swapL_unraw (l : List Char) :
    (match swapL l with | 'r' :: '#' :: rest => rest | l' => l') =
    swapL (match l with | 'r' :: '#' :: rest => rest | l' => l') := by
  fun_induction swapL l
  · rfl
  · rfl
  · rfl
  · rename_i l h1 h2 h3
    split
    · rename_i rest; exact absurd rfl (h1 rest)
    · have : swapL l = l := by
        unfold swapL
        split <;> simp_all
      exact this.symm

def swapTU (s : String) : String := String.ofList (swapL s.toList)

theorem unraw_toList (s : String) :
    (unraw s).toList = (match s.toList with | 'r' :: '#' :: rest => rest | l' => l') := by
  unfold unraw
  split <;> simp_all

/-- the exchange of `T` and `U` satisfies every hypothesis of the theorems above -/
def swapRen : Ren where
  f := swapTU
  inj a b h := by
    have h' : swapL a.toList = swapL b.toList := by
      have := congrArg String.toList h
      simpa [swapTU] using this
    have : a.toList = b.toList := by rw [← swapL_invol a.toList, h', swapL_invol]
    exact String.toList_inj.1 this
  unraw_comm s := by
    apply String.toList_inj.1
    rw [unraw_toList]
    simp only [swapTU, String.toList_ofList]
    rw [swapL_unraw, ← unraw_toList]
  self_fixed := by decide
  str_fixed := by decide

example : swapRen.f "T" = "U" ∧ swapRen.f "r#T" = "r#U" ∧ swapRen.f "Vec" = "Vec" := by decide

/-- on a concrete type the renaming does something: `Vec<T>` with parameter set `{T}` becomes `Vec<U>` with `{U}` -/
example : (Ty.app "Vec" [.simple "T"]).rename swapRen = Ty.app "Vec" [.simple "U"] := by
  simp [Ty.app, Ty.simple, Ty.rename, Seg.renameL, Seg.rename, GArg.renameL, GArg.rename]
  decide

end DX

/-! ### the documented where-clause commutes with renaming

`Plan.whereClause` (Spec/Bounds.lean) is the where-clause the documentation prescribes, and every builder is proved to
produce it (Props/C04, C04Enum).  Its only decision that looks at a name is "does the field type mention a parameter":
so the where-clause of the renamed plan over the renamed generics is the renamed where-clause — which levels are reached,
which fields draw a default bound, in which order, is the same whatever the type, its parameters and its fields are called. -/
namespace DX

def Bounds.rename (ρ : Ren) (b : Bounds) : Bounds :=
  { ty := b.ty.map (Ty.rename ρ), pred := b.pred.map (WPred.rename ρ), dflt := b.dflt }
def Contrib.rename (ρ : Ren) (c : Contrib) : Contrib :=
  { tys := c.tys.map (Ty.rename ρ), preds := c.preds.map (WPred.rename ρ) }
def WCB.rename (ρ : Ren) (w : WCB) : WCB :=
  { types := w.types.map (Ty.rename ρ), preds := w.preds.map (WPred.rename ρ), gps := w.gps.map ρ.f }
def FieldPlan.rename (ρ : Ren) (f : FieldPlan) : FieldPlan :=
  { levels := f.levels.map (Bounds.rename ρ), ty := f.ty.rename ρ, used := f.used }
def VariantPlan.rename (ρ : Ren) (v : VariantPlan) : VariantPlan :=
  { levels := v.levels.map (Bounds.rename ρ), fields := v.fields.map (FieldPlan.rename ρ) }
def Plan.rename (ρ : Ren) (p : Plan) : Plan :=
  { typeLevels := p.typeLevels.map (Bounds.rename ρ), variants := p.variants.map (VariantPlan.rename ρ) }

theorem Contrib.rename_append (ρ : Ren) (a b : Contrib) : (a ++ b).rename ρ = a.rename ρ ++ b.rename ρ := by
  show Contrib.rename ρ (Contrib.append a b) = Contrib.append (a.rename ρ) (b.rename ρ)
  simp [Contrib.rename, Contrib.append]

theorem Contrib.rename_empty (ρ : Ren) : Contrib.empty.rename ρ = Contrib.empty := rfl

theorem Contrib.rename_concat (ρ : Ren) (cs : List Contrib) :
    (Contrib.concat cs).rename ρ = Contrib.concat (cs.map (Contrib.rename ρ)) := by
  induction cs with
  | nil => rfl
  | cons c cs ih =>
    simp only [Contrib.concat, List.foldr_cons, List.map_cons] at ih ⊢
    rw [Contrib.rename_append, ih]

theorem reached_rename (ρ : Ren) (ls : List Bounds) :
    reached (ls.map (Bounds.rename ρ)) = (reached ls).map (Bounds.rename ρ) := by
  induction ls with
  | nil => rfl
  | cons b bs ih =>
    simp only [List.map_cons, reached, ih]
    cases hb : b.dflt <;> simp [Bounds.rename, hb]

theorem continues_rename (ρ : Ren) (ls : List Bounds) : continues (ls.map (Bounds.rename ρ)) = continues ls := by
  simp [continues, List.all_map, Function.comp_def, Bounds.rename]

theorem levelsContrib_rename (ρ : Ren) (ls : List Bounds) :
    levelsContrib (ls.map (Bounds.rename ρ)) = (levelsContrib ls).rename ρ := by
  simp [levelsContrib, reached_rename, Contrib.rename, List.flatMap_map, List.map_flatMap, Bounds.rename]

theorem FieldPlan.contrib_rename (ρ : Ren) (gps : List String) (f : FieldPlan) :
    (f.rename ρ).contrib (gps.map ρ.f) = (f.contrib gps).rename ρ := by
  unfold FieldPlan.contrib
  rw [Contrib.rename_append]
  simp only [FieldPlan.rename, levelsContrib_rename, continues_rename, mentions_rename]
  congr 1
  split <;> simp [Contrib.rename, Contrib.empty]

theorem VariantPlan.contrib_rename (ρ : Ren) (gps : List String) (v : VariantPlan) :
    (v.rename ρ).contrib (gps.map ρ.f) = (v.contrib gps).rename ρ := by
  unfold VariantPlan.contrib
  rw [Contrib.rename_append]
  simp only [VariantPlan.rename, levelsContrib_rename, continues_rename]
  congr 1
  split
  · rw [Contrib.rename_concat]
    simp [List.map_map, Function.comp_def, FieldPlan.contrib_rename]
  · rfl

theorem Plan.contrib_rename (ρ : Ren) (gps : List String) (p : Plan) :
    (p.rename ρ).contrib (gps.map ρ.f) = (p.contrib gps).rename ρ := by
  unfold Plan.contrib
  rw [Contrib.rename_append]
  simp only [Plan.rename, levelsContrib_rename, continues_rename]
  congr 1
  split
  · rw [Contrib.rename_concat]
    simp [List.map_map, Function.comp_def, VariantPlan.contrib_rename]
  · rfl

/-- **the documented where-clause of the renamed item is the renamed where-clause** -/
theorem whereClause_rename (ρ : Ren) (g : Generics) (p : Plan) :
    (p.rename ρ).whereClause (g.rename ρ) = (p.whereClause g).rename ρ := by
  unfold Plan.whereClause
  rw [paramSet_rename, Plan.contrib_rename]
  have h := paramSet_rename ρ g
  simp only [WCB.new, WCB.addC, WCB.rename, Contrib.rename, h, List.map_append]
  simp [Generics.rename]

end DX
