import DeriveExModel.Syntax
/-!
# How attributes are recognised (F34)

The classification of an attribute by its path is part of the model (`AttrPath.kind`); the cases that come from outside
(L1c, `Ext.lean`) are classified by this function and by nothing else, so the real expander's treatment of every spelling
that occurs in the corpus and its mutants is compared with it.  The theorems say what the function guarantees for *every*
path:

* `kind_plain` – every helper attribute and `derive_ex`, written plainly, is recognised as itself;
* `kind_spelling` – the classification depends on the segments only through their raw-prefix-free form: writing a name as
  a raw identifier never changes what the attribute is (`#[r#default(5)]` is `#[default(5)]`);
* `kind_deriveEx_iff` – `derive_ex` is recognised exactly as `derive_ex`, `derive_ex::derive_ex` and
  `::derive_ex::derive_ex` (any of the names raw);
* `kind_helper_single` – a helper attribute is a single segment without leading `::`: a path attribute of another crate
  whose last segment happens to be called `default`, `debug`, `ord` … is foreign (C14: it is kept);
* `kind_name` – what is recognised is recognised as the kind whose name it carries.
-/
namespace DX

theorem kind_plain (k : AttrKind) : ({ segs := [k.name] } : AttrPath).kind = some k := by
  cases k with
  | cmp w => cases w <;> decide
  | _ => decide

theorem kind_spelling (p q : AttrPath) (hl : p.leading = q.leading) (hs : p.segs.map unraw = q.segs.map unraw) :
    p.kind = q.kind := by
  unfold AttrPath.kind
  rw [hl, hs]

theorem unraw_raw (s : String) : unraw ("r#" ++ s) = s := by
  unfold unraw
  rw [String.toList_append]
  show String.ofList s.toList = s
  exact String.ofList_toList

/-- in particular: a raw prefix on plainly written names changes nothing -/
theorem kind_raw (l : Bool) (segs : List String) (h : ∀ s ∈ segs, unraw s = s) :
    ({ leading := l, segs := segs.map ("r#" ++ ·) } : AttrPath).kind = ({ leading := l, segs } : AttrPath).kind := by
  apply kind_spelling
  · rfl
  · show List.map unraw (segs.map ("r#" ++ ·)) = List.map unraw segs
    rw [List.map_map]
    apply List.map_congr_left
    intro s hs
    show unraw ("r#" ++ s) = unraw s
    rw [unraw_raw, h s hs]

theorem helperOfName_ne_deriveEx (n : String) : helperOfName n ≠ some .deriveEx := by
  unfold helperOfName
  repeat' split
  all_goals simp

theorem kind_deriveEx_iff (p : AttrPath) :
    p.kind = some .deriveEx ↔
      (p.leading = false ∧ p.segs.map unraw = ["derive_ex"]) ∨ p.segs.map unraw = ["derive_ex", "derive_ex"] := by
  unfold AttrPath.kind
  split
  · rename_i n hn
    rw [hn]
    by_cases hl : p.leading = true
    · simp [hl]
    · by_cases h : (n == "derive_ex") = true
      · have : n = "derive_ex" := by simpa using h
        simp [hl, this]
      · have hne : n ≠ "derive_ex" := by simpa using h
        simp only [hl, h, Bool.false_eq_true, if_false]
        constructor
        · intro hh; exact absurd hh (helperOfName_ne_deriveEx n)
        · intro hh
          rcases hh with ⟨_, hh⟩ | hh
          · simp only [List.cons.injEq, and_true] at hh; exact absurd hh hne
          · simp at hh
  · rename_i a b hab
    rw [hab]
    by_cases h : (a == "derive_ex" && b == "derive_ex") = true
    · have : a = "derive_ex" ∧ b = "derive_ex" := by simpa using h
      simp [this.1, this.2]
    · simp only [h, Bool.false_eq_true, if_false]
      constructor
      · intro hh; cases hh
      · intro hh
        rcases hh with ⟨_, hh⟩ | hh
        · simp at hh
        · simp only [List.cons.injEq, and_true] at hh
          rw [hh.1, hh.2] at h; exact absurd rfl h
  · rename_i h1 h2
    constructor
    · intro hh; cases hh
    · intro hh
      rcases hh with ⟨_, hh⟩ | hh
      · exact absurd hh (h1 _)
      · exact absurd hh (h2 _ _)

/-- helper attributes are single identifiers: whatever else a path is called, it is foreign or `derive_ex` -/
theorem kind_helper_single (p : AttrPath) (k : AttrKind) (hk : p.kind = some k) (hne : k ≠ .deriveEx) :
    p.leading = false ∧ ∃ n, p.segs.map unraw = [n] ∧ helperOfName n = some k := by
  unfold AttrPath.kind at hk
  split at hk
  · rename_i n hn
    by_cases hl : p.leading = true
    · simp [hl] at hk
    · have hl' : p.leading = false := by simpa using hl
      simp only [hl', Bool.false_eq_true, if_false] at hk
      by_cases h : (n == "derive_ex") = true
      · simp only [h, if_true, Option.some.injEq] at hk; exact absurd hk.symm hne
      · simp only [h, Bool.false_eq_true, if_false] at hk
        exact ⟨hl', n, hn, hk⟩
  · split at hk
    · simp only [Option.some.injEq] at hk; exact absurd hk.symm hne
    · cases hk
  · cases hk

theorem helperOfName_name (n : String) (k : AttrKind) (h : helperOfName n = some k) : k.name = n := by
  unfold helperOfName at h
  repeat' split at h
  all_goals first
    | (cases h; rename_i hh; simp only [beq_iff_eq] at hh; rw [hh]; rfl)
    | cases h

/-- a recognised helper attribute is recognised as the kind whose name it carries -/
theorem kind_name (p : AttrPath) (k : AttrKind) (hk : p.kind = some k) (hne : k ≠ .deriveEx) :
    p.segs.map unraw = [k.name] := by
  obtain ⟨_, n, hn, hh⟩ := kind_helper_single p k hk hne
  rw [hn, helperOfName_name n k hh]

/-- non-vacuity: the spellings of F34, and foreign look-alikes -/
example : ({ segs := ["r#default"] } : AttrPath).kind = some .dflt := by decide
example : ({ segs := ["derive_ex", "r#derive_ex"] } : AttrPath).kind = some .deriveEx := by decide
example : ({ leading := true, segs := ["derive_ex", "derive_ex"] } : AttrPath).kind = some .deriveEx := by decide
example : ({ leading := true, segs := ["derive_ex"] } : AttrPath).kind = none := by decide
example : ({ segs := ["m", "default"] } : AttrPath).kind = none := by decide
example : ({ segs := ["a", "derive_ex"] } : AttrPath).kind = none := by decide
example : ({ segs := ["derive_ex", "derive_ex", "derive_ex"] } : AttrPath).kind = none := by decide

end DX
