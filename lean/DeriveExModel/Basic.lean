import DeriveExModel.Core
/-
`item_type.rs`: operators, Clone, Copy, Debug, Default, Deref/DerefMut derived
from a struct / enum definition.  Each builder returns a structured impl and
has a `render` that instantiates the `quote!` template.
-/
namespace DX

def autoDerived : GToks := allowUserLints +++ genAttr ["automatically_derived"]


/-- `impl<G> Trait for Self where … { body }` -/
def implItem (attrs : GToks) (implG trait_ selfTy wheres body : GToks) : GToks :=
  attrs +++ "impl" ::: implG +++ trait_ +++ "for" ::: selfTy +++ wheres +++ brace body

/-- `<ty as trait>::f` -/
def ufcs (ty trait_ : GToks) (f : String) : GToks := angle (ty +++ "as" ::: trait_) +++ [pathM f]

/-- `match self { arms, }`; with no arms the scrutinee must be a value: `match *self {}` -/
def matchSelf (arms : List GToks) : GToks :=
  if arms.isEmpty then ["match", "*", "self", "{", "}"] else "match" ::: "self" ::: brace (termBy "," arms)

/-! ## Operators from a struct -/

structure OpsImpl where
  kind : Kind
  name : String
  /-- the item's generics (unexpanded) and the `Self`-expanded ones used in the impl -/
  generics : Generics
  xgenerics : Generics
  fieldsSrc : Fields
  fields : List FieldE
  /-- where-clause builder state per emitted form, in emission order -/
  wcs : List WCB
deriving Inhabited

/-- the forms emitted for each operator kind, in order: `(lhs_is_ref, rhs_is_ref)` -/
def opForms : Kind → List (Bool × Bool)
  | .bin _ => [(false, false), (false, true), (true, false), (true, true)]
  | .assign _ => [(false, false), (false, true)]
  | .un _ => [(false, false), (true, false)]
  | _ => []

def opsWC (kind : Kind) (e : Entry) (xg : Generics) (fields : List FieldE) : WCB :=
  let w := WCB.new xg
  let (w, use) := e.pushBoundsTo w
  fields.foldl (fun w f => f.pushBoundsTo use kind w) w

/-- `build_binary_op` / `build_assign_op` / `build_unary_op` -/
def buildOps (kind : Kind) (s : ItemStruct) (e : Entry) (fields : List FieldE) : OpsImpl :=
  let xg := s.generics.expandSelf (thisTy s.name s.generics)
  { kind, name := s.name, generics := s.generics, xgenerics := xg, fieldsSrc := s.fields, fields,
    wcs := (opForms kind).map fun _ => opsWC kind e xg fields }

def OpsImpl.funcName (o : OpsImpl) : Tok :=
  match o.kind with
  | .bin b => b.func
  | .assign b => b.func ++ "_assign"
  | .un u => u.func
  | _ => ""

/-- `with_ref_type`: `&ty`, a trait object with several bounds parenthesized -/
def refFieldTy (ty : Ty) (isRef : Bool) : GToks := if isRef then "&" ::: U ty.parenIfPlus.toks else U ty.toks

def OpsImpl.renderForm (o : OpsImpl) (l r : Bool) (w : WCB) : GToks :=
  let trait_ := o.kind.path
  let this := thisTyToks o.name o.generics
  let implG := U o.xgenerics.implToks
  let fn := o.funcName
  -- in `impl .. for &X` `Self` is not the type: field types and where-clause entries have it written out
  let self_ := thisTy o.name o.generics
  let w := w.selfExpanded self_
  let o : OpsImpl := { o with fields := o.fields.map fun (f : FieldE) => { f with field := { f.field with ty := Ty.expandSelf self_ f.field.ty } } }
  match o.kind with
  | .bin _ =>
    let selfTy := withRef this l
    let rhsTy := withRef this r
    let values := o.fields.map fun f =>
      let fty := U f.field.ty.toks
      ufcs (refFieldTy f.field.ty l) (trait_ +++ angle (refFieldTy f.field.ty r)) fn +++
        paren (withRef (memberOf "self" f) l +++ "," ::: withRef (memberOf "__rhs" f) r)
    let wheres := w.build fun ty =>
      let t := U ty.toks
      match l, r with
      | true, true => "for" ::: angle ["'__a"] +++ "&" ::: "'__a" ::: t +++ ":" ::: trait_ +++ angle ("&" ::: "'__a" ::: t +++ "," ::: bindM "Output" ::: t)
      | true, false => "for" ::: angle ["'__a"] +++ "&" ::: "'__a" ::: t +++ ":" ::: trait_ +++ angle (t +++ "," ::: bindM "Output" ::: t)
      | false, true => "for" ::: angle ["'__a"] +++ t +++ ":" ::: trait_ +++ angle ("&" ::: "'__a" ::: t +++ "," ::: bindM "Output" ::: t)
      | false, false => t +++ ":" ::: trait_ +++ angle (t +++ "," ::: bindM "Output" ::: t)
    implItem autoDerived implG (trait_ +++ angle rhsTy) selfTy wheres
      ([typeM "Output", "="] +++ this +++ [";", fnM fn] +++ paren (["self", ",", "__rhs", ":"] +++ rhsTy) +++
        ["->", "Self", pathM "Output"] +++ brace (u o.name ::: ctorArgs o.fieldsSrc values))
  | .assign _ =>
    let rhsTy := withRef this r
    let exprs := o.fields.map fun f =>
      let fty := U f.field.ty.toks
      ufcs fty (trait_ +++ angle (refFieldTy f.field.ty r)) fn +++
        paren ("&" ::: "mut" ::: memberOf "self" f +++ "," ::: withRef (memberOf "__rhs" f) r)
    let wheres := w.build fun ty =>
      let t := U ty.toks
      if r then "for" ::: angle ["'__a"] +++ t +++ ":" ::: trait_ +++ angle ("&" ::: "'__a" ::: t)
      else t +++ ":" ::: trait_ +++ angle t
    implItem autoDerived implG (trait_ +++ angle rhsTy) this wheres
      ([fnM fn] +++ paren (["&", "mut", "self", ",", "__rhs", ":"] +++ rhsTy) +++ brace (termBy ";" exprs))
  | .un _ =>
    let selfTy := withRef this l
    let values := o.fields.map fun f =>
      let fty := U f.field.ty.toks
      ufcs (refFieldTy f.field.ty l) trait_ fn +++ paren (withRef (memberOf "self" f) l)
    let wheres := w.build fun ty =>
      let t := U ty.toks
      if l then "for" ::: angle ["'__a"] +++ "&" ::: "'__a" ::: t +++ ":" ::: trait_ +++ angle (bindM "Output" ::: t)
      else t +++ ":" ::: trait_ +++ angle (bindM "Output" ::: t)
    implItem autoDerived implG trait_ selfTy wheres
      ([typeM "Output", "="] +++ this +++ [";", fnM fn] +++ paren ["self"] +++
        ["->", "Self", pathM "Output"] +++ brace (u o.name ::: ctorArgs o.fieldsSrc values))
  | _ => []

def OpsImpl.render (o : OpsImpl) : List GToks :=
  ((opForms o.kind).zip o.wcs).map fun ((l, r), w) => o.renderForm l r w

/-! ## Clone, Copy -/

inductive Shape where
  | struct_ (src : Fields) (fields : List FieldE)
  | enum_ (variants : List VariantE)
deriving Inhabited

structure CloneImpl where
  name : String
  generics : Generics
  wc : WCB
  shape : Shape
deriving Inhabited

def buildCloneStruct (s : ItemStruct) (e : Entry) (fields : List FieldE) : CloneImpl :=
  let w := WCB.new s.generics
  let (w, use) := e.pushBoundsTo w
  let w := fields.foldl (fun w f => f.pushBoundsTo use .clone w) w
  { name := s.name, generics := s.generics, wc := w, shape := .struct_ s.fields fields }

def buildCloneEnum (en : ItemEnum) (e : Entry) (variants : List VariantE) : CloneImpl :=
  let w := WCB.new en.generics
  let (w, use) := e.pushBoundsTo w
  let w := variants.foldl (init := w) fun w v =>
    let (w, u) := v.h.pushBoundsToRaw use false .clone w
    v.fields.foldl (fun w f => f.pushBoundsTo u .clone w) w
  { name := en.name, generics := en.generics, wc := w, shape := .enum_ variants }

def cloneTrait : GToks := Kind.clone.path

def CloneImpl.render (c : CloneImpl) : GToks :=
  let tr := cloneTrait
  let wheres := c.wc.build fun ty => U ty.toks +++ ":" ::: tr
  let this := thisTyToks c.name c.generics
  let body : GToks :=
    match c.shape with
    | .struct_ src fields =>
      let args := fields.map fun f => ufcs (U f.field.ty.toks) tr "clone" +++ paren ("&" ::: memberOf "self" f)
      let cfs := fields.map fun f =>
        ufcs (U f.field.ty.toks) tr "clone_from" +++ paren ("&" ::: "mut" ::: memberOf "self" f +++ "," ::: "&" ::: memberOf "__source" f)
      [fnM "clone"] +++ paren ["&", "self"] +++ ["->", "Self"] +++ brace (u c.name ::: ctorArgs src args) +++
      [fnM "clone_from"] +++ paren ["&", "mut", "self", ",", "__source", ":", "&", "Self"] +++ brace (termBy ";" cfs)
    | .enum_ vs =>
      let armsClone := vs.map fun v =>
        let patL := ctorArgs v.variant.fields (v.fields.map fun f => [f.makeIdent "__l"])
        let args := ctorArgs v.variant.fields (v.fields.map fun f =>
          ufcs (U f.field.ty.toks) tr "clone" +++ paren [f.makeIdent "__l"])
        ["Self", "::", u v.variant.name] +++ patL +++ ["=>", "Self", "::", u v.variant.name] +++ args
      let armsFrom := vs.map fun v =>
        let patL := ctorArgs v.variant.fields (v.fields.map fun f => [f.makeIdent "__l"])
        let patR := ctorArgs v.variant.fields (v.fields.map fun f => [f.makeIdent "__r"])
        let cfs := v.fields.map fun f =>
          ufcs (U f.field.ty.toks) tr "clone_from" +++ paren [f.makeIdent "__l", ",", f.makeIdent "__r"]
        paren (["Self", "::", u v.variant.name] +++ patL +++ [",", "Self", "::", u v.variant.name] +++ patR) +++
          "=>" ::: brace (termBy ";" cfs)
      [fnM "clone"] +++ paren ["&", "self"] +++ ["->", "Self"] +++
        brace (matchSelf armsClone) +++
      [fnM "clone_from"] +++ paren ["&", "mut", "self", ",", "__source", ":", "&", "Self"] +++
        brace ("match" ::: paren ["self", ",", "__source"] +++ brace (termBy "," armsFrom +++
          paren ["__lhs", ",", "__rhs"] +++ ["=>", "*", "__lhs", "="] +++ ufcs ["Self"] (absPath ["core", "clone", "Clone"]) "clone" +++
            paren ["__rhs"] +++ [","]))
  implItem autoDerived (U c.generics.implToks) tr this wheres body

structure CopyImpl where
  name : String
  generics : Generics
  wc : WCB
deriving Inhabited

def buildCopyStruct (s : ItemStruct) (e : Entry) (fields : List FieldE) : CopyImpl :=
  let w := WCB.new s.generics
  let (w, use) := e.pushBoundsTo w
  { name := s.name, generics := s.generics, wc := fields.foldl (fun w f => f.pushBoundsTo use .copy w) w }

def buildCopyEnum (en : ItemEnum) (e : Entry) (variants : List VariantE) : CopyImpl :=
  let w := WCB.new en.generics
  let (w, use) := e.pushBoundsTo w
  { name := en.name, generics := en.generics,
    wc := variants.foldl (init := w) fun w v =>
      let (w, u) := v.h.pushBoundsToRaw use false .copy w
      v.fields.foldl (fun w f => f.pushBoundsTo u .copy w) w }

def CopyImpl.render (c : CopyImpl) : GToks :=
  let tr := Kind.copy.path
  implItem autoDerived (U c.generics.implToks) tr (thisTyToks c.name c.generics)
    (c.wc.build fun ty => U ty.toks +++ ":" ::: tr) []

/-! ## Debug -/

inductive DebugExpr where
  | transparent (f : FieldE)
  /-- `DebugStruct::finish(DebugStruct::field(&mut Formatter::debug_struct(f, "Name"), "a", …)…)`, every name by its
  absolute path; `fields` = the non-ignored ones -/
  | builder (named : Bool) (ident : String) (fields : List FieldE)
deriving Inhabited

/-- the fields marked `#[debug(transparent)]` / not marked `#[debug(ignore)]` -/
def transparentFields (fields : List FieldE) : List FieldE := fields.filter (·.h.debug.transparent)
def shownFields (fields : List FieldE) : List FieldE := fields.filter (!·.h.debug.ignore)

/-- `build_debug_expr`, decisions and where-clause -/
def debugExpr (ident : String) (src : Fields) (fields : List FieldE) (use : Bool) (w : WCB) : R (DebugExpr × WCB) :=
  match fields.filter (·.h.debug.transparent) with
  | _ :: _ :: _ => bail
  | [f] => pure (.transparent f, f.pushBoundsTo use .debug w)
  | [] =>
    let shown := fields.filter (!·.h.debug.ignore)
    let w := shown.foldl (fun w f => f.pushBoundsTo use .debug w) w
    pure (.builder (src.kind == .named) ident shown, w)

inductive DebugBody where
  | struct_ (e : DebugExpr)
  | enum_ (arms : List (VariantE × DebugExpr))
deriving Inhabited

structure DebugImpl where
  name : String
  generics : Generics
  wc : WCB
  body : DebugBody
  /-- index of the last field if its type can be unsized (it is passed as `&&self.f`) -/
  unsizedLast : Option Nat := none
deriving Inhabited

def isMaybeBound : TBound → Bool
  | .trait q _ _ => q
  | .lt _ => false

/-- the type inside any number of parentheses (`(dyn A + B)` is what `&'a $t` becomes for `$t = dyn A + B`, F36) -/
def Ty.stripParen : Ty → Ty
  | .paren t => t.stripParen
  | t => t

/-- `may_be_unsized`: a slice, `str`, a trait object, or a type parameter declared `?Sized` — seen through parentheses,
names compared without their `r#` prefix (F37) -/
def mayBeUnsized (ty : Ty) (g : Generics) : Bool :=
  match ty.stripParen with
  | .slice _ => true
  | .dynT _ _ _ => true
  | .path false [.mk i []] =>
    unraw i == "str" ||
    (g.params.any fun | .ty n bs _ => unraw n == unraw i && bs.any isMaybeBound | _ => false) ||
    (g.wheres.any fun
      | .ty _ (.path false [.mk j []]) bs => unraw j == unraw i && bs.any isMaybeBound
      | _ => false)
  | _ => false

def buildDebugStruct (s : ItemStruct) (e : Entry) (h : HAttrs) (fields : List FieldE) : R DebugImpl := do
  let w := WCB.new s.generics
  let (w, use) := e.pushBoundsToWith h .debug w
  let (x, w) ← debugExpr s.name s.fields fields use w
  let unsizedLast := match fields.getLast? with
    | some f => if mayBeUnsized f.field.ty s.generics then some f.index else none
    | none => none
  pure { name := s.name, generics := s.generics, wc := w, body := .struct_ x, unsizedLast }

def buildDebugEnum (en : ItemEnum) (e : Entry) (h : HAttrs) (variants : List VariantE) : R DebugImpl := do
  let w := WCB.new en.generics
  let (w, use) := e.pushBoundsToWith h .debug w
  let (arms, w) ← variants.foldlM (init := (([] : List (VariantE × DebugExpr)), w)) fun (arms, w) v => do
    let (w, u) := v.h.pushBoundsTo use .debug w
    let (x, w) ← debugExpr v.variant.name v.variant.fields v.fields u w
    pure (arms ++ [(v, x)], w)
  pure { name := en.name, generics := en.generics, wc := w, body := .enum_ arms }

/-- a name as the string literal the generated code prints (raw-identifier prefix dropped) -/
def nameLit (t : Tok) : Tok := "\"" ++ unraw t ++ "\""

def DebugExpr.render (toExpr : FieldE → GToks) : DebugExpr → GToks
  | .transparent f => absPath ["core", "fmt", "Debug", "fmt"] +++ paren (toExpr f +++ [",", "__f"])
  | .builder named ident fields =>
    -- the builder is driven through paths (`::core::fmt::DebugStruct::field(acc, "a", …)`), never through method
    -- calls: a method call is looked up among the traits in scope of the caller (F31)
    let b := if named then "DebugStruct" else "DebugTuple"
    absPath ["core", "fmt", b, "finish"] +++ paren
      (fields.foldl (fun acc f =>
          absPath ["core", "fmt", b, "field"] +++ paren
            (acc +++ (if named then "," ::: nameLit f.member ::: "," ::: toExpr f else "," ::: toExpr f)))
        (["&", "mut"] +++ absPath ["core", "fmt", "Formatter", if named then "debug_struct" else "debug_tuple"] +++
          paren ["__f", ",", nameLit ident]))

def DebugImpl.render (d : DebugImpl) : GToks :=
  let tr := Kind.debug.path
  let body : GToks := match d.body with
    | .struct_ x => x.render fun f =>
        if d.unsizedLast == some f.index then ["&", "&", "self", ".", u f.member] else ["&", "self", ".", u f.member]
    | .enum_ arms =>
      matchSelf (arms.map fun (v, x) =>
        v.makePat "__field" +++ "=>" ::: x.render fun f => [f.makeIdent "__field"])
  implItem autoDerived (U d.generics.implToks) tr (thisTyToks d.name d.generics)
    (d.wc.build fun ty => U ty.toks +++ ":" ::: tr)
    ([fnM "fmt"] +++ paren (["&", "self", ",", "__f", ":", "&", "mut"] +++ absPath ["core", "fmt", "Formatter"]) +++
      "->" ::: absPath ["core", "fmt", "Result"] +++ brace body)

/-! ## Default -/

inductive DefVal where
  | into (ty : Ty) (e : Toks)
  | raw (e : Toks) (blockLead : Bool := false)
  | dflt (ty : Ty)
deriving Inhabited

/-- `HelperAttributeForDefault::value(ty)` -/
def DefaultH.valueFor (a : DefaultH) (ty : Ty) : Option DefVal :=
  match a.value with
  | none => none
  | some (e, cls) => some (if cls == .strLit || cls == .path then .into ty e else .raw e (cls == .blockLead))

def HAttrs.defaultValue (h : HAttrs) (ty : Ty) : Option DefVal :=
  match h.dflt with | some a => a.valueFor ty | none => none

inductive DefaultBody where
  | value (v : DefVal)
  /-- `path { fields }` -/
  | ctor (path : Toks) (src : Fields) (vals : List DefVal)
deriving Inhabited

structure DefaultImpl where
  name : String
  generics : Generics
  wc : WCB
  body : DefaultBody
deriving Inhabited

/-- `build_default_ctor_args` -/
def defaultCtorArgs (fields : List FieldE) (use : Bool) (w : WCB) : List DefVal × WCB :=
  fields.foldl (init := ([], w)) fun (vals, w) f =>
    let value := f.h.defaultValue f.field.ty
    let (w, u) := f.h.pushBoundsTo use .dflt w
    let w := if u && value.isNone then w.pushField f.field.ty else w
    (vals ++ [value.getD (.dflt f.field.ty)], w)

def buildDefaultStruct (s : ItemStruct) (e : Entry) (h : HAttrs) (fields : List FieldE) : DefaultImpl :=
  let w := WCB.new s.generics
  let (w, use) := e.pushBoundsToWith h .dflt w
  match h.defaultValue Ty.selfTy with
  | some v => { name := s.name, generics := s.generics, wc := w, body := .value v }
  | none =>
    let (vals, w) := defaultCtorArgs fields use w
    { name := s.name, generics := s.generics, wc := w, body := .ctor [s.name] s.fields vals }

def buildDefaultEnum (en : ItemEnum) (e : Entry) (h : HAttrs) (variants : List VariantE) : R DefaultImpl := do
  let w := WCB.new en.generics
  let (w, use) := e.pushBoundsToWith h .dflt w
  match h.defaultValue Ty.selfTy with
  | some v => pure { name := en.name, generics := en.generics, wc := w, body := .value v }
  | none =>
    let marked := variants.filterMap fun v => v.h.dflt.map fun a => (v, a)
    let (v, a) ← (match marked with
      | [] => (match variants with
        | [v] => pure (v, ({} : DefaultH))
        | _ => bail)
      | [va] => pure va
      | _ => bail : R (VariantE × DefaultH))
    let (w, use) := v.h.pushBoundsTo use .dflt w
    if a.value.isSome then bail
    let (vals, w) := defaultCtorArgs v.fields use w
    pure { name := en.name, generics := en.generics, wc := w,
           body := .ctor [en.name, "::", v.variant.name] v.variant.fields vals }

def DefVal.render : DefVal → GToks
  | .into ty e => absPath ["core", "convert", "Into"] +++ "::" ::: angle (U ty.toks) +++ pathM "into" ::: paren (U e)
  | .raw e _ => U e
  | .dflt ty => ufcs (U ty.toks) Kind.dflt.path "default" +++ ["(", ")"]

def DefaultImpl.render (d : DefaultImpl) : GToks :=
  let tr := Kind.dflt.path
  let value : GToks := match d.body with
    -- a type-level value is the tail expression of `fn default()`: parenthesized if it starts with a block-like expression
    | .value (.raw e true) => paren (U e)
    | .value v => v.render
    | .ctor path src vals => U path +++ ctorArgs src (vals.map DefVal.render)
  implItem autoDerived (U d.generics.implToks) tr (thisTyToks d.name d.generics)
    (d.wc.build fun ty => U ty.toks +++ ":" ::: tr)
    ([fnM "default", "(", ")", "->", "Self"] +++ brace value)

/-! ## Deref / DerefMut -/

structure DerefImpl where
  mut_ : Bool
  name : String
  generics : Generics
  wc : WCB
  field : FieldE
deriving Inhabited

def buildDeref (kind : Kind) (s : ItemStruct) (e : Entry) (fields : List FieldE) : R DerefImpl :=
  let w := WCB.new s.generics
  let (w, _) := e.pushBoundsTo w
  match fields with
  | [f] => pure { mut_ := kind == .derefMut, name := s.name, generics := s.generics, wc := w, field := f }
  | _ => bail

/-- the type `deref` / `deref_mut` return a reference to, spelled as the trait's associated type (a bare trait object as
field type would otherwise get the reference's lifetime as its object lifetime, and `& dyn A + B` is not a type) -/
def derefTargetToks : GToks := angle (["Self", "as"] +++ Kind.deref.path) +++ [pathM "Target"]

/-- the signature of the generated method (everything between `fn` and the body) -/
def DerefImpl.sig (d : DerefImpl) : GToks :=
  if d.mut_ then [fnM "deref_mut"] +++ paren ["&", "mut", "self"] +++ ["->", "&", "mut"] +++ derefTargetToks
  else [fnM "deref"] +++ paren ["&", "self"] +++ ["->", "&"] +++ derefTargetToks

def DerefImpl.render (d : DerefImpl) : GToks :=
  let tr := if d.mut_ then Kind.derefMut.path else Kind.deref.path
  let ty := U d.field.field.ty.toks
  let content : GToks :=
    -- the return type is spelled as the trait's `Target` (a bare trait object as field type would
    -- otherwise get the reference's lifetime as its object lifetime)
    if d.mut_ then d.sig +++ brace ["&", "mut", "self", ".", u d.field.member]
    else [typeM "Target", "="] +++ ty +++ ";" ::: d.sig +++ brace ["&", "self", ".", u d.field.member]
  implItem autoDerived (U d.generics.implToks) tr (thisTyToks d.name d.generics)
    (d.wc.build fun t => U t.toks +++ ":" ::: tr) content

end DX
