import DeriveExModel.Gen
/-
Shrinking of L1 disagreements.  `Case.shrinks` lists the one-step reductions of a case (drop a field, a variant, an
attribute, one argument of an attribute, a listed trait, a generic parameter, a where-predicate; replace a field type by
`u8`).  The check (bin/vlib.py `shrink_l1`) walks greedily: it runs model and implementation on all candidates and moves to
the first one on which they still disagree in the same way, until none does.  A path of candidate indices identifies the
reduced case exactly (`drv shrink <family> <seed> <idx> <path>`), so the minimal case replays.

Nothing here is trusted: a reduced case is just another input on which model and implementation are compared.
-/
namespace DX

def removeEach {α} (l : List α) : List (List α) := (List.range l.length).map fun i => l.eraseIdx i

def replaceEach {α} (l : List α) (f : α → List α) : List (List α) :=
  l.zipIdx.flatMap fun (x, i) => (f x).map fun y => l.set i y

def shrinkOptBound (b : Option (List BoundArg)) : List (Option (List BoundArg)) :=
  match b with
  | none => []
  | some l => none :: (removeEach l).map some

def DeriveItem.shrinks (d : DeriveItem) : List DeriveItem :=
  match d.args with
  | none => []
  | some (b, dump) =>
    { d with args := none } ::
    ((shrinkOptBound b).map fun b' => { d with args := some (b', dump) }) ++
    (if dump then [{ d with args := some (b, false) }] else [])

def Args.shrinks (a : Args) : List Args :=
  (if a.items.length > 1 then (removeEach a.items).map fun is => { a with items := is } else []) ++
  ((replaceEach a.items DeriveItem.shrinks).map fun is => { a with items := is }) ++
  ((shrinkOptBound a.bound).map fun b => { a with bound := b }) ++
  (if a.dump then [{ a with dump := false }] else [])

def CmpArgs.shrinks (a : CmpArgs) : List CmpArgs :=
  (if a.ignore then [{ a with ignore := false }] else []) ++
  (if a.reverse then [{ a with reverse := false }] else []) ++
  (if a.by_.isSome then [{ a with by_ := none }] else []) ++
  (if a.key.isSome then [{ a with key := none, keyBad := false }] else []) ++
  ((shrinkOptBound a.bound).map fun b => { a with bound := b })

def DebugArgs.shrinks (a : DebugArgs) : List DebugArgs :=
  (if a.transparent then [{ a with transparent := false }] else []) ++
  (if a.ignore then [{ a with ignore := false }] else []) ++
  ((shrinkOptBound a.bound).map fun b => { a with bound := b })

def DefaultArgs.shrinks (a : DefaultArgs) : List DefaultArgs :=
  (if a.value.isSome then [{ a with value := none }] else []) ++
  ((shrinkOptBound a.bound).map fun b => { a with bound := b })

def HBody.shrinks {α} (f : α → List α) : HBody α → List (HBody α)
  | .path => []
  | .list a => .path :: (f a).map .list
  | .nameValue _ => [.path]

def Attr.shrinks : Attr → List Attr
  | .foreign _ => []
  | .deriveEx a => a.shrinks.map .deriveEx
  | .cmp w b => (b.shrinks CmpArgs.shrinks).map (.cmp w)
  | .debug b => (b.shrinks DebugArgs.shrinks).map .debug
  | .dflt b => (b.shrinks DefaultArgs.shrinks).map .dflt

def attrsShrinks (as : List Attr) : List (List Attr) := removeEach as ++ replaceEach as Attr.shrinks

def Field.shrinks (f : Field) : List Field :=
  ((attrsShrinks f.attrs).map fun as => { f with attrs := as }) ++
  (if f.vis.isEmpty then [] else [{ f with vis := [] }]) ++
  (if f.ty.toks == ["u8"] then [] else [{ f with ty := Ty.simple "u8" }])

def Fields.shrinks (fs : Fields) : List Fields :=
  ((removeEach fs.fields).map fun l => { fs with fields := l }) ++
  ((replaceEach fs.fields Field.shrinks).map fun l => { fs with fields := l })

def Variant.shrinks (v : Variant) : List Variant :=
  ((attrsShrinks v.attrs).map fun as => { v with attrs := as }) ++
  (v.fields.shrinks.map fun fs => { v with fields := fs }) ++
  (if v.discr.isSome then [{ v with discr := none }] else [])

def Generics.shrinks (g : Generics) : List Generics :=
  ((removeEach g.wheres).map fun w => { g with wheres := w }) ++
  ((removeEach g.params).map fun p => { g with params := p })

def ItemStruct.shrinks (s : ItemStruct) : List ItemStruct :=
  ((attrsShrinks s.attrs).map fun as => { s with attrs := as }) ++
  (s.fields.shrinks.map fun fs => { s with fields := fs }) ++
  (s.generics.shrinks.map fun g => { s with generics := g }) ++
  (if s.vis.isEmpty then [] else [{ s with vis := [] }])

def ItemEnum.shrinks (e : ItemEnum) : List ItemEnum :=
  ((attrsShrinks e.attrs).map fun as => { e with attrs := as }) ++
  ((removeEach e.variants).map fun vs => { e with variants := vs }) ++
  ((replaceEach e.variants Variant.shrinks).map fun vs => { e with variants := vs }) ++
  (e.generics.shrinks.map fun g => { e with generics := g }) ++
  (if e.vis.isEmpty then [] else [{ e with vis := [] }])

def ItemImpl.shrinks (i : ItemImpl) : List ItemImpl :=
  ((attrsShrinks i.attrs).map fun as => { i with attrs := as }) ++
  ((removeEach i.members).map fun ms => { i with members := ms }) ++
  (i.generics.shrinks.map fun g => { i with generics := g }) ++
  (if i.neg then [{ i with neg := false }] else [])

def Item.shrinks : Item → List Item
  | .struct_ s => s.shrinks.map .struct_
  | .enum_ e => e.shrinks.map .enum_
  | .impl_ i => i.shrinks.map .impl_
  | .other _ => []

def Case.shrinks (c : Case) : List Case :=
  (match c.entry with
   | .attr a => a.shrinks.map fun a' => { c with entry := .attr a' }
   | .derive => []) ++
  (c.item.shrinks.map fun it => { c with item := it })

/-- follow a path of candidate indices -/
def Case.shrinkAt (c : Case) : List Nat → Option Case
  | [] => some c
  | k :: rest => match c.shrinks[k]? with
    | some c' => c'.shrinkAt rest
    | none => none

end DX
