import DeriveExModel.Tok
/-
The input language: a mini-syn.  Everything the expander inspects is structured
(types, generics, the derive_ex / helper attributes); everything it only copies
is an opaque token list.  `…Toks` functions print exactly what syn prints.
-/
namespace DX

/-! ## Types -/

/-- constant expression in an array length -/
inductive CExpr where
  | lit (s : String)
  | ident (s : String)
deriving Repr, BEq, DecidableEq, Inhabited

mutual
inductive Ty where
  | path (global : Bool) (segs : List Seg)
  /-- `<self as tr>::rest`; with `tsegs = []` the path without a trait, `<self>::rest` -/
  | qpath (self : Ty) (tglobal : Bool) (tsegs : List Seg) (rest : List Seg)
  | ref (lt : Option String) (mut_ : Bool) (t : Ty)
  | ptr (mut_ : Bool) (t : Ty)
  | slice (t : Ty)
  | array (t : Ty) (len : CExpr)
  | tuple (ts : List Ty)
  | bareFn (args : List Ty) (ret : Option Ty)
  | paren (t : Ty)
  | never
  /-- `dyn Path + more…`: further bounds are opaque and mention no generic parameter (`Send`, `'static`) -/
  | dynT (global : Bool) (segs : List Seg) (more : List Toks := [])
  | macro (toks : List String)
  /-- a type behind opaque leading tokens: `for<'x> fn(&'x T)`, `unsafe extern "C" fn(T)` -/
  | prefixed (pre : List String) (t : Ty)
inductive Seg where
  | mk (ident : String) (args : List GArg)
  /-- `Fn(A, B) -> C`: parenthesized path arguments -/
  | fn (ident : String) (args : List Ty) (ret : Option Ty)
inductive GArg where
  | ty (t : Ty)
  | lt (s : String)
  | lit (s : String)
  | assoc (name : String) (t : Ty)
  /-- `{ N }`: a braced const argument -/
  | cblock (e : CExpr)
end

instance : Inhabited Ty := ⟨.never⟩
instance : Inhabited Seg := ⟨.mk "" []⟩

def Ty.simple (name : String) : Ty := .path false [.mk name []]
def Ty.app (name : String) (args : List Ty) : Ty := .path false [.mk name (args.map .ty)]
def Ty.selfTy : Ty := .simple "Self"

def CExpr.toks : CExpr → Toks
  | .lit s => [s]
  | .ident s => [s]

mutual
def Ty.toks : Ty → Toks
  | .path g segs => (if g then ["::"] else []) ++ Seg.toksL segs
  | .qpath s tg tsegs rest =>
      -- no trait segments: the qualified path without a trait, `<T>::Assoc`
      "<" :: s.toks ++ (if tsegs.isEmpty then [] else "as" :: (if tg then ["::"] else []) ++ Seg.toksL tsegs) ++
        ">" :: "::" :: Seg.toksL rest
  | .ref lt m t =>
      "&" :: (match lt with | some l => [l] | none => []) ++ (if m then ["mut"] else []) ++ t.toks
  | .ptr m t => "*" :: (if m then "mut" else "const") :: t.toks
  | .slice t => "[" :: t.toks ++ ["]"]
  | .array t len => "[" :: t.toks ++ ";" :: len.toks ++ ["]"]
  | .tuple ts => "(" :: Ty.toksTuple ts ++ [")"]
  | .bareFn args ret =>
      "fn" :: "(" :: Ty.toksComma args ++ ")" :: Ty.toksRet ret
  | .paren t => "(" :: t.toks ++ [")"]
  | .never => ["!"]
  | .dynT g segs more => "dyn" :: (if g then ["::"] else []) ++ Seg.toksL segs ++ more.flatMap (fun b => "+" :: b)
  | .macro toks => toks
  | .prefixed pre t => pre ++ t.toks
def Ty.toksRet : Option Ty → Toks
  | none => []
  | some r => "->" :: r.toks
/-- elements of a tuple type: `a , b` and `a ,` for a 1-tuple -/
def Ty.toksTuple : List Ty → Toks
  | [] => []
  | [t] => t.toks ++ [","]
  | t :: u :: rest => t.toks ++ "," :: Ty.toksComma (u :: rest)
def Ty.toksComma : List Ty → Toks
  | [] => []
  | [t] => t.toks
  | t :: u :: rest => t.toks ++ "," :: Ty.toksComma (u :: rest)
def Seg.toks : Seg → Toks
  | .mk i [] => [i]
  | .mk i (a :: as) => i :: "<" :: GArg.toksComma (a :: as) ++ [">"]
  | .fn i args ret => i :: "(" :: Ty.toksComma args ++ ")" :: Ty.toksRet ret
/-- `a :: b :: c` -/
def Seg.toksL : List Seg → Toks
  | [] => []
  | [s] => s.toks
  | s :: t :: rest => s.toks ++ "::" :: Seg.toksL (t :: rest)
def GArg.toks : GArg → Toks
  | .ty t => t.toks
  | .lt s => [s]
  | .lit s => [s]
  | .assoc n t => n :: "=" :: t.toks
  | .cblock e => "{" :: e.toks ++ ["}"]
def GArg.toksComma : List GArg → Toks
  | [] => []
  | [a] => a.toks
  | a :: b :: rest => a.toks ++ "," :: GArg.toksComma (b :: rest)
end

/-- `A + B: Trait`, `&'a A + B` are not well-formed: a trait object with several bounds is parenthesized
where it is placed behind `&`, in front of `:` or in place of `Self` -/
def Ty.parenIfPlus : Ty → Ty
  | .dynT g segs (b :: bs) => .paren (.dynT g segs (b :: bs))
  | t => t

/-- the type ends with a function pointer type that has no return type (`fn(T)`, `&'a fn(T)`, `fn() -> fn(T)`) -/
def Ty.endsWithFn : Ty → Bool
  | .bareFn _ none => true
  | .bareFn _ (some r) => r.endsWithFn
  | .prefixed _ t => t.endsWithFn
  | .ref _ _ t => t.endsWithFn
  | .ptr _ t => t.endsWithFn
  | _ => false

/-- in front of the `:` of a where-predicate: besides `(A + B): Trait`, a qualified path without a trait and a function
pointer type without return type are parenthesized — `where <T>::Assoc: Trait` would be read as generic parameters on the where-clause -/
def Ty.parenInWhere : Ty → Ty
  | .qpath s tg [] rest => .paren (.qpath s tg [] rest)
  | t => if t.endsWithFn then .paren t else t.parenIfPlus

/-! `expand_self`: replace every type node that *is* `Self` -/

def Ty.isSelf : Ty → Bool
  | .path false [.mk "Self" []] => true
  | _ => false

mutual
def Ty.expandSelf (to : Ty) : Ty → Ty
  | .path g segs => if (Ty.path g segs).isSelf then to.parenIfPlus else .path g (Seg.expandSelfL to segs)
  | .qpath s tg tsegs rest =>
      .qpath (Ty.expandSelf to s) tg (Seg.expandSelfL to tsegs) (Seg.expandSelfL to rest)
  | .ref lt m t => .ref lt m (Ty.expandSelf to t)
  | .ptr m t => .ptr m (Ty.expandSelf to t)
  | .slice t => .slice (Ty.expandSelf to t)
  | .array t len => .array (Ty.expandSelf to t) len
  | .tuple ts => .tuple (Ty.expandSelfL to ts)
  | .bareFn args ret =>
      .bareFn (Ty.expandSelfL to args) (Ty.expandSelfO to ret)
  | .paren t => .paren (Ty.expandSelf to t)
  | .never => .never
  | .dynT g segs more => .dynT g (Seg.expandSelfL to segs) more
  | .macro toks => .macro toks
  | .prefixed pre t => .prefixed pre (Ty.expandSelf to t)

def Ty.expandSelfO (to : Ty) : Option Ty → Option Ty
  | none => none
  | some t => some (Ty.expandSelf to t)
def Ty.expandSelfL (to : Ty) : List Ty → List Ty
  | [] => []
  | t :: ts => Ty.expandSelf to t :: Ty.expandSelfL to ts

def Seg.expandSelf (to : Ty) : Seg → Seg
  | .mk i args => .mk i (GArg.expandSelfL to args)
  | .fn i args ret => .fn i (Ty.expandSelfL to args) (Ty.expandSelfO to ret)

def Seg.expandSelfL (to : Ty) : List Seg → List Seg
  | [] => []
  | s :: ss => Seg.expandSelf to s :: Seg.expandSelfL to ss

def GArg.expandSelf (to : Ty) : GArg → GArg
  | .ty t => .ty (Ty.expandSelf to t)
  | .lt s => .lt s
  | .lit s => .lit s
  | .assoc n t => .assoc n (Ty.expandSelf to t)
  | .cblock e => .cblock e

def GArg.expandSelfL (to : Ty) : List GArg → List GArg
  | [] => []
  | a :: as => GArg.expandSelf to a :: GArg.expandSelfL to as
end

/-! `GenericParamSet::contains_in_type`: some path inside the type, written
without a leading `::`, has a (type or const) parameter as its first segment.
`ps` holds the *unrawed* parameter names. -/

def headIn (ps : List String) (g : Bool) (segs : List Seg) : Bool :=
  !g && (match segs with | (.mk i _) :: _ => ps.contains (unraw i) | (.fn i _ _) :: _ => ps.contains (unraw i) | [] => false)

mutual
def Ty.mentions (ps : List String) : Ty → Bool
  | .path g segs => headIn ps g segs || Seg.mentionsL ps segs
  | .qpath s tg tsegs rest =>
      s.mentions ps || headIn ps tg tsegs || Seg.mentionsL ps tsegs || Seg.mentionsL ps rest
  | .ref _ _ t => t.mentions ps
  | .ptr _ t => t.mentions ps
  | .slice t => t.mentions ps
  | .array t len => t.mentions ps || (match len with | .ident s => ps.contains (unraw s) | .lit _ => false)
  | .tuple ts => Ty.mentionsL ps ts
  | .bareFn args ret => Ty.mentionsL ps args || Ty.mentionsO ps ret
  | .paren t => t.mentions ps
  | .never => false
  | .dynT g segs _ => headIn ps g segs || Seg.mentionsL ps segs
  -- the arguments of a macro in type position are not parsed: any identifier among its tokens counts
  | .macro toks => toks.any fun t => ps.contains (unraw t)
  | .prefixed _ t => t.mentions ps
def Ty.mentionsO (ps : List String) : Option Ty → Bool
  | none => false
  | some t => t.mentions ps
def Ty.mentionsL (ps : List String) : List Ty → Bool
  | [] => false
  | t :: ts => t.mentions ps || Ty.mentionsL ps ts
def Seg.mentions (ps : List String) : Seg → Bool
  | .mk _ args => GArg.mentionsL ps args
  | .fn _ args ret => Ty.mentionsL ps args || Ty.mentionsO ps ret
def Seg.mentionsL (ps : List String) : List Seg → Bool
  | [] => false
  | s :: ss => s.mentions ps || Seg.mentionsL ps ss
def GArg.mentions (ps : List String) : GArg → Bool
  | .ty t => t.mentions ps
  | .lt _ => false
  | .lit _ => false
  | .assoc _ t => t.mentions ps
  | .cblock e => (match e with | .ident s => ps.contains (unraw s) | .lit _ => false)
def GArg.mentionsL (ps : List String) : List GArg → Bool
  | [] => false
  | a :: as => a.mentions ps || GArg.mentionsL ps as
end

/-! ## Generics -/

inductive TBound where
  | trait (maybe : Bool) (forLts : List String) (path : Ty)
  | lt (s : String)
deriving Inhabited

def forToks (lts : List String) : Toks :=
  if lts.isEmpty then [] else "for" :: angle (sepBy "," (lts.map fun l => [l]))

def TBound.toks : TBound → Toks
  | .trait q lts p => (if q then ["?"] else []) ++ forToks lts ++ p.toks
  | .lt s => [s]

def TBound.expandSelf (to : Ty) : TBound → TBound
  | .trait q lts p =>
      -- a trait path is not a type node; only the types inside its arguments are
      .trait q lts (match p with
        | .path g segs => .path g (Seg.expandSelfL to segs)
        | other => Ty.expandSelf to other)
  | .lt s => .lt s

def boundsToks (bs : List TBound) : Toks := sepBy "+" (bs.map TBound.toks)

inductive GParam where
  | lt (name : String) (bounds : List String)
  | ty (name : String) (bounds : List TBound) (dflt : Option Ty)
  | const_ (name : String) (ty : Ty) (dflt : Option Toks)
deriving Inhabited

inductive WPred where
  | ty (forLts : List String) (t : Ty) (bounds : List TBound)
  | lt (a : String) (bounds : List String)
deriving Inhabited

def WPred.toks : WPred → Toks
  | .ty lts t bs => forToks lts ++ t.toks ++ ":" :: boundsToks bs
  | .lt a bs => a :: ":" :: sepBy "+" (bs.map fun b => [b])

/-- a predicate as it is copied into a generated where-clause (`<T>::Assoc: Trait` is parenthesized there, too) -/
def WPred.inWhere : WPred → WPred
  | .ty lts (.qpath s tg [] rest) bs => .ty lts (.paren (.qpath s tg [] rest)) bs
  | p => p

def WPred.expandSelf (to : Ty) : WPred → WPred
  | .ty lts t bs => .ty lts (Ty.expandSelf to t) (bs.map (TBound.expandSelf to))
  | .lt a bs => .lt a bs

structure Generics where
  params : List GParam := []
  wheres : List WPred := []
  /-- `<T,>` / `where T: X,`: a trailing comma as written (kept wherever the list is re-emitted as a whole) -/
  trailingParams : Bool := false
  trailingWhere : Bool := false
deriving Inhabited

def GParam.name : GParam → String
  | .lt n _ => n
  | .ty n _ _ => n
  | .const_ n _ _ => n

def GParam.isLt : GParam → Bool
  | .lt _ _ => true
  | _ => false

/-- the parameter as declared (item re-emission) -/
def GParam.declToks : GParam → Toks
  | .lt n bs => n :: (if bs.isEmpty then [] else ":" :: sepBy "+" (bs.map fun b => [b]))
  | .ty n bs d =>
      n :: (if bs.isEmpty then [] else ":" :: boundsToks bs)
        ++ (match d with | some t => "=" :: t.toks | none => [])
  | .const_ n t d => "const" :: n :: ":" :: t.toks ++ (match d with | some e => "=" :: e | none => [])

/-- the parameter in `impl<…>` position: defaults dropped -/
def GParam.implToks : GParam → Toks
  | .lt n bs => n :: (if bs.isEmpty then [] else ":" :: sepBy "+" (bs.map fun b => [b]))
  | .ty n bs _ => n :: (if bs.isEmpty then [] else ":" :: boundsToks bs)
  | .const_ n t _ => "const" :: n :: ":" :: t.toks

/-- the parameter in `Type<…>` position -/
def GParam.useToks (p : GParam) : Toks := [p.name]

/-- syn prints lifetimes first in `impl<…>` and `Type<…>` positions -/
def ltFirst (ps : List GParam) : List GParam := ps.filter (·.isLt) ++ ps.filter (!·.isLt)

/-- syn prints lifetimes first — in the declaration, in `impl<…>` and in `Type<…>` position alike — and every
parameter with the comma that followed it in the source: a trailing comma appears iff the parameter printed last was
followed by one, i.e. the list was written with a trailing comma or ends (as written) in a lifetime that is moved forward -/
def Generics.printedTrailing (g : Generics) : Bool :=
  if (g.params.filter (!·.isLt)).isEmpty then g.trailingParams
  else g.trailingParams || (match g.params.getLast? with | some p => p.isLt | none => false)

def Generics.angled (g : Generics) (f : GParam → Toks) : Toks :=
  if g.params.isEmpty then []
  else angle (sepBy "," ((ltFirst g.params).map f) ++ (if g.printedTrailing then [","] else []))

def Generics.declToks (g : Generics) : Toks := g.angled GParam.declToks
def Generics.implToks (g : Generics) : Toks := g.angled GParam.implToks
def Generics.useToks (g : Generics) : Toks := g.angled GParam.useToks
def Generics.whereToks (g : Generics) : Toks :=
  if g.wheres.isEmpty then [] else "where" :: sepBy "," (g.wheres.map WPred.toks) ++ (if g.trailingWhere then [","] else [])

/-- the where-clause as the forwarder copies it into a generated impl: `<X>::Assoc: ..` (what `<Self>::Assoc: ..`
has become) is parenthesized -/
def Generics.whereToksIn (g : Generics) : Toks :=
  if g.wheres.isEmpty then []
  else "where" :: sepBy "," (g.wheres.map fun p => p.inWhere.toks) ++ (if g.trailingWhere then [","] else [])

def GParam.expandSelf (to : Ty) : GParam → GParam
  | .lt n bs => .lt n bs
  | .ty n bs d => .ty n (bs.map (TBound.expandSelf to)) (d.map (Ty.expandSelf to))
  | .const_ n t d => .const_ n (Ty.expandSelf to t) d

def Generics.expandSelf (to : Ty) (g : Generics) : Generics :=
  { g with params := g.params.map (GParam.expandSelf to), wheres := g.wheres.map (WPred.expandSelf to) }

/-- `GenericParamSet::new`: the unrawed names of the type and const parameters -/
def Generics.paramSet (g : Generics) : List String :=
  g.params.filterMap fun
    | .lt _ _ => none
    | .ty n _ _ => some (unraw n)
    | .const_ n _ _ => some (unraw n)

/-! ## Attributes -/

inductive BoundArg where
  | ty (t : Ty)
  | pred (p : WPred)
  | dots
  /-- an entry that is neither `..`, a where-predicate nor a type: refused when the attribute is parsed -/
  | bad (toks : Toks)
deriving Inhabited

def BoundArg.toks : BoundArg → Toks
  | .ty t => t.toks
  | .pred p => p.toks
  | .dots => [".."]
  | .bad ts => ts

def boundArgToks (bs : List BoundArg) : Toks := "bound" :: paren (sepBy "," (bs.map BoundArg.toks))

/-- how a helper attribute is spelled -/
inductive HBody (α : Type) where
  | path                      -- `#[ord]`
  | list (args : α)           -- `#[ord(…)]`
  | nameValue (v : Toks)      -- `#[ord = …]`  (rejected)
deriving Inhabited

inductive CmpAttr where
  | ord | partialOrd | eq | partialEq | hash
deriving Repr, BEq, DecidableEq, Inhabited

def CmpAttr.all : List CmpAttr := [.ord, .partialOrd, .eq, .partialEq, .hash]

def CmpAttr.name : CmpAttr → String
  | .ord => "ord" | .partialOrd => "partial_ord" | .eq => "eq" | .partialEq => "partial_eq" | .hash => "hash"

structure CmpArgs where
  ignore : Bool := false
  reverse : Bool := false
  by_ : Option Toks := none
  /-- `key` expression; the token `$` marks the placeholder -/
  key : Option Toks := none
  /-- the `key` expression uses `$` where only a name can stand (`$.$`, `$ { .. }`, `let $ = ..`): the expander
  substitutes a parenthesized expression for `$` and refuses such a template when the attribute is parsed -/
  keyBad : Bool := false
  bound : Option (List BoundArg) := none
deriving Inhabited

structure DebugArgs where
  transparent : Bool := false
  ignore : Bool := false
  bound : Option (List BoundArg) := none
deriving Inhabited

/-- syntactic class of a `#[default(expr)]` expression, as far as the expander looks -/
inductive ExprClass where
  | strLit | path | underscore | other
  /-- starts with a block-like expression and continues (`{ 1 } + 1`, `if c { a } else { b }.f()`): as the tail of a
  function body it has to be parenthesized -/
  | blockLead
deriving Repr, BEq, DecidableEq, Inhabited

structure DefaultArgs where
  /-- `none`: no argument at all (`#[default()]`).  The first argument is always the value, also when it is spelled like a
  named one: `#[default(bound(T))]` has the value `bound(T)` (found by L1c; the serialiser follows the implementation) -/
  value : Option (Toks × ExprClass) := none
  bound : Option (List BoundArg) := none
deriving Inhabited

structure DeriveItem where
  trait_ : String
  /-- `Trait(bound(..), dump)`; `none` = bare `Trait` -/
  args : Option (Option (List BoundArg) × Bool) := none
deriving Inhabited

structure Args where
  items : List DeriveItem := []
  bound : Option (List BoundArg) := none
  dump : Bool := false
deriving Inhabited

inductive Attr where
  | foreign (inner : Toks)
  | deriveEx (args : Args)
  | cmp (which : CmpAttr) (body : HBody CmpArgs)
  | debug (body : HBody DebugArgs)
  | dflt (body : HBody DefaultArgs)
deriving Inhabited

/-! ### how an attribute is recognised by its path

`helper_attr_name` / `is_derive_ex_attr` / `HelperAttributeKinds::is_match` (item_type.rs): a helper attribute is a single
identifier without a leading `::`, which may be written as a raw identifier; `derive_ex` may also be written with the path
of its crate.  Everything else is foreign, whatever its last segment is called (F34). -/

/-- what an attribute is for the expander -/
inductive AttrKind where
  | deriveEx | cmp (w : CmpAttr) | debug | dflt
deriving Repr, BEq, DecidableEq, Inhabited

/-- the path of an attribute as written: `::`? and the segments, each possibly with its `r#` prefix -/
structure AttrPath where
  leading : Bool := false
  segs : List String
deriving Repr, BEq, DecidableEq, Inhabited

def helperOfName (n : String) : Option AttrKind :=
  if n == "ord" then some (.cmp .ord) else if n == "partial_ord" then some (.cmp .partialOrd)
  else if n == "eq" then some (.cmp .eq) else if n == "partial_eq" then some (.cmp .partialEq)
  else if n == "hash" then some (.cmp .hash) else if n == "debug" then some .debug
  else if n == "default" then some .dflt else none

/-- `none` = a foreign attribute -/
def AttrPath.kind (p : AttrPath) : Option AttrKind :=
  match p.segs.map unraw with
  | [n] => if p.leading then none else if n == "derive_ex" then some .deriveEx else helperOfName n
  | [a, b] => if a == "derive_ex" && b == "derive_ex" then some .deriveEx else none
  | _ => none

def Attr.kind? : Attr → Option AttrKind
  | .foreign _ => none
  | .deriveEx _ => some .deriveEx
  | .cmp w _ => some (.cmp w)
  | .debug _ => some .debug
  | .dflt _ => some .dflt

def AttrKind.name : AttrKind → String
  | .deriveEx => "derive_ex" | .cmp w => w.name | .debug => "debug" | .dflt => "default"

def commaJoin (parts : List Toks) : Toks := sepBy "," (parts.filter (!·.isEmpty))

def CmpArgs.toks (a : CmpArgs) : Toks :=
  commaJoin [
    (if a.ignore then ["ignore"] else []),
    (if a.reverse then ["reverse"] else []),
    (match a.by_ with | some e => "by" :: "=" :: e | none => []),
    (match a.key with | some e => "key" :: "=" :: e | none => []),
    (match a.bound with | some b => boundArgToks b | none => [])]

def DebugArgs.toks (a : DebugArgs) : Toks :=
  commaJoin [
    (if a.transparent then ["transparent"] else []),
    (if a.ignore then ["ignore"] else []),
    (match a.bound with | some b => boundArgToks b | none => [])]

def DefaultArgs.toks (a : DefaultArgs) : Toks :=
  commaJoin [
    (match a.value with | some (e, _) => e | none => []),
    (match a.bound with | some b => boundArgToks b | none => [])]

def DeriveItem.toks (d : DeriveItem) : Toks :=
  d.trait_ :: (match d.args with
    | none => []
    | some (b, dump) => paren (commaJoin [
        (match b with | some b => boundArgToks b | none => []),
        (if dump then ["dump"] else [])]))

def Args.toks (a : Args) : Toks :=
  commaJoin (a.items.map DeriveItem.toks ++ [
    (match a.bound with | some b => boundArgToks b | none => []),
    (if a.dump then ["dump"] else [])])

def HBody.toks {α} (name : String) (argToks : α → Toks) : HBody α → Toks
  | .path => [name]
  | .list a => name :: paren (argToks a)
  | .nameValue v => name :: "=" :: v

/-- contents of `#[…]` -/
def Attr.inner : Attr → Toks
  | .foreign ts => ts
  | .deriveEx a => "derive_ex" :: paren a.toks
  | .cmp w b => b.toks w.name CmpArgs.toks
  | .debug b => b.toks "debug" DebugArgs.toks
  | .dflt b => b.toks "default" DefaultArgs.toks

def Attr.toks (a : Attr) : Toks := attrToks a.inner
def attrsToks (as : List Attr) : Toks := as.flatMap Attr.toks

/-! ## Items -/

structure Field where
  attrs : List Attr := []
  vis : Toks := []
  name : Option String := none
  ty : Ty
deriving Inhabited

inductive FieldsKind where
  | named | unnamed | unit
deriving Repr, BEq, DecidableEq, Inhabited

structure Fields where
  kind : FieldsKind
  fields : List Field := []
  /-- a trailing comma after the last field, as written -/
  trailing : Bool := false
deriving Inhabited

structure Variant where
  attrs : List Attr := []
  name : String
  fields : Fields
  discr : Option Toks := none
deriving Inhabited

structure ItemStruct where
  attrs : List Attr := []
  vis : Toks := []
  name : String
  generics : Generics := {}
  fields : Fields
deriving Inhabited

structure ItemEnum where
  attrs : List Attr := []
  vis : Toks := []
  name : String
  generics : Generics := {}
  variants : List Variant := []
  /-- a trailing comma after the last variant, as written -/
  trailing : Bool := false
deriving Inhabited

/-- the one thing the expander reads inside an `impl` body: `type Output = …;` -/
inductive ImplMember where
  | output (ty : Ty)
  | other (toks : Toks)
deriving Inhabited

structure ItemImpl where
  attrs : List Attr := []
  generics : Generics := {}
  /-- `impl !Trait for …` -/
  neg : Bool := false
  /-- the trait path (`none` for an inherent impl) -/
  trait_ : Option (Bool × List Seg) := none
  selfTy : Ty
  members : List ImplMember := []
deriving Inhabited

inductive Item where
  | struct_ (s : ItemStruct)
  | enum_ (e : ItemEnum)
  | impl_ (i : ItemImpl)
  | other (toks : Toks)
deriving Inhabited

def Field.toks (f : Field) : Toks :=
  attrsToks f.attrs ++ f.vis ++ (match f.name with | some n => [n, ":"] | none => []) ++ f.ty.toks

def Fields.bodyToks (fs : Fields) : Toks :=
  let tr : Toks := if fs.trailing && !fs.fields.isEmpty then [","] else []
  match fs.kind with
  | .named => brace (sepBy "," (fs.fields.map Field.toks) ++ tr)
  | .unnamed => paren (sepBy "," (fs.fields.map Field.toks) ++ tr)
  | .unit => []

def Variant.toks (v : Variant) : Toks :=
  attrsToks v.attrs ++ v.name :: v.fields.bodyToks ++ (match v.discr with | some d => "=" :: d | none => [])

def ItemStruct.toks (s : ItemStruct) : Toks :=
  attrsToks s.attrs ++ s.vis ++ "struct" :: s.name :: s.generics.declToks ++
    (match s.fields.kind with
     | .named => s.generics.whereToks ++ s.fields.bodyToks
     | .unnamed => s.fields.bodyToks ++ s.generics.whereToks ++ [";"]
     | .unit => s.generics.whereToks ++ [";"])

def ItemEnum.toks (e : ItemEnum) : Toks :=
  attrsToks e.attrs ++ e.vis ++ "enum" :: e.name :: e.generics.declToks ++ e.generics.whereToks ++
    brace (sepBy "," (e.variants.map Variant.toks) ++ (if e.trailing && !e.variants.isEmpty then [","] else []))

def ImplMember.toks : ImplMember → Toks
  | .output t => "type" :: "Output" :: "=" :: t.toks ++ [";"]
  | .other ts => ts

def ItemImpl.toks (i : ItemImpl) : Toks :=
  attrsToks i.attrs ++ "impl" :: i.generics.declToks ++
    (match i.trait_ with
     | some (g, segs) => (if i.neg then ["!"] else []) ++ (if g then ["::"] else []) ++ Seg.toksL segs ++ ["for"]
     | none => []) ++
    i.selfTy.toks ++ i.generics.whereToks ++ brace (i.members.flatMap ImplMember.toks)

def Item.toks : Item → Toks
  | .struct_ s => s.toks
  | .enum_ e => e.toks
  | .impl_ i => i.toks
  | .other ts => ts

end DX
