import DeriveExModel.Tok
import DeriveExModel.Syntax
import DeriveExModel.Core
import DeriveExModel.Cmp
import DeriveExModel.Basic
import DeriveExModel.ItemImpl
import DeriveExModel.Entry
import DeriveExModel.Gen
