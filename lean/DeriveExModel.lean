import DeriveExModel.Tok
import DeriveExModel.Syntax
