import DeriveExModel.Gen
import DeriveExModel.L2
import DeriveExModel.Shrink
import Ext
open DX

def printCase (c : Case) : IO Unit := do
  let out ← IO.getStdout
  let mut s := s!"CASE {c.id}\n"
  for t in c.tags do s := s ++ s!"TAG {t}\n"
  match c.entry with
  | .attr a => s := s ++ s!"ENTRY attr\nARGS {srcText a.toks}\n"
  | .derive => s := s ++ "ENTRY derive\n"
  s := s ++ s!"ITEM {srcText c.item.toks}\n"
  for seg in c.expand do
    match seg.body with
    | .toks ts => s := s ++ s!"SEG {seg.label} T\n{canon ts.strs}\n"
    | .dump ts => s := s ++ s!"SEG {seg.label} DUMP\n{canon ts.strs}\n"
    | .err => s := s ++ s!"SEG {seg.label} ERR\n"
  s := s ++ "END\n"
  out.putStr s

def family (name : String) (seed idx : Nat) : Option Case :=
  match name with
  | "cmp1" => some (cmp1Case [31] idx)
  | "cmp1all" => some (cmp1Case ((List.range 31).map (· + 1)) idx)
  | "cmpN" => some (genItemCaseR cfgCmp name seed idx)
  | "cmpWild" => some (genItemCaseR cfgCmpWild name seed idx)
  | "basic" => some (genItemCaseR cfgBasic name seed idx)
  | "ops" => some (genItemCaseR cfgOps name seed idx)
  | "bounds" => some (genItemCaseR cfgBounds name seed idx)
  | "all" => some (genItemCaseR cfgAll name seed idx)
  | "dump" => some (genItemCaseR cfgDump name seed idx)
  | "wild" => some (genItemCaseR cfgWild name seed idx)
  | "strip" => some (genItemCaseR cfgStrip name seed idx)
  | "impl" =>
    let c := genImplCase name seed idx
    some (if idx % 6 == 4 then { c with item := c.item.withTrailing 3, tags := "trailing-commas" :: c.tags } else c)
  | "other" => some (genOtherCase name seed idx)
  | _ => none

def familyCount (name : String) : Option Nat :=
  match name with
  | "cmp1" => some (cmp1Count [31])
  | "cmp1all" => some (cmp1Count ((List.range 31).map (· + 1)))
  | _ => none

/-- a case read from outside: the texts given to the real expander are the original ones, not the model's printing -/
def printExtCase (c : Case) (atext : Option String) (itext : String) : IO Unit := do
  let out ← IO.getStdout
  let mut s := s!"CASE {c.id}\n"
  match atext with
  | some a => s := s ++ s!"ENTRY attr\nARGS {a}\n"
  | none => s := s ++ "ENTRY derive\n"
  s := s ++ s!"ITEM {itext}\n"
  for seg in c.expand do
    match seg.body with
    | .toks ts => s := s ++ s!"SEG {seg.label} T\n{canon ts.strs}\n"
    | .dump ts => s := s ++ s!"SEG {seg.label} DUMP\n{canon ts.strs}\n"
    | .err => s := s ++ s!"SEG {seg.label} ERR\n"
  s := s ++ "END\n"
  out.putStr s

partial def extLoop (h : IO.FS.Stream) (ok bad : Nat) : IO (Nat × Nat) := do
  let line ← h.getLine
  if line.isEmpty then return (ok, bad)
  match (SExp.parse line).bind toExtCase with
  | some (c, a, i) => printExtCase c a i; extLoop h (ok + 1) bad
  | none => (← IO.getStderr).putStrLn s!"ext: unreadable case: {line.take 200}"; extLoop h ok (bad + 1)

def main (args : List String) : IO UInt32 := do
  match args with
  | ["ext"] =>
    -- cases from outside the model's generators, one S-expression per line on stdin (xcheck ser)
    let (_, bad) ← extLoop (← IO.getStdin) 0 0
    pure (if bad == 0 then 0 else 3)
  | ["count", fam] =>
    match familyCount fam with
    | some n => IO.println n; pure 0
    | none => IO.println "inf"; pure 0
  | ["gen", fam, seed, from_, count] =>
    let seed := seed.toNat!
    let from_ := from_.toNat!
    let count := count.toNat!
    for i in [from_ : from_ + count] do
      if fam == "meta15" then
        for c in meta15Cases seed i do printCase c
      else if fam == "metaDump" then
        for c in metaDumpCases seed i do printCase c
      else
      match family fam seed i with
      | some c => printCase c
      | none => IO.eprintln s!"unknown family {fam}"; return 2
    pure 0
  | ["l2", fam, seed, from_, count] =>
    let lawful := fam == "lawRun"
    if !["cmpRun", "lawRun", "cloneRun", "opsRun", "debugRun", "defaultRun", "fwdRun"].contains fam then
      IO.eprintln s!"unknown l2 family {fam}"; return 2
    let seed := seed.toNat!
    let from_ := from_.toNat!
    let count := count.toNat!
    let out ← IO.getStdout
    let mut progs : List String := []
    let mut exps : List String := []
    let mut mods : List String := []
    let mut stats : List String := []
    for i in [from_ : from_ + count] do
      let m := s!"c{i}"
      let (c, body, exp) :=
        if fam == "cloneRun" then
          let c := genCloneRunCase seed i
          let (b, e) := cloneRunProgram c m
          (c, b, e)
        else if fam == "opsRun" then
          let c := genOpsRunCase seed i
          let (b, e) := opsRunProgram c m
          (c, b, e)
        else if fam == "debugRun" then
          let c := genDebugRunCase seed i
          let (b, e) := debugRunProgram c m
          (c, b, e)
        else if fam == "defaultRun" then
          let c := genDefaultRunCase seed i
          let (b, e) := defaultRunProgram c m
          (c, b, e)
        else if fam == "fwdRun" then
          let c := genFwdRunCase seed i
          let (b, e) := fwdRunProgram c m
          (c, b, e)
        else
          let c := genCmpRunCase lawful seed i
          let (b, e) := cmpRunProgram lawful c m
          (c, b, e)
      if body.isEmpty then continue
      progs := body :: progs
      exps := exps ++ exp
      mods := m :: mods
      stats := stats ++ ((if fam != "cmpRun" && fam != "lawRun" then c.tags else cmpRunStats c).map (fun t => s!"STAT {m} {t}"))
      stats := stats ++ [s!"SRC {m} {rustItem c}".replace "\n" " "]
    out.putStrLn "PROGRAM"
    out.putStr (if fam == "cloneRun" || fam == "opsRun" then l2PreludeBasic else if fam == "debugRun" || fam == "defaultRun" then l2PreludeFmt else if fam == "fwdRun" then l2PreludeFwd
                else if lawful then l2PreludeLawful else l2Prelude)
    for p in progs.reverse do out.putStr p
    out.putStrLn ("fn main() { " ++ " ".intercalate (mods.reverse.map fun m => m ++ "::run();") ++ " }")
    out.putStrLn "EXPECT"
    for e in exps do out.putStrLn e
    out.putStrLn "STATS"
    for e in stats do out.putStrLn e
    out.putStrLn "END"
    pure 0
  | ["l2probe", mode, fam, idx] =>
    -- one program for the case `<fam>/<idx>` of the exhaustive matrix: `mode` = law (lawful environment) | cmp
    let masks := if fam == "cmp1all" then (List.range 31).map (· + 1) else [31]
    let lawful := mode == "law"
    let (c, traits) := probeCase lawful masks idx.toNat!
    let (body, exp) := probeProgram lawful c traits "c0"
    let out ← IO.getStdout
    out.putStrLn "PROGRAM"
    out.putStr (if lawful then l2PreludeLawful else l2Prelude)
    out.putStr body
    out.putStrLn "fn main() { c0::run(); }"
    out.putStrLn "EXPECT"
    for e in exp do out.putStrLn e
    out.putStrLn "STATS"
    out.putStrLn s!"ACCEPTED {caseAccepted c}"
    out.putStrLn (s!"SRC c0 {rustItem c}".replace "\n" " ")
    out.putStrLn "END"
    pure 0
  | [mode, fam, seed, idx, path] =>
    if mode != "shrink" && mode != "shrunk" then IO.eprintln "usage"; return 2
    -- the case reached by a path of candidate indices (`-` = the case itself), and — for `shrink` — its one-step reductions
    let ks := if path == "-" then [] else (path.splitOn ".").map String.toNat!
    match family fam seed.toNat! idx.toNat! with
    | none => IO.eprintln s!"unknown family {fam}"; return 2
    | some c0 =>
      match c0.shrinkAt ks with
      | none => IO.eprintln "bad path"; return 2
      | some c =>
        let base := s!"{fam}/{seed}/{idx}@"
        let here := if ks.isEmpty then "" else path
        printCase { c with id := base ++ (if ks.isEmpty then "-" else path) }
        if mode == "shrink" then
          for (c', k) in c.shrinks.zipIdx do
            printCase { c' with id := base ++ (if here.isEmpty then toString k else here ++ "." ++ toString k) }
        pure 0
  | _ =>
    IO.eprintln "usage: drv gen <family> <seed> <from> <count> | drv count <family>"
    pure 2
