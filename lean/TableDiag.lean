import DeriveExModel.Generated.Tables
import DeriveExModel.Lemmas.Kinds
import DeriveExModel.Props.TablesDefs
import DeriveExModel.Generated.QuoteIdents
import DeriveExModel.Props.C13Hyg
import DeriveExModel.Props.C20
open DX

def attrName : Nat → String
  | 0 => "ord" | 1 => "partial_ord" | 2 => "eq" | 3 => "partial_eq" | 4 => "hash" | 5 => "debug" | 6 => "default" | _ => "derive_ex()"

def main : IO Unit := do
  let traits := ["Ord", "PartialOrd", "Eq", "PartialEq", "Hash", "Debug", "Default"]
  for (a, m, b) in Generated.isMatchTable do
    let doc := docOwnsAttr (maskKinds m) (attrOfIdx a)
    if doc != b then
      let ts := (traits.zipIdx).filterMap fun (t, i) => if (m >>> i) % 2 == 1 then some t else none
      IO.println s!"ROW attr=#[{attrName a}] derived=[{", ".intercalate ts}] documented_consumed={doc} real_consumed={b} input: #[derive_ex({", ".intercalate ts})] struct X(#[{attrName a}] u8);"
  for (n, p, ms) in Generated.traitTable do
    if modelTraitRow n != some (p, ms) then
      IO.println s!"ROW trait={n} real_path={p} real_methods={ms} model={modelTraitRow n} input: #[derive_ex({n})] struct X(i8);"
  -- Q: identifiers read off the templates of the source
  let wh (s : String) : String := ((Generated.quoteWhere.find? (·.1 == s)).map (·.2)).getD "?"
  for s in Generated.quoteFree do
    if !litOK s then
      IO.println s!"QROW a template writes the free identifier `{s}` (first at derive-ex/src/{wh s}): neither keyword, primitive type, `__`-reserved nor block-local"
  for s in Generated.quoteAbsRoots do
    if s != "core" then
      IO.println s!"QROW a template writes an absolute path that starts at `::{s}` (first at derive-ex/src/{wh s}), not at `::core`"
  for s in Generated.quoteRelRoots do
    IO.println s!"QROW a template writes a path that starts at `{s}::` (the user's crate or module), not at `::core`"
  for s in Generated.quoteMethods do
    IO.println s!"QROW a template calls `.{s}(..)` in method syntax (first at derive-ex/src/{wh s}): resolved among the traits in scope of the user"
  for (s, f) in Generated.quoteSelfPaths do
    if !(s == "Output" && f == "item_type.rs") then
      IO.println s!"QROW a template in derive-ex/src/{f} writes `Self::{s}`: looked up among the variants and inherent items of the user's type first"
  for s in Generated.quoteSingles do
    if !(litOK s || ["derive_ex"].contains s) then
      IO.println s!"QROW a template consists of the single free identifier `{s}` (first at derive-ex/src/{wh s})"
  for s in Generated.quoteBinderPrefixes do
    if !(binderPrefixes.contains s && reserved s) then
      IO.println s!"QROW per-field binder prefix `{s}` (derive-ex/src/{wh s}) is not one of the model's reserved prefixes"
  for s in binderPrefixes do
    if !Generated.quoteBinderPrefixes.contains s then
      IO.println s!"QROW the model's binder prefix `{s}` no longer occurs in the source"
  for s in Generated.quoteFormatIdents do
    if !["{}", "{}Assign", "{}_assign", "{}_{}"].contains s then
      IO.println s!"QROW an identifier is assembled with the unknown format `{s}`"

