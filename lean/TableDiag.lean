import DeriveExModel.Generated.Tables
import DeriveExModel.Lemmas.Kinds
import DeriveExModel.Props.TablesDefs
open DX

def attrName : Nat → String
  | 0 => "ord" | 1 => "partial_ord" | 2 => "eq" | 3 => "partial_eq" | 4 => "hash" | 5 => "debug" | 6 => "default" | _ => "derive_ex()"

def main : IO Unit := do
  let traits := ["Ord", "PartialOrd", "Eq", "PartialEq", "Hash", "Debug", "Default"]
  for (a, m, b) in Generated.isMatchTable do
    let doc := docOwnsAttr (maskKinds m) (attrOfIdx a)
    if doc != b then
      let ts := (traits.zipIdx).filterMap fun (t, i) => if (m >>> i) % 2 == 1 then some t else none
      IO.println s!"ROW attr=#[{attrName a}] derived=[{", ".intercalate ts}] documented_consumed={doc} real_consumed={b} input: #[derive_ex({", ".intercalate ts})] struct X(#[{attrName a}] u8);"
  for (n, p, ms) in Generated.traitTable do
    if modelTraitRow n != some (p, ms) then
      IO.println s!"ROW trait={n} real_path={p} real_methods={ms} model={modelTraitRow n} input: #[derive_ex({n})] struct X(i8);"
