"""Generators of *well-typed* Rust programs for the rustc-in-the-loop checks (C12, C13, C17, C20).
The oracle is rustc itself (does the program compile without any diagnostic?) or lives inside the
program (std-derived twins), so no model is involved in these verdicts."""
import random

PRELUDE = '''#![allow(dead_code, unused_imports, non_camel_case_types, non_snake_case, non_upper_case_globals)]
#![deny(warnings)]
#![allow(dead_code, unused_imports, non_camel_case_types, non_snake_case, non_upper_case_globals)]
use derive_ex::{derive_ex, Ex};
mod helpers {
    use ::core::cmp::Ordering;
    use ::core::hash::{Hash, Hasher};
    pub trait Tr<T: ?Sized = ()> {}
    impl<A: ?Sized, B: ?Sized> Tr<B> for A {}
    pub fn fe<T: PartialEq + ?Sized>(a: &T, b: &T) -> bool { a == b }
    pub fn fo<T: Ord + ?Sized>(a: &T, b: &T) -> Ordering { a.cmp(b) }
    pub fn fp<T: PartialOrd + ?Sized>(a: &T, b: &T) -> Option<Ordering> { a.partial_cmp(b) }
    pub fn fh<T: Hash + ?Sized, H: Hasher>(a: &T, h: &mut H) { a.hash(h) }
    pub fn ksz<T: ?Sized>(_: &T) -> u8 { 0 }
    pub const K: i8 = 7;
}
'''

CMP = ['Ord', 'PartialOrd', 'Eq', 'PartialEq']
BINOPS = ['Add', 'BitAnd', 'BitOr', 'BitXor', 'Div', 'Mul', 'Rem', 'Shl', 'Shr', 'Sub']


def closed_cmp_sets():
    out = [[], ['PartialEq'], ['PartialEq', 'Eq'], ['PartialEq', 'PartialOrd'], ['PartialEq', 'Eq', 'PartialOrd'],
           ['PartialEq', 'Eq', 'PartialOrd', 'Ord']]
    return out


class Names:
    """identifiers used by a generated item; C13 substitutes hostile ones"""

    def __init__(self, ty='X', T='T', U='U', N='N', lt="'a", fields=('a', 'b', 'c', 'd'), variants=('A', 'B', 'C', 'D')):
        self.ty, self.T, self.U, self.N, self.lt = ty, T, U, N, lt
        self.fields, self.variants = list(fields), list(variants)


def gen_item(rng, names=None, want_enum=None, allow_attrs=True, plain=False, absolute=False, gkinds=None):
    """Returns dict(src=<item with derive_ex attribute>, traits=[...], desc={...}).
    The item is well-typed by construction: every trait list is supertrait-closed, field types support the
    derived traits given the bounds the expander adds, `by`/`key` on generic fields carry an explicit bound."""
    n = names or Names()
    is_enum = rng.random() < 0.45 if want_enum is None else want_enum
    # ---- generics
    gkind = rng.choice(gkinds or ['none', 'none', 'T', 'T', 'TU', 'ltT', 'TN', 'Tdef', 'Tbound', 'Tself'])
    has_T = gkind != 'none'
    has_U = gkind == 'TU'
    has_lt = gkind == 'ltT'
    has_N = gkind == 'TN'
    params = []
    if has_lt:
        params.append(n.lt)
    if has_T:
        if gkind == 'Tdef':
            params.append(f'{n.T} = u8')
        elif gkind == 'Tbound':
            params.append(f'{n.T}: helpers::Tr')
        elif gkind == 'Tself':
            params.append(f'{n.T}: helpers::Tr<Self>')
        else:
            params.append(n.T)
    if has_U:
        params.append(n.U)
    if has_N:
        params.append(f'const {n.N}: usize')
    generics = f"<{', '.join(params)}>" if params else ''
    where = ''
    if has_T and rng.random() < 0.3:
        SZ = '::core::marker::Sized' if absolute else 'Sized'
        VC = '::std::vec::Vec' if absolute else 'Vec'
        where = rng.choice([f' where {n.T}: helpers::Tr', f' where Self: {SZ}', f' where {n.T}: helpers::Tr<Self>, Self: {SZ}',
                            f' where {VC}<Self>: {SZ}'])
    # ---- trait list
    cmp_set = rng.choice(closed_cmp_sets())
    others = []
    want_ops = (not is_enum) and rng.random() < 0.3
    want_deref = (not is_enum) and rng.random() < 0.12
    pool_basic = ['Clone', 'Debug', 'Default', 'Hash']
    for t in pool_basic:
        if rng.random() < 0.5:
            others.append(t)
    if 'Clone' in others and rng.random() < 0.35:
        others.append('Copy')
    if has_lt and 'Default' in others:
        others.remove('Default')
    ops = []
    if want_ops:
        k = rng.choice([1, 1, 2, 3])
        for o in rng.sample(BINOPS, k):
            ops.append(o)
            if rng.random() < 0.5:
                ops.append(o + 'Assign')
        if rng.random() < 0.4:
            ops.append(rng.choice(['Neg', 'Not']))
    traits = list(cmp_set) + others + ops
    if want_deref:
        traits = [t for t in traits if t not in ops] + ['Deref'] + (['DerefMut'] if rng.random() < 0.6 else [])
    if not traits:
        traits = ['Clone']
    rng.shuffle(traits)
    copy = 'Copy' in traits
    dflt = 'Default' in traits
    has_ops = any(t in traits for t in ops)
    # ---- field types
    T, U, N, LT = n.T, n.U, n.N, n.lt
    OPT = '::core::option::Option' if absolute else 'Option'
    VEC = '::std::vec::Vec' if absolute else 'Vec'
    BOX = '::std::boxed::Box' if absolute else 'Box'
    STRING = '::std::string::String' if absolute else 'String'
    SIZED = '::core::marker::Sized' if absolute else 'Sized'
    ORD = '::core::cmp::Ord' if absolute else 'Ord'
    used_params = set()

    def field_types():
        c = ['i8', 'i8']
        if has_ops:
            # operator impls exist for i8 and for the parameters (through the generated where-clause)
            if has_T:
                c += [T, T]
            if has_U:
                c += [U]
            return c
        c += ['(i8, bool)', f'{OPT}<i8>']
        if not copy:
            c += [STRING, f'{VEC}<i8>']
        if has_T:
            c += [T, T, f'{OPT}<{T}>', f'({T}, i8)', f'::core::marker::PhantomData<{T}>']
            if not copy:
                c += [f'{VEC}<{T}>', f'{BOX}<{T}>']
        if has_U:
            c += [U, f'({T}, {U})']
        if has_N and not dflt:
            c += [f'[{T}; {N}]', f'[i8; {N}]']
        if has_lt and not dflt:
            c += [f"&{LT} {T}", f"&{LT} str"]
        return c
    ftypes = field_types()

    by_used = []

    def field_attrs(ty, pos, nf):
        """comparison / debug / default helper attributes that keep the item accepted and well-typed"""
        if not allow_attrs or plain:
            return ''
        out = []
        generic = has_T and (T in ty.replace('helpers::Tr', '') or (has_U and U in ty))
        if cmp_set or 'Hash' in traits:
            r = rng.random()
            if r < 0.10:
                out.append('#[ord(ignore)]')
            elif r < 0.18 and ('PartialOrd' in traits):
                out.append('#[ord(reverse)]')
            elif r < 0.30:
                out.append('#[ord(key = helpers::ksz(&$))]')
            elif r < 0.45:
                # `by` on first / middle / last fields, also on fields of generic type (with an explicit bound)
                b = ', bound(..)' if rng.random() < 0.3 else ''
                need = []
                if generic:
                    need = [f'{ty}: {ORD} + ::core::hash::Hash']
                    b = f', bound({need[0]})'
                rev = 'reverse, ' if ('PartialOrd' in traits and rng.random() < 0.3) else ''
                out.append(f'#[ord({rev}by = helpers::fo{b})]')
                if 'Hash' in traits:
                    # `hash(by)` ends the consultation of lower-priority attributes for Hash, so the bound
                    # its function needs has to sit on the `hash` attribute itself
                    hb = f', bound({ty}: ::core::hash::Hash)' if generic else ''
                    out.append(f'#[hash(by = helpers::fh{hb})]')
                by_used.append(pos)
        if 'Debug' in traits and rng.random() < 0.15:
            out.append('#[debug(ignore)]')
        if dflt and rng.random() < 0.2 and ty == 'i8':
            out.append(rng.choice(['#[default(3)]', '#[default(helpers::K)]', '#[default(-1)]', '#[default(_)]', '#[default]']))
        if dflt and rng.random() < 0.2 and ty == STRING:
            out.append('#[default("s")]')
        return ' '.join(out) + (' ' if out else '')

    def fields(kind, nf, base):
        fs = []
        for i in range(nf):
            ty = rng.choice(ftypes)
            import re as _re
            for pn in (T, U, N, LT):
                if _re.search(r"(?<![A-Za-z0-9_#':])" + _re.escape(pn) + r'(?![A-Za-z0-9_])', ty):
                    used_params.add(pn)
            at = field_attrs(ty, i, nf)
            if kind == 'named':
                fs.append(f'{at}{n.fields[i]}: {ty}')
            else:
                fs.append(f'{at}{ty}')
        if kind == 'named':
            return ' { ' + ', '.join(fs) + ' }'
        if kind == 'tuple':
            return '(' + ', '.join(fs) + ')'
        return ''
    entry = rng.choice(['attr', 'attr', 'derive'])
    tlist = ', '.join(traits)
    head = f'#[derive_ex({tlist})]' if entry == 'attr' else f'#[derive(Ex)]\n#[derive_ex({tlist})]'
    if is_enum:
        nv = rng.choice([0, 1, 1, 2, 2, 3])
        if dflt and nv == 0:
            nv = 1
        vs = []
        dv = rng.randrange(nv) if nv else 0
        for i in range(nv):
            kind = rng.choice(['unit', 'tuple', 'named'])
            nf = 0 if kind == 'unit' else rng.choice([0, 1, 2, 3])
            mark = '#[default] ' if (dflt and i == dv and (nv > 1 or rng.random() < 0.5)) else ''
            vs.append(f'{mark}{n.variants[i]}{fields(kind, nf, i)}')
        body = ' { ' + ', '.join(vs) + ' }'
        src = f'{head}\npub enum {n.ty}{generics}{where}{body}'
        shape = f'enum{nv}'
    else:
        if 'Deref' in traits:
            kind, nf = rng.choice([('tuple', 1), ('named', 1)])
        else:
            kind = rng.choice(['unit', 'tuple', 'tuple', 'named', 'named'])
            nf = 0 if kind == 'unit' else rng.choice([0, 1, 2, 3, 4])
        fs = fields(kind, nf, 0)
        if kind == 'named':
            src = f'{head}\npub struct {n.ty}{generics}{where}{fs}'
        elif kind == 'tuple':
            src = f'{head}\npub struct {n.ty}{generics}{fs}{where};'
        else:
            src = f'{head}\npub struct {n.ty}{generics}{where};'
        shape = f'{kind}{nf}'
    # unused parameters are an error (E0392): make every declared parameter used through a marker field
    need = ([T] if has_T else []) + ([U] if has_U else []) + ([N] if has_N else []) + ([LT] if has_lt else [])
    return dict(src=src, traits=traits, params_all_used=all(p in used_params for p in need),
                desc=dict(shape=shape, generics=gkind, entry=entry, by_positions=by_used, where=bool(where)))


def uses(src, name):
    import re
    return re.search(r'(?<![A-Za-z0-9_\'])' + re.escape(name) + r'(?![A-Za-z0-9_])', src.split('\n')[-1].split('{', 1)[-1] if '{' in src else src) is not None


def gen_c20_case(seed, idx):
    rng = random.Random(seed * 1000003 + idx)
    for _ in range(80):
        it = gen_item(rng)
        if it['params_all_used']:      # an unused parameter is E0392, not derive_ex's business
            return dict(it, id=f'c20/{seed}/{idx}', item=it['src'], src=PRELUDE + it['src'] + '\n')
    return dict(id=f'c20/{seed}/{idx}', item='', src=PRELUDE + '#[derive_ex(Clone)] pub struct X(i8);\n', traits=['Clone'],
                desc=dict(shape='fallback'))


# ---------------------------------------------------------------- C13: hostile names and scopes
HOSTILE_TYPE_PARAMS = ['H', 'T', 'Eq', 'Fn', 'Self_', 'Rhs', 'Output', 'Target', 'Formatter', 'Hasher', 'Ordering', 'Option', 'r#type']
HOSTILE_CONST_PARAMS = ['N', 'H', 'T', 'LEN', 'r#N']
# names the expansion uses for its own locals / parameters / closures
EXPANSION_LOCALS = ['f', 'state', 'this', 'other', 'rhs', 'source', 'lhs', 'o', 'to_index', 'l_0', 'r_0', '_0', '_self_0',
                    '_other_0', '_this_0', 'l_a', 'r_a', '_a', '_self_a', '_other_a', '_this_a', 'eq', 'cmp', 'partial_cmp', 'hash',
                    '_eq', '_f', 'clone', 'fmt', 'default']
HOSTILE_FIELDS = ['this', 'other', 'state', 'f', 'rhs', 'source', 'lhs', 'o', 'to_index', 'r#type', 'r#fn', 'r#match', 'eq', 'cmp',
                  'hash', 'clone', 'fmt', 'default', 'deref', 'l_0', '_0', 'self_', 'r#struct', 'r#ref', 'r#mut']
HOSTILE_VARIANTS = ['None', 'Some', 'Ok', 'Err', 'Option', 'Ordering', 'Equal', 'Less', 'Self_', 'Default', 'Clone', 'Eq', 'Fn',
                    'Formatter', 'Result', 'r#Box', 'T', 'H']
HOSTILE_TYPES = ['Option', 'Result', 'Eq', 'Fn', 'Clone', 'Default', 'Ordering', 'Hasher', 'Formatter', 'Debug', 'Hash', 'Ord',
                 'PartialEq', 'PartialOrd', 'Copy', 'Sized', 'Some', 'None', 'Vec_', 'Box_', 'r#type', 'T', 'H', 'X']
HOSTILE_LIFETIMES = ["'a", "'b", "'r#type" if False else "'x", "'this", "'state"]

SHADOW = '''
#[allow(unused_macros)]
mod shadow {
    pub struct Some; pub struct None; pub struct Ok; pub struct Err;
    pub trait Eq {} pub trait Fn {} pub trait Ord {} pub trait PartialEq {} pub trait PartialOrd {} pub trait Hash {}
    pub trait Clone {} pub trait Copy {} pub trait Default {} pub trait Debug {} pub trait Sized {} pub trait Into {} pub trait Hasher {}
    pub struct Ordering; pub struct Formatter; pub enum Result { A } pub enum Option_ { A }
    pub fn drop() {}
    pub mod core {} pub mod std {}
}
'''


def gen_c13_case(seed, idx):
    """a well-typed item (C20 grammar) with user-chosen names drawn from a hostile dictionary, in one of three scopes"""
    rng = random.Random(seed * 7000003 + idx)
    scope = ['plain', 'shadow', 'no_std'][idx % 3]
    for _ in range(60):
        fields = rng.sample(HOSTILE_FIELDS, 4)
        variants = rng.sample(HOSTILE_VARIANTS, 4)
        tp = rng.sample(HOSTILE_TYPE_PARAMS, 2)
        ty = rng.choice(HOSTILE_TYPES)
        # a type parameter, the type and its variants live in one namespace: keep them distinct
        if ty in tp or ty in variants:
            continue
        use_local_const = rng.random() < 0.25
        cn = rng.choice(EXPANSION_LOCALS) if use_local_const else rng.choice(HOSTILE_CONST_PARAMS)
        if cn in tp or cn == ty:
            continue
        names = Names(ty=ty, T=tp[0], U=tp[1], N=cn, lt=rng.choice(HOSTILE_LIFETIMES), fields=fields, variants=variants)
        it = gen_item(rng, names=names, absolute=True, gkinds=['none', 'T', 'TU', 'ltT', 'ltT', 'TN', 'TN', 'TN', 'Tdef', 'Tbound', 'Tself'])
        src = it['src']
        if not it['params_all_used']:
            continue
        pre = PRELUDE
        if scope == 'no_std':
            if '::std::' in src:
                continue
            pre = '#![no_std]\n' + PRELUDE
        if scope == 'shadow':
            body = f'mod case {{\n#[allow(unused_imports)] use super::shadow::*;\nuse super::helpers;\nuse derive_ex::{{derive_ex, Ex}};\n{src}\n}}\n'
            full = pre + SHADOW + body
        else:
            full = pre + src + '\n'
        return dict(it, id=f'c13/{seed}/{idx}', item=src, src=full, scope=scope,
                    names=dict(ty=ty, T=names.T, U=names.U, N=names.N, lt=names.lt, fields=fields, variants=variants))
    return dict(id=f'c13/{seed}/{idx}', item='', src=PRELUDE + '#[derive_ex(Clone)] pub struct X(i8);\n', traits=['Clone'],
                desc=dict(shape='fallback'), scope=scope, names={})
