"""Generators of *well-typed* Rust programs for the rustc-in-the-loop checks (C12, C13, C17, C20).
The oracle is rustc itself (does the program compile without any diagnostic?) or lives inside the
program (std-derived twins), so no model is involved in these verdicts."""
import random

PRELUDE = '''#![allow(dead_code, unused_imports, non_camel_case_types, non_snake_case, non_upper_case_globals)]
#![deny(warnings)]
#![allow(dead_code, unused_imports, non_camel_case_types, non_snake_case, non_upper_case_globals)]
use derive_ex::{derive_ex, Ex};
#[allow(unused_imports)] use helpers::{_eq, _f};
mod helpers {
    use ::core::cmp::Ordering;
    use ::core::hash::{Hash, Hasher};
    pub trait Tr<T: ?Sized = ()> {}
    impl<A: ?Sized, B: ?Sized> Tr<B> for A {}
    pub trait Src { type Item; }
    pub fn fe<T: PartialEq + ?Sized>(a: &T, b: &T) -> bool { a == b }
    pub fn fo<T: Ord + ?Sized>(a: &T, b: &T) -> Ordering { a.cmp(b) }
    pub fn fp<T: PartialOrd + ?Sized>(a: &T, b: &T) -> Option<Ordering> { a.partial_cmp(b) }
    pub fn fh<T: Hash + ?Sized, H: Hasher>(a: &T, h: &mut H) { a.hash(h) }
    pub fn ksz<T: ?Sized>(_: &T) -> u8 { 0 }
    /// a key function reached through `Self` (F32: `Self` in a key expression, also under `Eq`)
    pub trait HasK { fn kself<Z: ?Sized>(_: &Z) -> u8 { 0 } }
    impl<T: ?Sized> HasK for T {}
    /// user functions called like locals the expansion has (had) of its own: imported unqualified where key expressions use them
    pub fn _eq<T: ?Sized>(_: &T) -> u8 { 0 }
    pub fn _f<T: ?Sized>(_: &T) -> u8 { 0 }
    pub const K: i8 = 7;
    pub const TWO: usize = 2;
    pub const SX: &str = "x";
    pub trait Mk { fn mk() -> Self; }
    impl Mk for i8 { fn mk() -> Self { 5 } }
    /// a transparent wrapper, and two projections that give their argument back
    #[derive(Clone, Copy, Debug, Default, PartialEq, Eq, PartialOrd, Ord, Hash)] pub struct Pass<T>(pub T);
    pub trait IdT { type Out; }
    impl<T> IdT for Pass<T> { type Out = T; }
    pub trait ConvT<X> { type Out; }
    impl<X> ConvT<X> for i8 { type Out = X; }
    /// implements every derivable trait for one value of its parameter only
    pub struct WN<const N: usize>;
    impl Clone for WN<3> { fn clone(&self) -> Self { WN } }
    impl Copy for WN<3> {}
    impl ::core::fmt::Debug for WN<3> { fn fmt(&self, f: &mut ::core::fmt::Formatter) -> ::core::fmt::Result { f.write_str("WN") } }
    impl Default for WN<3> { fn default() -> Self { WN } }
    impl PartialEq for WN<3> { fn eq(&self, _: &Self) -> bool { true } }
    impl Eq for WN<3> {}
    impl PartialOrd for WN<3> { fn partial_cmp(&self, _: &Self) -> Option<Ordering> { Some(Ordering::Equal) } }
    impl Ord for WN<3> { fn cmp(&self, _: &Self) -> Ordering { Ordering::Equal } }
    impl Hash for WN<3> { fn hash<H: Hasher>(&self, _: &mut H) {} }
    /// a type with a lifetime parameter that supports every operator in every reference form
    #[derive(Clone, Copy, Debug, Default, PartialEq, Eq, PartialOrd, Ord, Hash)]
    pub struct LM<'a>(pub i8, pub ::core::marker::PhantomData<&'a ()>);
    macro_rules! lm_ops { ($($tr:ident $f:ident $tra:ident $fa:ident),*) => {$(
        impl<'a> ::core::ops::$tr<LM<'a>> for LM<'a> { type Output = LM<'a>; fn $f(self, _: LM<'a>) -> LM<'a> { self } }
        impl<'a, 'b> ::core::ops::$tr<&'b LM<'a>> for LM<'a> { type Output = LM<'a>; fn $f(self, _: &'b LM<'a>) -> LM<'a> { self } }
        impl<'a, 'b> ::core::ops::$tr<LM<'a>> for &'b LM<'a> { type Output = LM<'a>; fn $f(self, _: LM<'a>) -> LM<'a> { *self } }
        impl<'a, 'b, 'c> ::core::ops::$tr<&'c LM<'a>> for &'b LM<'a> { type Output = LM<'a>; fn $f(self, _: &'c LM<'a>) -> LM<'a> { *self } }
        impl<'a> ::core::ops::$tra<LM<'a>> for LM<'a> { fn $fa(&mut self, _: LM<'a>) {} }
        impl<'a, 'b> ::core::ops::$tra<&'b LM<'a>> for LM<'a> { fn $fa(&mut self, _: &'b LM<'a>) {} }
    )*}}
    lm_ops!(Add add AddAssign add_assign, BitAnd bitand BitAndAssign bitand_assign, BitOr bitor BitOrAssign bitor_assign,
            BitXor bitxor BitXorAssign bitxor_assign, Div div DivAssign div_assign, Mul mul MulAssign mul_assign,
            Rem rem RemAssign rem_assign, Shl shl ShlAssign shl_assign, Shr shr ShrAssign shr_assign, Sub sub SubAssign sub_assign);
    impl<'a> ::core::ops::Neg for LM<'a> { type Output = LM<'a>; fn neg(self) -> LM<'a> { self } }
    impl<'a, 'b> ::core::ops::Neg for &'b LM<'a> { type Output = LM<'a>; fn neg(self) -> LM<'a> { *self } }
    impl<'a> ::core::ops::Not for LM<'a> { type Output = LM<'a>; fn not(self) -> LM<'a> { self } }
    impl<'a, 'b> ::core::ops::Not for &'b LM<'a> { type Output = LM<'a>; fn not(self) -> LM<'a> { *self } }
}
'''

CMP = ['Ord', 'PartialOrd', 'Eq', 'PartialEq']
BINOPS = ['Add', 'BitAnd', 'BitOr', 'BitXor', 'Div', 'Mul', 'Rem', 'Shl', 'Shr', 'Sub']


def closed_cmp_sets():
    out = [[], ['PartialEq'], ['PartialEq', 'Eq'], ['PartialEq', 'PartialOrd'], ['PartialEq', 'Eq', 'PartialOrd'],
           ['PartialEq', 'Eq', 'PartialOrd', 'Ord']]
    return out


class Names:
    """identifiers used by a generated item; C13 substitutes hostile ones"""

    def __init__(self, ty='X', T='T', U='U', N='N', lt="'a", fields=('a', 'b', 'c', 'd'), variants=('A', 'B', 'C', 'D')):
        self.ty, self.T, self.U, self.N, self.lt = ty, T, U, N, lt
        self.fields, self.variants = list(fields), list(variants)


def gen_item(rng, names=None, want_enum=None, allow_attrs=True, plain=False, absolute=False, gkinds=None):
    """Returns dict(src=<item with derive_ex attribute>, traits=[...], desc={...}).
    The item is well-typed by construction: every trait list is supertrait-closed, field types support the
    derived traits given the bounds the expander adds, `by`/`key` on generic fields carry an explicit bound."""
    n = names or Names()
    is_enum = rng.random() < 0.45 if want_enum is None else want_enum
    # ---- generics
    gkind = rng.choice(gkinds or ['none', 'none', 'T', 'T', 'TU', 'ltT', 'TN', 'Tdef', 'Tbound', 'Tself', 'Tsrc'])
    has_T = gkind != 'none'
    has_U = gkind == 'TU'
    has_lt = gkind == 'ltT'
    has_N = gkind == 'TN'
    params = []
    if has_lt:
        params.append(n.lt)
    if has_T:
        if gkind == 'Tdef':
            params.append(f'{n.T} = u8')
        elif gkind == 'Tbound':
            params.append(f'{n.T}: helpers::Tr')
        elif gkind == 'Tself':
            params.append(f'{n.T}: helpers::Tr<Self>')
        elif gkind == 'Tsrc':
            params.append(f'{n.T}: helpers::Src')
        else:
            params.append(n.T)
    if has_U:
        params.append(n.U)
    if has_N:
        params.append(f'const {n.N}: usize')
    generics = f"<{', '.join(params)}>" if params else ''
    where = ''
    if has_T and rng.random() < 0.3:
        SZ = '::core::marker::Sized' if absolute else 'Sized'
        VC = '::std::vec::Vec' if absolute else 'Vec'
        where = rng.choice([f' where {n.T}: helpers::Tr', f' where Self: {SZ}', f' where {n.T}: helpers::Tr<Self>, Self: {SZ}',
                            f' where {VC}<Self>: {SZ}'])
    # ---- trait list
    cmp_set = rng.choice(closed_cmp_sets())
    others = []
    want_ops = (not is_enum) and rng.random() < 0.3
    want_deref = (not is_enum) and rng.random() < 0.12
    pool_basic = ['Clone', 'Debug', 'Default', 'Hash']
    for t in pool_basic:
        if rng.random() < 0.5:
            others.append(t)
    if 'Clone' in others and rng.random() < 0.35:
        others.append('Copy')
    if has_lt and 'Default' in others:
        others.remove('Default')
    ops = []
    if want_ops:
        k = rng.choice([1, 1, 2, 3])
        for o in rng.sample(BINOPS, k):
            ops.append(o)
            if rng.random() < 0.5:
                ops.append(o + 'Assign')
        if rng.random() < 0.4:
            ops.append(rng.choice(['Neg', 'Not']))
    traits = list(cmp_set) + others + ops
    if want_deref:
        traits = [t for t in traits if t not in ops] + ['Deref'] + (['DerefMut'] if rng.random() < 0.6 else [])
    if not traits:
        traits = ['Clone']
    rng.shuffle(traits)
    copy = 'Copy' in traits
    dflt = 'Default' in traits
    has_ops = any(t in traits for t in ops)
    # ---- field types
    T, U, N, LT = n.T, n.U, n.N, n.lt
    OPT = '::core::option::Option' if absolute else 'Option'
    VEC = '::std::vec::Vec' if absolute else 'Vec'
    BOX = '::std::boxed::Box' if absolute else 'Box'
    STRING = '::std::string::String' if absolute else 'String'
    SIZED = '::core::marker::Sized' if absolute else 'Sized'
    ORD = '::core::cmp::Ord' if absolute else 'Ord'
    used_params = set()

    def field_types():
        c = ['i8', 'i8']
        if has_ops:
            # operator impls exist for i8 and for the parameters (through the generated where-clause)
            if has_T:
                c += [T, T]
            if has_U:
                c += [U]
            if has_lt:
                c += [f'helpers::LM<{LT}>', f'helpers::LM<{LT}>']
            return c
        c += ['(i8, bool)', f'{OPT}<i8>']
        if not copy:
            c += [STRING, f'{VEC}<i8>']
            # a type recursive through `Self` (no parameter is mentioned by name: no bound must be drawn from it)
            c += [f'::core::option::Option<::std::boxed::Box<Self>>', f'{VEC}<Self>']
        if has_T:
            c += [T, T, f'{OPT}<{T}>', f'({T}, i8)', f'::core::marker::PhantomData<{T}>', f'::core::option::Option<{T}>',
                  f'::core::marker::PhantomData<(Self, {T})>',   # mentions a parameter *and* `Self` (written out in the Eq check)
                  f'::core::option::Option<::core::option::Option<{T}>>']
            if not copy:
                c += [f'{VEC}<{T}>', f'{BOX}<{T}>', f'::std::vec::Vec<{T}>']
        if has_T:
            # composed types: the parameter wrapped once or twice in contexts that implement every derivable trait
            # whenever their argument does (the generated `FieldTy: Trait` bound is then exactly what the body needs)
            ctxs = [lambda x: f'{OPT}<{x}>', lambda x: f'({x}, i8)', lambda x: f'(i8, {x})', lambda x: f'({x},)', lambda x: f'[{x}; 2]',
                    lambda x: f'::core::option::Option<{x}>',
                    lambda x: f'helpers::Pass<{x}>', lambda x: f'<helpers::Pass<{x}> as helpers::IdT>::Out',
                    lambda x: f'<i8 as helpers::ConvT<{x}>>::Out']
            if not absolute:
                # (relative `core::` / `std::` paths only where the test does not shadow those names)
                ctxs += [lambda x: f'core::option::Option<{x}>']
            if not copy:
                ctxs += [lambda x: f'{VEC}<{x}>', lambda x: f'{BOX}<{x}>', lambda x: f'::std::vec::Vec<{x}>']
                if not absolute:
                    ctxs += [lambda x: f'std::boxed::Box<{x}>']
            for _ in range(3):
                t = T
                for _ in range(rng.choice([1, 2, 2])):
                    t = rng.choice(ctxs)(t)
                c.append(t)
        # (types with a higher-ranked lifetime offered several times: `gen_dup_field_case`; not here, where `bound(..)` lists are
        # generated per field and per variant — a predicate the *user* states twice is ambiguous in a hand-written impl too)
        if has_U:
            c += [U, f'({T}, {U})']
        if gkind == 'Tsrc':
            # shorthand and fully qualified projections: the field type mentions the parameter only through a path
            c += [f'{T}::Item', f'{T}::Item', f'{OPT}<{T}::Item>', f'<{T} as helpers::Src>::Item', f'({T}::Item, i8)',
                  f'<{T}>::Item', f'<{T}>::Item']   # a qualified path without a trait (F21)
        if has_N and not dflt:
            c += [f'[{T}; {N}]', f'[i8; {N}]']
        if has_N:
            # types that mention only the const parameter and implement the traits for some of its values only:
            # the generated impl needs the `FieldType: Trait` bound
            c += [f'helpers::WN<{N}>', f'helpers::WN<{N}>', f'[i8; {N}]']
        if has_lt and not dflt:
            c += [f"&{LT} {T}", f"&{LT} str"]
        return c
    ftypes = field_types()

    by_used = []

    def field_attrs(ty, pos, nf):
        """comparison / debug / default helper attributes that keep the item accepted and well-typed"""
        if not allow_attrs or plain or 'Self' in ty:
            return ''
        out = []
        generic = (has_T and (T in ty.replace('helpers::Tr', '') or (has_U and U in ty))) or (has_N and 'WN<' in ty)
        if cmp_set or 'Hash' in traits:
            r = rng.random()
            if r < 0.10:
                out.append('#[ord(ignore)]')
            elif r < 0.18 and ('PartialOrd' in traits):
                out.append('#[ord(reverse)]')
            elif r < 0.30:
                out.append(rng.choice(['#[ord(key = helpers::ksz(&$))]', '#[ord(key = helpers::ksz(&$))]', '#[ord(key = _eq(&$))]', '#[ord(key = _f(&$))]',
                                       '#[ord(key = <Self as helpers::HasK>::kself(&$))]']))
            elif r < 0.45:
                # `by` on first / middle / last fields, also on fields of generic type (with an explicit bound)
                b = ', bound(..)' if rng.random() < 0.3 else ''
                need = []
                if generic:
                    need = [f'{ty}: {ORD} + ::core::hash::Hash']
                    b = f', bound({need[0]})'
                rev = 'reverse, ' if ('PartialOrd' in traits and rng.random() < 0.3) else ''
                out.append(f'#[ord({rev}by = helpers::fo{b})]')
                if 'Hash' in traits:
                    # `hash(by)` ends the consultation of lower-priority attributes for Hash, so the bound
                    # its function needs has to sit on the `hash` attribute itself
                    hb = f', bound({ty}: ::core::hash::Hash)' if generic else ''
                    out.append(f'#[hash(by = helpers::fh{hb})]')
                by_used.append(pos)
        if 'Debug' in traits and rng.random() < 0.15:
            out.append('#[debug(ignore)]')
        if dflt and rng.random() < 0.2 and ty == 'i8':
            out.append(rng.choice(['#[default(3)]', '#[default(helpers::K)]', '#[default(-1)]', '#[default(_)]', '#[default]']))
        if dflt and rng.random() < 0.2 and ty == STRING:
            out.append('#[default("s")]')
        if dflt and has_T and ty == T and rng.random() < 0.3:
            # an explicit value whose expression needs a bound that only the field-level `bound(..)` supplies
            if rng.random() < 0.5:
                out.append(f'#[default(<{T} as helpers::Mk>::mk(), bound({T}: helpers::Mk))]')
            else:
                out.append(f'#[derive_ex(Default(bound({T}: helpers::Mk)))] #[default(<{T} as helpers::Mk>::mk())]')
        return ' '.join(out) + (' ' if out else '')

    last_types = []

    def fields(kind, nf, base):
        fs = []
        del last_types[:]
        for i in range(nf):
            ty = rng.choice(ftypes)
            last_types.append(ty)
            import re as _re
            for pn in (T, U, N, LT):
                if _re.search(r"(?<![A-Za-z0-9_#':])" + _re.escape(pn) + r'(?![A-Za-z0-9_])', ty):
                    used_params.add(pn)
            at = field_attrs(ty, i, nf)
            if kind == 'named':
                fs.append(f'{at}{n.fields[i]}: {ty}')
            else:
                fs.append(f'{at}{ty}')
        if kind == 'named':
            return ' { ' + ', '.join(fs) + ' }'
        if kind == 'tuple':
            return '(' + ', '.join(fs) + ')'
        return ''
    entry = rng.choice(['attr', 'attr', 'derive'])
    tlist = ', '.join(traits)
    if has_T and allow_attrs and not plain and rng.random() < 0.15:
        # a shared `bound(..)` list that keeps the default bounds (`..` anywhere in the list) and adds a predicate that always holds
        tlist += rng.choice([f', bound(.., {T}: {SIZED})', f', bound({T}: {SIZED}, ..)', f', bound({T}: {SIZED}, .., {T}: {SIZED})'])
    head = f'#[derive_ex({tlist})]' if entry == 'attr' else f'#[derive(Ex)]\n#[derive_ex({tlist})]'
    if is_enum:
        nv = rng.choice([0, 1, 1, 2, 2, 3])
        if dflt and nv == 0:
            nv = 1
        vs = []
        dv = rng.randrange(nv) if nv else 0
        for i in range(nv):
            kind = rng.choice(['unit', 'tuple', 'named'])
            nf = 0 if kind == 'unit' else rng.choice([0, 1, 2, 3])
            mark = '#[default] ' if (dflt and i == dv and (nv > 1 or rng.random() < 0.5)) else ''
            fstr = fields(kind, nf, i)
            # a variant-level `bound(..)` that *stops* the resolution for this variant (no `..`) and supplies what the
            # variant's own fields need: the other variants must keep their default bounds
            vb = ''
            cand = [t for t in ('Clone', 'Debug') if t in traits]
            if cand and has_T and allow_attrs and not plain and rng.random() < 0.2:
                tr = rng.choice(cand)
                pth = {'Clone': '::core::clone::Clone', 'Debug': '::core::fmt::Debug'}[tr]
                gen_tys = [t for t in last_types if any(uses(t, p) for p in (T, U, N)) and not uses(t, 'Self')]
                preds = ', '.join(f'{t}: {pth}' for t in gen_tys)
                vb = rng.choice([f'#[derive_ex({tr}(bound({preds})))] ', f'#[derive_ex({tr}, bound({preds}))] '])
            vs.append(f'{vb}{mark}{n.variants[i]}{fstr}')
        body = ' { ' + ', '.join(vs) + ' }'
        src = f'{head}\npub enum {n.ty}{generics}{where}{body}'
        shape = f'enum{nv}'
    else:
        if 'Deref' in traits:
            kind, nf = rng.choice([('tuple', 1), ('named', 1)])
        else:
            kind = rng.choice(['unit', 'tuple', 'tuple', 'named', 'named'])
            nf = 0 if kind == 'unit' else rng.choice([0, 1, 2, 3, 4])
        fs = fields(kind, nf, 0)
        if kind == 'named':
            src = f'{head}\npub struct {n.ty}{generics}{where}{fs}'
        elif kind == 'tuple':
            src = f'{head}\npub struct {n.ty}{generics}{fs}{where};'
        else:
            src = f'{head}\npub struct {n.ty}{generics}{where};'
        shape = f'{kind}{nf}'
    # unused parameters are an error (E0392): make every declared parameter used through a marker field
    need = ([T] if has_T else []) + ([U] if has_U else []) + ([N] if has_N else []) + ([LT] if has_lt else [])
    return dict(src=src, traits=traits, params_all_used=all(p in used_params for p in need),
                desc=dict(shape=shape, generics=gkind, entry=entry, by_positions=by_used, where=bool(where)))


def uses(src, name):
    import re
    return re.search(r'(?<![A-Za-z0-9_\'])' + re.escape(name) + r'(?![A-Za-z0-9_])', src.split('\n')[-1].split('{', 1)[-1] if '{' in src else src) is not None


def gen_c20_case(seed, idx):
    rng = random.Random(seed * 1000003 + idx)
    for _ in range(80):
        it = gen_item(rng)
        if it['params_all_used']:      # an unused parameter is E0392, not derive_ex's business
            return dict(it, id=f'c20/{seed}/{idx}', item=it['src'], src=PRELUDE + it['src'] + '\n')
    return dict(id=f'c20/{seed}/{idx}', item='', src=PRELUDE + '#[derive_ex(Clone)] pub struct X(i8);\n', traits=['Clone'],
                desc=dict(shape='fallback'))


STRICT_PRELUDE = PRELUDE.replace('#![allow(dead_code, unused_imports, non_camel_case_types, non_snake_case, non_upper_case_globals)]',
                                '#![allow(dead_code, unused_imports)]')


def gen_lint_case(seed, idx, plain=False):
    """conventionally named items (snake_case fields, some with a leading underscore or a digit; CamelCase types) under
    `#![deny(warnings)]` with only `dead_code` / `unused_imports` allowed: the style lints stay on, so a made-up name that
    rustc takes for the user's (F35: `__self__marker`, `__hash__alpha`) is an error, as it is in a crate that denies
    warnings — where the standard derives compile"""
    rng = random.Random(seed * 3000017 + idx)
    for _ in range(80):
        names = Names(ty=rng.choice(['Xyz', 'Point2', 'HttpReq']), T='T', U='U', N='N', lt="'a",
                      fields=rng.sample(['alpha', '_beta', 'gamma_1', 'delta', '_0x', 'r#type', '__', '_marker'], 4),
                      variants=rng.sample(['One', 'Two', 'Three', 'Four', 'V2', 'r#Self_'], 4))
        it = gen_item(rng, names=names, plain=plain)
        if it['params_all_used']:
            return dict(it, id=f'lint/{seed}/{idx}', item=it['src'], src=STRICT_PRELUDE + it['src'] + '\n')
    return dict(id=f'lint/{seed}/{idx}', item='', src=STRICT_PRELUDE + '#[derive_ex(Clone)] pub struct X(i8);\n', traits=['Clone'],
                desc=dict(shape='fallback'))


def gen_dup_field_case(seed, idx):
    """several fields of the very same type, adjacent or with other bounded fields between them, in one struct or spread
    over the variants of an enum; the repeated type has an elided (higher-ranked) lifetime, for which a predicate stated
    twice is ambiguous (F40)"""
    rng = random.Random(seed * 8000009 + idx)
    hr = rng.choice(['fn(&T) -> bool', 'fn(&T)', '::std::rc::Rc<dyn Fn(&T) -> bool>', 'fn(&T, i8) -> ::core::option::Option<&T>',
                     '::std::boxed::Box<fn(&T) -> i8>'])
    others = ['::std::vec::Vec<T>', '::core::option::Option<T>', 'T', '(T, i8)', 'i8', '::core::marker::PhantomData<T>']
    n = rng.randrange(3, 6)
    tys = [hr, hr] + [rng.choice(others + [hr]) for _ in range(n - 2)]
    rng.shuffle(tys)
    traits = ['Clone']
    if 'Rc<dyn' not in hr and rng.random() < 0.6:
        traits.append('Debug')
    if all(t in (hr, 'i8', 'T', '(T, i8)', '::core::option::Option<T>', '::core::marker::PhantomData<T>') for t in tys) and hr.startswith('fn') and rng.random() < 0.4:
        traits.append('Copy')
    rng.shuffle(traits)
    head = f'#[derive_ex({", ".join(traits)})]' if rng.random() < 0.6 else f'#[derive(Ex)] #[derive_ex({", ".join(traits)})]'
    if rng.random() < 0.6:
        kind = rng.choice(['named', 'tuple'])
        if kind == 'named':
            item = f'{head}\npub struct X<T> {{ ' + ', '.join(f'pub f{i}: {t}' for i, t in enumerate(tys)) + ' }'
        else:
            item = f'{head}\npub struct X<T>(' + ', '.join(f'pub {t}' for t in tys) + ');'
    else:
        cut = rng.randrange(1, len(tys))
        item = (f'{head}\npub enum X<T> {{ A(' + ', '.join(tys[:cut]) + '), B { ' + ', '.join(f'f{i}: {t}' for i, t in enumerate(tys[cut:])) + ' } }')
    return dict(id=f'dup/{seed}/{idx}', item=item, src=PRELUDE + item + '\n', traits=traits,
                desc=dict(shape='dup', repeated=hr, fields=len(tys)))


def gen_lint_plain_case(seed, idx):
    """the same without helper attributes (C12: a drop-in for the standard derives, also in a crate that denies warnings)"""
    return gen_lint_case(seed, idx, plain=True)


def gen_seq_case(seed, idx):
    """Two or three items expanded one after the other in the same compiler process (one crate), with names that play
    different roles from item to item: the first item is generic over `V` and writes `T` for a *concrete* type (an alias
    of `i8`), the second is generic over `T`; a third repeats the first shape.  An expander that remembers anything
    about a name or a type text from one expansion to the next answers the later items wrongly."""
    import re
    rng = random.Random(seed * 7000003 + idx)
    a = b = c = None
    for _ in range(80):
        a = gen_item(rng, names=Names(ty='XA', T='V', U='W'), gkinds=['T', 'T', 'TU', 'Tbound'])
        if a['params_all_used']:
            break
    for _ in range(80):
        b = gen_item(rng, names=Names(ty='XB'), gkinds=['T', 'T', 'TU', 'TN', 'Tbound', 'Tdef'])
        if b['params_all_used']:
            break
    for _ in range(80):
        c = gen_item(rng, names=Names(ty='XC', T='V', U='W'), gkinds=['T', 'TU'])
        if c['params_all_used']:
            break
    if not (a['params_all_used'] and b['params_all_used'] and c['params_all_used']):
        return dict(id=f'seq/{seed}/{idx}', item='', src=PRELUDE + '#[derive_ex(Clone)] pub struct X(i8);\n', traits=['Clone'], desc=dict(shape='fallback'))
    al = lambda it: re.sub(r'\bi8\b', 'T', it['src'])
    order = rng.choice(['ab', 'ab', 'abc', 'ba'])
    mods = {'a': 'pub mod ma { use super::*; pub type T = i8;\n' + al(a) + '\n}\n',
            'b': 'pub mod mb { use super::*;\n' + b['src'] + '\n}\n',
            'c': 'pub mod mc { use super::*; pub type T = i8;\n' + al(c) + '\n}\n'}
    body = ''.join(mods[k] for k in order)
    return dict(id=f'seq/{seed}/{idx}', item=body, src=PRELUDE + body, traits=sorted(set(a['traits'] + b['traits'])),
                desc=dict(order=order, shape='sequence'))


# ---------------------------------------------------------------- C13: hostile names and scopes
HOSTILE_TYPE_PARAMS = ['H', 'T', 'Eq', 'Fn', 'Self_', 'Rhs', 'Output', 'Target', 'Formatter', 'Hasher', 'Ordering', 'Option', 'r#type', 'usize', 'bool', '__T_']
HOSTILE_CONST_PARAMS = ['N', 'H', 'T', 'LEN', 'r#N']
# names the expansion uses for its own locals / parameters / closures
EXPANSION_LOCALS = ['f', 'state', 'this', 'other', 'rhs', 'source', 'lhs', 'o', 'to_index', 'l_0', 'r_0', '_0', '_self_0',
                    '_other_0', '_this_0', 'l_a', 'r_a', '_a', '_self_a', '_other_a', '_this_a', 'eq', 'cmp', 'partial_cmp', 'hash',
                    '_eq', '_f', 'clone', 'fmt', 'default']
HOSTILE_FIELDS = ['this', 'other', 'state', 'f', 'rhs', 'source', 'lhs', 'o', 'to_index', 'r#type', 'r#fn', 'r#match', 'eq', 'cmp',
                  'hash', 'clone', 'fmt', 'default', 'deref', 'l_0', '_0', 'self_', 'r#struct', 'r#ref', 'r#mut']
HOSTILE_VARIANTS = ['None', 'Some', 'Ok', 'Err', 'Option', 'Ordering', 'Equal', 'Less', 'Self_', 'Default', 'Clone', 'Eq', 'Fn',
                    'Formatter', 'Result', 'r#Box', 'T', 'H']
HOSTILE_TYPES = ['Option', 'Result', 'Eq', 'Fn', 'Clone', 'Default', 'Ordering', 'Hasher', 'Formatter', 'Debug', 'Hash', 'Ord',
                 'PartialEq', 'PartialOrd', 'Copy', 'Sized', 'Some', 'None', 'Vec_', 'Box_', 'r#type', 'T', 'H', 'X']
HOSTILE_LIFETIMES = ["'a", "'b", "'r#type" if False else "'x", "'this", "'state"]

SHADOW = '''
#[allow(unused_macros)]
mod shadow {
    pub struct Some; pub struct None; pub struct Ok; pub struct Err;
    pub trait Eq {} pub trait Fn {} pub trait Ord {} pub trait PartialEq {} pub trait PartialOrd {} pub trait Hash {}
    pub trait Clone {} pub trait Copy {} pub trait Default {} pub trait Debug {} pub trait Sized {} pub trait Into {} pub trait Hasher {}
    pub struct Ordering; pub struct Formatter; pub enum Result { A } pub enum Option_ { A }
    pub type bool = u8; pub type isize = i64;
    pub fn drop() {}
    pub mod core {} pub mod std {}
}
'''


# a trait in scope at the use site that offers, for every type, methods named like the ones the generated code calls:
# any call written in method syntax (`x.clone()`, `(e).into()`) would become ambiguous or be captured
HIJACK = '''
pub trait Hijack {
    fn clone(&self) -> ! { loop {} } fn clone_from(&mut self, _: &Self) -> ! { loop {} } fn into<Z>(self) -> ! where Self: Sized { loop {} }
    fn eq(&self, _: &Self) -> ! { loop {} } fn ne(&self, _: &Self) -> ! { loop {} } fn partial_cmp(&self, _: &Self) -> ! { loop {} }
    fn cmp(&self, _: &Self) -> ! { loop {} } fn hash<Z>(&self, _: &mut Z) -> ! { loop {} } fn fmt(&self, _: &mut ::core::fmt::Formatter) -> ! { loop {} }
    fn default() -> ! where Self: Sized { loop {} } fn deref(&self) -> ! { loop {} } fn deref_mut(&mut self) -> ! { loop {} }
    fn add<Z>(self, _: Z) -> ! where Self: Sized { loop {} } fn sub<Z>(self, _: Z) -> ! where Self: Sized { loop {} }
    fn mul<Z>(self, _: Z) -> ! where Self: Sized { loop {} } fn div<Z>(self, _: Z) -> ! where Self: Sized { loop {} }
    fn rem<Z>(self, _: Z) -> ! where Self: Sized { loop {} } fn neg(self) -> ! where Self: Sized { loop {} } fn not(self) -> ! where Self: Sized { loop {} }
    fn bitand<Z>(self, _: Z) -> ! where Self: Sized { loop {} } fn bitor<Z>(self, _: Z) -> ! where Self: Sized { loop {} }
    fn bitxor<Z>(self, _: Z) -> ! where Self: Sized { loop {} } fn shl<Z>(self, _: Z) -> ! where Self: Sized { loop {} }
    fn shr<Z>(self, _: Z) -> ! where Self: Sized { loop {} } fn add_assign<Z>(&mut self, _: Z) -> ! { loop {} }
    fn as_ref(&self) -> ! { loop {} } fn borrow(&self) -> ! { loop {} } fn to_owned(&self) -> ! { loop {} } fn reverse(self) -> ! where Self: Sized { loop {} }
    fn then_with<Z>(self, _: Z) -> ! where Self: Sized { loop {} } fn map<Z>(self, _: Z) -> ! where Self: Sized { loop {} }
    fn is_eq(&self) -> ! { loop {} } fn unwrap(self) -> ! where Self: Sized { loop {} }
    // by-value methods named like the `Debug` builders' `&mut self` ones: on a builder *value* (`f.debug_tuple("X").finish()`)
    // the by-value method of a trait in scope is found before the inherent method that needs an auto-ref (F31)
    fn finish(self) -> ! where Self: Sized { loop {} } fn field<Z>(self, _: Z) -> ! where Self: Sized { loop {} }
    fn debug_struct(self, _: &str) -> ! where Self: Sized { loop {} } fn debug_tuple(self, _: &str) -> ! where Self: Sized { loop {} }
    fn finish_non_exhaustive(self) -> ! where Self: Sized { loop {} } fn entry<Z>(self, _: Z) -> ! where Self: Sized { loop {} }
    fn write_str(self, _: &str) -> ! where Self: Sized { loop {} } fn as_str(self) -> ! where Self: Sized { loop {} }
    fn then(self, _: ::core::cmp::Ordering) -> ! where Self: Sized { loop {} } fn ok(self) -> ! where Self: Sized { loop {} }
}
impl<T: ?Sized> Hijack for T {}
'''


def gen_c13_case(seed, idx):
    """a well-typed item (C20 grammar) with user-chosen names drawn from a hostile dictionary, in one of four scopes"""
    rng = random.Random(seed * 7000003 + idx)
    scope = ['plain', 'shadow', 'no_std', 'hijack'][idx % 4]
    for _ in range(60):
        fields = rng.sample(HOSTILE_FIELDS, 4)
        variants = rng.sample(HOSTILE_VARIANTS, 4)
        tp = rng.sample(HOSTILE_TYPE_PARAMS, 2)
        ty = rng.choice(HOSTILE_TYPES)
        # a type parameter, the type and its variants live in one namespace: keep them distinct
        if ty in tp or ty in variants:
            continue
        r_cn = rng.random()
        use_local_const = r_cn < 0.25
        # the only generator-chosen names without the `__` prefix are `_eq`, `_f` (and `T`), defined and used inside one
        # generated block (Props/C13Hyg.lean: blockLocalNames): a const parameter of that name must not capture them
        cn = rng.choice(EXPANSION_LOCALS) if use_local_const else (rng.choice(['_eq', '_f']) if r_cn < 0.45 else rng.choice(HOSTILE_CONST_PARAMS))
        if cn in tp or cn == ty:
            continue
        names = Names(ty=ty, T=tp[0], U=tp[1], N=cn, lt=rng.choice(HOSTILE_LIFETIMES), fields=fields, variants=variants)
        it = gen_item(rng, names=names, absolute=True, gkinds=['none', 'T', 'TU', 'ltT', 'ltT', 'TN', 'TN', 'TN', 'Tdef', 'Tbound', 'Tself', 'Tsrc'])
        src = it['src']
        if not it['params_all_used']:
            continue
        if 'usize' in tp and 'const ' in src:
            continue     # (the generator itself writes `const N: usize`)
        if cn in ('_eq', '_f') and (cn + '(&$)') in src:
            continue     # (the item's own const parameter would hide the key function of that name)
        pre = PRELUDE
        if scope == 'no_std':
            if '::std::' in src:
                continue
            pre = '#![no_std]\n' + PRELUDE
        if scope == 'hijack':
            # `by` / `key` helper functions of the prelude are written in method syntax themselves: keep them out of the scope
            body = f'mod case {{\n#[allow(unused_imports)] use super::Hijack;\nuse super::helpers;\n#[allow(unused_imports)] use super::helpers::{{_eq, _f}};\nuse derive_ex::{{derive_ex, Ex}};\n{src}\n}}\n'
            full = pre + HIJACK + body
        elif scope == 'shadow':
            body = f'mod case {{\n#[allow(unused_imports)] use super::shadow::*;\nuse super::helpers;\n#[allow(unused_imports)] use super::helpers::{{_eq, _f}};\nuse derive_ex::{{derive_ex, Ex}};\n{src}\n}}\n'
            full = pre + SHADOW + body
        else:
            full = pre + src + '\n'
        return dict(it, id=f'c13/{seed}/{idx}', item=src, src=full, scope=scope,
                    names=dict(ty=ty, T=names.T, U=names.U, N=names.N, lt=names.lt, fields=fields, variants=variants))
    return dict(id=f'c13/{seed}/{idx}', item='', src=PRELUDE + '#[derive_ex(Clone)] pub struct X(i8);\n', traits=['Clone'],
                desc=dict(shape='fallback'), scope=scope, names={})


# ---------------------------------------------------------------- C12: twins against the standard derives
C12_PRELUDE = '''#![allow(dead_code, unused_imports, unused_variables, unused_mut, non_camel_case_types, non_snake_case, unreachable_code, unreachable_patterns)]
use derive_ex::{derive_ex, Ex};
use std::fmt::Debug;
use std::hash::{Hash, Hasher};
use std::collections::hash_map::DefaultHasher;
static Z0: i8 = 0; static Z1: i8 = 1;
pub fn fmts<T: Debug + ?Sized>(v: &T) -> Vec<String> {
    vec![format!("{:?}", v), format!("{:#?}", v), format!("{:5?}", v), format!("{:<8?}|", v), format!("{:+?}", v),
         format!("{:.2?}", v), format!("{:x?}", v), format!("{:#x?}", v), format!("{:08?}", v), format!("{:^+9.1?}", v)]
}
pub fn h<T: Hash + ?Sized>(v: &T) -> u64 { let mut s = DefaultHasher::new(); v.hash(&mut s); s.finish() }
pub trait Src { type Item; }
#[derive(Clone, Debug, Default, PartialEq, Eq, PartialOrd, Ord, Hash)] pub struct Sv;
impl Src for Sv { type Item = i8; }
'''

C12_TRAITS = ['Clone', 'Debug', 'Default', 'PartialEq', 'Eq', 'PartialOrd', 'Ord', 'Hash']


def _c12_case(rng, idx):
    mod = f'c{idx}'
    tyname = rng.choice(['X', 'X', 'X', 'r#type', 'r#struct'])
    shape = rng.choice(['struct', 'struct', 'enum', 'enum', 'unsized', 'lifetime', 'constgen', 'empty_enum', 'default_param', 'assoc'])
    fields_pool = [('i8', ['0', '1', '-1']), ('bool', ['false', 'true']), ('(i8, bool)', ['(0, true)', '(1, false)']),
                   ('Option<i8>', ['None', 'Some(0)']), ('String', ['String::new()', 'String::from("a")'])]
    gen_decl, gen_use = '', ''
    where = ''
    traits = [t for t in C12_TRAITS if rng.random() < 0.75]
    foreign = rng.choice(['', '', '#[repr(C)] ', '#[non_exhaustive] ', '#[doc = "x"] '])
    if shape in ('struct', 'enum') and rng.random() < 0.4:
        gen_decl, gen_use = '<T>', '<i8>'
        fields_pool = fields_pool + [('T', ['0', '1']), ('Option<T>', ['None', 'Some(1)']), ('(T, bool)', ['(0, true)', '(1, false)'])]
        if rng.random() < 0.3:
            where = ' where T: Copy'
    if shape == 'default_param':
        gen_decl, gen_use = '<T = i8>', ''
        fields_pool = fields_pool + [('T', ['0', '1'])]
        shape = 'struct'
    if shape == 'lifetime':
        gen_decl, gen_use = "<'a, T>", "<'static, i8>"
        fields_pool = [("&'a T", ['&Z0', '&Z1']), ('i8', ['0', '1']), ("&'a str", ['"a"', '"b"'])]
        traits = [t for t in traits if t != 'Default']
        shape = rng.choice(['struct', 'enum'])
    if shape == 'assoc':
        # field types that mention the parameter only through an associated-type path (the standard derive bounds them too)
        gen_decl, gen_use = '<T: Src>', '<Sv>'
        # (the standard derive does not bound the fully qualified spelling `<T as Src>::Item`: not a shape it accepts)
        fields_pool = [('T::Item', ['0', '1']), ('Option<T::Item>', ['None', 'Some(1)']),
                       ('(T::Item, bool)', ['(0, true)', '(1, false)']), ('i8', ['0', '1'])]
        shape = rng.choice(['struct', 'enum'])
    if shape == 'constgen':
        gen_decl, gen_use = '<T, const N: usize>', '<i8, 2>'
        fields_pool = [('[T; N]', ['[0, 1]', '[1, 0]']), ('i8', ['0', '1']), ('T', ['0', '1'])]
        traits = [t for t in traits if t != 'Default']
        shape = 'struct'
    if 'Eq' in traits and 'PartialEq' not in traits:
        traits.append('PartialEq')
    if 'PartialOrd' in traits and 'PartialEq' not in traits:
        traits.append('PartialEq')
    if 'Ord' in traits:
        for t in ('PartialOrd', 'Eq', 'PartialEq'):
            if t not in traits:
                traits.append(t)
    if not traits:
        traits = ['Debug']
    raw_names = rng.random() < 0.2
    fnames = ['r#type', 'r#fn', 'c', 'd'] if raw_names else ['a', 'b', 'c', 'd']
    vnames = ['r#Self_', 'r#Box', 'C', 'D'] if raw_names and rng.random() < 0.5 else ['A', 'B', 'C', 'D']
    values = []   # constructor expressions with the placeholder `@` for the module path

    def mk_fields(kind, nf, pub=''):
        fs = [rng.choice(fields_pool) for _ in range(nf)]
        if kind == 'named':
            decl = ' { ' + ', '.join(f'{pub}{fnames[i]}: {t}' for i, (t, _) in enumerate(fs)) + ' }'
        elif kind == 'tuple':
            decl = '(' + ', '.join(pub + t for t, _ in fs) + ')'
        else:
            decl = ''
        # value tuples: all combinations, capped
        combos = [[]]
        for _, dom in fs:
            combos = [c + [v] for c in combos for v in dom]
        rng.shuffle(combos)
        combos = combos[:6]

        def ctor(c):
            if kind == 'named':
                return ' { ' + ', '.join(f'{fnames[i]}: {v}' for i, v in enumerate(c)) + ' }'
            if kind == 'tuple':
                return '(' + ', '.join(c) + ')'
            return ''
        return decl, [ctor(c) for c in combos]
    if shape == 'empty_enum':
        traits = [t for t in traits if t != 'Default']
        if 'repr' in foreign:
            foreign = ''
        item = f'pub enum {tyname} {{}}'
        values = []
    elif shape == 'unsized':
        traits = [t for t in traits if t not in ('Clone', 'Default')]
        gen_decl, gen_use = '<T: ?Sized>', '<[i8]>'
        kind = rng.choice(['tuple', 'named'])
        # the last field as written: the parameter plainly, as a raw identifier, in parentheses; declared `?Sized` inline or
        # in the where-clause (F37)
        last = rng.choice(['T', 'T', 'r#T', '(T)'])
        if rng.random() < 0.3:
            gd, gw = '<T>', ' where T: ?Sized' if rng.random() < 0.5 else ' where r#T: ?Sized'
        else:
            gd, gw = '<T: ?Sized>', ''
        if kind == 'tuple':
            item = f'pub struct {tyname}{gd}(pub i8, pub {last}){gw};'
            values = ['&@(0, [0i8, 1]) as &@<[i8]>'.replace('@', '@'), '&@(1, [1i8, 1]) as &@<[i8]>', '&@(0, [2i8, 0]) as &@<[i8]>']
        else:
            item = f'pub struct {tyname}{gd}{gw} {{ pub {fnames[0]}: i8, pub {fnames[1]}: {last} }}'
            values = ['&@ { %s: 0, %s: [0i8, 1] } as &@<[i8]>' % (fnames[0], fnames[1]),
                      '&@ { %s: 1, %s: [1i8, 1] } as &@<[i8]>' % (fnames[0], fnames[1])]
    elif shape == 'struct':
        kind = rng.choice(['unit', 'tuple', 'tuple', 'named', 'named'])
        nf = 0 if kind == 'unit' else rng.choice([0, 1, 2, 3, 4])
        decl, ctors = mk_fields(kind, nf, 'pub ')
        if kind == 'named':
            item = f'pub struct {tyname}{gen_decl}{where}{decl}'
        elif kind == 'tuple':
            item = f'pub struct {tyname}{gen_decl}{decl}{where};'
        else:
            item = f'pub struct {tyname}{gen_decl}{where};'
        values = [f'@{c}' for c in ctors]
    else:
        nv = rng.choice([1, 2, 3, 4])
        vs = []
        dv = None
        kinds = [rng.choice(['unit', 'tuple', 'named']) for _ in range(nv)]
        if 'Default' in traits:
            if 'unit' not in kinds:
                kinds[rng.randrange(nv)] = 'unit'
            dv = kinds.index('unit')
        for i in range(nv):
            nf = 0 if kinds[i] == 'unit' else rng.choice([0, 1, 2, 3])
            decl, ctors = mk_fields(kinds[i], nf)
            mark = '#[default] ' if dv == i else ''
            vs.append(f'{mark}{vnames[i]}{decl}')
            values += [f'@::{vnames[i]}{c}' for c in ctors]
        item = f'pub enum {tyname}{gen_decl}{where} {{ ' + ', '.join(vs) + ' }'
    # generic parameters must be used
    import re
    body = item.split(tyname, 1)[1]
    if gen_decl and shape != 'unsized':
        inner = body[len(gen_decl):]
        for pname in re.findall(r"(?:const )?('?[A-Za-z_]+)(?=[,>: =])", gen_decl):
            pass
        for pname in (['T'] if 'T' in gen_decl else []) + (['N'] if 'N' in gen_decl else []) + (["'a"] if "'a" in gen_decl else []):
            if not re.search(r"(?<![A-Za-z0-9_'])" + re.escape(pname) + r'(?![A-Za-z0-9_])', re.sub(r'where[^{(;]*', '', inner)):
                return None
    tl = ', '.join(traits)
    entry = rng.choice(['attr', 'derive'])
    dhead = f'#[derive_ex({tl})]' if entry == 'attr' else f'#[derive(Ex)] #[derive_ex({tl})]'
    src = f'pub mod {mod} {{ use super::*;\n pub mod d {{ use super::*; {foreign}{dhead} {item} }}\n pub mod s {{ use super::*; {foreign}#[derive({tl})] {item} }}\n'
    is_unsized = shape == 'unsized'
    vt_d = f'd::{tyname}{gen_use}'
    vt_s = f's::{tyname}{gen_use}'
    if is_unsized:
        dv_list = ', '.join(v.replace('@<', f'd::{tyname}<').replace('@', f'd::{tyname}') for v in values)
        sv_list = ', '.join(v.replace('@<', f's::{tyname}<').replace('@', f's::{tyname}') for v in values)
        vec_d = f'let dv: Vec<&{vt_d}> = vec![{dv_list}];'
        vec_s = f'let sv: Vec<&{vt_s}> = vec![{sv_list}];'
        deref = '*'
    else:
        dv_list = ', '.join(v.replace('@', f'd::{tyname}') for v in values)
        sv_list = ', '.join(v.replace('@', f's::{tyname}') for v in values)
        vec_d = f'let dv: Vec<{vt_d}> = vec![{dv_list}];'
        vec_s = f'let sv: Vec<{vt_s}> = vec![{sv_list}];'
        deref = ''
    chk = []
    if 'Debug' in traits:
        chk.append(f'for i in 0..dv.len() {{ n += 1; if fmts(&dv[i]) != fmts(&sv[i]) {{ println!("{mod} FAIL debug {{}} {{:?}} vs {{:?}}", i, fmts(&dv[i]), fmts(&sv[i])); }} }}')
    if 'PartialEq' in traits:
        chk.append(f'for i in 0..dv.len() {{ for j in 0..dv.len() {{ n += 1; if (dv[i] == dv[j]) != (sv[i] == sv[j]) {{ println!("{mod} FAIL eq {{}} {{}}", i, j); }} }} }}')
    if 'PartialOrd' in traits:
        chk.append(f'for i in 0..dv.len() {{ for j in 0..dv.len() {{ n += 1; if dv[i].partial_cmp(&dv[j]) != sv[i].partial_cmp(&sv[j]) {{ println!("{mod} FAIL partial_cmp {{}} {{}}", i, j); }} }} }}')
    if 'Ord' in traits:
        chk.append(f'for i in 0..dv.len() {{ for j in 0..dv.len() {{ n += 1; if dv[i].cmp(&dv[j]) != sv[i].cmp(&sv[j]) {{ println!("{mod} FAIL cmp {{}} {{}}", i, j); }} }} }}')
    if 'Hash' in traits and 'PartialEq' in traits:
        chk.append(f'for i in 0..dv.len() {{ for j in 0..dv.len() {{ n += 1; if dv[i] == dv[j] && h(&dv[i]) != h(&dv[j]) {{ println!("{mod} FAIL hash {{}} {{}}", i, j); }} }} }}')
    if 'Clone' in traits and 'Debug' in traits and not is_unsized:
        chk.append(f'for i in 0..dv.len() {{ n += 1; if fmts(&dv[i].clone()) != fmts(&sv[i].clone()) {{ println!("{mod} FAIL clone {{}}", i); }} }}')
        chk.append(f'for i in 0..dv.len() {{ for j in 0..dv.len() {{ n += 1; let mut x = dv[i].clone(); x.clone_from(&dv[j]); let mut y = sv[i].clone(); y.clone_from(&sv[j]); if fmts(&x) != fmts(&y) {{ println!("{mod} FAIL clone_from {{}} {{}}", i, j); }} }} }}')
    if 'Default' in traits and 'Debug' in traits and not is_unsized:
        chk.append(f'n += 1; if fmts(&<{vt_d}>::default()) != fmts(&<{vt_s}>::default()) {{ println!("{mod} FAIL default"); }}')
    src += f' pub fn run() {{ let mut n = 0u32; {vec_d} {vec_s} {" ".join(chk)} println!("{mod} ok {{}}", n); }}\n}}\n'
    return dict(mod=mod, src=src, traits=traits, shape=shape, item=f'{dhead} {item}', raw=raw_names or tyname.startswith('r#'))


def gen_c12_program(seed, start, count):
    rng = random.Random(seed * 9000011 + start)
    cases = []
    i = start
    while len(cases) < count:
        c = _c12_case(rng, i)
        if c:
            cases.append(c)
            i += 1
    src = C12_PRELUDE + ''.join(c['src'] for c in cases) + 'fn main() { ' + ' '.join(f"{c['mod']}::run();" for c in cases) + ' }\n'
    return src, cases


# ---------------------------------------------------------------- C08: operators from a struct
OPS = [('Add', 'add', '+'), ('BitAnd', 'bitand', '&'), ('BitOr', 'bitor', '|'), ('BitXor', 'bitxor', '^'), ('Div', 'div', '/'),
       ('Mul', 'mul', '*'), ('Rem', 'rem', '%'), ('Shl', 'shl', '<<'), ('Shr', 'shr', '>>'), ('Sub', 'sub', '-')]


def c08_prelude():
    """`M`: a free-monoid value that records, for every operator call, the operator, the operand order and the
    reference form of each operand, plus a global call log."""
    s = '''#![allow(dead_code, unused_imports, unused_variables, unused_mut, non_snake_case)]
use derive_ex::{derive_ex, Ex};
use std::cell::RefCell;
thread_local! { static LOG: RefCell<Vec<String>> = RefCell::new(Vec::new()); }
pub fn log(s: String) { LOG.with(|l| l.borrow_mut().push(s)); }
pub fn take() -> Vec<String> { LOG.with(|l| std::mem::take(&mut *l.borrow_mut())) }
#[derive(Debug, Clone, PartialEq)]
pub struct M(pub String);
'''
    for tr, f, sym in OPS:
        s += f'''impl std::ops::{tr}<M> for M {{ type Output = M; fn {f}(self, r: M) -> M {{ log(format!("{f} oo {{}} {{}}", self.0, r.0)); M(format!("({{}}{sym}{{}})oo", self.0, r.0)) }} }}
impl<'a> std::ops::{tr}<&'a M> for M {{ type Output = M; fn {f}(self, r: &M) -> M {{ log(format!("{f} or {{}} {{}}", self.0, r.0)); M(format!("({{}}{sym}{{}})or", self.0, r.0)) }} }}
impl<'a> std::ops::{tr}<M> for &'a M {{ type Output = M; fn {f}(self, r: M) -> M {{ log(format!("{f} ro {{}} {{}}", self.0, r.0)); M(format!("({{}}{sym}{{}})ro", self.0, r.0)) }} }}
impl<'a, 'b> std::ops::{tr}<&'b M> for &'a M {{ type Output = M; fn {f}(self, r: &M) -> M {{ log(format!("{f} rr {{}} {{}}", self.0, r.0)); M(format!("({{}}{sym}{{}})rr", self.0, r.0)) }} }}
impl std::ops::{tr}Assign<M> for M {{ fn {f}_assign(&mut self, r: M) {{ log(format!("{f}_assign o {{}} {{}}", self.0, r.0)); self.0 = format!("({{}}{sym}={{}})o", self.0, r.0) }} }}
impl<'a> std::ops::{tr}Assign<&'a M> for M {{ fn {f}_assign(&mut self, r: &M) {{ log(format!("{f}_assign r {{}} {{}}", self.0, r.0)); self.0 = format!("({{}}{sym}={{}})r", self.0, r.0) }} }}
'''
    s += '''impl std::ops::Neg for M { type Output = M; fn neg(self) -> M { log(format!("neg o {}", self.0)); M(format!("-o{}", self.0)) } }
impl<'a> std::ops::Neg for &'a M { type Output = M; fn neg(self) -> M { log(format!("neg r {}", self.0)); M(format!("-r{}", self.0)) } }
impl std::ops::Not for M { type Output = M; fn not(self) -> M { log(format!("not o {}", self.0)); M(format!("!o{}", self.0)) } }
impl<'a> std::ops::Not for &'a M { type Output = M; fn not(self) -> M { log(format!("not r {}", self.0)); M(format!("!r{}", self.0)) } }
'''
    return s


def gen_c08_program(seed, start, count):
    rng = random.Random(seed * 5000011 + start)
    src = c08_prelude()
    cases = []
    for idx in range(start, start + count):
        mod = f'c{idx}'
        kind = rng.choice(['unit', 'tuple', 'tuple', 'named', 'named'])
        nf = 0 if kind == 'unit' else rng.choice([0, 1, 2, 3, 4])
        generic = rng.random() < 0.35
        fnames = ['a', 'b', 'c', 'd'][:nf]
        ftys = [rng.choice(['T', 'M']) if generic else 'M' for _ in range(nf)]
        if generic and 'T' not in ftys:
            generic = False
        g = '<T>' if generic else ''
        gi = '<M>' if generic else ''
        if kind == 'named':
            decl = f'pub struct X{g} {{ ' + ', '.join(f'pub {n}: {t}' for n, t in zip(fnames, ftys)) + ' }'
        elif kind == 'tuple':
            decl = f'pub struct X{g}(' + ', '.join('pub ' + t for t in ftys) + ');'
        else:
            decl = f'pub struct X{g};'
        k = rng.choice([1, 2, 3])
        ops = rng.sample(OPS, k)
        traits = []
        for tr, f, sym in ops:
            traits.append(tr)
            if rng.random() < 0.6:
                traits.append(tr + 'Assign')
        un = []
        if rng.random() < 0.5:
            un = rng.sample([('Neg', 'neg'), ('Not', 'not')], rng.choice([1, 2]))
            traits += [u for u, _ in un]
        entry = rng.choice(['attr', 'derive'])
        tl = ', '.join(traits)
        head = f'#[derive_ex({tl})]' if entry == 'attr' else f'#[derive(Ex)] #[derive_ex({tl})]'

        def mk(tag):
            vals = [f'M(String::from("{tag}{i}"))' for i in range(nf)]
            if kind == 'named':
                return 'X { ' + ', '.join(f'{n}: {v}' for n, v in zip(fnames, vals)) + ' }'
            if kind == 'tuple':
                return 'X(' + ', '.join(vals) + ')'
            return 'X'

        def fld(v, i):
            return f'{v}.{fnames[i]}' if kind == 'named' else f'{v}.{i}'
        body = f'pub mod {mod} {{ use super::*;\n #[derive(Debug, Clone, PartialEq)] {head} {decl}\n pub fn run() {{ let mut n = 0u32;\n'
        for tr, f, sym in ops:
            for l, r, form in ((False, False, 'oo'), (False, True, 'or'), (True, False, 'ro'), (True, True, 'rr')):
                le = '&x' if l else 'x.clone()'
                re = '&y' if r else 'y.clone()'
                exp_fields = [f'M(format!("({{}}{sym}{{}}){form}", {fld("x", i)}.0, {fld("y", i)}.0))' for i in range(nf)]
                exp_log = [f'format!("{f} {form} {{}} {{}}", {fld("x", i)}.0, {fld("y", i)}.0)' for i in range(nf)]
                if kind == 'named':
                    exp = 'X { ' + ', '.join(f'{n}: {e}' for n, e in zip(fnames, exp_fields)) + ' }'
                elif kind == 'tuple':
                    exp = 'X(' + ', '.join(exp_fields) + ')'
                else:
                    exp = 'X'
                body += f'  {{ let x: X{gi} = {mk("l")}; let y: X{gi} = {mk("r")}; let x0 = x.clone(); let y0 = y.clone(); take(); let z = {le} {sym} {re}; let lg = take(); n += 1;\n'
                body += f'    let want: X{gi} = {exp}; let wl: Vec<String> = vec![{", ".join(exp_log)}];\n'
                body += f'    if z != want {{ println!("{mod} FAIL {tr} {form} value {{:?}} want {{:?}}", z, want); }} if lg != wl {{ println!("{mod} FAIL {tr} {form} calls {{:?}} want {{:?}}", lg, wl); }}\n'
                if l:
                    body += f'    if x != x0 {{ println!("{mod} FAIL {tr} {form} borrowed lhs changed"); }}\n'
                if r:
                    body += f'    if y != y0 {{ println!("{mod} FAIL {tr} {form} borrowed rhs changed"); }}\n'
                body += '  }\n'
            if tr + 'Assign' in traits:
                for r, form in ((False, 'o'), (True, 'r')):
                    re = '&y' if r else 'y.clone()'
                    exp_fields = [f'M(format!("({{}}{sym}={{}}){form}", {fld("x0", i)}.0, {fld("y", i)}.0))' for i in range(nf)]
                    exp_log = [f'format!("{f}_assign {form} {{}} {{}}", {fld("x0", i)}.0, {fld("y", i)}.0)' for i in range(nf)]
                    if kind == 'named':
                        exp = 'X { ' + ', '.join(f'{n}: {e}' for n, e in zip(fnames, exp_fields)) + ' }'
                    elif kind == 'tuple':
                        exp = 'X(' + ', '.join(exp_fields) + ')'
                    else:
                        exp = 'X'
                    body += f'  {{ let mut x: X{gi} = {mk("l")}; let y: X{gi} = {mk("r")}; let x0 = x.clone(); let y0 = y.clone(); take(); x {sym}= {re}; let lg = take(); n += 1;\n'
                    body += f'    let want: X{gi} = {exp}; let wl: Vec<String> = vec![{", ".join(exp_log)}];\n'
                    body += f'    if x != want {{ println!("{mod} FAIL {tr}Assign {form} value {{:?}} want {{:?}}", x, want); }} if lg != wl {{ println!("{mod} FAIL {tr}Assign {form} calls {{:?}} want {{:?}}", lg, wl); }}\n'
                    if r:
                        body += f'    if y != y0 {{ println!("{mod} FAIL {tr}Assign {form} borrowed rhs changed"); }}\n'
                    body += '  }\n'
        for u, uf in un:
            usym = '-' if u == 'Neg' else '!'
            for l, form in ((False, 'o'), (True, 'r')):
                le = '&x' if l else 'x.clone()'
                exp_fields = [f'M(format!("{usym}{form}{{}}", {fld("x", i)}.0))' for i in range(nf)]
                exp_log = [f'format!("{uf} {form} {{}}", {fld("x", i)}.0)' for i in range(nf)]
                if kind == 'named':
                    exp = 'X { ' + ', '.join(f'{n}: {e}' for n, e in zip(fnames, exp_fields)) + ' }'
                elif kind == 'tuple':
                    exp = 'X(' + ', '.join(exp_fields) + ')'
                else:
                    exp = 'X'
                body += f'  {{ let x: X{gi} = {mk("l")}; let x0 = x.clone(); take(); let z = {usym}{le}; let lg = take(); n += 1;\n'
                body += f'    let want: X{gi} = {exp}; let wl: Vec<String> = vec![{", ".join(exp_log)}];\n'
                body += f'    if z != want {{ println!("{mod} FAIL {u} {form} value {{:?}} want {{:?}}", z, want); }} if lg != wl {{ println!("{mod} FAIL {u} {form} calls {{:?}} want {{:?}}", lg, wl); }}\n'
                body += '  }\n'
        body += f'  println!("{mod} ok {{}}", n); }}\n}}\n'
        src += body
        cases.append(dict(mod=mod, item=f'{head} {decl}', traits=traits, shape=f'{kind}{nf}', raw=False))
    src += 'fn main() { ' + ' '.join(f"{c['mod']}::run();" for c in cases) + ' }\n'
    return src, cases


# ---------------------------------------------------------------- C09: operators forwarded to a user impl
C09_PRELUDE = '''#![allow(dead_code, unused_imports, unused_variables, unused_mut, non_snake_case)]
use derive_ex::{derive_ex, Ex};
use std::cell::RefCell;
thread_local! { static LOG: RefCell<Vec<String>> = RefCell::new(Vec::new()); }
pub fn log(s: String) { LOG.with(|l| l.borrow_mut().push(s)); }
pub fn take() -> Vec<String> { LOG.with(|l| std::mem::take(&mut *l.borrow_mut())) }
#[derive(Debug, PartialEq)] pub struct Wrap<T>(pub T);
pub trait Marker {}
pub trait Conv<X> {}
'''


def gen_c09_program(seed, start, count):
    """user impls of a non-commutative operator in each base form; every generated form is compared with the
    documented forwarding: same operands, same order, one call, clones exactly where a reference must become a value"""
    rng = random.Random(seed * 3000017 + start)
    src = C09_PRELUDE
    cases = []
    for idx in range(start, start + count):
        mod = f'c{idx}'
        tr, f, sym = rng.choice(OPS)
        base_assign = rng.random() < 0.2
        generic = rng.random() < 0.3
        rhs_self = rng.random() < 0.5
        bl = rng.random() < 0.5      # base takes &A
        br = rng.random() < 0.5      # base takes &Rhs
        g = '<T: Clone + std::fmt::Debug>' if generic else ''
        gu = '<T>' if generic else ''
        gi = '<u8>' if generic else ''
        A = f'A{gu}'
        B = A if rhs_self else 'B'
        adef = f'#[derive(Debug, PartialEq)] pub struct A{gu}(pub String{", pub std::marker::PhantomData<T>" if generic else ""});\n'
        ctorA = (lambda s: f'A(String::from("{s}"), std::marker::PhantomData)') if generic else (lambda s: f'A(String::from("{s}"))')
        aclone = f'impl{g} Clone for {A} {{ fn clone(&self) -> Self {{ log(format!("cloneA {{}}", self.0)); A(format!("c{{}}", self.0){", std::marker::PhantomData" if generic else ""}) }} }}\n'
        bdef = '' if rhs_self else '#[derive(Debug, PartialEq)] pub struct B(pub String);\nimpl Clone for B { fn clone(&self) -> Self { log(format!("cloneB {}", self.0)); B(format!("c{}", self.0)) } }\n'
        ctorB = ctorA if rhs_self else (lambda s: f'B(String::from("{s}"))')
        Ai, Bi = f'A{gi}', (f'A{gi}' if rhs_self else 'B')
        if base_assign:
            req = ['Op']
            lty = A
            rty = ('&' if br else '') + B
            base = f'#[derive_ex({tr})]\nimpl{g} std::ops::{tr}Assign<{rty}> for {lty} {{ fn {f}_assign(&mut self, rhs: {rty}) {{ log(format!("base_assign {{}} {{}}", self.0, rhs.0)); self.0 = format!("[{{}}{sym}={{}}]", self.0, rhs.0); }} }}\n'
        else:
            req = rng.choice([['Op'], ['Op'], ['OpAssign'], ['Op', 'OpAssign'], ['Op', 'OpAssign'], ['OpAssign', 'Op']])
            names = [tr if r == 'Op' else tr + 'Assign' for r in req]
            lty = ('&' if bl else '') + A
            rty = ('&' if br else '') + B
            rarg = '' if (rhs_self and not br and not bl and rng.random() < 0.5) else f'<{rty}>'
            ctor_out = 'A(format!("[{}%s{}]", self.0, rhs.0)%s)' % (sym, ', std::marker::PhantomData' if generic else '')
            # the user's impl may be written with `Self`: nested in the Output type, as the right-hand side, in the where-clause
            # (in the generated reference forms `Self` is another type, so every occurrence has to be expanded)
            use_self = (not bl) and req == ['Op'] and rng.random() < 0.5
            if use_self:
                wrap_out = rng.random() < 0.6
                outty = rng.choice(['Wrap<Self>', 'Wrap<Self>', 'Self']) if wrap_out else 'Self'
                rty_s = rty.replace(A, 'Self') if rhs_self and rng.random() < 0.6 else rty
                rarg_s = f'<{rty_s}>' if rarg or rty_s != rty else rarg
                wh = rng.choice(['', ' where Wrap<Self>: Marker', ' where Self: Sized, Wrap<Self>: Marker', ' where Vec<Self>: Sized'])
                marker = f'impl{g} Marker for Wrap<{A}> {{}}\n'
                ret = f'Wrap({ctor_out})' if outty.startswith('Wrap') else ctor_out
                acc = '.0.0' if outty.startswith('Wrap') else '.0'
                gb = g
                if generic and rng.random() < 0.6:
                    # `Self` in an inline bound of the impl's own parameter list (holds for `Self = A<u8>` only)
                    gb = '<T: Clone + std::fmt::Debug + Conv<Self>>'
                    marker += 'impl Conv<A<u8>> for u8 {}\n'
                base = (marker + f'#[derive_ex({", ".join(names)})]\nimpl{gb} std::ops::{tr}{rarg_s} for {lty}{wh} {{ type Output = {outty}; '
                        f'fn {f}(self, rhs: {rty_s}) -> {outty} {{ log(format!("base {{}} {{}}", self.0, rhs.0)); {ret} }} }}\n')
            else:
                acc = '.0'
                base = f'#[derive_ex({", ".join(names)})]\nimpl{g} std::ops::{tr}{rarg} for {lty} {{ type Output = {A}; fn {f}(self, rhs: {rty}) -> {A} {{ log(format!("base {{}} {{}}", self.0, rhs.0)); {ctor_out} }} }}\n'
        body = f'pub mod {mod} {{ use super::*;\n{adef}{aclone}{bdef}{base} pub fn run() {{ let mut n = 0u32;\n'

        def check(expr_setup, expr, want_val, want_log, what, post=''):
            ac = acc if not base_assign else '.0'
            return (f'  {{ {expr_setup} take(); let z = {expr}; let lg = take(); n += 1; let want = String::from("{want_val}"); let wl: Vec<String> = vec![{", ".join(chr(34) + w + chr(34) + ".to_string()" for w in want_log)}];\n'
                    f'    if z{ac} != want {{ println!("{mod} FAIL {what} value {{:?}} want {{:?}}", z{ac}, want); }} if lg != wl {{ println!("{mod} FAIL {what} calls {{:?}} want {{:?}}", lg, wl); }} {post} }}\n')
        setup = f'let a: {Ai} = {ctorA("a")}; let b: {Bi} = {ctorB("b")};'
        cb = 'cloneA' if rhs_self else 'cloneB'
        if base_assign:
            # Op from OpAssign: { a op= b; a }
            re = '&b' if br else 'b'
            body += check(setup, f'a {sym} {re}', f'[a{sym}=b]', ['base_assign a b'], f'{tr}-from-assign')
        else:
            def fwd(il, ir):
                # operands as they reach the user's impl, and the clones made on the way
                ls, rs, lg = 'a', 'b', []
                if il and not bl:
                    lg.append('cloneA a')
                    ls = 'ca'
                if ir and not br:
                    lg.append(f'{cb} b')
                    rs = 'cb'
                return ls, rs, lg
            if 'Op' in req:
                for il in (False, True):
                    for ir in (False, True):
                        ls, rs, lg = fwd(il, ir)
                        le = '&a' if il else 'a'
                        re = '&b' if ir else 'b'
                        post = ''
                        body += check(setup, f'{le} {sym} {re}', f'[{ls}{sym}{rs}]', lg + [f'base {ls} {rs}'], f'{tr} {"r" if il else "o"}{"r" if ir else "o"}')
            else:
                # only the user's own form exists
                le = '&a' if bl else 'a'
                re = '&b' if br else 'b'
                body += check(setup, f'{le} {sym} {re}', f'[a{sym}b]', ['base a b'], f'{tr} base')
            if 'OpAssign' in req:
                if 'Op' in req:
                    for ir in (False, True):
                        # *self = <&A as Op<R>>::op(self, rhs): the `&A op R` form
                        ls, rs, lg = fwd(True, ir)
                        re = '&b' if ir else 'b'
                        body += (f'  {{ let mut a: {Ai} = {ctorA("a")}; let b: {Bi} = {ctorB("b")}; take(); a {sym}= {re}; let lg = take(); n += 1; let want = String::from("[{ls}{sym}{rs}]"); let wl: Vec<String> = vec![{", ".join(chr(34) + w + chr(34) + ".to_string()" for w in lg + [f"base {ls} {rs}"])}];\n'
                                 f'    if a.0 != want {{ println!("{mod} FAIL {tr}Assign {"r" if ir else "o"} value {{:?}} want {{:?}}", a.0, want); }} if lg != wl {{ println!("{mod} FAIL {tr}Assign {"r" if ir else "o"} calls {{:?}} want {{:?}}", lg, wl); }} }}\n')
                else:
                    ls = 'a' if bl else 'ca'
                    lg = [] if bl else ['cloneA a']
                    re = '&b' if br else 'b'
                    body += (f'  {{ let mut a: {Ai} = {ctorA("a")}; let b: {Bi} = {ctorB("b")}; take(); a {sym}= {re}; let lg = take(); n += 1; let want = String::from("[{ls}{sym}b]"); let wl: Vec<String> = vec![{", ".join(chr(34) + w + chr(34) + ".to_string()" for w in lg + [f"base {ls} b"])}];\n'
                             f'    if a.0 != want {{ println!("{mod} FAIL {tr}Assign-only value {{:?}} want {{:?}}", a.0, want); }} if lg != wl {{ println!("{mod} FAIL {tr}Assign-only calls {{:?}} want {{:?}}", lg, wl); }} }}\n')
        body += f'  println!("{mod} ok {{}}", n); }}\n}}\n'
        src += body
        cases.append(dict(mod=mod, item=base.strip().replace('\n', ' '), traits=req, shape=('assign-base' if base_assign else f'base-{"r" if bl else "o"}{"r" if br else "o"}') + ('-self' if rhs_self else '-other'), raw=False))
    src += 'fn main() { ' + ' '.join(f"{c['mod']}::run();" for c in cases) + ' }\n'
    return src, cases


# ---------------------------------------------------------------- C18: Deref / DerefMut
C18_PRELUDE = '''#![allow(dead_code, unused_imports, unused_variables, unused_mut, non_snake_case)]
use derive_ex::{derive_ex, Ex};
use std::ops::{Deref, DerefMut};
pub fn same_ty<T: ?Sized>(_: &T, _: &T) {}
'''


def gen_c18_program(seed, start, count):
    rng = random.Random(seed * 2000029 + start)
    src = C18_PRELUDE
    cases = []
    targets = [('u8', '7u8', '*x = 9u8;', 'x.F == 9u8'), ('String', 'String::from("hi")', 'x.push(\'!\');', 'x.F == "hi!"'),
               ('Box<[u8]>', 'vec![1u8, 2].into_boxed_slice()', 'x[0] = 5;', 'x.F[0] == 5'),
               ('Vec<u8>', 'vec![1u8]', 'x.push(2);', 'x.F.len() == 2'), ('(u8, u8)', '(1u8, 2u8)', '(*x).0 = 3;', 'x.F.0 == 3')]
    for idx in range(start, start + count):
        mod = f'c{idx}'
        named = rng.random() < 0.5
        # unsized targets: a bare trait object (one or several bounds), a slice, `str`, a `?Sized` parameter
        if rng.random() < 0.2:
            both = rng.random() < 0.7
            traits = 'Deref, DerefMut' if both else 'Deref'
            entry = rng.choice(['attr', 'derive'])
            head = f'#[derive_ex({traits})]' if entry == 'attr' else f'#[derive(Ex)] #[derive_ex({traits})]'
            fldn = rng.choice(['inner', 'r#type', 'r#match']) if named else '0'
            uk = rng.choice(['dyn Tr', 'dyn Tr + Send', 'dyn Tr + Send + Sync', '[u8]', 'str', 'T', "dyn Tr + 'static"])
            if uk == 'T':
                decl = (f'pub struct X<T: ?Sized> {{ pub {fldn}: T }}' if named else 'pub struct X<T: ?Sized>(pub T);')
                ctor = f'X {{ {fldn}: 7u8 }}' if named else 'X(7u8)'
                body = (f'pub mod {mod} {{ use super::*;\n pub trait Tr {{ fn v(&self) -> u8; }} impl Tr for u8 {{ fn v(&self) -> u8 {{ *self }} }}\n'
                        f' {head} {decl}\n pub fn run() {{ let mut n = 0u32; let mut b: Box<X<dyn Tr>> = Box::new({ctor});\n'
                        f'  n += 1; if !std::ptr::eq(&**b as *const dyn Tr as *const u8, &b.{fldn} as *const dyn Tr as *const u8) {{ println!("{mod} FAIL deref does not return the field itself"); }}\n'
                        f'  n += 1; if (**b).v() != 7 {{ println!("{mod} FAIL deref target does not behave like the field"); }}\n')
                if both:
                    body += (f'  n += 1; {{ let p1 = &mut **b as *mut dyn Tr as *mut u8; let p2 = &mut b.{fldn} as *mut dyn Tr as *mut u8; '
                             f'if p1 != p2 {{ println!("{mod} FAIL deref_mut does not return the field itself"); }} }}\n')
                body += f'  println!("{mod} ok {{}}", n); }}\n}}\n'
            else:
                decl = (f'pub struct X {{ pub {fldn}: {uk} }}' if named else f'pub struct X(pub {uk});')
                body = (f'pub mod {mod} {{ use super::*;\n pub trait Tr {{ fn v(&self) -> u8; }}\n {head} {decl}\n'
                        f' pub fn same(x: &X) -> bool {{ let t: &<X as Deref>::Target = &**x; same_ty(t, &x.{fldn}); '
                        f'std::ptr::eq(t as *const _ as *const u8, &x.{fldn} as *const _ as *const u8) }}\n'
                        f' pub fn run() {{ println!("{mod} ok 1"); }}\n}}\n')
            src += body
            cases.append(dict(mod=mod, item=f'{head} {decl}', traits=traits.split(', '), shape=('named' if named else 'tuple') + '-unsized', raw=fldn.startswith('r#')))
            continue
        # the field is itself a reference: `Target` is the reference type, the result points at the field, not at the referent
        if rng.random() < 0.2:
            mutable = rng.random() < 0.5
            both = mutable and rng.random() < 0.7
            traits = 'Deref, DerefMut' if both else 'Deref'
            entry = rng.choice(['attr', 'derive'])
            head = f'#[derive_ex({traits})]' if entry == 'attr' else f'#[derive(Ex)] #[derive_ex({traits})]'
            fldn = rng.choice(['inner', 'r#ref']) if named else '0'
            lt, g = rng.choice([("'a", "<'a>"), ("'static", ''), ("'a", "<'a, T: 'a>")])
            ref = f"&{lt} mut " if mutable else f"&{lt} "
            pointee = 'T' if 'T' in g else 'u32'
            # the referent also in parentheses that are not needed: nothing but the parentheses may go
            fty = ref + (f'({pointee})' if rng.random() < 0.4 else pointee)
            decl = (f'pub struct X{g} {{ pub {fldn}: {fty} }}' if named else f'pub struct X{g}(pub {fty});')
            val = 'Box::leak(Box::new(7u32))'
            ctor = f'X {{ {fldn}: {val} }}' if named else f'X({val})'
            want = '&mut u32' if mutable else '&u32'
            gi = ('<' + ', '.join(x for x in (["'static"] if "'a" in g else []) + (['u32'] if 'T' in g else [])) + '>') if g else ''
            body = (f'pub mod {mod} {{ use super::*;\n {head} {decl}\n pub fn run() {{ let mut n = 0u32; let mut x: X{gi} = {ctor};\n'
                    f'  n += 1; if !std::ptr::eq(&*x as *const _ as *const u8, &x.{fldn} as *const _ as *const u8) {{ println!("{mod} FAIL deref does not return the field itself"); }}\n'
                    f'  n += 1; if std::any::type_name::<<X{gi} as Deref>::Target>() != std::any::type_name::<{want}>() {{ println!("{mod} FAIL Target is {{}}", std::any::type_name::<<X{gi} as Deref>::Target>()); }}\n'
                    f'  {{ let t: &<X{gi} as Deref>::Target = &*x; same_ty(t, &x.{fldn}); }}\n')
            if both:
                body += (f'  n += 1; {{ let p1 = &mut *x as *mut _ as *mut u8; let p2 = &mut x.{fldn} as *mut _ as *mut u8; '
                         f'if p1 != p2 {{ println!("{mod} FAIL deref_mut does not return the field itself"); }} }}\n')
            body += f'  println!("{mod} ok {{}}", n); }}\n}}\n'
            src += body
            cases.append(dict(mod=mod, item=f'{head} {decl}', traits=traits.split(', '), shape=('named' if named else 'tuple') + '-reference', raw=fldn.startswith('r#')))
            continue
        generic = rng.random() < 0.4
        ty, init, write, after = rng.choice(targets)
        fld = rng.choice(['inner', 'inner', 'r#type']) if named else '0'
        fty = 'T' if generic else ty
        g = rng.choice(['<T>', '<T: Clone>', '<T> ']) if generic else ''
        where = ' where T: Sized' if generic and rng.random() < 0.3 else ''
        gi = f'<{ty}>' if generic else ''
        both = rng.random() < 0.7
        traits = 'Deref, DerefMut' if both else 'Deref'
        entry = rng.choice(['attr', 'derive'])
        head = f'#[derive_ex({traits})]' if entry == 'attr' else f'#[derive(Ex)] #[derive_ex({traits})]'
        if named:
            decl = f'pub struct X{g}{where} {{ pub {fld}: {fty} }}'
            ctor = f'X {{ {fld}: {init} }}'
        else:
            decl = f'pub struct X{g}(pub {fty}){where};'
            ctor = f'X({init})'
        body = f'pub mod {mod} {{ use super::*;\n {head} {decl}\n pub fn run() {{ let mut n = 0u32; let mut x: X{gi} = {ctor};\n'
        body += f'  n += 1; if !std::ptr::eq(&*x, &x.{fld}) {{ println!("{mod} FAIL deref does not return the field itself"); }}\n'
        body += f'  n += 1; if std::any::type_name::<<X{gi} as Deref>::Target>() != std::any::type_name::<{ty}>() {{ println!("{mod} FAIL Target is {{}}", std::any::type_name::<<X{gi} as Deref>::Target>()); }}\n'
        body += f'  {{ let t: &<X{gi} as Deref>::Target = &*x; same_ty(t, &x.{fld}); }}\n'
        if both:
            body += f'  n += 1; {{ let p1 = &mut *x as *mut {ty}; let p2 = &mut x.{fld} as *mut {ty}; if p1 != p2 {{ println!("{mod} FAIL deref_mut does not return the field itself"); }} }}\n'
            body += f'  n += 1; {write} if !({after.replace("F", fld)}) {{ println!("{mod} FAIL write through deref_mut did not land in the field"); }}\n'
        body += f'  println!("{mod} ok {{}}", n); }}\n}}\n'
        src += body
        cases.append(dict(mod=mod, item=f'{head} {decl}', traits=traits.split(', '), shape=('named' if named else 'tuple') + ('-generic' if generic else ''), raw=fld.startswith('r#')))
    src += 'fn main() { ' + ' '.join(f"{c['mod']}::run();" for c in cases) + ' }\n'
    return src, cases


def gen_c18_reject_case(seed, idx):
    """0- and 2..4-field structs: Deref / DerefMut must be refused by derive_ex itself"""
    rng = random.Random(seed * 2000039 + idx)
    nf = rng.choice([0, 0, 2, 2, 3, 4])
    named = rng.random() < 0.5
    kind = 'unit' if (nf == 0 and rng.random() < 0.4) else ('named' if named else 'tuple')
    tys = [rng.choice(['u8', 'String', 'u8']) for _ in range(nf)]
    traits = rng.choice([['Deref'], ['DerefMut'], ['Deref', 'DerefMut']])
    if kind == 'unit':
        decl = 'pub struct X;'
    elif kind == 'named':
        decl = 'pub struct X { ' + ', '.join(f'pub f{i}: {t}' for i, t in enumerate(tys)) + ' }'
    else:
        decl = 'pub struct X(' + ', '.join('pub ' + t for t in tys) + ');'
    manual = ''
    if traits == ['DerefMut']:
        # the user supplies Deref by hand (DerefMut: Deref)
        tgt = tys[0] if tys else 'u8'
        acc = ('&self.f0' if kind == 'named' else '&self.0') if tys else '&0u8'
        manual = f'impl ::core::ops::Deref for X {{ type Target = {tgt}; fn deref(&self) -> &{tgt} {{ {acc} }} }}\n'
    src = ('#![allow(dead_code, unused_imports)]\nuse derive_ex::{derive_ex, Ex};\n' + f'#[derive_ex({", ".join(traits)})] {decl}\n{manual}')
    return dict(id=f'c18r/{seed}/{idx}', src=src, item=f'#[derive_ex({", ".join(traits)})] {decl}', traits=traits,
                desc=dict(shape=f'{kind}{nf}'), expect_error='supports only single field struct')


# ---------------------------------------------------------------- C14: the item is re-emitted (through the real entry points)
def gen_macro_value_program(seed, start, count):
    """Items, helper-attribute arguments and impl bodies that come out of `macro_rules!` macros with `$e:expr` / `$l:literal`
    / `$p:path` / `$t:ty` / `$q:pat` fragments, observed by *value*: an invisible group that is lost changes what is computed
    (`$e * 2` with `$e = 1 + 2` is 6, not 5) without any diagnostic (F36, F38)."""
    rng = random.Random(seed * 5000011 + start)
    src = ('#![allow(dead_code, unused_imports, unused_variables, unused_parens, non_snake_case)]\n'
           'use derive_ex::{derive_ex, Ex};\npub const K8: i8 = 7;\npub fn two() -> usize { 2 }\n'
           'pub trait Tr: ::core::fmt::Debug { fn get(&self) -> u8; }\nimpl Tr for u8 { fn get(&self) -> u8 { *self } }\n'
           'pub trait IdT { type T; }\nimpl<A> IdT for A { type T = A; }\n')
    cases = []
    for idx in range(start, start + count):
        mod = f'c{idx}'
        kind = rng.choice(['default_expr', 'by_expr', 'impl_body', 'type_frag', 'ops_struct', 'key_expr', 'impl_const_arg'])
        a, b = rng.randrange(1, 5), rng.randrange(1, 5)
        e_arg = rng.choice([f'{a} + {b}', f'{a} + {b}', f'{a + b}', f'({a} + {b})', f'{a} << 1 | {b}'])
        e_val = eval(e_arg)
        derive = rng.random() < 0.4
        if kind == 'default_expr':
            head = '#[derive(Ex)] #[derive_ex(Default, Debug, Clone)]' if derive else '#[derive_ex(Default, Debug, Clone)]'
            decl = (f'macro_rules! mk {{ ($e:expr, $l:literal, $p:path) => {{ {head} pub struct X {{ #[default($e * 2)] pub a: i32, '
                    f'#[default($l)] pub s: String, #[default($p)] pub k: i64, pub arr: [u8; $e * 2], #[default(-$e)] pub m: i32, '
                    f'#[default(Some($e * 2))] pub o: Option<i32>, #[default(($e * 3, [$e * 2; 2]))] pub t: (i32, [i32; 2]), '
                    f'#[default({{ let v = $e * 2; v + 1 }})] pub blk: i32 }} }} }}\n'
                    f' mk!({e_arg}, "x", K8);')
            check = (f'  let x = X::default();\n'
                     f'  n += 1; if x.a != ({e_arg}) * 2 {{ println!("{mod} FAIL #[default($e * 2)] with $e = {e_arg} gave {{}}", x.a); }}\n'
                     f'  n += 1; if x.m != -({e_arg}) {{ println!("{mod} FAIL #[default(-$e)] gave {{}}", x.m); }}\n'
                     f'  n += 1; if x.s != "x" || x.k != 7 {{ println!("{mod} FAIL default from a $l:literal / $p:path fragment"); }}\n'
                     f'  n += 1; if x.arr.len() != (({e_arg}) * 2) as usize {{ println!("{mod} FAIL [u8; $e * 2] has {{}} elements", x.arr.len()); }}\n'
                     f'  n += 1; if x.clone().arr.len() != x.arr.len() {{ println!("{mod} FAIL clone"); }}\n'
                     f'  n += 1; if x.o != Some(({e_arg}) * 2) || x.t != (({e_arg}) * 3, [({e_arg}) * 2; 2]) || x.blk != ({e_arg}) * 2 + 1 {{ println!("{mod} FAIL a fragment nested in the parentheses / brackets / braces of a default value: {{:?}} {{:?}} {{}}", x.o, x.t, x.blk); }}\n')
            traits = ['Default', 'Debug', 'Clone']
        elif kind == 'by_expr':
            head = '#[derive(Ex)] #[derive_ex(PartialEq, Debug)]' if derive else '#[derive_ex(PartialEq, Debug)]'
            m = e_val if e_val > 1 else 3
            m_arg = e_arg if e_val > 1 else '1 + 2'
            decl = (f'macro_rules! mk {{ ($m:expr) => {{ {head} pub struct X(#[eq(by = |a: &i32, b: &i32| a % $m == b % $m)] pub i32, pub [u8; $m]); }} }}\n'
                    f' mk!({m_arg});')
            check = (f'  n += 1; if X(1, [0; {m}]) != X(1 + {m}, [0; {m}]) {{ println!("{mod} FAIL by = |a, b| a % $m == b % $m with $m = {m_arg}"); }}\n'
                     f'  n += 1; if X(0, [0; {m}]) == X(1, [0; {m}]) {{ println!("{mod} FAIL by: 0 and 1 equal modulo {m}"); }}\n')
            traits = ['PartialEq', 'Debug']
        elif kind == 'impl_body':
            tr = rng.choice(['AddAssign', 'Add, AddAssign'])
            pat = rng.choice(['1 | 2', '1..=2'])
            decl = ('#[derive(Clone, Copy, Debug, PartialEq)] pub struct X(pub i32);\n'
                    f' macro_rules! mk {{ ($e:expr, $q:pat, $k:ident, $s:stmt) => {{ #[derive_ex({tr})] impl ::core::ops::Add<i32> for X {{ type Output = X; '
                    f'fn add(self, r: i32) -> X {{ $s; let w = match r {{ n @ $q => n * 10, n => n }}; X(self.0 + w * $e + $k) }} }} }} }}\n'
                    f' mk!({e_arg}, {pat}, k, let k = 100);')
            check = (f'  n += 1; if (X(1) + 3).0 != 1 + 3 * ({e_arg}) + 100 {{ println!("{mod} FAIL the user\'s own impl changed its meaning: {{}}", (X(1) + 3).0); }}\n'
                     f'  n += 1; if (X(1) + 2).0 != 1 + 20 * ({e_arg}) + 100 {{ println!("{mod} FAIL n @ $q with $q = {pat}: {{}}", (X(1) + 2).0); }}\n'
                     f'  n += 1; let mut y = X(1); y += 3; if y != X(1) + 3 {{ println!("{mod} FAIL += differs from +"); }}\n')
            traits = [t.strip() for t in tr.split(',')]
        elif kind == 'key_expr':
            tl = 'PartialEq, Eq, PartialOrd, Ord, Hash, Debug'
            head = f'#[derive(Ex)] #[derive_ex({tl})]' if derive else f'#[derive_ex({tl})]'
            m = e_val if e_val > 1 else 3
            m_arg = e_arg if e_val > 1 else '1 + 2'
            decl = (f'macro_rules! mk {{ ($d:tt, $m:expr, $f:expr) => {{ {head} pub struct X(#[ord(key = $d % $m)] pub i32, #[ord(key = $f.max($d))] pub i32); }} }}\n'
                    f' mk!($, {m_arg}, -3);')
            check = (f'  use ::core::cmp::Ordering::*;\n'
                     f'  n += 1; if X(1, 0) != X(1 + {m}, 0) || X(0, 0) == X(1, 0) {{ println!("{mod} FAIL key = $ % $m with $m = {m_arg}"); }}\n'
                     f'  n += 1; if X(0, 0).cmp(&X(1, 0)) != Less || X({m}, 0).cmp(&X(1, 0)) != Less {{ println!("{mod} FAIL cmp through key = $ % $m"); }}\n'
                     f'  n += 1; if X(0, -10) != X(0, -5) || X(0, -10).cmp(&X(0, -2)) != Less || X(0, 4).partial_cmp(&X(0, 5)) != Some(Less) {{ println!("{mod} FAIL key = $f.max($) with $f = -3"); }}\n')
            traits = [t.strip() for t in tl.split(',')]
        elif kind == 'impl_const_arg':
            tr = rng.choice(['Add', 'Add, AddAssign', 'AddAssign'])
            decl = ('#[derive(Clone, Copy, Debug, PartialEq)] pub struct V<const N: usize>(pub i32);\n'
                    f' macro_rules! mk {{ ($h:expr) => {{ #[derive_ex({tr})] impl ::core::ops::Add<&V<{{ $h * 2 }}>> for &V<{{ $h * 2 }}> {{ type Output = V<{{ $h * 2 }}>; '
                    f'fn add(self, r: &V<{{ $h * 2 }}>) -> V<{{ $h * 2 }}> {{ V(self.0 * 10 + r.0) }} }} }} }}\n'
                    f' mk!({e_arg});')
            nn = f'{{ ({e_arg}) * 2 }}'
            check = (f'  let (a, b) = (V::<{nn}>(1), V::<{nn}>(2));\n'
                     f'  n += 1; if (&a + &b).0 != 12 {{ println!("{mod} FAIL the user\'s own impl"); }}\n')
            if 'Add' in [t.strip() for t in tr.split(',')]:
                check += f'  n += 1; if (a + b).0 != 12 || (&a + b).0 != 12 || (a + &b).0 != 12 {{ println!("{mod} FAIL the derived forms for V<{{{{ $h * 2 }}}}>"); }}\n'
            if 'AddAssign' in tr:
                first = 'b' if 'Add' in [t.strip() for t in tr.split(',')] else '&b'
                check += f'  n += 1; let mut c = a; c += {first}; c += &b; if c.0 != 122 {{ println!("{mod} FAIL += : {{}}", c.0); }}\n'
            traits = [t.strip() for t in tr.split(',')]
        elif kind == 'ops_struct':
            tl = 'Add, AddAssign, Neg, Clone, Copy, Debug, PartialEq'
            head = f'#[derive(Ex)] #[derive_ex({tl})]' if derive else f'#[derive_ex({tl})]'
            t_arg = rng.choice(['i32', '<i32 as IdT>::T', '(i32)', 'i64'])
            decl = (f'macro_rules! mk {{ ($t:ty, $e:expr) => {{ {head} pub struct X(pub $t, pub $t); '
                    f'pub fn mk(a: i32) -> X {{ X((a * $e) as $t, (a + $e) as $t) }} }} }}\n'
                    f' mk!({t_arg}, {e_arg});')
            check = (f'  let (x, y) = (mk(1), mk(2));\n'
                     f'  n += 1; if x.0 as i64 != ({e_arg}) as i64 || x.1 as i64 != (1 + ({e_arg})) as i64 {{ println!("{mod} FAIL the function next to the item changed its meaning"); }}\n'
                     f'  n += 1; if x + y != X(x.0 + y.0, x.1 + y.1) || &x + &y != x + y || &x + y != x + &y {{ println!("{mod} FAIL field-wise + in the four forms"); }}\n'
                     f'  n += 1; if -x != X(-x.0, -x.1) || -&x != -x {{ println!("{mod} FAIL neg"); }}\n'
                     f'  n += 1; let mut z = x; z += y; z += &y; if z != x + y + y {{ println!("{mod} FAIL +="); }}\n')
            traits = [t.strip() for t in tl.split(',')]
        else:
            head = '#[derive(Ex)] #[derive_ex(Deref, Debug)]' if derive else '#[derive_ex(Deref, Debug)]'
            t_arg = rng.choice(['dyn Tr + Send', 'dyn Tr', 'u8'])
            decl = (f'macro_rules! mk {{ ($t:ty, $n:expr) => {{ {head} pub struct X<\'a>(pub &\'a $t); '
                    f'#[derive_ex(Clone, Debug, PartialEq)] pub struct Y(pub [u8; $n + 1], pub Option<[u8; $n * 2]>); }} }}\n'
                    f' mk!({t_arg}, {e_arg});')
            check = (f'  static V: u8 = 9; let x = X(&V);\n'
                     f'  n += 1; if x.get() != 9 {{ println!("{mod} FAIL deref through a $t:ty fragment"); }}\n'
                     f'  n += 1; let y = Y([0; ({e_arg}) + 1], None); if y.clone() != y || y.0.len() != (({e_arg}) + 1) as usize {{ println!("{mod} FAIL array lengths"); }}\n'
                     f'  n += 1; if ::core::mem::size_of::<Y>() != (({e_arg}) + 1 + ({e_arg}) * 2 + 1) as usize {{ println!("{mod} FAIL size {{}}", ::core::mem::size_of::<Y>()); }}\n')
            traits = ['Deref', 'Debug', 'Clone', 'PartialEq']
        body = f'pub mod {mod} {{ use super::*;\n {decl}\n pub fn run() {{ let mut n = 0u32;\n{check}  println!("{mod} ok {{}}", n); }}\n}}\n'
        src += body
        cases.append(dict(mod=mod, item=decl, traits=traits, shape=kind + ('/derive' if derive else '/attr'), raw=False))
    src += 'fn main() { ' + ' '.join(f"{c['mod']}::run();" for c in cases) + ' }\n'
    return src, cases


def gen_macro_twin_program(seed, start, count):
    """One macro body, three derivations: the attribute macro, `#[derive(Ex)]`, and the standard derive.  The item comes out
    of `macro_rules!` with `$n:expr` / `$t:ty` fragments inside array and reference types and carries no helper attribute:
    the three types must have the same size and behave the same (C12: a drop-in for the standard derives; C15: the same
    impls through either entry point) — also when every fragment sits inside brackets."""
    rng = random.Random(seed * 6000029 + start)
    src = ('#![allow(dead_code, unused_imports, unused_variables, unused_parens, non_snake_case)]\n'
           'use derive_ex::{derive_ex, Ex};\nuse std::fmt::Debug;\n'
           'pub fn obs<T: Debug>(v: &T) -> String { format!("{:?}|{:#?}|{}", v, v, ::core::mem::size_of::<T>()) }\n')
    cases = []
    for idx in range(start, start + count):
        mod = f'c{idx}'
        a, b = rng.randrange(1, 4), rng.randrange(1, 4)
        n_arg = rng.choice([f'{a} + {b}', f'{a} + {b}', f'{a + b}', f'{a} | {b}', f'({a} + {b})'])
        t_arg = rng.choice(['u8', 'u16', '(u8, u8)', 'Option<u8>'])
        tr = ['Clone', 'Debug'] + [t for t in ['PartialEq', 'Default', 'Hash', 'PartialOrd'] if rng.random() < 0.6]
        if 'PartialOrd' in tr and 'PartialEq' not in tr:
            tr.append('PartialEq')
        shape = rng.choice(['brackets_only', 'brackets_only', 'mixed', 'enum'])
        if shape == 'brackets_only':
            body = 'pub struct $name { pub a: [u8; $n * 2], pub c: [$t; $n + 1] }'
            mk = 'X { a: [1; $n * 2], c: [<$t>::default(); $n + 1] }'
        elif shape == 'mixed':
            body = 'pub struct $name { pub a: [u8; $n * 2], pub b: Option<$t>, pub c: ($t, [u8; $n]) }'
            mk = 'X { a: [1; $n * 2], b: None, c: (<$t>::default(), [2; $n]) }'
        else:
            body = 'pub enum $name { A([u8; $n * 2]), B { v: [$t; $n + 1] } }'
            mk = 'X::A([1; $n * 2])'
            tr = [t for t in tr if t != 'Default']
        tl = ', '.join(tr)
        decl = (f'macro_rules! mk {{ ($m:ident, $name:ident, $n:expr, $t:ty, $($h:tt)*) => {{ pub mod $m {{ use super::*; $($h)* {body} '
                f'pub fn mk() -> X {{ {mk} }} pub const LEN: usize = $n * 2; }} }} }}\n'
                f' mk!(at, X, {n_arg}, {t_arg}, #[derive_ex({tl})]);\n'
                f' mk!(de, X, {n_arg}, {t_arg}, #[derive(Ex)] #[derive_ex({tl})]);\n'
                f' mk!(st, X, {n_arg}, {t_arg}, #[derive({tl})]);')
        check = ('  let (x, y, z) = (at::mk(), de::mk(), st::mk());\n'
                 f'  n += 1; if at::LEN != (({n_arg}) * 2) as usize {{ println!("{mod} FAIL the test macro itself"); }}\n'
                 f'  n += 1; if obs(&x) != obs(&z) {{ println!("{mod} FAIL attribute macro vs standard derive: {{}} vs {{}}", obs(&x), obs(&z)); }}\n'
                 f'  n += 1; if obs(&y) != obs(&z) {{ println!("{mod} FAIL derive(Ex) vs standard derive: {{}} vs {{}}", obs(&y), obs(&z)); }}\n'
                 f'  n += 1; if obs(&x.clone()) != obs(&z.clone()) || obs(&y.clone()) != obs(&z) {{ println!("{mod} FAIL clone"); }}\n')
        if 'PartialEq' in tr:
            check += f'  n += 1; if (x == x.clone()) != (z == z.clone()) || (y == y.clone()) != (z == z.clone()) {{ println!("{mod} FAIL eq"); }}\n'
        if 'Default' in tr:
            check += f'  n += 1; if obs(&at::X::default()) != obs(&st::X::default()) || obs(&de::X::default()) != obs(&st::X::default()) {{ println!("{mod} FAIL default"); }}\n'
        body_src = f'pub mod {mod} {{ use super::*;\n {decl}\n pub fn run() {{ let mut n = 0u32;\n{check}  println!("{mod} ok {{}}", n); }}\n}}\n'
        src += body_src
        cases.append(dict(mod=mod, item=decl, traits=tr, shape=shape, raw=False))
    src += 'fn main() { ' + ' '.join(f"{c['mod']}::run();" for c in cases) + ' }\n'
    return src, cases


C14_PRELUDE = '''#![allow(dead_code, unused_imports, unused_variables, non_snake_case)]
use derive_ex::{derive_ex, Ex};
'''


def gen_c14_program(seed, start, count):
    """Foreign content of the item must survive the attribute macro: std derives (with their own `#[default]` helper when
    derive_ex does not derive Default), repr + explicit discriminants, visibility, generics; observed by behaviour."""
    rng = random.Random(seed * 3000017 + start)
    src = C14_PRELUDE
    cases = []
    for idx in range(start, start + count):
        mod = f'c{idx}'
        kind = rng.choice(['enum_default', 'enum_discr', 'struct_derives', 'struct_generic'])
        if kind == 'enum_default':
            # std Default with its `#[default]` marker; derive_ex derives something else
            tr = rng.choice(['Clone', 'Debug', 'PartialEq', 'Clone, PartialEq', 'Hash', 'Eq, PartialEq'])
            std = 'Default' + ('' if 'Debug' in tr else ', Debug')
            dv = rng.randrange(3)
            vs = ', '.join(('#[default] ' if i == dv else '') + n for i, n in enumerate(['A', 'B', 'C']))
            first = rng.random() < 0.5
            heads = [f'#[derive_ex({tr})]', f'#[derive({std})]']
            head = ' '.join(heads if first else heads[::-1])
            decl = f'{head} pub enum X {{ {vs} }}'
            if not first:
                # a std derive placed before the attribute macro sees the item first: still fine
                pass
            check = (f'  n += 1; if format!("{{:?}}", X::default()) != "{["A", "B", "C"][dv]}" {{ println!("{mod} FAIL the #[default] marker of the std derive was not kept"); }}\n')
        elif kind == 'enum_discr':
            tr = rng.choice(['Clone', 'Clone, Copy', 'PartialEq', 'Debug'])
            d0, d1 = rng.randrange(1, 5), rng.randrange(7, 200)
            decl = f'#[derive_ex({tr})] #[repr(u8)] pub enum X {{ A = {d0}, B = {d1}, C }}'
            check = (f'  n += 1; if (X::A as u8, X::B as u8, X::C as u8) != ({d0}, {d1}, {d1 + 1}) {{ println!("{mod} FAIL discriminants / repr changed"); }}\n'
                     f'  n += 1; if std::mem::size_of::<X>() != 1 {{ println!("{mod} FAIL #[repr(u8)] was not kept"); }}\n')
        elif kind == 'struct_derives':
            tr = rng.choice(['PartialEq', 'Eq, PartialEq', 'PartialOrd, PartialEq', 'Hash'])
            # helper-named attributes of traits that are not being derived stay: `#[default]`-less std derives, `#[debug]` is not std
            decl = (f'#[derive(Debug, Clone, Default)] #[derive_ex({tr})] #[repr(C)] pub struct X {{ pub a: u8, #[doc = "second"] pub(crate) b: u32 }}')
            check = (f'  n += 1; let x = X::default(); if format!("{{:?}}", x.clone()) != "X {{ a: 0, b: 0 }}" {{ println!("{mod} FAIL the std derives on the item were not kept"); }}\n'
                     f'  n += 1; if std::mem::size_of::<X>() != 8 {{ println!("{mod} FAIL #[repr(C)] was not kept"); }}\n')
        else:
            tr = rng.choice(['Clone', 'Default', 'Debug'])
            decl = (f'#[derive_ex({tr})] pub struct X<T: Copy = u8> where T: Sized {{ #[cfg(all())] pub a: T, #[allow(unused)] pub c: (u8, T) }}')
            check = (f'  n += 1; let x: X = X {{ a: 1u8, c: (2u8, 3u8) }}; if x.a + x.c.0 + x.c.1 != 6 {{ println!("{mod} FAIL fields changed"); }}\n')
        body = f'pub mod {mod} {{ use super::*;\n {decl}\n pub fn run() {{ let mut n = 0u32;\n{check}  println!("{mod} ok {{}}", n); }}\n}}\n'
        src += body
        cases.append(dict(mod=mod, item=decl, traits=[t.strip() for t in tr.split(',')], shape=kind, raw=False))
    src += 'fn main() { ' + ' '.join(f"{c['mod']}::run();" for c in cases) + ' }\n'
    return src, cases


def gen_c14_error_case(seed, idx, only=None):
    """When derivation fails, the item - with all its foreign content - is still emitted next to the compile error: the only
    errors rustc reports are derive_ex's own (no unresolved type, no leftover helper attribute, no std derive tripping over a
    missing one).  The refusal stands next to other content: helper attributes of the *valid* traits of the same request, a
    second `#[derive_ex(..)]` list, foreign derives.  Where only one trait is refused, its siblings are used by the program."""
    rng = random.Random(seed * 3000029 + idx)
    kind = ['unknown_trait', 'enum_unsupported', 'misuse', 'dup_helper', 'bad_arg', 'not_item', 'misplaced', 'two_transparent',
            'deref_arity', 'several_default', 'empty_enum_default', 'bad_field_list'][idx % 12]
    if only:
        kind = only[idx % len(only)]
    uses = 'pub fn use_it(x: &X) -> String { format!("{:?}", x) }\n'
    dbg = rng.choice(['#[debug(ignore)] ', ''])
    dfl = rng.choice(['#[default(3)] ', ''])
    second = rng.choice(['#[derive_ex(Default)] ', ''])
    entry = rng.choice(['attr', 'derive'])

    def head(tr):
        return f'#[derive_ex({tr})]' if entry == 'attr' else f'#[derive(Ex)] #[derive_ex({tr})]'
    if kind == 'unknown_trait':
        # (a list that does not parse derives nothing: helper attributes would rightly stay on the item, so there are none)
        item = f'{head("Clone, Foo, Debug")} #[derive(Default)] pub struct X {{ pub a: u8 }}'
        uses = ''
        msgs = ['Foo', 'unsupported', 'unknown', 'not supported']
    elif kind == 'enum_unsupported':
        t = rng.choice(['Deref', 'Add', 'Neg', 'AddAssign', 'DerefMut', 'Not'])
        item = f'{head("Debug, " + t + ", Default")} pub enum X {{ A, #[default] B({dbg}u8) }}'
        uses = ''
        msgs = ['not support', 'enum', 'struct']
    elif kind == 'misuse':
        item = f'{head("PartialEq, Eq, PartialOrd, Ord, Default")} #[derive(Debug)] pub struct X {{ #[partial_ord(key = $.len())] pub a: String, {dfl}pub b: u8 }}'
        uses += 'pub fn sib() -> bool { X::default() == X::default() }\n'
        msgs = ['default implementation of', 'was specified']
    elif kind == 'dup_helper':
        item = f'{head("PartialEq, Default")} #[derive(Debug)] pub struct X {{ #[partial_eq(ignore)] #[partial_eq(ignore)] pub a: u8, {dfl}pub b: u8 }}'
        msgs = ['specified twice']
    elif kind == 'bad_arg':
        item = f'{head("Clone(frobnicate), PartialEq")} #[derive(Debug, Default)] pub enum X {{ #[default] A, B }}'
        msgs = ['frobnicate', 'unexpected', 'expected', 'cannot find parameter']
    elif kind == 'misplaced':
        arg = rng.choice(['reverse', 'ignore', 'key = $.0', 'by = f'])
        item = f'{head("PartialOrd, PartialEq, Debug")} {second if entry == "attr" else ""}pub enum X {{ A, #[partial_ord({arg})] B({dbg}u8) }}'
        uses = ''
        msgs = ['cannot specify']
    elif kind == 'two_transparent':
        item = f'{head("Clone, Debug, Default")} pub struct X {{ #[debug(transparent)] pub a: u8, {dfl}#[debug(transparent)] pub b: u8 }}'
        uses = 'pub fn sib(x: &X) -> X { let _ = X::default(); x.clone() }\n'
        msgs = ['transparent']
    elif kind == 'deref_arity':
        item = f'{head("Clone, Deref, Default")} #[derive(Debug)] pub struct X({dfl}pub u8, pub u16);'
        uses += 'pub fn sib(x: &X) -> X { let _ = X::default(); x.clone() }\n'
        msgs = ['single field']
    elif kind == 'several_default':
        item = f'{head("Clone, Default, Debug")} pub enum X {{ #[default] A, #[default] B({dbg}u8), C }}'
        uses += 'pub fn sib(x: &X) -> X { x.clone() }\n'
        msgs = ['multiple variants', 'default']
    elif kind == 'empty_enum_default':
        item = f'{head("Clone, Default")} #[derive(Debug)] pub enum X {{}}'
        uses += 'pub fn sib(x: &X) -> X { x.clone() }\n'
        msgs = ['does not exist', 'default']
    elif kind == 'bad_field_list':
        item = f'{head("Clone, Debug")} pub struct X {{ #[derive_ex(Foo)] {dbg}pub a: u8 }}'
        uses = ''
        msgs = ['Foo', 'unsupported', 'unknown', 'not supported']
    else:
        item = '#[derive_ex(Clone)] pub fn f() {}\n#[derive(Debug)] pub struct X;'
        msgs = ['can be specified only for']
    src = '#![allow(dead_code, unused_imports)]\nuse derive_ex::{derive_ex, Ex};\n' + item + '\n' + uses
    return dict(id=f'c14e/{seed}/{idx}', src=src, item=item, desc=dict(kind=kind, entry=entry), expect_only_error=msgs)


# ---------------------------------------------------------------- C17: Eq only if every compared component is Eq
C17_PRELUDE = '''#![allow(dead_code, unused_imports, non_snake_case)]
use derive_ex::{derive_ex, Ex};
use ::core::cmp::Ordering;
#[derive(Clone, Copy, Debug, PartialEq, PartialOrd)] pub struct N(pub f32);          // PartialEq only: not Eq
#[derive(Clone, Copy, Debug, PartialEq, Eq, PartialOrd, Ord, Hash)] pub struct E8(pub u8);  // Eq
pub fn ke<T>(_: &T) -> u8 { 0 }
pub fn kn<T>(_: &T) -> f32 { 0.0 }
pub fn be<T>(_: &T, _: &T) -> bool { true }
pub fn bo<T>(_: &T, _: &T) -> Ordering { Ordering::Equal }
'''


def gen_c17_case(seed, idx):
    rng = random.Random(seed * 6000011 + idx)
    is_enum = rng.random() < 0.4
    generic = rng.random() < 0.3
    nf = rng.choice([1, 1, 2, 3])
    # Hash derived next to Eq (only with default / ignored comparators: a custom one would need its own hash counterpart)
    with_hash = rng.random() < 0.3
    fields = []
    ok = True
    for i in range(nf):
        tyk = rng.choice(['E', 'N', 'N', 'T'] if generic else ['E', 'N', 'N'])
        ty = {'E': 'E8', 'N': 'N', 'T': 'T'}[tyk]
        # attribute choice on eq / ord
        eqa = rng.choice(['', '', 'ignore'] if with_hash else ['', '', 'ignore', 'keyE', 'keyN', 'by'])
        orda = rng.choice(['', '', '', 'ignore'] if with_hash else ['', '', '', 'ignore', 'keyE', 'keyN', 'by'])
        attrs = []
        if eqa == 'ignore':
            attrs.append('#[eq(ignore)]')
        elif eqa == 'keyE':
            attrs.append('#[eq(key = ke(&$))]')
        elif eqa == 'keyN':
            attrs.append('#[eq(key = kn(&$))]')
        elif eqa == 'by':
            attrs.append('#[eq(by = be)]')
        if orda == 'ignore':
            attrs.append('#[ord(ignore)]')
        elif orda == 'keyE':
            attrs.append('#[ord(key = ke(&$))]')
        elif orda == 'keyN':
            attrs.append('#[ord(key = kn(&$))]')
        elif orda == 'by':
            attrs.append('#[ord(by = bo)]')
        if with_hash:
            # `#[hash(ignore)]` concerns Hash alone: it must not exempt the field from the Eq requirement
            # (N does not implement Hash: there the attribute is needed for the program to compile at all)
            if eqa != 'ignore' and orda != 'ignore' and (tyk == 'N' or rng.random() < 0.4):
                attrs.append('#[hash(ignore)]')
        rng.shuffle(attrs)
        # reference rule (C17): ignored or compared with `by` => exempt; else the `key` value (eq first, then ord), else the field
        if eqa == 'ignore' or orda == 'ignore':
            comp = None
        elif eqa == 'by':
            comp = None
        elif eqa in ('keyE', 'keyN'):
            comp = eqa[-1]
        elif orda == 'by':
            comp = None
        elif orda in ('keyE', 'keyN'):
            comp = orda[-1]
        else:
            comp = tyk
        # a generic component is asserted through the generated where-clause `T: Eq`: fine for the generic impl
        if comp == 'N':
            ok = False
        fields.append((' '.join(attrs) + (' ' if attrs else ''), ty))
    g = '<T>' if generic and any(t == 'T' for _, t in fields) else ''
    entry = rng.choice(['attr', 'derive'])
    tl = rng.choice(['Eq, PartialEq, Hash', 'Hash, Eq, PartialEq', 'PartialEq, Hash, Eq']) if with_hash else 'Eq, PartialEq'
    head = f'#[derive_ex({tl})]' if entry == 'attr' else f'#[derive(Ex)] #[derive_ex({tl})]'
    named = rng.random() < 0.5
    if named:
        body = ' { ' + ', '.join(f'{a}f{i}: {t}' for i, (a, t) in enumerate(fields)) + ' }'
    else:
        body = '(' + ', '.join(f'{a}{t}' for a, t in fields) + ')'
    if is_enum:
        item = f'{head} pub enum X{g} {{ A, B{body} }}'
    else:
        item = f'{head} pub struct X{g}{body}' + ('' if named else ';')
    return dict(id=f'c17/{seed}/{idx}', src=C17_PRELUDE + item + '\n', item=item, traits=tl.split(', '),
                expect_ok=ok, desc=dict(shape=('enum' if is_enum else 'struct') + str(nf), generic=bool(g), expect='accept' if ok else 'refuse'))


# ---------------------------------------------------------------- C07: clone / clone_from with a call-recording field type
C07_PRELUDE = '''#![allow(dead_code, unused_imports, unused_variables, unused_mut, non_snake_case)]
use derive_ex::{derive_ex, Ex};
use std::cell::RefCell;
thread_local! { static LOG: RefCell<Vec<String>> = RefCell::new(Vec::new()); }
pub fn log(s: String) { LOG.with(|l| l.borrow_mut().push(s)); }
pub fn take() -> Vec<String> { LOG.with(|l| std::mem::take(&mut *l.borrow_mut())) }
#[derive(Debug, PartialEq)]
pub struct R(pub u32);
impl Clone for R {
    fn clone(&self) -> Self { log(format!("clone {}", self.0)); R(self.0 + 1000) }
    fn clone_from(&mut self, s: &Self) { log(format!("clone_from {} {}", self.0, s.0)); self.0 = s.0 + 2000; }
}
'''


def gen_c07_program(seed, start, count):
    rng = random.Random(seed * 4000037 + start)
    src = C07_PRELUDE
    cases = []
    for idx in range(start, start + count):
        mod = f'c{idx}'
        is_enum = rng.random() < 0.6
        generic = rng.random() < 0.3
        g, gi = ('<T>', '<R>') if generic else ('', '')
        fty = 'T' if generic else 'R'
        vnames = ['A', 'B', 'C', 'D']
        fnames = ['a', 'b', 'c', 'd']
        if is_enum:
            nv = rng.choice([1, 2, 3, 4])
            kinds = [rng.choice(['unit', 'tuple', 'named']) for _ in range(nv)]
            nfs = [0 if k == 'unit' else rng.choice([0, 1, 2, 3]) for k in kinds]
        else:
            nv = 1
            kinds = [rng.choice(['unit', 'tuple', 'named'])]
            nfs = [0 if kinds[0] == 'unit' else rng.choice([0, 1, 2, 3, 4])]
        if generic and sum(nfs) == 0:
            generic, g, gi, fty = False, '', '', 'R'

        def vdecl(k, n):
            if k == 'named':
                return ' { ' + ', '.join(f'{fnames[i]}: {fty}' for i in range(n)) + ' }'
            if k == 'tuple':
                return '(' + ', '.join(fty for _ in range(n)) + ')'
            return ''
        if is_enum:
            decl = f'pub enum X{g} {{ ' + ', '.join(f'{vnames[i]}{vdecl(kinds[i], nfs[i])}' for i in range(nv)) + ' }'
        else:
            d = vdecl(kinds[0], nfs[0])
            decl = f'pub struct X{g}{d}' + ('' if kinds[0] == 'named' else ';')
        entry = rng.choice(['attr', 'derive'])
        head = '#[derive_ex(Clone)]' if entry == 'attr' else '#[derive(Ex)] #[derive_ex(Clone)]'

        def ctor(v, vals):
            path = f'X::{vnames[v]}' if is_enum else 'X'
            if kinds[v] == 'named':
                return path + ' { ' + ', '.join(f'{fnames[i]}: R({x})' for i, x in enumerate(vals)) + ' }'
            if kinds[v] == 'tuple':
                return path + '(' + ', '.join(f'R({x})' for x in vals) + ')'
            return path
        body = f'pub mod {mod} {{ use super::*;\n #[derive(Debug, PartialEq)] {head} {decl}\n pub fn run() {{ let mut n = 0u32;\n'
        # values: distinguishable per field and per value
        vals = [(v, [100 * v + 10 * k + i + 1 for i in range(nfs[v])]) for v in range(nv) for k in (0, 1)]
        for (v, xs) in vals:
            want = ctor(v, [x + 1000 for x in xs])
            wl = ', '.join(f'"clone {x}".to_string()' for x in xs)
            body += f'  {{ let a: X{gi} = {ctor(v, xs)}; take(); let c = a.clone(); let lg = take(); n += 1; let want: X{gi} = {want}; let wl: Vec<String> = vec![{wl}];\n'
            body += f'    if c != want {{ println!("{mod} FAIL clone value {{:?}} want {{:?}}", c, want); }} if lg != wl {{ println!("{mod} FAIL clone calls {{:?}} want {{:?}}", lg, wl); }} if a != ({ctor(v, xs)}) {{ println!("{mod} FAIL clone changed the source"); }} }}\n'
        for (va, xa) in vals:
            for (vb, xb) in vals:
                if va == vb:
                    want = ctor(va, [y + 2000 for y in xb])
                    wl = ', '.join(f'"clone_from {x} {y}".to_string()' for x, y in zip(xa, xb))
                else:
                    want = ctor(vb, [y + 1000 for y in xb])
                    wl = ', '.join(f'"clone {y}".to_string()' for y in xb)
                body += f'  {{ let mut a: X{gi} = {ctor(va, xa)}; let b: X{gi} = {ctor(vb, xb)}; take(); a.clone_from(&b); let lg = take(); n += 1; let want: X{gi} = {want}; let wl: Vec<String> = vec![{wl}];\n'
                body += f'    if a != want {{ println!("{mod} FAIL clone_from({va},{vb}) value {{:?}} want {{:?}}", a, want); }} if lg != wl {{ println!("{mod} FAIL clone_from({va},{vb}) calls {{:?}} want {{:?}}", lg, wl); }} if b != ({ctor(vb, xb)}) {{ println!("{mod} FAIL clone_from changed the source"); }} }}\n'
        body += f'  println!("{mod} ok {{}}", n); }}\n}}\n'
        src += body
        cases.append(dict(mod=mod, item=f'{head} {decl}', traits=['Clone'], shape=('enum' if is_enum else 'struct') + str(nv), raw=False))
    src += 'fn main() { ' + ' '.join(f"{c['mod']}::run();" for c in cases) + ' }\n'
    return src, cases


# ---------------------------------------------------------------- C10: Debug with ignore / transparent against std twins
def gen_c10_program(seed, start, count):
    rng = random.Random(seed * 4000043 + start)
    src = C12_PRELUDE
    cases = []
    pool = [('i8', ['0', '-3']), ('bool', ['true']), ('(i8, f32)', ['(1, 2.5)']), ('Option<i8>', ['None', 'Some(7)']),
            ('String', ['String::from("a b")']), ('f32', ['1.25', '-0.5']), ('Vec<i8>', ['vec![1, 2]'])]
    for idx in range(start, start + count):
        mod = f'c{idx}'
        is_enum = rng.random() < 0.5
        vnames, fnames = ['A', 'B', 'C'], ['a', 'b', 'c', 'd']
        nv = rng.choice([1, 2, 3]) if is_enum else 1
        dvs, svs, vals_d, vals_s = [], [], [], []
        for v in range(nv):
            kind = rng.choice(['unit', 'tuple', 'named', 'tuple', 'named'])
            nf = 0 if kind == 'unit' else rng.choice([0, 1, 2, 3, 4])
            fs = [rng.choice(pool) for _ in range(nf)]
            mode = rng.choice(['none', 'ignore', 'ignore', 'transparent'])
            # the helper attribute's name also as a raw identifier (F34)
            dbg = rng.choice(['debug', 'debug', 'debug', 'r#debug'])
            ign = [mode == 'ignore' and rng.random() < 0.5 for _ in range(nf)]
            tr = rng.randrange(nf) if (mode == 'transparent' and nf > 0) else None
            vals = [rng.choice(dom) for _, dom in fs]
            path = (lambda m: f'{m}::X::{vnames[v]}') if is_enum else (lambda m: f'{m}::X')
            name = vnames[v] if is_enum else 'X'
            if kind == 'named':
                dv = name + ' { ' + ', '.join((f'#[{dbg}(ignore)] ' if ign[i] else f'#[{dbg}(transparent)] ' if tr == i else '') + ('' if is_enum else 'pub ') + f'{fnames[i]}: {t}' for i, (t, _) in enumerate(fs)) + ' }'
                sv = name + ' { ' + ', '.join(('' if is_enum else 'pub ') + f'{fnames[i]}: {t}' for i, (t, _) in enumerate(fs) if not ign[i]) + ' }'
                cd = lambda m: path(m) + ' { ' + ', '.join(f'{fnames[i]}: {x}' for i, x in enumerate(vals)) + ' }'
                cs = lambda m: path(m) + ' { ' + ', '.join(f'{fnames[i]}: {x}' for i, x in enumerate(vals) if not ign[i]) + ' }'
            elif kind == 'tuple':
                dv = name + '(' + ', '.join((f'#[{dbg}(ignore)] ' if ign[i] else f'#[{dbg}(transparent)] ' if tr == i else '') + ('' if is_enum else 'pub ') + t for i, (t, _) in enumerate(fs)) + ')'
                sv = name + '(' + ', '.join(('' if is_enum else 'pub ') + t for i, (t, _) in enumerate(fs) if not ign[i]) + ')'
                cd = lambda m: path(m) + '(' + ', '.join(vals) + ')'
                cs = lambda m: path(m) + '(' + ', '.join(x for i, x in enumerate(vals) if not ign[i]) + ')'
            else:
                dv = sv = name
                cd = cs = path
            dvs.append(dv)
            svs.append(sv)
            vals_d.append(cd('d'))
            # a transparent field prints as the field alone
            if tr is not None:
                vals_s.append(('field', vals[tr], fs[tr][0]))
            else:
                vals_s.append(('twin', cs('s'), None))
        if is_enum:
            ditem = '#[derive_ex(Debug)] pub enum X { ' + ', '.join(dvs) + ' }'
            sitem = '#[derive(Debug)] pub enum X { ' + ', '.join(svs) + ' }'
        else:
            semi = '' if dvs[0].rstrip().endswith('}') else ';'
            ditem = '#[derive_ex(Debug)] pub struct ' + dvs[0] + semi
            ssemi = '' if svs[0].rstrip().endswith('}') else ';'
            sitem = '#[derive(Debug)] pub struct ' + svs[0] + ssemi
        body = f'pub mod {mod} {{ use super::*;\n pub mod d {{ use super::*; {ditem} }}\n pub mod s {{ use super::*; {sitem} }}\n pub fn run() {{ let mut n = 0u32;\n'
        for dval, (k, sval, fty) in zip(vals_d, vals_s):
            if k == 'twin':
                body += f'  n += 1; if fmts(&{dval}) != fmts(&{sval}) {{ println!("{mod} FAIL debug {{:?}} vs std {{:?}}", fmts(&{dval}), fmts(&{sval})); }}\n'
            else:
                body += f'  n += 1; {{ let fv: {fty} = {sval}; if fmts(&{dval}) != fmts(&fv) {{ println!("{mod} FAIL transparent {{:?}} vs field {{:?}}", fmts(&{dval}), fmts(&fv)); }} }}\n'
        body += f'  println!("{mod} ok {{}}", n); }}\n}}\n'
        src += body
        cases.append(dict(mod=mod, item=ditem, traits=['Debug'], shape=('enum' if is_enum else 'struct') + str(nv), raw=False))
    src += 'fn main() { ' + ' '.join(f"{c['mod']}::run();" for c in cases) + ' }\n'
    return src, cases


# ---------------------------------------------------------------- C11: default() values
C11_PRELUDE = '''#![allow(dead_code, unused_imports, unused_variables, unused_mut, non_snake_case)]
use derive_ex::{derive_ex, Ex};
pub const K: i8 = 7; pub const K8: u8 = 9; pub const SK: &str = "sk";
pub struct Consts; impl Consts { pub const K: i8 = 5; pub const S: &'static str = "cs"; }
pub mod m { pub const K8: u8 = 4; }
pub fn f() -> i8 { 11 }
pub trait Named { const NAME: &'static str; const SMALL: u8; }
pub struct Tag; impl Named for Tag { const NAME: &'static str = "tag"; const SMALL: u8 = 3; }
'''
# (field type, [(attribute, expected Debug text)])
C11_FIELDS = [
    ('i8', [('', '0'), ('#[default(3)]', '3'), ('#[default(-1)]', '-1'), ('#[default(K)]', '7'), ('#[default(Consts::K)]', '5'),
            ('#[default(f())]', '11'), ('#[default({ 1 + 1 })]', '2'), ('#[default(_)]', '0'), ('#[default]', '0'), ('#[default((K))]', '7'),
            ('#[default(K as i8)]', '7')]),
    ('u16', [('', '0'), ('#[default(K8)]', '9'), ('#[default(m::K8)]', '4'), ('#[default(300)]', '300'), ('#[default(<Tag as Named>::SMALL)]', '3'),
             ('#[default(self::K8)]', '9'), ('#[default(crate::K8)]', '9')]),
    ('String', [('', '""'), ('#[default("s")]', '"s"'), ('#[default(SK)]', '"sk"'), ('#[default(Consts::S)]', '"cs"'),
                ('#[default(String::from("x"))]', '"x"'), ('#[default(r"raw")]', '"raw"'),
                # a path with a qualified self is a path: converted with Into
                ('#[default(<Tag as Named>::NAME)]', '"tag"'), ('#[default(::core::primitive::str::as_ref("q"))]', '"q"') if False else ('#[default(<Tag as Named>::NAME)]', '"tag"')]),
    ('bool', [('', 'false'), ('#[default(true)]', 'true')]),
    ('char', [('#[default(\'c\')]', "'c'")]),
    ('Option<i8>', [('', 'None'), ('#[default(Some(1))]', 'Some(1)')]),
]


def gen_c11_program(seed, start, count):
    rng = random.Random(seed * 4000063 + start)
    src = C11_PRELUDE
    cases = []
    for idx in range(start, start + count):
        mod = f'c{idx}'
        is_enum = rng.random() < 0.5
        vnames, fnames = ['A', 'B', 'C'], ['a', 'b', 'c', 'd']

        def mk(kind, nf):
            fs = [rng.choice(C11_FIELDS) for _ in range(nf)]
            ch = [rng.choice(opts) for _, opts in fs]
            if kind == 'named':
                decl = ' { ' + ', '.join(f'{a} {fnames[i]}: {t}'.strip() for i, ((t, _), (a, _e)) in enumerate(zip(fs, ch))) + ' }'
                exp = (' { ' + ', '.join(f'{fnames[i]}: {e}' for i, (_a, e) in enumerate(ch)) + ' }') if nf else ''
            elif kind == 'tuple':
                decl = '(' + ', '.join(f'{a} {t}'.strip() for (t, _), (a, _e) in zip(fs, ch)) + ')'
                exp = '(' + ', '.join(e for _a, e in ch) + ')' if nf else ''
            else:
                decl, exp = '', ''
            return decl, exp
        entry = rng.choice(['attr', 'derive'])
        head = '#[derive_ex(Default)]' if entry == 'attr' else '#[derive(Ex)] #[derive_ex(Default)]'
        if is_enum:
            nv = rng.choice([1, 2, 3])
            dv = rng.randrange(nv)
            vs = []
            vkinds = []
            want = ''
            type_level = rng.random() < 0.15
            for v in range(nv):
                kind = rng.choice(['unit', 'tuple', 'named'])
                vkinds.append(kind)
                nf = 0 if kind == 'unit' else rng.choice([0, 1, 2, 3])
                decl, exp = mk(kind, nf)
                mark = ''
                if v == dv and not type_level and (nv > 1 or rng.random() < 0.5):
                    mark = rng.choice(['#[default] ', '#[default(_)] '])
                vs.append(f'{mark}{vnames[v]}{decl}')
                if v == dv:
                    want = vnames[v] + (exp if kind != 'tuple' or nf else ('' if kind == 'unit' else ''))
                    if kind == 'tuple' and nf == 0:
                        want = vnames[v]
            tl = ''
            if type_level and nv > 1 and rng.random() < 0.5:
                # the type-level value wins even over a variant marked `#[default]`
                other = (dv + 1) % nv
                if not vs[dv].startswith('#[default'):
                    vs[dv] = rng.choice(['#[default] ', '#[default(_)] ']) + vs[dv]
                # pick a unit variant other than the marked one if there is one, else a function building the marked one's sibling
                uv = [i for i in range(nv) if i != dv and vkinds[i] == 'unit']
                if uv:
                    tl = f'#[default(Self::{vnames[uv[0]]})] '
                    want = vnames[uv[0]]
                    type_level = False
            if type_level:
                # a unit variant chosen by the type-level value wins over everything
                uv = [i for i, x in enumerate(vs) if x.strip().split('(')[0].split('{')[0].strip() in vnames and '(' not in x and '{' not in x]
                if uv:
                    tl = f'#[default(Self::{vnames[uv[0]]})] '
                    want = vnames[uv[0]]
                else:
                    vs[dv] = '#[default] ' + vs[dv] if nv > 1 and not vs[dv].startswith('#[default') else vs[dv]
            item = f'{head} {tl}#[derive(Debug)] pub enum X {{ ' + ', '.join(vs) + ' }'
        else:
            kind = rng.choice(['unit', 'tuple', 'named', 'named'])
            nf = 0 if kind == 'unit' else rng.choice([0, 1, 2, 3, 4])
            decl, exp = mk(kind, nf)
            item = f'{head} #[derive(Debug)] pub struct X{decl}' + ('' if kind == 'named' else ';')
            want = 'X' + exp
            if kind == 'tuple' and nf == 0:
                want = 'X'
        body = f'pub mod {mod} {{ use super::*;\n {item}\n pub fn run() {{ let got = format!("{{:?}}", <X as Default>::default()); let want = r#"{want}"#;\n'
        body += f'  if got != want {{ println!("{mod} FAIL default() is {{}} want {{}}", got, want); }} println!("{mod} ok 1"); }}\n}}\n'
        src += body
        cases.append(dict(mod=mod, item=item, traits=['Default'], shape='enum' if is_enum else 'struct', raw=False))
    src += 'fn main() { ' + ' '.join(f"{c['mod']}::run();" for c in cases) + ' }\n'
    return src, cases


def gen_c11_reject_case(seed, idx):
    """enums that the documentation says are refused: no marked variant among several, several marked variants,
    a value on a variant's #[default(..)] — for every number of variants (a single variant too), every position,
    every shape of variant, both entry points"""
    rng = random.Random(seed * 4000073 + idx)
    k = ['none', 'several', 'value'][idx % 3]
    nv = rng.choice([1, 2, 2, 3, 4]) if k == 'value' else rng.choice([2, 2, 3, 4])
    names = ['A', 'B', 'C', 'D'][:nv]
    shapes = [rng.choice(['', '(u8)', '{ a: u8 }', '(u8, bool)', '()', '{}']) for _ in names]

    def ctor(i):
        sh = shapes[i]
        v = 'X::' + names[i]
        if sh in ('',):
            return v
        if sh == '(u8)':
            return v + '(7)'
        if sh == '{ a: u8 }':
            return v + ' { a: 7 }'
        if sh == '(u8, bool)':
            return v + '(7, true)'
        return v + (' {}' if sh == '{}' else '()')
    marks = [''] * nv
    if k == 'none':
        msg = 'does not exist'
    elif k == 'several':
        cnt = rng.randint(2, nv)
        for i in rng.sample(range(nv), cnt):
            marks[i] = rng.choice(['#[default] ', '#[default] ', '#[default(_)] ', '#[default(_, bound())] '])
        msg = 'multiple variants'
    else:
        i = rng.randrange(nv)
        j = rng.randrange(nv)
        marks[i] = '#[default(%s)] ' % rng.choice([ctor(j), ctor(j) + ', bound()', 'Self::%s' % names[j] if shapes[j] == '' else ctor(j)])
        msg = 'cannot specify a default value'
    body = ', '.join(marks[i] + names[i] + shapes[i] for i in range(nv))
    entry = rng.choice(['attr', 'derive'])
    if entry == 'attr':
        item = '#[derive_ex(Default)] pub enum X { %s }' % body
        use = 'use derive_ex::derive_ex;'
    else:
        item = '#[derive(Ex)] #[derive_ex(Default)] pub enum X { %s }' % body
        use = 'use derive_ex::Ex;'
    return dict(id=f'c11r/{seed}/{idx}', src='#![allow(dead_code)]\n' + use + '\n' + item + '\n', item=item,
                traits=['Default'], desc=dict(kind=k, variants=nv, entry=entry), expect_error=msg)


def gen_c10_reject_case(seed, idx):
    """more than one `#[debug(transparent)]` field is refused — for `Debug` alone: the item, its other impls and its
    attributes are as they would be without the mistake"""
    return dict(gen_c14_error_case(seed, idx, only=['two_transparent']), id=f'c10r/{seed}/{idx}')


def gen_c18_sibling_case(seed, idx):
    """a struct with zero or several fields is refused for `Deref` / `DerefMut` only"""
    return dict(gen_c14_error_case(seed, idx, only=['deref_arity']), id=f'c18s/{seed}/{idx}')


def gen_macro_case(seed, idx):
    """The annotated item is written inside a `macro_rules!` macro and gets its name and field types from the invocation
    (`$name:ident`, `$f:ident`, `$t:tt`, `$u:ty`) — the everyday newtype-macro pattern.  The tokens of the item then come from
    two syntax contexts; the generated code must not care."""
    rng = random.Random(seed * 9000011 + idx)
    traits = []
    cmpset = rng.choice(closed_cmp_sets())
    traits += cmpset
    for t in ['Clone', 'Debug', 'Default', 'Hash']:
        if rng.random() < 0.5:
            traits.append(t)
    ops = rng.random() < 0.25
    if ops:
        traits += rng.sample(['Add', 'Sub', 'Neg', 'AddAssign', 'Not', 'BitAnd'], 2)
    if not traits:
        traits = ['PartialEq']
    rng.shuffle(traits)
    tl = ', '.join(traits)
    entry = rng.choice(['attr', 'derive'])
    head = f'#[derive_ex({tl})]' if entry == 'attr' else f'#[derive(Ex)] #[derive_ex({tl})]'
    kinds = rng.sample(['ident', 'tt', 'ty'], 2)
    frag = {'ident': 'ident', 'tt': 'tt', 'ty': 'ty'}
    argty = ['i8', 'i8'] if ops else [rng.choice(['i8', 'String', 'bool']), rng.choice(['i8', 'u16', 'String'])]
    if 'Default' in traits and False:
        pass
    shape = rng.choice(['tuple', 'named', 'enum']) if not ops else rng.choice(['tuple', 'named'])
    attrs = ['', '']
    if cmpset and rng.random() < 0.4:
        attrs[rng.randrange(2)] = rng.choice(['#[ord(ignore)] ', '#[ord(key = helpers::ksz(&$))] '] + (['#[ord(reverse)] '] if 'PartialOrd' in traits else []))
    # an `$n:expr` fragment inside a field type and a `$s:literal` / `$s:expr` default value: the invisible groups around them
    # must keep their meaning in the item that is emitted again and in the generated code (F36); `_chk` pins the type
    grp = (not ops) and rng.random() < 0.6
    n_arg = rng.choice(['1 + 1', '2', '3 - 1', '(1 + 1)', 'helpers::TWO'])
    arr = '[u8; $n * 2]'
    sdef = ''
    s_arg = rng.choice(['"x"', 'String::from("x")', 'helpers::SX'])
    if grp and 'Default' in traits and shape != 'enum' and rng.random() < 0.7:
        sdef = '#[default($s)] '
    # a comparison function that arrives as a fragment (`by = $f` with `$f:expr` / `$f:path`), on the first field
    byfrag = ''
    if grp and cmpset and 'Hash' not in traits and attrs[0] == '' and argty[0] != 'bool' and rng.random() < 0.5:
        byfrag = rng.choice(['expr', 'path'])
        attrs[0] = '#[ord(by = $f)] '
    if shape == 'tuple':
        body = f'pub struct $name({attrs[0]}pub $a, {attrs[1]}pub $b' + (f', pub {arr}, {sdef}pub String' if grp else '') + ');'
        chk = 'pub fn _chk(x: &X) -> &[u8; 4] { &x.2 }\n'
    elif shape == 'named':
        body = f'pub struct $name {{ {attrs[0]}pub first: $a, {attrs[1]}pub second: $b' + (f', pub third: {arr}, {sdef}pub fourth: String' if grp else '') + ' }'
        chk = 'pub fn _chk(x: &X) -> &[u8; 4] { &x.third }\n'
    else:
        dflt = '#[default] ' if 'Default' in traits else ''
        body = f'pub enum $name {{ {dflt}Unit, Tup({attrs[0]}$a, {attrs[1]}$b), Rec {{ x: $b }}' + (f', Arr({arr})' if grp else '') + ' }'
        chk = 'pub fn _chk(x: X) { if let X::Arr(a) = x { let _: [u8; 4] = a; } }\n'
    extra_params = (', $n:expr, $s:expr' if grp else '') + (f', $f:{byfrag}' if byfrag else '')
    extra_args = (f', {n_arg}, {s_arg}' if grp else '') + (', helpers::fo' if byfrag else '')
    mac = (f'macro_rules! mk {{ ($name:ident, $a:{frag[kinds[0]]}, $b:{frag[kinds[1]]}{extra_params}) => {{ {head} {body} }} }}\n'
           f'mk!(X, {argty[0]}, {argty[1]}{extra_args});\n' + (chk if grp else ''))
    return dict(id=f'mac/{seed}/{idx}', item=mac, src=PRELUDE + mac, traits=traits,
                desc=dict(shape=shape, entry=entry, frags='+'.join(kinds), groups=grp))
