"""Generators of *well-typed* Rust programs for the rustc-in-the-loop checks (C12, C13, C17, C20).
The oracle is rustc itself (does the program compile without any diagnostic?) or lives inside the
program (std-derived twins), so no model is involved in these verdicts."""
import random

PRELUDE = '''#![allow(dead_code, unused_imports, non_camel_case_types, non_snake_case, non_upper_case_globals)]
#![deny(warnings)]
#![allow(dead_code, unused_imports, non_camel_case_types, non_snake_case, non_upper_case_globals)]
use derive_ex::{derive_ex, Ex};
mod helpers {
    use ::core::cmp::Ordering;
    use ::core::hash::{Hash, Hasher};
    pub trait Tr<T: ?Sized = ()> {}
    impl<A: ?Sized, B: ?Sized> Tr<B> for A {}
    pub fn fe<T: PartialEq + ?Sized>(a: &T, b: &T) -> bool { a == b }
    pub fn fo<T: Ord + ?Sized>(a: &T, b: &T) -> Ordering { a.cmp(b) }
    pub fn fp<T: PartialOrd + ?Sized>(a: &T, b: &T) -> Option<Ordering> { a.partial_cmp(b) }
    pub fn fh<T: Hash + ?Sized, H: Hasher>(a: &T, h: &mut H) { a.hash(h) }
    pub fn ksz<T: ?Sized>(_: &T) -> u8 { 0 }
    pub const K: i8 = 7;
}
'''

CMP = ['Ord', 'PartialOrd', 'Eq', 'PartialEq']
BINOPS = ['Add', 'BitAnd', 'BitOr', 'BitXor', 'Div', 'Mul', 'Rem', 'Shl', 'Shr', 'Sub']


def closed_cmp_sets():
    out = [[], ['PartialEq'], ['PartialEq', 'Eq'], ['PartialEq', 'PartialOrd'], ['PartialEq', 'Eq', 'PartialOrd'],
           ['PartialEq', 'Eq', 'PartialOrd', 'Ord']]
    return out


class Names:
    """identifiers used by a generated item; C13 substitutes hostile ones"""

    def __init__(self, ty='X', T='T', U='U', N='N', lt="'a", fields=('a', 'b', 'c', 'd'), variants=('A', 'B', 'C', 'D')):
        self.ty, self.T, self.U, self.N, self.lt = ty, T, U, N, lt
        self.fields, self.variants = list(fields), list(variants)


def gen_item(rng, names=None, want_enum=None, allow_attrs=True, plain=False, absolute=False, gkinds=None):
    """Returns dict(src=<item with derive_ex attribute>, traits=[...], desc={...}).
    The item is well-typed by construction: every trait list is supertrait-closed, field types support the
    derived traits given the bounds the expander adds, `by`/`key` on generic fields carry an explicit bound."""
    n = names or Names()
    is_enum = rng.random() < 0.45 if want_enum is None else want_enum
    # ---- generics
    gkind = rng.choice(gkinds or ['none', 'none', 'T', 'T', 'TU', 'ltT', 'TN', 'Tdef', 'Tbound', 'Tself'])
    has_T = gkind != 'none'
    has_U = gkind == 'TU'
    has_lt = gkind == 'ltT'
    has_N = gkind == 'TN'
    params = []
    if has_lt:
        params.append(n.lt)
    if has_T:
        if gkind == 'Tdef':
            params.append(f'{n.T} = u8')
        elif gkind == 'Tbound':
            params.append(f'{n.T}: helpers::Tr')
        elif gkind == 'Tself':
            params.append(f'{n.T}: helpers::Tr<Self>')
        else:
            params.append(n.T)
    if has_U:
        params.append(n.U)
    if has_N:
        params.append(f'const {n.N}: usize')
    generics = f"<{', '.join(params)}>" if params else ''
    where = ''
    if has_T and rng.random() < 0.3:
        SZ = '::core::marker::Sized' if absolute else 'Sized'
        VC = '::std::vec::Vec' if absolute else 'Vec'
        where = rng.choice([f' where {n.T}: helpers::Tr', f' where Self: {SZ}', f' where {n.T}: helpers::Tr<Self>, Self: {SZ}',
                            f' where {VC}<Self>: {SZ}'])
    # ---- trait list
    cmp_set = rng.choice(closed_cmp_sets())
    others = []
    want_ops = (not is_enum) and rng.random() < 0.3
    want_deref = (not is_enum) and rng.random() < 0.12
    pool_basic = ['Clone', 'Debug', 'Default', 'Hash']
    for t in pool_basic:
        if rng.random() < 0.5:
            others.append(t)
    if 'Clone' in others and rng.random() < 0.35:
        others.append('Copy')
    if has_lt and 'Default' in others:
        others.remove('Default')
    ops = []
    if want_ops:
        k = rng.choice([1, 1, 2, 3])
        for o in rng.sample(BINOPS, k):
            ops.append(o)
            if rng.random() < 0.5:
                ops.append(o + 'Assign')
        if rng.random() < 0.4:
            ops.append(rng.choice(['Neg', 'Not']))
    traits = list(cmp_set) + others + ops
    if want_deref:
        traits = [t for t in traits if t not in ops] + ['Deref'] + (['DerefMut'] if rng.random() < 0.6 else [])
    if not traits:
        traits = ['Clone']
    rng.shuffle(traits)
    copy = 'Copy' in traits
    dflt = 'Default' in traits
    has_ops = any(t in traits for t in ops)
    # ---- field types
    T, U, N, LT = n.T, n.U, n.N, n.lt
    OPT = '::core::option::Option' if absolute else 'Option'
    VEC = '::std::vec::Vec' if absolute else 'Vec'
    BOX = '::std::boxed::Box' if absolute else 'Box'
    STRING = '::std::string::String' if absolute else 'String'
    SIZED = '::core::marker::Sized' if absolute else 'Sized'
    ORD = '::core::cmp::Ord' if absolute else 'Ord'
    used_params = set()

    def field_types():
        c = ['i8', 'i8']
        if has_ops:
            # operator impls exist for i8 and for the parameters (through the generated where-clause)
            if has_T:
                c += [T, T]
            if has_U:
                c += [U]
            return c
        c += ['(i8, bool)', f'{OPT}<i8>']
        if not copy:
            c += [STRING, f'{VEC}<i8>']
        if has_T:
            c += [T, T, f'{OPT}<{T}>', f'({T}, i8)', f'::core::marker::PhantomData<{T}>']
            if not copy:
                c += [f'{VEC}<{T}>', f'{BOX}<{T}>']
        if has_U:
            c += [U, f'({T}, {U})']
        if has_N and not dflt:
            c += [f'[{T}; {N}]', f'[i8; {N}]']
        if has_lt and not dflt:
            c += [f"&{LT} {T}", f"&{LT} str"]
        return c
    ftypes = field_types()

    by_used = []

    def field_attrs(ty, pos, nf):
        """comparison / debug / default helper attributes that keep the item accepted and well-typed"""
        if not allow_attrs or plain:
            return ''
        out = []
        generic = has_T and (T in ty.replace('helpers::Tr', '') or (has_U and U in ty))
        if cmp_set or 'Hash' in traits:
            r = rng.random()
            if r < 0.10:
                out.append('#[ord(ignore)]')
            elif r < 0.18 and ('PartialOrd' in traits):
                out.append('#[ord(reverse)]')
            elif r < 0.30:
                out.append('#[ord(key = helpers::ksz(&$))]')
            elif r < 0.45:
                # `by` on first / middle / last fields, also on fields of generic type (with an explicit bound)
                b = ', bound(..)' if rng.random() < 0.3 else ''
                need = []
                if generic:
                    need = [f'{ty}: {ORD} + ::core::hash::Hash']
                    b = f', bound({need[0]})'
                rev = 'reverse, ' if ('PartialOrd' in traits and rng.random() < 0.3) else ''
                out.append(f'#[ord({rev}by = helpers::fo{b})]')
                if 'Hash' in traits:
                    # `hash(by)` ends the consultation of lower-priority attributes for Hash, so the bound
                    # its function needs has to sit on the `hash` attribute itself
                    hb = f', bound({ty}: ::core::hash::Hash)' if generic else ''
                    out.append(f'#[hash(by = helpers::fh{hb})]')
                by_used.append(pos)
        if 'Debug' in traits and rng.random() < 0.15:
            out.append('#[debug(ignore)]')
        if dflt and rng.random() < 0.2 and ty == 'i8':
            out.append(rng.choice(['#[default(3)]', '#[default(helpers::K)]', '#[default(-1)]', '#[default(_)]', '#[default]']))
        if dflt and rng.random() < 0.2 and ty == STRING:
            out.append('#[default("s")]')
        return ' '.join(out) + (' ' if out else '')

    def fields(kind, nf, base):
        fs = []
        for i in range(nf):
            ty = rng.choice(ftypes)
            import re as _re
            for pn in (T, U, N, LT):
                if _re.search(r"(?<![A-Za-z0-9_#':])" + _re.escape(pn) + r'(?![A-Za-z0-9_])', ty):
                    used_params.add(pn)
            at = field_attrs(ty, i, nf)
            if kind == 'named':
                fs.append(f'{at}{n.fields[i]}: {ty}')
            else:
                fs.append(f'{at}{ty}')
        if kind == 'named':
            return ' { ' + ', '.join(fs) + ' }'
        if kind == 'tuple':
            return '(' + ', '.join(fs) + ')'
        return ''
    entry = rng.choice(['attr', 'attr', 'derive'])
    tlist = ', '.join(traits)
    head = f'#[derive_ex({tlist})]' if entry == 'attr' else f'#[derive(Ex)]\n#[derive_ex({tlist})]'
    if is_enum:
        nv = rng.choice([0, 1, 1, 2, 2, 3])
        if dflt and nv == 0:
            nv = 1
        vs = []
        dv = rng.randrange(nv) if nv else 0
        for i in range(nv):
            kind = rng.choice(['unit', 'tuple', 'named'])
            nf = 0 if kind == 'unit' else rng.choice([0, 1, 2, 3])
            mark = '#[default] ' if (dflt and i == dv and (nv > 1 or rng.random() < 0.5)) else ''
            vs.append(f'{mark}{n.variants[i]}{fields(kind, nf, i)}')
        body = ' { ' + ', '.join(vs) + ' }'
        src = f'{head}\npub enum {n.ty}{generics}{where}{body}'
        shape = f'enum{nv}'
    else:
        if 'Deref' in traits:
            kind, nf = rng.choice([('tuple', 1), ('named', 1)])
        else:
            kind = rng.choice(['unit', 'tuple', 'tuple', 'named', 'named'])
            nf = 0 if kind == 'unit' else rng.choice([0, 1, 2, 3, 4])
        fs = fields(kind, nf, 0)
        if kind == 'named':
            src = f'{head}\npub struct {n.ty}{generics}{where}{fs}'
        elif kind == 'tuple':
            src = f'{head}\npub struct {n.ty}{generics}{fs}{where};'
        else:
            src = f'{head}\npub struct {n.ty}{generics}{where};'
        shape = f'{kind}{nf}'
    # unused parameters are an error (E0392): make every declared parameter used through a marker field
    need = ([T] if has_T else []) + ([U] if has_U else []) + ([N] if has_N else []) + ([LT] if has_lt else [])
    return dict(src=src, traits=traits, params_all_used=all(p in used_params for p in need),
                desc=dict(shape=shape, generics=gkind, entry=entry, by_positions=by_used, where=bool(where)))


def uses(src, name):
    import re
    return re.search(r'(?<![A-Za-z0-9_\'])' + re.escape(name) + r'(?![A-Za-z0-9_])', src.split('\n')[-1].split('{', 1)[-1] if '{' in src else src) is not None


def gen_c20_case(seed, idx):
    rng = random.Random(seed * 1000003 + idx)
    for _ in range(80):
        it = gen_item(rng)
        if it['params_all_used']:      # an unused parameter is E0392, not derive_ex's business
            return dict(it, id=f'c20/{seed}/{idx}', item=it['src'], src=PRELUDE + it['src'] + '\n')
    return dict(id=f'c20/{seed}/{idx}', item='', src=PRELUDE + '#[derive_ex(Clone)] pub struct X(i8);\n', traits=['Clone'],
                desc=dict(shape='fallback'))


# ---------------------------------------------------------------- C13: hostile names and scopes
HOSTILE_TYPE_PARAMS = ['H', 'T', 'Eq', 'Fn', 'Self_', 'Rhs', 'Output', 'Target', 'Formatter', 'Hasher', 'Ordering', 'Option', 'r#type']
HOSTILE_CONST_PARAMS = ['N', 'H', 'T', 'LEN', 'r#N']
# names the expansion uses for its own locals / parameters / closures
EXPANSION_LOCALS = ['f', 'state', 'this', 'other', 'rhs', 'source', 'lhs', 'o', 'to_index', 'l_0', 'r_0', '_0', '_self_0',
                    '_other_0', '_this_0', 'l_a', 'r_a', '_a', '_self_a', '_other_a', '_this_a', 'eq', 'cmp', 'partial_cmp', 'hash',
                    '_eq', '_f', 'clone', 'fmt', 'default']
HOSTILE_FIELDS = ['this', 'other', 'state', 'f', 'rhs', 'source', 'lhs', 'o', 'to_index', 'r#type', 'r#fn', 'r#match', 'eq', 'cmp',
                  'hash', 'clone', 'fmt', 'default', 'deref', 'l_0', '_0', 'self_', 'r#struct', 'r#ref', 'r#mut']
HOSTILE_VARIANTS = ['None', 'Some', 'Ok', 'Err', 'Option', 'Ordering', 'Equal', 'Less', 'Self_', 'Default', 'Clone', 'Eq', 'Fn',
                    'Formatter', 'Result', 'r#Box', 'T', 'H']
HOSTILE_TYPES = ['Option', 'Result', 'Eq', 'Fn', 'Clone', 'Default', 'Ordering', 'Hasher', 'Formatter', 'Debug', 'Hash', 'Ord',
                 'PartialEq', 'PartialOrd', 'Copy', 'Sized', 'Some', 'None', 'Vec_', 'Box_', 'r#type', 'T', 'H', 'X']
HOSTILE_LIFETIMES = ["'a", "'b", "'r#type" if False else "'x", "'this", "'state"]

SHADOW = '''
#[allow(unused_macros)]
mod shadow {
    pub struct Some; pub struct None; pub struct Ok; pub struct Err;
    pub trait Eq {} pub trait Fn {} pub trait Ord {} pub trait PartialEq {} pub trait PartialOrd {} pub trait Hash {}
    pub trait Clone {} pub trait Copy {} pub trait Default {} pub trait Debug {} pub trait Sized {} pub trait Into {} pub trait Hasher {}
    pub struct Ordering; pub struct Formatter; pub enum Result { A } pub enum Option_ { A }
    pub fn drop() {}
    pub mod core {} pub mod std {}
}
'''


def gen_c13_case(seed, idx):
    """a well-typed item (C20 grammar) with user-chosen names drawn from a hostile dictionary, in one of three scopes"""
    rng = random.Random(seed * 7000003 + idx)
    scope = ['plain', 'shadow', 'no_std'][idx % 3]
    for _ in range(60):
        fields = rng.sample(HOSTILE_FIELDS, 4)
        variants = rng.sample(HOSTILE_VARIANTS, 4)
        tp = rng.sample(HOSTILE_TYPE_PARAMS, 2)
        ty = rng.choice(HOSTILE_TYPES)
        # a type parameter, the type and its variants live in one namespace: keep them distinct
        if ty in tp or ty in variants:
            continue
        use_local_const = rng.random() < 0.25
        cn = rng.choice(EXPANSION_LOCALS) if use_local_const else rng.choice(HOSTILE_CONST_PARAMS)
        if cn in tp or cn == ty:
            continue
        names = Names(ty=ty, T=tp[0], U=tp[1], N=cn, lt=rng.choice(HOSTILE_LIFETIMES), fields=fields, variants=variants)
        it = gen_item(rng, names=names, absolute=True, gkinds=['none', 'T', 'TU', 'ltT', 'ltT', 'TN', 'TN', 'TN', 'Tdef', 'Tbound', 'Tself'])
        src = it['src']
        if not it['params_all_used']:
            continue
        pre = PRELUDE
        if scope == 'no_std':
            if '::std::' in src:
                continue
            pre = '#![no_std]\n' + PRELUDE
        if scope == 'shadow':
            body = f'mod case {{\n#[allow(unused_imports)] use super::shadow::*;\nuse super::helpers;\nuse derive_ex::{{derive_ex, Ex}};\n{src}\n}}\n'
            full = pre + SHADOW + body
        else:
            full = pre + src + '\n'
        return dict(it, id=f'c13/{seed}/{idx}', item=src, src=full, scope=scope,
                    names=dict(ty=ty, T=names.T, U=names.U, N=names.N, lt=names.lt, fields=fields, variants=variants))
    return dict(id=f'c13/{seed}/{idx}', item='', src=PRELUDE + '#[derive_ex(Clone)] pub struct X(i8);\n', traits=['Clone'],
                desc=dict(shape='fallback'), scope=scope, names={})


# ---------------------------------------------------------------- C12: twins against the standard derives
C12_PRELUDE = '''#![allow(dead_code, unused_imports, unused_variables, unused_mut, non_camel_case_types, non_snake_case, unreachable_code, unreachable_patterns)]
use derive_ex::{derive_ex, Ex};
use std::fmt::Debug;
use std::hash::{Hash, Hasher};
use std::collections::hash_map::DefaultHasher;
static Z0: i8 = 0; static Z1: i8 = 1;
pub fn fmts<T: Debug + ?Sized>(v: &T) -> Vec<String> {
    vec![format!("{:?}", v), format!("{:#?}", v), format!("{:5?}", v), format!("{:<8?}|", v), format!("{:+?}", v),
         format!("{:.2?}", v), format!("{:x?}", v), format!("{:#x?}", v), format!("{:08?}", v), format!("{:^+9.1?}", v)]
}
pub fn h<T: Hash + ?Sized>(v: &T) -> u64 { let mut s = DefaultHasher::new(); v.hash(&mut s); s.finish() }
'''

C12_TRAITS = ['Clone', 'Debug', 'Default', 'PartialEq', 'Eq', 'PartialOrd', 'Ord', 'Hash']


def _c12_case(rng, idx):
    mod = f'c{idx}'
    tyname = rng.choice(['X', 'X', 'X', 'r#type', 'r#struct'])
    shape = rng.choice(['struct', 'struct', 'enum', 'enum', 'unsized', 'lifetime', 'constgen', 'empty_enum', 'default_param'])
    fields_pool = [('i8', ['0', '1', '-1']), ('bool', ['false', 'true']), ('(i8, bool)', ['(0, true)', '(1, false)']),
                   ('Option<i8>', ['None', 'Some(0)']), ('String', ['String::new()', 'String::from("a")'])]
    gen_decl, gen_use = '', ''
    where = ''
    traits = [t for t in C12_TRAITS if rng.random() < 0.75]
    foreign = rng.choice(['', '', '#[repr(C)] ', '#[non_exhaustive] ', '#[doc = "x"] '])
    if shape in ('struct', 'enum') and rng.random() < 0.4:
        gen_decl, gen_use = '<T>', '<i8>'
        fields_pool = fields_pool + [('T', ['0', '1']), ('Option<T>', ['None', 'Some(1)']), ('(T, bool)', ['(0, true)', '(1, false)'])]
        if rng.random() < 0.3:
            where = ' where T: Copy'
    if shape == 'default_param':
        gen_decl, gen_use = '<T = i8>', ''
        fields_pool = fields_pool + [('T', ['0', '1'])]
        shape = 'struct'
    if shape == 'lifetime':
        gen_decl, gen_use = "<'a, T>", "<'static, i8>"
        fields_pool = [("&'a T", ['&Z0', '&Z1']), ('i8', ['0', '1']), ("&'a str", ['"a"', '"b"'])]
        traits = [t for t in traits if t != 'Default']
        shape = rng.choice(['struct', 'enum'])
    if shape == 'constgen':
        gen_decl, gen_use = '<T, const N: usize>', '<i8, 2>'
        fields_pool = [('[T; N]', ['[0, 1]', '[1, 0]']), ('i8', ['0', '1']), ('T', ['0', '1'])]
        traits = [t for t in traits if t != 'Default']
        shape = 'struct'
    if 'Eq' in traits and 'PartialEq' not in traits:
        traits.append('PartialEq')
    if 'PartialOrd' in traits and 'PartialEq' not in traits:
        traits.append('PartialEq')
    if 'Ord' in traits:
        for t in ('PartialOrd', 'Eq', 'PartialEq'):
            if t not in traits:
                traits.append(t)
    if not traits:
        traits = ['Debug']
    raw_names = rng.random() < 0.2
    fnames = ['r#type', 'r#fn', 'c', 'd'] if raw_names else ['a', 'b', 'c', 'd']
    vnames = ['r#Self_', 'r#Box', 'C', 'D'] if raw_names and rng.random() < 0.5 else ['A', 'B', 'C', 'D']
    values = []   # constructor expressions with the placeholder `@` for the module path

    def mk_fields(kind, nf, pub=''):
        fs = [rng.choice(fields_pool) for _ in range(nf)]
        if kind == 'named':
            decl = ' { ' + ', '.join(f'{pub}{fnames[i]}: {t}' for i, (t, _) in enumerate(fs)) + ' }'
        elif kind == 'tuple':
            decl = '(' + ', '.join(pub + t for t, _ in fs) + ')'
        else:
            decl = ''
        # value tuples: all combinations, capped
        combos = [[]]
        for _, dom in fs:
            combos = [c + [v] for c in combos for v in dom]
        rng.shuffle(combos)
        combos = combos[:6]

        def ctor(c):
            if kind == 'named':
                return ' { ' + ', '.join(f'{fnames[i]}: {v}' for i, v in enumerate(c)) + ' }'
            if kind == 'tuple':
                return '(' + ', '.join(c) + ')'
            return ''
        return decl, [ctor(c) for c in combos]
    if shape == 'empty_enum':
        traits = [t for t in traits if t != 'Default']
        if 'repr' in foreign:
            foreign = ''
        item = f'pub enum {tyname} {{}}'
        values = []
    elif shape == 'unsized':
        traits = [t for t in traits if t not in ('Clone', 'Default')]
        gen_decl, gen_use = '<T: ?Sized>', '<[i8]>'
        kind = rng.choice(['tuple', 'named'])
        if kind == 'tuple':
            item = f'pub struct {tyname}<T: ?Sized>(pub i8, pub T);'
            values = ['&@(0, [0i8, 1]) as &@<[i8]>'.replace('@', '@'), '&@(1, [1i8, 1]) as &@<[i8]>', '&@(0, [2i8, 0]) as &@<[i8]>']
        else:
            item = f'pub struct {tyname}<T: ?Sized> {{ pub {fnames[0]}: i8, pub {fnames[1]}: T }}'
            values = ['&@ { %s: 0, %s: [0i8, 1] } as &@<[i8]>' % (fnames[0], fnames[1]),
                      '&@ { %s: 1, %s: [1i8, 1] } as &@<[i8]>' % (fnames[0], fnames[1])]
    elif shape == 'struct':
        kind = rng.choice(['unit', 'tuple', 'tuple', 'named', 'named'])
        nf = 0 if kind == 'unit' else rng.choice([0, 1, 2, 3, 4])
        decl, ctors = mk_fields(kind, nf, 'pub ')
        if kind == 'named':
            item = f'pub struct {tyname}{gen_decl}{where}{decl}'
        elif kind == 'tuple':
            item = f'pub struct {tyname}{gen_decl}{decl}{where};'
        else:
            item = f'pub struct {tyname}{gen_decl}{where};'
        values = [f'@{c}' for c in ctors]
    else:
        nv = rng.choice([1, 2, 3, 4])
        vs = []
        dv = None
        kinds = [rng.choice(['unit', 'tuple', 'named']) for _ in range(nv)]
        if 'Default' in traits:
            if 'unit' not in kinds:
                kinds[rng.randrange(nv)] = 'unit'
            dv = kinds.index('unit')
        for i in range(nv):
            nf = 0 if kinds[i] == 'unit' else rng.choice([0, 1, 2, 3])
            decl, ctors = mk_fields(kinds[i], nf)
            mark = '#[default] ' if dv == i else ''
            vs.append(f'{mark}{vnames[i]}{decl}')
            values += [f'@::{vnames[i]}{c}' for c in ctors]
        item = f'pub enum {tyname}{gen_decl}{where} {{ ' + ', '.join(vs) + ' }'
    # generic parameters must be used
    import re
    body = item.split(tyname, 1)[1]
    if gen_decl and shape != 'unsized':
        inner = body[len(gen_decl):]
        for pname in re.findall(r"(?:const )?('?[A-Za-z_]+)(?=[,>: =])", gen_decl):
            pass
        for pname in (['T'] if 'T' in gen_decl else []) + (['N'] if 'N' in gen_decl else []) + (["'a"] if "'a" in gen_decl else []):
            if not re.search(r"(?<![A-Za-z0-9_'])" + re.escape(pname) + r'(?![A-Za-z0-9_])', re.sub(r'where[^{(;]*', '', inner)):
                return None
    tl = ', '.join(traits)
    entry = rng.choice(['attr', 'derive'])
    dhead = f'#[derive_ex({tl})]' if entry == 'attr' else f'#[derive(Ex)] #[derive_ex({tl})]'
    src = f'pub mod {mod} {{ use super::*;\n pub mod d {{ use super::*; {foreign}{dhead} {item} }}\n pub mod s {{ use super::*; {foreign}#[derive({tl})] {item} }}\n'
    is_unsized = shape == 'unsized'
    vt_d = f'd::{tyname}{gen_use}'
    vt_s = f's::{tyname}{gen_use}'
    if is_unsized:
        dv_list = ', '.join(v.replace('@<', f'd::{tyname}<').replace('@', f'd::{tyname}') for v in values)
        sv_list = ', '.join(v.replace('@<', f's::{tyname}<').replace('@', f's::{tyname}') for v in values)
        vec_d = f'let dv: Vec<&{vt_d}> = vec![{dv_list}];'
        vec_s = f'let sv: Vec<&{vt_s}> = vec![{sv_list}];'
        deref = '*'
    else:
        dv_list = ', '.join(v.replace('@', f'd::{tyname}') for v in values)
        sv_list = ', '.join(v.replace('@', f's::{tyname}') for v in values)
        vec_d = f'let dv: Vec<{vt_d}> = vec![{dv_list}];'
        vec_s = f'let sv: Vec<{vt_s}> = vec![{sv_list}];'
        deref = ''
    chk = []
    if 'Debug' in traits:
        chk.append(f'for i in 0..dv.len() {{ n += 1; if fmts(&dv[i]) != fmts(&sv[i]) {{ println!("{mod} FAIL debug {{}} {{:?}} vs {{:?}}", i, fmts(&dv[i]), fmts(&sv[i])); }} }}')
    if 'PartialEq' in traits:
        chk.append(f'for i in 0..dv.len() {{ for j in 0..dv.len() {{ n += 1; if (dv[i] == dv[j]) != (sv[i] == sv[j]) {{ println!("{mod} FAIL eq {{}} {{}}", i, j); }} }} }}')
    if 'PartialOrd' in traits:
        chk.append(f'for i in 0..dv.len() {{ for j in 0..dv.len() {{ n += 1; if dv[i].partial_cmp(&dv[j]) != sv[i].partial_cmp(&sv[j]) {{ println!("{mod} FAIL partial_cmp {{}} {{}}", i, j); }} }} }}')
    if 'Ord' in traits:
        chk.append(f'for i in 0..dv.len() {{ for j in 0..dv.len() {{ n += 1; if dv[i].cmp(&dv[j]) != sv[i].cmp(&sv[j]) {{ println!("{mod} FAIL cmp {{}} {{}}", i, j); }} }} }}')
    if 'Hash' in traits and 'PartialEq' in traits:
        chk.append(f'for i in 0..dv.len() {{ for j in 0..dv.len() {{ n += 1; if dv[i] == dv[j] && h(&dv[i]) != h(&dv[j]) {{ println!("{mod} FAIL hash {{}} {{}}", i, j); }} }} }}')
    if 'Clone' in traits and 'Debug' in traits and not is_unsized:
        chk.append(f'for i in 0..dv.len() {{ n += 1; if fmts(&dv[i].clone()) != fmts(&sv[i].clone()) {{ println!("{mod} FAIL clone {{}}", i); }} }}')
        chk.append(f'for i in 0..dv.len() {{ for j in 0..dv.len() {{ n += 1; let mut x = dv[i].clone(); x.clone_from(&dv[j]); let mut y = sv[i].clone(); y.clone_from(&sv[j]); if fmts(&x) != fmts(&y) {{ println!("{mod} FAIL clone_from {{}} {{}}", i, j); }} }} }}')
    if 'Default' in traits and 'Debug' in traits and not is_unsized:
        chk.append(f'n += 1; if fmts(&<{vt_d}>::default()) != fmts(&<{vt_s}>::default()) {{ println!("{mod} FAIL default"); }}')
    src += f' pub fn run() {{ let mut n = 0u32; {vec_d} {vec_s} {" ".join(chk)} println!("{mod} ok {{}}", n); }}\n}}\n'
    return dict(mod=mod, src=src, traits=traits, shape=shape, item=f'{dhead} {item}', raw=raw_names or tyname.startswith('r#'))


def gen_c12_program(seed, start, count):
    rng = random.Random(seed * 9000011 + start)
    cases = []
    i = start
    while len(cases) < count:
        c = _c12_case(rng, i)
        if c:
            cases.append(c)
            i += 1
    src = C12_PRELUDE + ''.join(c['src'] for c in cases) + 'fn main() { ' + ' '.join(f"{c['mod']}::run();" for c in cases) + ' }\n'
    return src, cases
