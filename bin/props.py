"""Per-property plans: theorems to audit, L1 families, segment labels, extras."""
import json
import os
import re
import vlib

TRUSTED_BASE = [
    'Lean 4.33 kernel; axioms per theorem as listed under coverage.theorems (allow-list: propext, Classical.choice, Quot.sound); no sorry/admit/native_decide/bv_decide/own axioms (grep + #print axioms on every run)',
    'hand-written Lean model of the expander (lean/DeriveExModel/{Syntax,Core,Cmp,Basic,ItemImpl,Entry}.lean), tied to /repo by the L1 token-for-token correspondence run on every check (harness/xcheck against the expander rebuilt from the working tree with --cfg frozenlib_derive_ex_verif)',
    'Spec/*.lean: the documented behaviour, written by hand from doc/derive_ex.md and the property statements',
    'Sem/*.lean: meaning of the emitted templates (modelled, validated by L2 where present, not proved)',
    'syn/structmeta parsing and printing, rustc and the standard library (exercised on every case, not modelled)',
]

CMP = 'DeriveExModel.Props.'

PROPS = {
    'C01': dict(
        theorems=[(CMP + 'C01', ['DX.eq_follows_doc', 'DX.partial_cmp_follows_doc', 'DX.cmp_follows_doc',
                                 'DX.body_independent_of_entry'])],
        l1=[('cmp1', 'all', 'all'), ('cmp1all', 20000, 'all'), ('cmpN', 4000, 200000), ('cmpWild', 1000, 50000)],
        labels=r':(PartialEq|PartialOrd|Ord)$',
        explanation='theorems: for every item, accepted attribute placement, environment and value pair the generated ==/partial_cmp/cmp equal the documented lexicographic rule; L1: the exhaustive 3136-combination single-field matrix x 4 shapes x 2 entry points (x 31 trait sets in the thorough tier) plus random multi-field items, compared token for token',
    ),
    'C05': dict(
        theorems=[(CMP + 'C05', ['DX.field_error_iff_misuse', 'DX.trait_error_iff_misuse', 'DX.valid_use_accepted',
                                 'DX.misplaced_iff', 'DX.struct_entries_isolated'])],
        l1=[('cmp1', 'all', 'all'), ('cmp1all', 20000, 'all'), ('cmpWild', 3000, 100000)],
        labels=r':(PartialEq|PartialOrd|Ord|Eq|Hash)$|^err$|^item$',
        explanation='theorems: a trait is refused iff some field is misused for it (M1-M3), misplaced arguments are refused, entries are isolated; L1: accept/reject class of every segment over the exhaustive matrix',
    ),
    'C06': dict(
        theorems=[(CMP + 'C06', ['DX.feed_follows_doc', 'DX.equal_inputs_equal_feed', 'DX.feed_injective'])],
        l1=[('cmp1', 'all', 'all'), ('cmpN', 4000, 200000)],
        labels=r':Hash$',
    ),
    'C17': dict(
        theorems=[(CMP + 'C17', ['DX.eq_assert_exact'])],
        l1=[('cmp1', 'all', 'all'), ('cmpN', 4000, 200000)],
        labels=r':Eq(#1)?$',
    ),
}


def search_failing_input(prop, mismatch, payload):
    """Given an L1 disagreement, look for a concrete input on which the property
    itself fails on the implementation.  Returns True if one was found (and adds it
    to the payload)."""
    return False


def replay(prop, path):
    d = json.load(open(path))
    cid = d.get('case')
    if not cid:
        print(json.dumps(d, indent=1)[:4000])
        return 1
    fam, *rest = cid.split('/')
    seed, idx = (rest + ['0'])[-2:] if len(rest) >= 2 else ('0', rest[0])
    b = vlib.Build()
    b.lean()
    b.harness()
    res = vlib.run_l1(prop + '-replay', fam, int(seed), 1, start=int(idx))
    bad = [m for m in res['mismatches'] if vlib.relevant(m, PROPS[prop]['labels'])]
    if bad:
        print(json.dumps(bad, indent=1)[:6000])
        print(f'VIOLATION property={prop} replay={path}')
        return 1
    print('replay: no disagreement on this case any more')
    return 0

HOOK_COMMITS = ['d134f0d']
NOT_YET = {}
