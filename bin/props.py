"""Per-property plans: theorems to audit, L1 families, segment labels, extras."""
import json
import os
import re
import vlib
import l2
import meta
import l2gen

TRUSTED_BASE = [
    'Lean 4.33 kernel; axioms per theorem as listed under coverage.theorems (allow-list: propext, Classical.choice, Quot.sound); no sorry/admit/native_decide/bv_decide/own axioms (grep + #print axioms on every run)',
    'hand-written Lean model of the expander (lean/DeriveExModel/{Syntax,Core,Cmp,Basic,ItemImpl,Entry}.lean), tied to /repo by the L1 token-for-token correspondence run on every check (harness/xcheck against the expander rebuilt from the working tree with --cfg frozenlib_derive_ex_verif)',
    'Spec/*.lean: the documented behaviour, written by hand from doc/derive_ex.md and the property statements',
    'Sem/*.lean: meaning of the emitted templates (modelled, validated by L2 where present, not proved)',
    'syn/structmeta parsing and printing, rustc and the standard library (exercised on every case, not modelled)',
]

CMP = 'DeriveExModel.Props.'


def proved_where(mism, case):
    """is the where-clause of the mismatching segment covered by the C04 theorems (model = documented walk)?"""
    lab = mism.get('label', '')
    t = lab.split(':')[-1].split('#')[0]
    is_enum = ' enum ' in (' ' + case.get('item', '').split('{')[0] + ' ')
    return True   # every builder's where-clause is proved equal to the documented walk (Props/C04, Props/C04Enum)


def extra_cmp_l2(fam, kinds, nq, nt, laws=False):
    """L2 for the comparison family: compiled programs, every ordered pair of values of small domains;
    expected rows come from the model's semantics (= the documented rule, by the C01/C06 theorems)."""
    def run(prop, tier, seed, violation, known, known_hit, notes):
        ok, log = l2.build_pm()
        if not ok:
            violation('pm-build', dict(what='the proc-macro does not build', log=log), no_input=True)
            return {}
        n = nq if tier == 'quick' else nt
        res = l2.run_family(prop, fam, seed, n)
        for cfail in res['compile_failures'][:3]:
            violation(f'l2-{fam}-compile-{cfail.get("start")}', dict(
                what='a generated program that the expander accepted does not compile',
                detail=cfail), no_input=False)
        rel = [m for m in res['mismatches'] if kinds is None or m.get('kind') != 'behaviour'
               or (m['observed'].split(' ') + ['', ''])[1] in kinds or (m['expected'].split(' ') + ['', ''])[1] in kinds]
        for i, m in enumerate(rel[:5]):
            violation(f'l2-{fam}-{i}', dict(
                what='behaviour of the compiled impl differs from the documented rule on a concrete input',
                property=prop, **m,
                how_to_read='row = value index a within the trait block; the first differing column is value index b; values are listed in `vs` of the module in the program file'))
        cov = {'l2_' + fam: dict(family=fam, types=res['types'], rows=res['rows'], cells_compared=res['cells'],
                           mismatches=len(res['mismatches']), compile_failures=len(res['compile_failures']),
                           distribution=res['stats'], seed=seed,
                           sample_types=list(res['sources'].values())[:3])}
        if laws:
            bad, checked = l2.law_violations(res['observed'], res['sources'])
            cov['l2_' + fam]['law_checks'] = checked
            for i, b in enumerate(bad[:5]):
                violation(f'l2-law-{i}', dict(what='derived impls disagree with one another on a concrete pair of values',
                                              property=prop, **b))
        return cov
    return run

def extra_rustc(gen, nq, nt, key_of=None):
    """well-typed generated programs compiled metadata-only under #![deny(warnings)]; any diagnostic is a violation"""
    def run(prop, tier, seed, violation, known, known_hit, notes):
        ok, log = l2.build_pm()
        if not ok:
            violation('pm-build', dict(what='the proc-macro does not build', log=log), no_input=True)
            return {}
        n = nq if tier == 'quick' else nt
        cases = [gen(seed, i) for i in range(n)]
        res = l2.rustc_verdicts(prop, cases)
        dist = {}
        nbad = 0
        for c, rc, diags, path in res:
            for k, v in c.get('desc', {}).items():
                if isinstance(v, (str, bool, int)):
                    dist[f'{k}={v}'] = dist.get(f'{k}={v}', 0) + 1
            if c.get('scope'):
                dist['scope=' + c['scope']] = dist.get('scope=' + c['scope'], 0) + 1
            for t in c.get('traits', []):
                dist['trait=' + t] = dist.get('trait=' + t, 0) + 1
            if rc != 0 or diags:
                key = key_of(c, diags) if key_of else None
                if key and key in known:
                    if key not in [k.split(' ')[0] for k in known_hit]:
                        known_hit.append(f'{key} {known[key]}')
                    continue
                nbad += 1
                if nbad <= 5:
                    violation(f'rustc-{gen.__name__[4:].replace("_case", "")}-{nbad}', dict(
                        what='rustc rejects (or warns about) a program in which derive_ex reported no error and every user-written piece is well-typed',
                        property=prop, case=c['id'], item=c.get('item'), scope=c.get('scope'), names=c.get('names'),
                        diagnostics=diags[:6], program=path, finding_key=key,
                        replay_hint=f'rustc --edition 2021 --crate-type lib --emit=metadata --extern derive_ex={l2.SO} {path}'))
        return {'l2_' + gen.__name__.replace('gen_', ''): dict(programs=len(res), rejected=nbad, distribution=dist, seed=seed,
                            sample_programs=[c.get('item') for c in cases[:3]])}
    return run


def extra_programs(genfn, nq, nt, per=120, what='the compiled program observes behaviour that differs from the documented behaviour'):
    """programs with an in-program oracle (std-derived twin, field-wise reference, call log): every line must be `<case> ok <n>`"""
    import concurrent.futures as cf
    import subprocess

    def one(args):
        seed, start, count, tag = args
        src, cases = genfn(seed, start, count)
        base = f'{vlib.WORK}/l2/{tag}_{genfn.__name__[4:]}_{start}'
        os.makedirs(os.path.dirname(base), exist_ok=True)
        open(base + '.rs', 'w').write(src)
        r = l2.rustc(base + '.rs', base + '.bin')
        if r.returncode != 0:
            return dict(start=start, cases=cases, compile_error=r.stderr[-5000:], src=base + '.rs')
        o = subprocess.run([base + '.bin'], capture_output=True, text=True)
        try:
            os.remove(base + '.bin')
        except OSError:
            pass
        return dict(start=start, cases=cases, out=o.stdout.splitlines(), rc=o.returncode, err=o.stderr[-2000:], src=base + '.rs')

    def run(prop, tier, seed, violation, known, known_hit, notes):
        ok, log = l2.build_pm()
        if not ok:
            violation('pm-build', dict(what='the proc-macro does not build', log=log), no_input=True)
            return {}
        n = nq if tier == 'quick' else nt
        jobs = [(seed, s, min(per, n - s), prop) for s in range(0, n, per)]
        types = checks = fails = 0
        dist = {}
        nviol = 0
        with cf.ThreadPoolExecutor(vlib.NPROC) as ex:
            for res in ex.map(one, jobs):
                for c in res['cases']:
                    dist['shape=' + c['shape']] = dist.get('shape=' + c['shape'], 0) + 1
                    if c['raw']:
                        dist['raw-identifiers'] = dist.get('raw-identifiers', 0) + 1
                    for t in c['traits']:
                        dist['trait=' + t] = dist.get('trait=' + t, 0) + 1
                if 'compile_error' in res:
                    nviol += 1
                    if nviol <= 3:
                        violation(f'twin-compile-{genfn.__name__[4:]}-{res["start"]}', dict(
                            what='a type definition the standard derives accept does not compile with derive_ex (or the twin program is broken)',
                            program=res['src'], stderr=res['compile_error']))
                    continue
                types += len(res['cases'])
                if res['rc'] != 0:
                    nviol += 1
                    violation(f'twin-crash-{genfn.__name__[4:]}-{res["start"]}', dict(what='twin program crashed', program=res['src'], stderr=res['err']))
                for line in res['out']:
                    parts = line.split(' ')
                    if len(parts) >= 3 and parts[1] == 'ok':
                        checks += int(parts[2])
                    elif ' FAIL ' in line:
                        fails += 1
                        nviol += 1
                        if nviol <= 5:
                            mod = parts[0]
                            item = next((c['item'] for c in res['cases'] if c['mod'] == mod), '')
                            violation(f'twin-{genfn.__name__[4:]}-{mod}', dict(
                                what=what,
                                property=prop, observation=line, item=item, program=res['src']))
                if not fails and 'compile_error' not in res:
                    try:
                        os.remove(res['src'])
                    except OSError:
                        pass
        return {'l2_' + genfn.__name__.replace('gen_', ''): dict(types=types, comparisons=checks, differences=fails, distribution=dist, seed=seed)}
    return run


def extra_twins(nq, nt, per=120):
    """C12: the same definition once with #[derive_ex(..)], once with #[derive(..)]; behaviour compared in-program"""
    return extra_programs(l2gen.gen_c12_program, nq, nt, per,
                          what='derive_ex and the standard derive behave differently on the same definition and values')


def extra_verdicts(genfn, nq, nt):
    """accept / refuse verdicts of rustc against a reference rule: case['expect_ok'], or case['expect_error'] (must be refused
    with a message containing that text)"""
    def run(prop, tier, seed, violation, known, known_hit, notes):
        ok, log = l2.build_pm()
        if not ok:
            violation('pm-build', dict(what='the proc-macro does not build', log=log), no_input=True)
            return {}
        n = nq if tier == 'quick' else nt
        cases = [genfn(seed, i) for i in range(n)]
        res = l2.rustc_verdicts(prop + 'v', cases)
        dist = {}
        nbad = 0
        for c, rc, diags, path in res:
            for k, v in c.get('desc', {}).items():
                dist[f'{k}={v}'] = dist.get(f'{k}={v}', 0) + 1
            accepted = rc == 0
            # an error of derive_ex's own reaches rustc as `compile_error!`: a diagnostic without an error code.  The wording
            # is the implementation's business (no property prescribes it): the known text is looked for first, any
            # code-less error will do
            NOT_OWN = ('cannot find ', 'custom attribute panicked', 'proc-macro derive panicked', 'proc macro panicked',
                       'unexpected ', 'unresolved ', 'mismatched ', 'unknown ')
            own = lambda d: d['level'] == 'error' and d.get('code') is None and not d['message'].startswith(NOT_OWN)
            if 'expect_only_error' in c:
                errs = [d for d in diags if d['level'] == 'error']
                good = (not accepted) and errs and all(any(t in d['message'] for t in c['expect_only_error']) or own(d) for d in errs)
                want = 'refused with errors of derive_ex only (the item itself still there): ' + ' / '.join(c['expect_only_error'])
            elif 'expect_error' in c:
                good = (not accepted) and (any(c['expect_error'] in d['message'] for d in diags) or any(own(d) for d in diags))
                want = 'refused by derive_ex with: ' + c['expect_error']
            else:
                good = accepted == c['expect_ok'] and (accepted or any('Eq' in d['message'] for d in diags))
                want = 'accepted' if c['expect_ok'] else 'refused (a compared component is not Eq)'
            if good:
                try:
                    os.remove(path)
                except OSError:
                    pass
                continue
            nbad += 1
            if nbad <= 5:
                violation(f'verdict-{nbad}', dict(
                    what='rustc\'s verdict on this program differs from the reference rule of the property',
                    property=prop, case=c['id'], item=c.get('item'), expected=want, accepted=accepted,
                    diagnostics=diags[:4], program=path))
        return {'l2_' + genfn.__name__.replace('gen_', ''): dict(programs=len(res), wrong=nbad, distribution=dist, seed=seed,
                                     sample_programs=[c.get('item') for c in cases[:3]])}
    return run


def rustc_parses(d):
    """second opinion on an expansion syn cannot parse: does rustc's own parser accept it?"""
    import subprocess
    base = f'{vlib.WORK}/fuzz/second_opinion'
    with open(base + '.cases', 'w') as f:
        f.write(f"CASE x\nENTRY {d['entry']}\nARGS {d['args']}\nITEM {d['item']}\nEND\n")
    r = subprocess.run([vlib.XCHECK, 'raw', base + '.cases'], capture_output=True, text=True)
    text = r.stdout.strip()
    if not text or text.startswith('<'):
        return False
    open(base + '.rs', 'w').write(text + '\n')
    p = subprocess.run(['rustc', '+nightly', '-Zparse-crate-root-only', '--edition', '2021', '--crate-type', 'lib', base + '.rs'],
                       capture_output=True, text=True)
    return p.returncode == 0 and 'error' not in p.stderr


def extra_rustc_parse(nq, nt):
    """C16: syn is more lenient than rustc.  The expansions of generated cases (and of the external corpus) are handed to
    rustc's own parser, many at a time (one `mod` per case): everything the expander emits for an input that rustc parses
    must parse as items."""
    import subprocess

    def chunk(args):
        tag, cmd = args
        base = f'{vlib.WORK}/fuzz/parse_{tag}'
        cases = subprocess.run(cmd + f' > {base}.cases', shell=True, capture_output=True, text=True, env=vlib.ENV)
        r = subprocess.run([vlib.XCHECK, 'raw', base + '.cases'], capture_output=True, text=True, env=vlib.ENV)
        outs = r.stdout.splitlines()
        inputs = []
        cur = {}
        for line in open(base + '.cases'):
            if line.startswith('CASE '):
                cur = dict(id=line[5:].strip(), args='')
            elif line.startswith('ENTRY '):
                cur['entry'] = line[6:].strip()
            elif line.startswith('ARGS'):
                cur['args'] = line[4:].strip()
            elif line.startswith('ITEM '):
                cur['item'] = line[5:].strip()
            elif line.startswith('END'):
                inputs.append(cur)
        n = min(len(outs), len(inputs))

        def parses(text, path):
            open(path, 'w').write(text)
            p = subprocess.run(['rustc', '+nightly', '-Zparse-crate-root-only', '--edition', '2021', '--crate-type', 'lib', path],
                               capture_output=True, text=True, env=vlib.ENV)
            return p.returncode == 0 and 'error' not in p.stderr, p.stderr[-1500:]
        idx = [i for i in range(n) if outs[i] and not outs[i].startswith('<')]
        bad = []

        def search(ix):
            if not ix:
                return
            ok, err = parses('\n'.join(f'mod c{i} {{ {outs[i]} }}' for i in ix) + '\n', f'{base}.rs')
            if ok:
                return
            if len(ix) == 1:
                i = ix[0]
                # the input itself must be something rustc parses
                c = inputs[i]
                src = (f'#[derive_ex({c["args"]})] ' if c.get('entry') == 'attr' else '') + c.get('item', '')
                okin, _ = parses(src + '\n', f'{base}.in.rs')
                if okin:
                    bad.append(dict(case=c.get('id'), entry=c.get('entry'), args=c.get('args'), item=c.get('item'),
                                    expansion=outs[i][:3000], rustc=err))
                return
            h = len(ix) // 2
            search(ix[:h])
            if len(bad) < 3:
                search(ix[h:])
        search(idx)
        return len(idx), bad

    def run(prop, tier, seed, violation, known, known_hit, notes):
        import concurrent.futures as cf
        n = nq if tier == 'quick' else nt
        os.makedirs(f'{vlib.WORK}/fuzz', exist_ok=True)
        vlib.ext_corpus()
        per = max(50, n // 14)
        jobs = []
        for k, fam in enumerate(['wild', 'all', 'bounds', 'ops', 'impl', 'strip', 'basic', 'cmpN', 'wild', 'all', 'bounds', 'ops', 'impl', 'strip']):
            jobs.append((f'{fam}{k}', f'{vlib.DRV} gen {fam} {seed + 40 + k} {k * per} {per}'))
        jobs.append(('ext', f'({vlib.XCHECK} ser {vlib.WORK}/l1/corpus.tsv) 2>/dev/null | {vlib.DRV} ext'))
        jobs.append(('mut', f'({vlib.XCHECK} mutants {vlib.WORK}/l1/corpus.tsv {seed + 77} {max(2000, n)}) 2>/dev/null | {vlib.DRV} ext'))
        total = 0
        nbad = 0
        with cf.ThreadPoolExecutor(vlib.NPROC) as ex:
            for cnt, bad in ex.map(chunk, jobs):
                total += cnt
                for b in bad:
                    nbad += 1
                    if nbad <= 5:
                        violation(f'rustc-parse-{nbad}', dict(
                            what="the expansion of an input that rustc's parser accepts does not parse as Rust items (syn, which the token comparison uses, is more lenient than rustc)",
                            property=prop, **b))
        return {'rustc_parser': dict(expansions_parsed=total, rejected=nbad, seed=seed)}
    return run


def extra_fuzz(nq, nt):
    """C16 support: structure-aware mutation of every item of the test-suite / documentation plus generator output,
    through both entry points; panics, non-determinism and output that is not a sequence of items are violations"""
    import glob
    import subprocess

    def run(prop, tier, seed, violation, known, known_hit, notes):
        n = nq if tier == 'quick' else nt
        os.makedirs(f'{vlib.WORK}/fuzz', exist_ok=True)
        corpus = f'{vlib.WORK}/fuzz/corpus.txt'
        files = sorted(glob.glob(f'{vlib.REPO}/derive-ex-tests/tests/*.rs')) + [f'{vlib.REPO}/doc/derive_ex.md', f'{vlib.REPO}/README.md']
        r = subprocess.run([vlib.XCHECK, 'corpus'] + files, capture_output=True, text=True)
        lines = r.stdout.splitlines()
        # generator output as additional seeds
        for fam in ('wild', 'impl', 'strip'):
            g = subprocess.run([vlib.DRV, 'gen', fam, str(seed), '0', '150'], capture_output=True, text=True)
            args = ''
            for line in g.stdout.splitlines():
                if line.startswith('ARGS'):
                    args = line[4:].strip()
                elif line.startswith('ENTRY derive'):
                    args = None
                elif line.startswith('ITEM ') and args is not None:
                    lines.append(args + '\t' + line[5:])
        open(corpus, 'w').write('\n'.join(lines) + '\n')
        nproc = vlib.NPROC
        per = max(1, n // nproc)
        procs = []
        for i in range(nproc):
            out = f'{vlib.WORK}/fuzz/{prop}.{i}.jsonl'
            procs.append((out, subprocess.Popen([vlib.XCHECK, 'fuzz', corpus, str(seed * 1000 + i), str(per), out])))
        tot = dict(seeds=len(lines), tried=0, valid_inputs=0, expanded_ok=0, answered_with_error=0, problems=0, kinds={})
        nrep = 0
        for out, p in procs:
            p.wait()
            if p.returncode != 0:
                # the run is deterministic: repeat it leaving every input on disk before it is expanded; what is there
                # when the process dies again is the input that kills the expander
                i = int(out.rsplit('.', 2)[1])
                tr = out + '.trace'
                if os.path.exists(tr):
                    os.remove(tr)
                p2 = subprocess.run([vlib.XCHECK, 'fuzz', corpus, str(seed * 1000 + i), str(per), out],
                                    env=dict(os.environ, XCHECK_FUZZ_TRACE=tr), capture_output=True, text=True)
                killer = None
                if p2.returncode != 0 and os.path.exists(tr):
                    try:
                        killer = json.loads(open(tr).read())
                    except Exception:
                        killer = None
                if killer:
                    violation(f'fuzz-crash-{i}', dict(what='the expander kills its process on this input (stack overflow or abort)',
                                                      rc=p.returncode, stderr=p2.stderr[-400:], **killer))
                else:
                    violation('fuzz-crash', dict(what='the fuzzer process died (abort inside the expander?)', rc=p.returncode), no_input=True)
                continue
            for line in open(out):
                d = json.loads(line)
                if d.get('summary'):
                    for k in ('tried', 'valid_inputs', 'expanded_ok', 'answered_with_error', 'problems'):
                        tot[k] += d[k]
                    for k, v in d['kinds'].items():
                        tot['kinds'][k] = tot['kinds'].get(k, 0) + v
                else:
                    key = None
                    if d['kind'] == 'parse' and re.search(r'\.\s*\$|\$\s*\{|\$\s*!|\$\s*::|::\s*\$|\$\s*\$', d['item']):
                        key = 'key-expression-with-dollar-as-name'
                    if d['kind'] == 'parse' and re.search(r'let\s*\$|\$\s*@|\$\s*:', d['item']):
                        key = 'key-expression-with-dollar-as-name'
                    if d['kind'] == 'parse' and re.search(r'default\s*\(\s*(\{|if\b|match\b|unsafe\b|loop\b|while\b|for\b)', d['item']):
                        key = 'default-value-starting-with-a-block'
                    if d['kind'] == 'parse' and 'reserved for future use' in d['detail']:
                        key = 'where-clause-starting-with-angle-bracket'
                    if d['kind'] == 'parse' and re.search(r'\bdyn\b[^;{}]*\+\s*(\{|,|;|\)|>|where\b|=|\})', d['item'] + ' ; ' + d['args']):
                        key = 'trait-object-with-trailing-plus'
                    if key and key in known:
                        if not any(k.startswith(key) for k in known_hit):
                            known_hit.append(f'{key} {known[key]}')
                        continue
                    if d['kind'] == 'parse' and rustc_parses(d):
                        tot['syn_only_parse_failures'] = tot.get('syn_only_parse_failures', 0) + 1
                        continue
                    nrep += 1
                    if nrep <= 5:
                        violation(f'fuzz-{nrep}', dict(
                            what={'panic': 'the expander panicked', 'nondet': 'two expansions of the same input differ',
                                  'parse': 'the expansion is neither a sequence of well-formed items nor a compile_error!',
                                  'empty-message': 'compile_error! without a message'}.get(d['kind'], d['kind']),
                            property=prop, **d))
        return dict(fuzz=tot)
    return run


def extras(*fs):
    def run(prop, tier, seed, violation, known, known_hit, notes):
        out = {}
        for f in fs:
            out.update(f(prop, tier, seed, violation, known, known_hit, notes) or {})
        return out
    return run


def extra_meta(which, nq, nt):
    """metamorphic relations between real expansions (model-free verdict)"""
    def run(prop, tier, seed, violation, known, known_hit, notes):
        n = nq if tier == 'quick' else nt
        bad, compared = (meta.check_c15 if which == 'c15' else meta.check_c19)(seed, n)
        for i, b in enumerate(bad[:5]):
            violation(f'meta-{i}', dict(what='two expansions that the property requires to agree differ (real expander, both inputs given)',
                                        property=prop, **b))
        return dict(metamorphic=dict(base_items=n, compared=compared, violations=len(bad), seed=seed))
    return run


PROPS = {
    'C01': dict(
        theorems=[('DeriveExModel.Props.Tables', ['DX.isMatch_table_model', 'DX.isMatch_table_doc', 'DX.isMatch_table_complete']), ('DeriveExModel.Props.DocTables', ['DX.doc_attr_trait_table', 'DX.doc_attr_trait_complete', 'DX.doc_affects_table']), (CMP + 'C01', ['DX.eq_follows_doc', 'DX.partial_cmp_follows_doc', 'DX.cmp_follows_doc',
                                 'DX.body_independent_of_entry'])],
        l1=[('cmp1', 'all', 'all'), ('cmp1all', 20000, 'all'), ('cmpN', 4000, 200000), ('cmpWild', 1000, 50000), ('ext', 24000, 640000)],
        labels=r':(PartialEq|PartialOrd|Ord)$',
        extra=extras(extra_cmp_l2('cmpRun', ('eq', 'pcmp', 'cmp'), 1200, 24000), extra_programs(l2gen.gen_macro_value_program, 80, 1600, per=40, what='an item, a helper-attribute argument or an impl body that comes out of a macro_rules! macro changed its value: a fragment lost its grouping')),
        explanation='theorems: for every item, accepted attribute placement, environment and value pair the generated ==/partial_cmp/cmp equal the documented lexicographic rule; L1: the exhaustive 3136-combination single-field matrix x 4 shapes x 2 entry points (x 31 trait sets in the thorough tier) plus random multi-field items, compared token for token',
    ),
    'C02': dict(
        theorems=[(CMP + 'Witness', ['DX.lawSem_coherent', 'DX.lawEnv_coherent', 'DX.keyCompare_lawful']), (CMP + 'C02', ['DX.sel_isSome_eq_anyKeyBy', 'DX.skip_uniform', 'DX.rev_uniform',
                                 'DX.eq_iff_cmp_equal', 'DX.pcmp_eq_some_cmp', 'DX.eq_iff_pcmp_equal', 'DX.eq_imp_hash_eq',
                                 'DX.cmp_swap', 'DX.eq_refl_symm', 'DX.eq_trans_fields', 'DX.lexL_lawful', 'DX.cmp_fields_lawful',
                                 'DX.cmp_trans_fields', 'DX.variant_order_lawful']),
                  (CMP + 'C02Order', ['DX.sumCmp_lawful', 'DX.cmp_lawful', 'DX.cmp_le_trans', 'DX.eq_trans', 'DX.eq_trans_item']),
                  (CMP + 'C05', ['DX.trait_error_iff_misuse'])],
        l1=[('cmp1', 'all', 'all'), ('cmp1all', 20000, 'all'), ('cmpN', 2000, 100000), ('ext', 24000, 640000)],
        labels=r':(PartialEq|PartialOrd|Ord|Eq|Hash)$',
        extra=extras(extra_cmp_l2('lawRun', ('eq', 'pcmp', 'cmp', 'hash'), 1200, 24000, laws=True), extra_programs(l2gen.gen_macro_value_program, 80, 1600, per=40, what='an item, a helper-attribute argument or an impl body that comes out of a macro_rules! macro changed its value: a fragment lost its grouping')),
        explanation='theorems: for every item and every coherent environment (one key per field, lawful field impls) the accepted impls agree: == iff partial_cmp==Some(Equal) iff cmp==Equal, partial_cmp==Some(cmp), == implies equal hasher feeds, cmp flips under swap, == is an equivalence; refusal of everything else is C05.trait_error_iff_misuse. cmp is proved a total order on all values of the item (cmp_lawful: a lexicographic product of lawful comparisons is lawful on one variant, the order of variant positions is lawful, and tag-then-payload of lawful comparisons is lawful), == an equivalence on all values (eq_trans_item). L2: compiled programs with one consistent key, all pairs and triples of values, laws checked on the observed results without any model',
        level_text='Lean 4 theorems over the model (coherence of all accepted combinations, by case analysis over the attribute record and induction over field lists) + exhaustive L1 on the 3136-combination matrix + model-free law checks on compiled programs',
    ),
    'C03': dict(
        explanation='theorems: the where-clause every builder threads through its WhereClauseBuilder equals the documented walk; with no bound(..) anywhere it is the declared predicates plus exactly the used field types that mention a parameter (plan_default_exact, spelled out for every builder in Props/C03.lean: all fields for Clone / Copy / operators, shown or transparent fields for Debug, fields without explicit value of the default variant for Default, compared fields not using key / by for the comparison traits, none for Deref). L1 compares every where-clause token for token; the well-typed grammar of C20 has rustc confirm that the generated impls type-check.',
        theorems=[('DeriveExModel.Props.C03Dedup', ['DX.dedupTys_sound', 'DX.dedupTys_complete', 'DX.dedupTys_nodup', 'DX.dedupTys_id', 'DX.items_cover_types', 'DX.items_sound']), (CMP + 'C03', ['DX.plan_default_exact', 'DX.no_bound_without_use', 'DX.bound_for_every_use',
                                 'DX.clone_struct_default', 'DX.copy_struct_default', 'DX.clone_enum_default', 'DX.copy_enum_default',
                                 'DX.ops_default', 'DX.default_struct_default', 'DX.default_struct_value_default',
                                 'DX.default_enum_default', 'DX.debug_struct_default', 'DX.debug_enum_default',
                                 'DX.cmp_struct_default', 'DX.cmp_enum_default', 'DX.deref_default', 'DX.paramSet_expandSelf',
                                 'DX.mentions_nil', 'DX.nongeneric_no_default_bounds']),
                  (CMP + 'C04', ['DX.absent_contrib', 'DX.default_fields_exact', 'DX.clone_struct_default_where',
                                 'DX.clone_struct_where', 'DX.clone_enum_where', 'DX.copy_enum_where', 'DX.copy_struct_where',
                                 'DX.ops_where', 'DX.default_struct_where', 'DX.default_struct_where_value', 'DX.debug_struct_where', 'DX.selBounds_walk', 'DX.cmp_struct_where', 'DX.cmp_enum_where', ]),
                  (CMP + 'C04Enum', ['DX.debug_enum_where', 'DX.default_enum_where', 'DX.default_enum_where_value', 'DX.deref_where']),
                  ('DeriveExModel.Lemmas.Bounds', ['DX.FieldE.pushBoundsTo_contrib', 'DX.walk_true']),
                  (CMP + 'C13Ren', ['DX.mentions_paramSet_rename', 'DX.whereClause_rename'])],
        l1=[('bounds', 6000, 200000), ('all', 3000, 100000), ('ops', 2000, 50000), ('cmpN', 2000, 50000), ('ext', 24000, 640000)],
        labels=r'^e\d+:',
        kinds=('tokens', 'count', 'panic', 'nondet', 'parse'),
        l1_is_concrete=('tokens',),
        l1_concrete_if=proved_where,
        l1_concrete_text='the where-clause of this impl differs from the documented resolution of bound(..) / default bounds (the model, proved equal to Plan.whereClause for this trait and item kind)',
        extra=extras(extra_rustc(l2gen.gen_seq_case, 160, 4000), extra_rustc(l2gen.gen_dup_field_case, 120, 2400)),
        level_text='partial: Lean theorems that the where-clause threaded by every builder (Clone, Copy, operators, Default, Debug, Deref, the five comparison traits; structs and enums) is the declarative walk, and that with no bound(..) it consists of the declared predicates plus exactly the used field types mentioning a parameter; L1 compares every where-clause token for token; "applies to an instantiation exactly when" is rustc\'s trait solver: validated by the well-typed grammar of C20, not proved',
    ),
    'C04': dict(
        explanation="theorems: for every derivable trait on structs and enums the builder's flag-threading equals Plan.whereClause (reached levels contribute verbatim, continue iff absent or `..`, a stop is local, the declared where-clause is retained; comparison helpers most specific first; Default walks the default variant only). L1: the `bounds` family assigns every bound(..) shape to every level.",
        theorems=[('DeriveExModel.Props.DocTables', ['DX.doc_level_table', 'DX.doc_level_complete']), (CMP + 'C04Enum', ['DX.debug_enum_where', 'DX.default_enum_where', 'DX.default_enum_where_value', 'DX.debugExpr_where', 'DX.deref_where']),
                  (CMP + 'C04', ['DX.clone_struct_where', 'DX.clone_enum_where', 'DX.copy_enum_where', 'DX.copy_struct_where',
                                 'DX.ops_where', 'DX.default_struct_where', 'DX.default_struct_where_value', 'DX.debug_struct_where', 'DX.selBounds_walk', 'DX.cmp_struct_where', 'DX.cmp_enum_where', 
                                 'DX.declared_where_retained', 'DX.empty_bound_stops', 'DX.absent_level_skipped',
                                 'DX.dots_level_continues', 'DX.plain_level_stops', 'DX.stop_is_local']),
                  ('DeriveExModel.Lemmas.Bounds', ['DX.walk_true', 'DX.walk_append', 'DX.HAttrs.pushBoundsToRaw_walk',
                                                   'DX.Entry.pushBoundsToWith_walk', 'DX.CmpHs.pushBounds_walk',
                                                   'DX.FieldE.pushBoundsTo_contrib'])],
        l1=[('bounds', 8000, 300000), ('all', 3000, 100000), ('ext', 24000, 640000)],
        labels=r'^e\d+:',
        kinds=('tokens', 'count', 'panic', 'nondet', 'parse'),
        l1_is_concrete=('tokens',),
        l1_concrete_if=proved_where,
        l1_concrete_text='the where-clause of this impl differs from the documented resolution of bound(..) / default bounds (the model, proved equal to Plan.whereClause for this trait and item kind)',
        level_text='Lean theorems: the flag-threading of every builder equals the documented walk over chains of levels (reached levels contribute verbatim; continue iff absent or `..`; stops are local; declared where-clause retained), with the per-trait level tables proved for every derivable trait on structs and enums (Clone, Copy, operators, Default, Debug, Deref, comparison traits with the helper-attribute level most specific first); L1 compares every where-clause token for token on assignments of all bound(..) shapes to all levels',
    ),
    'C05': dict(
        theorems=[('DeriveExModel.Props.DocTables', ['DX.doc_arg_place_table', 'DX.doc_arg_place_complete']), ('DeriveExModel.Props.Tables', ['DX.isMatch_table_model', 'DX.isMatch_table_doc', 'DX.isMatch_table_complete']), ('DeriveExModel.Props.DocTables', ['DX.doc_attr_trait_table', 'DX.doc_attr_trait_complete', 'DX.doc_affects_table']), (CMP + 'C05', ['DX.field_error_iff_misuse', 'DX.trait_error_iff_misuse', 'DX.valid_use_accepted',
                                 'DX.misplaced_iff', 'DX.struct_entries_isolated'])],
        l1=[('cmp1', 'all', 'all'), ('cmp1all', 20000, 'all'), ('cmpWild', 4000, 100000), ('cmpN', 2000, 50000), ('ext', 24000, 640000)],
        labels=r':(PartialEq|PartialOrd|Ord|Eq|Hash)$|^err$',
        kinds=('class', 'count', 'panic', 'nondet', 'parse', 'errtrait'),
        l1_is_concrete=('class', 'errtrait'),
        l1_concrete_text='this attribute combination is accepted / rejected differently from the documented rule (docMisuse, proved equal to the model)',
        explanation='theorems: a trait is refused iff some field is misused for it (M1-M3), misplaced arguments are refused, entries are isolated; L1: accept/reject class of every segment over the exhaustive matrix',
    ),
    'C06': dict(
        explanation='theorems: the derived hash feeds exactly the documented effective inputs of the non-ignored fields in order (feed_follows_doc), equal inputs give equal feeds for every hasher, prefix-free codes make the feed injective. L1 exhaustive matrix; L2 `cmpRun` with a recording hasher; directed probe from an L1 disagreement.',
        theorems=[(CMP + 'C06', ['DX.feed_follows_doc', 'DX.equal_inputs_equal_feed', 'DX.feed_injective'])],
        l1=[('cmp1', 'all', 'all'), ('cmpN', 4000, 200000), ('ext', 24000, 640000)],
        labels=r':Hash$',
        extra=extras(extra_cmp_l2('cmpRun', ('hash', 'hslice'), 1200, 24000), extra_programs(l2gen.gen_macro_value_program, 80, 1600, per=40, what='an item, a helper-attribute argument or an impl body that comes out of a macro_rules! macro changed its value: a fragment lost its grouping')),
    ),
    'C17': dict(
        explanation="theorem: the hidden Eq assertion covers exactly the fields that take part in equality, or their key value; ignored and by-compared fields are exempt (eq_assert_exact). L1; L2: rustc's accept / refuse verdict against that rule, also with Hash derived and #[hash(ignore)].",
        theorems=[(CMP + 'C17', ['DX.eq_assert_exact', 'DX.eq_body_tokens', 'DX.eq_struct_tokens', 'DX.eq_enum_tokens', 'DX.eqChecker_shape', 'DX.op_of_ok'])],
        l1=[('cmp1', 'all', 'all'), ('cmpN', 4000, 200000), ('ext', 24000, 640000)],
        extra=extra_verdicts(l2gen.gen_c17_case, 480, 6000),
        labels=r':Eq(#1)?$',
    ),
}

PROPS.update({
    'C07': dict(
        explanation='theorems: clone is one Clone::clone per field in order into the same variant; clone_from is one clone_from per field for the same variant / struct and a clone of the source otherwise (clone_from_spec). L1; L2 `cloneRun`: expected values and call logs computed in Lean from Sem (Copy alongside, split lists, bound(..) on fields and variants, generic field types), plus call-recording programs and std twins.',
        theorems=[(CMP + 'Witness', ['DX.fromFields_indexDistinct', 'DX.fromVariants_indexDistinct', 'DX.clone_enum_trace_pipeline']), (CMP + 'C07', ['DX.clone_fieldwise', 'DX.clone_struct_fields', 'DX.clone_enum_fields',
                                 'DX.clone_from_same_variant', 'DX.clone_from_other_variant', 'DX.clone_from_spec'])],
        l1=[('basic', 4000, 150000), ('all', 3000, 100000), ('ext', 24000, 640000)],
        extra=extras(extra_cmp_l2('cloneRun', None, 480, 9600), extra_programs(l2gen.gen_c07_program, 320, 6400, per=40, what='clone / clone_from differ from the documented field-wise behaviour (value, calls made on the fields, or the source changed)'), extra_twins(360, 6000), extra_programs(l2gen.gen_macro_twin_program, 80, 1600, per=40, what='an item that comes out of a macro_rules! macro is derived differently by the attribute macro, by #[derive(Ex)] and by the standard derive')),
        labels=r':Clone$',
    ),
    'C08': dict(
        explanation='theorems: the eight reference forms are emitted in the documented order and each acts field-wise with the left operand on the left, one call per field (bin/assign/un_fieldwise, forms_agree). L1; L2 `opsRun` from Sem over a free monoid that records operator, operand order and reference form (generic fields, field-level bound(..)).',
        theorems=[(CMP + 'Witness', ['DX.fromFields_indexDistinct', 'DX.bin_fieldwise_pipeline']), ('DeriveExModel.Props.Tables', ['DX.trait_table_model', 'DX.trait_table_complete']), (CMP + 'C08', ['DX.forms_emitted', 'DX.ops_one_impl_per_form', 'DX.bin_fieldwise', 'DX.assign_fieldwise',
                                 'DX.un_fieldwise', 'DX.ops_fields', 'DX.forms_agree'])],
        l1=[('ops', 4000, 150000), ('all', 3000, 100000), ('ext', 24000, 640000)],
        extra=extras(extra_cmp_l2('opsRun', None, 480, 9600), extra_programs(l2gen.gen_c08_program, 480, 9600, per=60, what='an operator derived from the struct definition does not act field-wise (value, operand order, reference form, call count or a borrowed operand changed)'), extra_programs(l2gen.gen_macro_value_program, 80, 1600, per=40, what='an item, a helper-attribute argument or an impl body that comes out of a macro_rules! macro changed its value: a fragment lost its grouping')),
        labels=r':(Add|BitAnd|BitOr|BitXor|Div|Mul|Rem|Shl|Shr|Sub|Neg|Not)(Assign)?(#\d)?$',
    ),
    'C09': dict(
        explanation='theorems: which forms are emitted from a user impl, that each forwards to the base form with clones exactly where a reference must become a value, OpAssign from Op is `*self = &self op rhs`, Op from OpAssign is `{ a op= b; a }`, Output / generics / where-clause carry over with Self expanded. L1 `impl` family; L2 `fwdRun` (values and call logs from FwdImpl.call, composed through the generated forms) and logging user impls written with Self.',
        theorems=[('DeriveExModel.Props.Tables', ['DX.trait_table_model', 'DX.trait_table_complete']), (CMP + 'C09', ['DX.clone_exactly_when_needed', 'DX.binary_forwards_to_base', 'DX.assign_is_op',
                                 'DX.op_from_assign', 'DX.emitted_binary_forms', 'DX.emitted_forms', 'DX.carries_over']),
                  (CMP + 'C09Self', ['DX.expandSelf_id_of_no_self', 'DX.output_self_expanded', 'DX.output_has_no_self',
                                     'DX.output_verbatim', 'DX.rhs_self_expanded'])],
        l1=[('impl', 6000, 200000), ('ext', 24000, 640000)],
        extra=extras(extra_cmp_l2('fwdRun', None, 600, 12000), extra_programs(l2gen.gen_c09_program, 640, 12800, per=80, what='an operator impl derived from the user impl does not forward faithfully (value, operand order, number of calls or clones)'), extra_programs(l2gen.gen_macro_value_program, 80, 1600, per=40, what='an item, a helper-attribute argument or an impl body that comes out of a macro_rules! macro changed its value: a fragment lost its grouping')),
        labels=r'^impl|^err$',
    ),
    'C10': dict(
        explanation='theorems: without a transparent field the Formatter builder calls are those of the standard derive on the type with its ignored fields deleted; one transparent field delegates to it with the same formatter; two are rejected. L1; L2 `debugRun` (text computed in Lean from the trace under four format specs) and std twins under ten format specs.',
        theorems=[(CMP + 'C10', ['DX.debug_trace_is_std', 'DX.transparent_delegates', 'DX.two_transparent_rejected',
                                 'DX.debug_struct_trace'])],
        l1=[('basic', 4000, 150000), ('all', 3000, 100000), ('ext', 24000, 640000)],
        extra=extras(extra_cmp_l2('debugRun', None, 480, 9600), extra_programs(l2gen.gen_c10_program, 600, 12000, what='Debug output differs from the standard derive on the type with its ignored fields deleted / from the transparent field alone'), extra_verdicts(l2gen.gen_c10_reject_case, 32, 400), extra_twins(360, 6000)),
        labels=r':Debug$',
    ),
    'C11': dict(
        explanation="theorems: default() is the type-level value if given, else the struct / marked variant / only variant with every field at its documented value, Into exactly for string literals and paths; enums with no or several marked variants and a value on a variant's #[default(..)] are rejected. L1; L2 `defaultRun` (text from the structured value), expected Debug text, rejections.",
        theorems=[(CMP + 'C11', ['DX.defaultCtorArgs_vals', 'DX.into_iff_strlit_or_path', 'DX.default_struct_follows_doc',
                                 'DX.default_enum_rejections', 'DX.default_enum_follows_doc'])],
        l1=[('basic', 4000, 150000), ('all', 3000, 100000), ('ext', 24000, 640000)],
        extra=extras(extra_cmp_l2('defaultRun', None, 600, 12000), extra_programs(l2gen.gen_c11_program, 800, 16000, per=200, what='default() does not return the documented value'), extra_verdicts(l2gen.gen_c11_reject_case, 96, 1200), extra_twins(360, 6000), extra_programs(l2gen.gen_macro_value_program, 80, 1600, per=40, what='an item, a helper-attribute argument or an impl body that comes out of a macro_rules! macro changed its value: a fragment lost its grouping')),
        labels=r':Default$',
    ),
    'C12': dict(
        explanation="theorems: without helper attributes the documented rules proved for C01/C06/C07/C10/C11 are the standard derive's rules (plain_* corollaries). L2: the same definition under derive_ex and under the standard derives over a shape grammar (empty enums, unsized last field, raw identifiers, lifetimes, const parameters, defaults, where-clauses, associated-type field types), compared on all values.",
        theorems=[(CMP + 'C12', ['DX.plain_record', 'DX.plain_accepted', 'DX.plain_eq_is_std', 'DX.plain_cmp_is_std',
                                 'DX.plain_pcmp_is_std', 'DX.plain_hash_is_fieldwise', 'DX.plain_debug_is_std',
                                 'DX.plain_default_is_std', 'DX.plain_item_accepted', 'DX.plain_item_eq',
                                 'DX.plain_item_partial_cmp', 'DX.plain_item_cmp', 'DX.plain_item_hash']),
                  (CMP + 'C07', ['DX.clone_fieldwise', 'DX.clone_from_spec'])],
        l1=[('basic', 3000, 100000), ('cmpN', 2000, 50000), ('ext', 24000, 640000)],
        labels=r':(Clone|Debug|Default|PartialEq|Eq|PartialOrd|Ord|Hash)(#1)?$',
        kinds=('panic', 'nondet', 'parse', 'count', 'class'),
        extra=extras(extra_twins(1200, 24000), extra_rustc(l2gen.gen_lint_plain_case, 160, 3000), extra_rustc(l2gen.gen_dup_field_case, 120, 2400), extra_programs(l2gen.gen_macro_twin_program, 80, 1600, per=40, what='an item that comes out of a macro_rules! macro is derived differently by the attribute macro, by #[derive(Ex)] and by the standard derive')),
        level_text='Lean corollaries: for attribute-free items the documented rule proved in C01/C06/C07/C10/C11 is the standard derive\'s rule; L2: twin programs (same definition under derive_ex and under derive) over a shape grammar incl. empty enums, unsized tails, raw identifiers, lifetimes, const parameters, parameter defaults; all values / pairs, ten format specs, clone_from over all pairs; the compile-on-every-shape part is decided by rustc, not by a theorem',
    ),
    'C13': dict(
        explanation='theorems: for every item and argument list every token the expander writes literally is punctuation, a keyword, a literal or a `__`-reserved name; no template calls anything in method syntax or writes `Self::name` where `Self` may be an enum; every other generated identifier is a segment of an absolute ::core path, a member name or attribute content (attr_output_hygienic, derive_output_hygienic over provenance-carrying tokens). L1 ties every token to the implementation; L2: the well-typed grammar under a hostile-name dictionary in four scopes.',
        theorems=[(CMP + 'C13Hyg', ['DX.attr_output_hygienic', 'DX.derive_output_hygienic', 'DX.hyg_makeIdent', 'DX.absPath_strs', 'DX.kind_paths_rooted']), ('DeriveExModel.Props.C13Out', ['DX.fwd_no_generated_self_output', 'DX.opFunc_ne_output']), ('DeriveExModel.Props.QuoteIdents', ['DX.quote_table_free_ok', 'DX.quote_table_abs_roots_core', 'DX.quote_table_no_relative_paths', 'DX.quote_table_no_method_calls', 'DX.quote_table_self_paths', 'DX.quote_table_singles_ok', 'DX.quote_table_binder_prefixes', 'DX.quote_table_formats_known', 'DX.quote_table_nonempty']),  (CMP + 'C13Ren', ['DX.mentions_rename', 'DX.mentions_paramSet_rename', 'DX.paramSet_rename', 'DX.isSelf_rename', 'DX.expandSelf_rename', 'DX.mayBeUnsized_rename', 'DX.whereClause_rename']), (CMP + 'C20', ['DX.introduced_names_reserved', 'DX.makeIdent_shape', 'DX.helper_free_of_field_type',
                                 'DX.expandSelf_no_self']),
                  ('DeriveExModel.Props.Tables', ['DX.trait_table_model'])],
        l1=[('all', 3000, 60000), ('cmpN', 2000, 40000), ('impl', 1000, 20000), ('ext', 24000, 640000)],
        labels=r'^e\d+:|^impl',
        # the hygiene theorem speaks about every token of every template: any token disagreement breaks its tie to the code
        kinds=('panic', 'nondet', 'parse', 'tokens', 'tokens-body', 'count'),
        extra=extras(extra_rustc(l2gen.gen_c13_case, 900, 12000), extra_rustc(l2gen.gen_seq_case, 120, 3000), extra_rustc(l2gen.gen_macro_case, 120, 3000)),
        level_text='partial: rustc is the judge of name resolution. Proved (Lean, for every item and argument list): every token the expander writes literally is punctuation, a keyword, a literal or a `__`-reserved name; no template calls anything in method syntax or writes `Self::name` where `Self` may be an enum; all other generated identifiers are segments of absolute `::core::..` paths, member names or attribute contents (provenance-carrying tokens, attr_output_hygienic / derive_output_hygienic); per-field binders keep the reserved prefix; nested helper items never mention the field type. L1 ties every token to the implementation; L2 compiles a well-typed grammar under a hostile-name dictionary in four scopes (incl. a blanket trait offering every method name the generated code calls)',
        level_note='Trusted: rustc as the oracle; the generator of well-typed programs (bin/l2gen.py); the rule set is validated against rustc, not proved complete.',
    ),
    'C20': dict(
        explanation="theorems: the rule set the emitted templates obey (helper items free of the field type, Self-expanded generics in the free Eq-assertion function, parenthesised && operands, by-value empty match) and the hygiene theorem; the model accepts exactly the documented uses (C05). L2: a grammar of well-typed items compiled under #![deny(warnings)]; every rustc diagnostic located in derive_ex's output is a violation.",
        theorems=[(CMP + 'C13Hyg', ['DX.attr_output_hygienic', 'DX.derive_output_hygienic']), ('DeriveExModel.Props.QuoteIdents', ['DX.quote_table_free_ok', 'DX.quote_table_abs_roots_core', 'DX.quote_table_no_relative_paths', 'DX.quote_table_no_method_calls', 'DX.quote_table_self_paths', 'DX.quote_table_singles_ok', 'DX.quote_table_binder_prefixes', 'DX.quote_table_formats_known', 'DX.quote_table_nonempty']), (CMP + 'C20', ['DX.helper_free_of_field_type', 'DX.expandSelf_no_self', 'DX.cmp_generics_self_expanded',
                                 'DX.thisTy_no_self', 'DX.eq_conjuncts_parenthesised', 'DX.empty_match_by_value',
                                 'DX.introduced_names_reserved', 'DX.bad_key_refused']),
                  (CMP + 'C05', ['DX.trait_error_iff_misuse', 'DX.valid_use_accepted'])],
        l1=[('all', 3000, 60000), ('cmpN', 2000, 40000), ('impl', 1000, 20000), ('ext', 24000, 640000)],
        labels=r'^e\d+:|^impl',
        # the hygiene theorem speaks about every token of every template: any token disagreement breaks its tie to the code
        kinds=('panic', 'nondet', 'parse', 'tokens', 'tokens-body', 'count'),
        extra=extras(extra_rustc(l2gen.gen_c20_case, 900, 15000), extra_rustc(l2gen.gen_seq_case, 120, 3000), extra_rustc(l2gen.gen_macro_case, 120, 3000), extra_rustc(l2gen.gen_lint_case, 160, 3000), extra_rustc(l2gen.gen_dup_field_case, 120, 2400),
                     # misuse is answered by derive_ex with a message of its own — and by nothing else
                     extra_verdicts(l2gen.gen_c14_error_case, 60, 720)),
        level_text='partial: rustc is the judge. Proved (Lean): the rule set R1-R5 the emitted templates obey (reserved generic names; helper items free of the field type; Self-expanded generics in the free Eq-assertion function, and expand_self leaves no Self behind; parenthesised && operands; by-value scrutinee for arm-less matches) and that derive_ex answers exactly documented misuse with an error of its own (C05). Validated, not proved: completeness of the rule set - a dedicated grammar of well-typed inputs (every trait list x shapes incl. empty / single-variant enums x generics with bounds, defaults, where-clauses mentioning Self x by/key on first / middle / last and generic fields x both entry points) is compiled metadata-only under #![deny(warnings)]; any diagnostic is a violation',
        level_note='Trusted: rustc as the oracle; the generator of well-typed programs (bin/l2gen.py); the rule set is validated against rustc, not proved complete.',
    ),
    'C14': dict(
        explanation='theorems: the re-emitted item is the input minus exactly the attributes the documentation assigns to the derived traits, on success, on a per-trait error and when the argument list itself is rejected; impl items and unsupported items verbatim (reemit_*, foreign_kept, underived_helper_kept). L1 item segment on families rich in foreign and helper-like attributes; L2 through the real entry points.',
        theorems=[('DeriveExModel.Props.Tables', ['DX.isMatch_table_model', 'DX.isMatch_table_doc', 'DX.isMatch_table_complete']), ('DeriveExModel.Props.DocTables', ['DX.doc_attr_trait_table', 'DX.doc_attr_trait_complete', 'DX.doc_affects_table']), ('DeriveExModel.Props.AttrName', ['DX.kind_plain', 'DX.kind_spelling', 'DX.kind_raw', 'DX.kind_deriveEx_iff', 'DX.kind_helper_single', 'DX.kind_name']), (CMP + 'C14', ['DX.isMatch_extend', 'DX.reemit_exact_struct', 'DX.reemit_exact_enum',
                                 'DX.reemit_on_arg_error_struct', 'DX.reemit_on_arg_error_enum', 'DX.reemit_impl',
                                 'DX.reemit_other', 'DX.item_always_emitted', 'DX.foreign_kept', 'DX.strip_is_sublist',
                                 'DX.underived_helper_kept', 'DX.fromRoot_foreign', 'DX.fromAttrs_foreign'])],
        l1=[('strip', 5000, 200000), ('wild', 2000, 50000), ('impl', 1500, 30000), ('other', 500, 5000), ('cmp1all', 10000, 'all'), ('ext', 24000, 640000)],
        labels=r'^item$',
        l1_is_concrete=('tokens', 'class'),
        l1_concrete_text='the re-emitted item differs from the input minus the documented derive_ex-owned attributes (the model, proved equal to docStrip*)',
        extra=extras(extra_programs(l2gen.gen_c14_program, 120, 2400, what='foreign content of the annotated item did not survive the attribute macro'),
                     extra_verdicts(l2gen.gen_c14_error_case, 96, 1200),
                     extra_rustc(l2gen.gen_macro_case, 120, 3000),
                     extra_programs(l2gen.gen_macro_value_program, 80, 1600, per=40, what='an item, a helper-attribute argument or an impl body that comes out of a macro_rules! macro changed its value: a fragment lost its grouping')),
    ),
    'C15': dict(
        explanation='theorems: the impls are the same through either entry point, for merged and split lists, in list order (entry_equiv_*, split_equiv, order_preserved); an entry of the list yields the same impls under any two co-derived sets when the item carries no helper attribute that belongs only to the other traits (struct_any_coderived_set, enum_any_coderived_set). Metamorphic real-vs-real comparisons need no model: attribute macro vs #[derive(Ex)], merged vs split, one trait alone vs with the others.',
        theorems=[('DeriveExModel.Props.Tables', ['DX.isMatch_table_model', 'DX.isMatch_table_doc', 'DX.isMatch_table_complete']), ('DeriveExModel.Props.DocTables', ['DX.doc_attr_trait_table', 'DX.doc_attr_trait_complete', 'DX.doc_affects_table']), ('DeriveExModel.Props.AttrName', ['DX.kind_plain', 'DX.kind_spelling', 'DX.kind_raw', 'DX.kind_deriveEx_iff', 'DX.kind_helper_single', 'DX.kind_name']), (CMP + 'C15', ['DX.entry_equiv_struct', 'DX.entry_equiv_enum', 'DX.entry_equiv_segments_struct',
                                 'DX.entry_equiv_segments_enum', 'DX.split_equiv', 'DX.order_preserved', 'DX.fromAttrs_congr']),
                  (CMP + 'C15Co', ['DX.struct_any_coderived_set', 'DX.enum_any_coderived_set', 'DX.struct_entry_codrived_independent',
                                   'DX.enum_entry_codrived_independent', 'DX.structCore_entries', 'DX.agreeOn_of_noneOnlyForOthers'])],
        l1=[('all', 4000, 150000), ('cmp1all', 20000, 'all'), ('bounds', 2000, 50000), ('ext', 24000, 640000)],
        labels=r'^e\d+:|^err$',
        extra=extras(extra_meta('c15', 3000, 60000), extra_programs(l2gen.gen_macro_twin_program, 80, 1600, per=40, what='an item that comes out of a macro_rules! macro is derived differently by the attribute macro, by #[derive(Ex)] and by the standard derive')),
    ),
    'C16': dict(
        explanation="theorems: the model is a total function (accepted by Lean's termination checker) whose output is a list of items or error segments and is deterministic. Transfer to the implementation: catch_unwind around every expansion of every L1 case, each expanded twice; structure-aware mutation fuzzer over the test-suite / documentation corpus with rustc's parser as second opinion.",
        theorems=[('DeriveExModel.Props.Tables', ['DX.trait_table_model', 'DX.trait_table_complete']), (CMP + 'C16', ['DX.output_shape', 'DX.attr_output_nonempty', 'DX.derive_rejects_with_one_error',
                                 'DX.core_error_single', 'DX.deterministic', 'DX.struct_entry_nonempty', 'DX.enum_entry_nonempty',
                                 'DX.entry_answered', 'DX.cmp_render_nonempty', 'DX.ops_render_nonempty',
                                 'DX.attr_is_item_then_core_struct', 'DX.attr_is_item_then_core_enum']),
                  (CMP + 'C16Bal', ['DX.attr_output_balanced', 'DX.derive_output_balanced', 'DX.bal_iff', 'DX.scan_append',
                                    'DX.starts_genImpl', 'DX.starts_fwd', 'DX.entry_items_start_like_items'])],
        l1=[('wild', 5000, 200000), ('strip', 2000, 50000), ('impl', 2000, 50000), ('cmpWild', 2000, 50000), ('other', 500, 5000), ('ext', 24000, 640000)],
        labels=r'.',
        kinds=('panic', 'nondet', 'parse', 'roundtrip'),
        extra=extras(extra_fuzz(160000, 8000000), extra_rustc(l2gen.gen_seq_case, 160, 4000), extra_rustc_parse(6000, 120000)),
        level_text='partial: totality and determinism are proved of the Lean model (total functions, accepted by the termination checker) and transferred to the implementation only through the L1 runs (catch_unwind around every expansion, every case expanded twice and compared, output re-parsed as items) and the mutation fuzzer; a Lean model cannot exhibit a Rust panic on inputs outside its input language',
    ),
    'C18': dict(
        explanation="theorems: accepted exactly for single-field structs; the returned reference is to the place self.<field> and Target is the field's declared type (arity_rejected, deref_is_field_place). L1; L2: address and type identity, write-through, rejections, unsized targets.",
        theorems=[(CMP + 'C18', ['DX.arity_rejected', 'DX.deref_is_field_place', 'DX.deref_sig_free_of_field_type', 'DX.deref_returns_trait_target'])],
        l1=[('ops', 4000, 150000), ('ext', 24000, 640000)],
        extra=extras(extra_programs(l2gen.gen_c18_program, 240, 4800, what='Deref / DerefMut do not target the single field itself'), extra_verdicts(l2gen.gen_c18_reject_case, 96, 1000), extra_verdicts(l2gen.gen_c18_sibling_case, 32, 400), extra_programs(l2gen.gen_macro_value_program, 80, 1600, per=40, what='an item, a helper-attribute argument or an impl body that comes out of a macro_rules! macro changed its value: a fragment lost its grouping')),
        labels=r':Deref(Mut)?$',
    ),
    'C19': dict(
        explanation='theorems: the payload of a dumped entry is token for token the concatenation of what the entry would otherwise have generated; no builder, and not the set of stripped attributes, looks at a dump flag (dump_payload, build_ignores_dump_*, kinds_ignore_dump, dump_impl). Metamorphic: the same request with and without dump.',
        theorems=[(CMP + 'C19', ['DX.build_ignores_dump_struct', 'DX.build_ignores_dump_enum', 'DX.dump_payload',
                                 'DX.dump_of_error', 'DX.kinds_ignore_dump', 'DX.dump_impl', 'DX.fwd_ignores_dump'])],
        l1=[('dump', 5000, 150000), ('impl', 2000, 40000), ('ext', 24000, 640000)],
        labels=r'.',
        l1_is_concrete=('tokens', 'class'),
        extra=extra_meta('c19', 3000, 40000),
        l1_concrete_text='with `dump` the expansion is not (item, error carrying exactly the code that is generated without dump) as the model - proved to satisfy dump_payload - prescribes',
    ),
})


def search_failing_input(prop, mismatch, payload):
    """Given an L1 disagreement, look for a concrete input on which the property
    itself fails on the implementation.  Returns True if one was found (and adds it
    to the payload).

    Comparison family: a disagreement on a case of the exhaustive matrix (`cmp1/<idx>`, `cmp1all/<idx>`) is turned into
    a compiled program over the same attribute combination (field type `W`, all values): for C01 / C06 the observed
    matrices are compared with the model's semantics (= the documented rule, by the theorems), for C02 the coherence laws
    are checked on the observed results alone."""
    mode = {'C01': 'cmp', 'C06': 'cmp', 'C02': 'law'}.get(prop)
    cid = mismatch.get('id', '')
    fam = cid.split('/')[0]
    if not mode or fam not in ('cmp1', 'cmp1all'):
        return False
    import concurrent.futures as cf
    idx = int(cid.split('/')[-1])
    ok, _ = l2.build_pm()
    if not ok:
        return False
    # the same attribute combination, shape and entry point under every set of derived traits (the disagreement may
    # only become observable when fewer traits are derived), the case itself first
    combo, shape, ep = idx % 3136, (idx // 3136) % 4, (idx // (3136 * 4)) % 2
    cands = [(fam, idx)] + [('cmp1all', combo + 3136 * (shape + 4 * (ep + 2 * (mask - 1)))) for mask in range(31, 0, -1)]
    tried = []
    with cf.ThreadPoolExecutor(vlib.NPROC) as ex:
        for res in ex.map(lambda a: _probe(prop, mode, a[0], a[1]), cands):
            tried.append(res.get('result', 'witness'))
            if res.get('witness'):
                payload['what'] = res['what']
                payload['probe'] = res['witness']
                return True
    payload['probe'] = dict(result='no witness among %d probes (same combination under every set of derived traits)' % len(tried),
                            outcomes={k: tried.count(k) for k in set(tried)})
    return False


def _probe(prop, mode, fam, idx):
    import subprocess
    gen = subprocess.run([vlib.DRV, 'l2probe', mode, fam, str(idx)], capture_output=True, text=True)
    if gen.returncode != 0:
        return dict(result='driver failed')
    secs = l2._split_sections(gen.stdout)
    base = f'{vlib.WORK}/replays/{prop}-probe-{fam}-{idx}'
    open(base + '.rs', 'w').write('\n'.join(secs.get('PROGRAM', [])) + '\n')
    c = l2.rustc(base + '.rs', base + '.bin')
    if c.returncode != 0:
        os.remove(base + '.rs')
        return dict(result='does not compile')
    r = subprocess.run([base + '.bin'], capture_output=True, text=True)
    try:
        os.remove(base + '.bin')
    except OSError:
        pass
    obs = r.stdout.splitlines()
    exp = secs.get('EXPECT', [])
    src = next((l[4:] for l in secs.get('STATS', []) if l.startswith('SRC ')), '')
    if mode == 'law':
        rows = {}
        for line in obs:
            parts = line.split(' ', 2)
            if len(parts) >= 2:
                rows.setdefault('probe:' + parts[0], []).append((parts[1], parts[2] if len(parts) == 3 else ''))
        bad, _ = l2.law_violations(rows, {'probe:c0': src})
        if bad:
            return dict(what='the derived impls of an accepted combination disagree with one another (coherence law violated on compiled code)',
                        witness=dict(program=base + '.rs', source=src, law=bad[0]['law'], values=(bad[0]['i'], bad[0]['j'], bad[0]['k']),
                                     observed_rows=bad[0]['rows']))
        os.remove(base + '.rs')
        return dict(result='compiles; no law violation observed')
    want = {'C01': ('eq', 'pcmp', 'cmp'), 'C06': ('hash',)}[prop]
    ek, okd = {}, {}
    for l in exp:
        ek.setdefault((l.split(' ') + ['', ''])[1], []).append(l)
    for l in obs:
        okd.setdefault((l.split(' ') + ['', ''])[1], []).append(l)
    for k in want:
        if k in ek and k in okd and ek[k] != okd[k]:
            i = next(i for i in range(max(len(ek[k]), len(okd[k])))
                     if (ek[k][i:i + 1] or ['']) != (okd[k][i:i + 1] or ['']))
            return dict(what='compiled code behaves differently from the documented rule on this input',
                        witness=dict(program=base + '.rs', source=src, row=i, observed=(okd[k][i:i + 1] or ['<missing>'])[0],
                                     documented=(ek[k][i:i + 1] or ['<missing>'])[0]))
    os.remove(base + '.rs')
    return dict(result='compiles; behaves as documented')


def embed_programs(payload):
    """make a replay file self-contained: the text of every program it points to is stored next to the path"""
    def visit(d):
        if isinstance(d, dict):
            for k in list(d.keys()):
                v = d[k]
                if k in ('program', 'src') and isinstance(v, str) and v.endswith('.rs') and os.path.exists(v) \
                        and os.path.getsize(v) < 1500000:
                    d[k + '_text'] = open(v).read()
                else:
                    visit(v)
        elif isinstance(d, list):
            for x in d:
                visit(x)
    visit(payload)


def _find_program(d):
    """(text, dict that holds it) of the first embedded program of a replay payload"""
    if isinstance(d, dict):
        for k in ('program_text', 'src_text'):
            if k in d:
                return d[k], d
        for v in d.values():
            r = _find_program(v)
            if r:
                return r
    elif isinstance(d, list):
        for x in d:
            r = _find_program(x)
            if r:
                return r
    return None


def replay(prop, path):
    """re-runs the failing input of a replay file against the current tree: an L1 case by its id, a compiled program from
    its embedded text, a rustc verdict from its embedded program and expectation"""
    import subprocess
    d = json.load(open(path))
    if d.get('what') == 'proof obligation no longer checks' or 'row' in d and 'table' in d.get('what', ''):
        # theorem / table lemma: re-audit
        vlib.Build().harness()
        vlib.regenerate_tables()
        vlib.Build().lean()
        audit, _ = vlib.audit_theorems(prop, PROPS[prop]['theorems'])
        bad = [x for x in audit if not x['ok']]
        if bad:
            print(json.dumps(bad, indent=1)[:3000])
            print(f'VIOLATION property={prop} replay={path} no-failing-input-found')
            return 1
        print('replay: every theorem of the property checks')
        return 0
    prog = _find_program(d)
    if prog:
        text, holder = prog
        ok, log = l2.build_pm()
        if not ok:
            print(log[-2000:])
            print(f'VIOLATION property={prop} replay={path} no-failing-input-found')
            return 1
        base = f'{vlib.WORK}/replays/replay-{prop}'
        open(base + '.rs', 'w').write(text)
        verdict_like = 'diagnostics' in d or 'expected' in d and 'accepted' in d
        if verdict_like:
            rc, diags = l2._verdict((base + '.rs', text))
            accepted = rc == 0
            if 'accepted' in d and 'expected' in d:
                still = accepted == d['accepted']          # the verdict that was judged wrong is unchanged
            else:
                still = rc != 0 or bool(diags)
            print(json.dumps(dict(accepted=accepted, diagnostics=diags[:4]), indent=1)[:3000])
        else:
            c = l2.rustc(base + '.rs', base + '.bin')
            if c.returncode != 0:
                print(c.stderr[-3000:])
                still = True
            else:
                r = subprocess.run([base + '.bin'], capture_output=True, text=True)
                out = r.stdout.splitlines()
                want = d.get('expected') or (d.get('probe') or {}).get('documented')
                fails = [l for l in out if ' FAIL ' in l]
                if isinstance(want, str) and want and not want.startswith('<'):
                    still = want not in out
                elif d.get('law') or (d.get('probe') or {}).get('law'):
                    rows = {}
                    for line in out:
                        parts = line.split(' ', 2)
                        if len(parts) >= 2:
                            rows.setdefault('replay:' + parts[0], []).append((parts[1], parts[2] if len(parts) == 3 else ''))
                    bad, _ = l2.law_violations(rows, {})
                    still = bool(bad)
                    print(json.dumps(bad[:1], indent=1)[:2000])
                else:
                    still = bool(fails) or r.returncode != 0
                    print('\n'.join(fails[:5]))
        if still:
            print(f'VIOLATION property={prop} replay={path}')
            return 1
        print('replay: the program no longer shows the failure')
        return 0
    cid = d.get('case')
    if not cid and d.get('item') and d.get('entry'):
        # an input found by the mutation fuzzer (or one that kills the process): through the real entry point again
        vlib.Build().harness()
        base = f'{vlib.WORK}/replays/replay-{prop}-input'
        item = d['item']
        if d['entry'] == 'derive':
            text = f"CASE replay/0/0\nENTRY derive\nITEM {item}\nEND\n"
        else:
            text = f"CASE replay/0/0\nENTRY attr\nARGS {d.get('args', '')}\nITEM {item}\nEND\n"
        open(base + '.txt', 'w').write(text)
        r = subprocess.run([vlib.XCHECK, 'l1', base + '.txt', base + '.jsonl'], capture_output=True, text=True, env=vlib.ENV)
        bad = []
        if r.returncode != 0:
            bad = [dict(kind='panic', real=f'the process died (status {r.returncode}) {r.stderr[-300:]}')]
        else:
            for line in open(base + '.jsonl'):
                if line.strip():
                    m = json.loads(line)
                    if not m.get('summary'):
                        bad += [x for x in m['mismatches'] if x['kind'] in ('panic', 'nondet', 'parse', 'parse-syn')]
        if bad:
            print(json.dumps(bad, indent=1)[:3000])
            print(f'VIOLATION property={prop} replay={path}')
            return 1
        print('replay: the expander answers this input with well-formed items or an error of its own')
        return 0
    if not cid or cid.split('/')[0] in ('c13', 'c20', 'c17', 'c14e', 'c11r', 'c18r'):
        print(json.dumps(d, indent=1)[:4000])
        print('replay: this record carries no executable input; re-run the check itself')
        return 1
    fam, *rest = cid.split('/')
    if fam in ('ext', 'mut'):
        # an input from outside the model's generators: serialise it again, run model and implementation on it
        b = vlib.Build()
        b.harness()
        vlib.regenerate_tables()
        b.lean()
        res = vlib.run_ext_single(prop + '-replay', d.get('entry', 'attr'), d.get('args', ''), d.get('item', ''))
        bad = [x for x in (res or []) if re.search(PROPS[prop]['labels'], x.get('label', '')) or x.get('label') == '*']
        if bad:
            print(json.dumps(bad, indent=1)[:6000])
            print(f'VIOLATION property={prop} replay={path}')
            return 1
        print('replay: no disagreement on this input any more' if res is not None else 'replay: the input is outside the model\'s fragment')
        return 0
    seed, idx = (rest[-2], rest[-1]) if len(rest) >= 2 else ('0', rest[0])
    b = vlib.Build()
    b.harness()
    vlib.regenerate_tables()
    b.lean()
    od = (d.get('order_dependent') or {}).get('chunk')
    if od:
        # the failing input is a *sequence*: the chunk of cases in whose course the disagreement appeared, in one process
        out = f'{vlib.WORK}/l1/{prop}-replay.seq.jsonl'
        vlib._l1_chunk((od['family'], od['seed'], od['start'], od['count'], out))
        hit = []
        if os.path.exists(out):
            for line in open(out):
                line = line.strip()
                if line:
                    x = json.loads(line)
                    if not x.get('summary') and x.get('id') == cid:
                        hit.append(x)
            os.remove(out)
        alone = vlib.alone_l1(prop + '-replay', dict(id=cid))
        if hit and alone == []:
            print(json.dumps(hit, indent=1)[:4000])
            print('replay: in the sequence the case disagrees; alone, in a fresh process, it does not')
            print(f'VIOLATION property={prop} replay={path}')
            return 1
        if hit:
            print(json.dumps(hit, indent=1)[:4000])
            print(f'VIOLATION property={prop} replay={path}')
            return 1
        print('replay: no disagreement on this case in its sequence any more')
        return 0
    res = vlib.run_l1(prop + '-replay', fam, int(seed), 1, start=int(idx))
    bad = [m for m in res['mismatches'] if vlib.relevant(m, PROPS[prop]['labels'])]
    sh = (d.get('shrunk') or {}).get('case')
    if sh and '@' in sh:
        # the minimal case as well (identified by its path of reductions)
        r2 = vlib.run_l1_shrink_step(prop + '-replay', fam, seed, idx, sh.split('@')[1], with_candidates=False) or {}
        bad += [m for m in r2.values() if vlib.relevant(m, PROPS[prop]['labels'])]
    if bad:
        print(json.dumps(bad, indent=1)[:6000])
        print(f'VIOLATION property={prop} replay={path}')
        return 1
    print('replay: no disagreement on this case any more')
    return 0

HOOK_COMMITS = ['d134f0d']
NOT_YET = {}
