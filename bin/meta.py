"""Metamorphic relations between *real* expansions (no model involved in the verdict):
C15 (entry points / split lists / co-derived sets) and C19 (dump payload = undumped code)."""
import concurrent.futures as cf
import os
import re
import subprocess
from vlib import WORK, DRV, XCHECK, ENV, NPROC


def _parse_cases(text):
    """model side: id -> dict(entry,args,item,labels[list])"""
    cases = {}
    cur = None
    for line in text.splitlines():
        if line.startswith('CASE '):
            cur = dict(id=line[5:], labels=[], entry='', args='', item='')
            cases[cur['id']] = cur
        elif cur is None:
            continue
        elif line.startswith('ENTRY '):
            cur['entry'] = line[6:]
        elif line.startswith('ARGS'):
            cur['args'] = line[4:].strip()
        elif line.startswith('ITEM '):
            cur['item'] = line[5:]
        elif line.startswith('SEG '):
            cur['labels'].append(line.split(' ')[1])
    return cases


def _parse_real(text):
    """real side: id -> list of (kind, payload) or None if the expansion failed"""
    out = {}
    cur = None
    pending = None
    for line in text.splitlines():
        if pending is not None:
            out[cur].append((pending, line.strip()))
            pending = None
            continue
        if line.startswith('CASE '):
            cur = line[5:]
            out[cur] = []
        elif line.startswith('SEG '):
            parts = line.split(' ', 3)
            if parts[2] in ('T', 'DUMP'):
                pending = parts[2]
            else:
                out[cur].append(('ERR', ''))
        elif line.startswith('FAIL '):
            out[cur] = None
    return out


def _chunk(args):
    fam, seed, start, count = args
    gen = subprocess.run([DRV, 'gen', fam, str(seed), str(start), str(count)], capture_output=True, text=True, env=ENV)
    real = subprocess.run([XCHECK, 'expand', '-'], input=gen.stdout, capture_output=True, text=True, env=ENV)
    return _parse_cases(gen.stdout), _parse_real(real.stdout)


def _run(fam, seed, total):
    n = max(1, min(NPROC, total // 100 or 1))
    per = (total + n - 1) // n
    jobs = [(fam, seed, i * per, min(per, total - i * per)) for i in range(n) if total - i * per > 0]
    cases, real = {}, {}
    with cf.ThreadPoolExecutor(NPROC) as ex:
        for c, r in ex.map(_chunk, jobs):
            cases.update(c)
            real.update(r)
    return cases, real


def _by_entry(labels, segs):
    """group real segments by derive entry index using the model's labels (positional)."""
    groups = {}
    item = None
    for lab, seg in zip(labels, segs):
        if lab == 'item':
            item = seg
            continue
        m = re.match(r'e(\d+):', lab)
        key = int(m.group(1)) if m else lab
        groups.setdefault(key, []).append(seg)
    return item, groups


def check_c15(seed, total):
    cases, real = _run('meta15', seed, total)
    groups = {}
    for cid in cases:
        base, var = cid.rsplit('/', 1)
        groups.setdefault(base, {})[var] = cid
    bad = []
    compared = dict(groups=0, derive=0, split=0, solo=0, skipped=0)
    for base, vs in groups.items():
        a = vs.get('attr')
        if not a or real.get(a) is None:
            compared['skipped'] += 1
            continue
        ra = real[a]
        la = cases[a]['labels']
        if len(ra) != len(la) or 'err' in la:
            # a request that is rejected as a whole (unsupported trait, unparsable attribute) generates no
            # impls at all: there is nothing to compare
            compared['skipped'] += 1
            continue
        compared['groups'] += 1
        impls_a = [s for lab, s in zip(la, ra) if lab != 'item']
        _, by_entry_a = _by_entry(la, ra)
        for var, cid in vs.items():
            if var == 'attr' or real.get(cid) is None:
                continue
            r = real[cid]
            lab = cases[cid]['labels']
            if 'err' in lab:
                continue
            # the impls of the variant: everything but the re-emitted item (first segment of the attribute entry point);
            # the model's labels are not needed for that, so a variant that generates fewer impls than expected is compared too
            impls = r[1:] if cases[cid]['entry'] == 'attr' else list(r)
            if var == 'derive' or var.startswith('split') or var.startswith('dsplit'):
                compared['derive' if var == 'derive' else 'split'] += 1
                if impls != impls_a:
                    bad.append(dict(relation='same impls via ' + ('#[derive(Ex)]' if var == 'derive' else 'a split list'),
                                    a=cases[a], b=cases[cid], first_difference=_first_diff(impls_a, impls)))
            elif var.startswith('solo'):
                j = int(var[4:])
                compared['solo'] += 1
                if by_entry_a.get(j) != impls:
                    bad.append(dict(relation=f'impl of trait #{j} independent of the co-derived traits',
                                    a=cases[a], b=cases[cid], first_difference=_first_diff(by_entry_a.get(j, []), impls)))
    return bad, compared


def _first_diff(xs, ys):
    for i, (x, y) in enumerate(zip(xs, ys)):
        if x != y:
            xt, yt = x[1].split(' '), y[1].split(' ')
            k = 0
            while k < len(xt) and k < len(yt) and xt[k] == yt[k]:
                k += 1
            return dict(segment=i, kind_a=x[0], kind_b=y[0], at_token=k, a=' '.join(xt[max(0, k - 6):k + 8]), b=' '.join(yt[max(0, k - 6):k + 8]))
    return dict(count_a=len(xs), count_b=len(ys))


def check_c19(seed, total):
    cases, real = _run('metaDump', seed, total)
    bad = []
    compared = dict(groups=0, dumped_entries=0, undumped_entries=0, items=0, skipped=0)
    for cid in cases:
        if not cid.endswith('/dump'):
            continue
        pid = cid[:-5] + '/plain'
        rd, rp = real.get(cid), real.get(pid)
        if rd is None or rp is None or pid not in cases:
            compared['skipped'] += 1
            continue
        ld, lp = cases[cid]['labels'], cases[pid]['labels']
        # model-free: a request that is refused as a whole without `dump` (nothing but the item and one error) generates
        # no code, so there is nothing `dump` could show — the expansion with `dump` has the same shape
        kp, kd = [k for k, _ in rp], [k for k, _ in rd]
        if kp == (['T', 'ERR'] if cases[pid].get('entry') == 'attr' else ['ERR']) and kd != kp:
            compared['groups'] += 1
            bad.append(dict(relation='a request that is refused as a whole has nothing to dump: with `dump` the expansion is still the item and that one error',
                            a=cases[cid], b=cases[pid], shape_with_dump=kd, shape_without=kp))
            continue
        if len(rd) != len(ld) or len(rp) != len(lp):
            compared['skipped'] += 1
            continue
        compared['groups'] += 1
        item_d, gd = _by_entry(ld, rd)
        item_p, gp = _by_entry(lp, rp)
        if item_d is not None or item_p is not None:
            compared['items'] += 1
            if item_d != item_p:
                bad.append(dict(relation='dump leaves the re-emitted item untouched', a=cases[cid], b=cases[pid],
                                first_difference=_first_diff([item_d], [item_p])))
        for key, segs in gd.items():
            plain = gp.get(key, [])
            if len(segs) == 1 and segs[0][0] == 'DUMP':
                compared['dumped_entries'] += 1
                if any(k != 'T' for k, _ in plain):
                    # the undumped entry is itself an error: nothing to dump
                    bad.append(dict(relation='dump of an entry that does not generate code', a=cases[cid], b=cases[pid]))
                    continue
                want = ' '.join(t for _, t in plain if t)
                if segs[0][1] != want:
                    bad.append(dict(relation='dump payload = the code generated without dump (token for token)',
                                    a=cases[cid], b=cases[pid], entry=key,
                                    first_difference=_first_diff([('T', want)], [('T', segs[0][1])])))
            else:
                compared['undumped_entries'] += 1
                if segs != plain:
                    bad.append(dict(relation='entries without dump are unaffected by dump elsewhere', a=cases[cid], b=cases[pid],
                                    entry=key, first_difference=_first_diff(plain, segs)))
    return bad, compared
